#!/usr/bin/env python3
"""fill summary / needs_to_manifest / origin in seeded/*/meta.json from note.txt; print the markdown table for DESIGN.md"""
import json, re, glob, os
V = os.path.dirname(os.path.dirname(os.path.abspath(__file__)))
rows = []
for d in sorted(glob.glob(os.path.join(V, "seeded", "*"))):
    name = os.path.basename(d)
    mp, npth = os.path.join(d, "meta.json"), os.path.join(d, "note.txt")
    meta = json.load(open(mp)) if os.path.exists(mp) else {}
    note = open(npth).read() if os.path.exists(npth) else ""
    flat = " ".join(note.split())
    m = re.search(r"mutation \d+\s*[-—:(]*\s*(.*?)(?:Clause broken|Needs to manifest|$)", flat)
    summary = (m.group(1) if m else flat[:300]).strip(" -—:")
    n = re.search(r"Needs to manifest:?\s*(.*?)(?:Commands|Demonstration|Demo:|Tests:|`python|$)", flat)
    needs = (n.group(1) if n else "").strip()
    meta.setdefault("property", name.split("_")[0])
    if not meta.get("summary"):
        meta["summary"] = summary[:400]
    if not meta.get("needs_to_manifest"):
        meta["needs_to_manifest"] = needs[:400]
    if not meta.get("origin"):
        meta["origin"] = "fresh sub-agent given only the property text and a scratch worktree of /repo under /tmp; confirmed in a scratch worktree by tools/seeded.py"
    json.dump(meta, open(mp, "w"), indent=1)
    rows.append((name, meta["summary"], meta["needs_to_manifest"], ", ".join(meta.get("detected_by", [])) or "—"))
print("| mutation | change | needs, to manifest | caught by (quick) |")
print("|---|---|---|---|")
for r in rows:
    print("| " + " | ".join(x.replace("|", "/")[:260] for x in r) + " |")
