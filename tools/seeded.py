#!/usr/bin/env python3
"""tools/seeded.py <seeded-dir-name> [--no-confirm] — confirm a seeded change and run the checks against it.

  1. scratch worktree of /repo HEAD under /tmp: demo must exit 0; apply patch; demo must exit != 0;
     baseline test-suite must still pass the 56 stable tests (unless --no-confirm)
  2. apply to /repo, run ./check <property> quick (and any extra checks listed in meta.json 'also'), undo
  3. write/refresh meta.json
"""
import json, os, subprocess, sys, shutil, time
V = os.path.dirname(os.path.dirname(os.path.abspath(__file__)))
name = sys.argv[1]
d = os.path.join(V, "seeded", name)
prop = name.split("_")[0]
meta_p = os.path.join(d, "meta.json")
meta = json.load(open(meta_p)) if os.path.exists(meta_p) else {}
meta.setdefault("property", prop)
patch = os.path.join(d, "patch.diff")
demo = os.path.join(d, "demo.py")
py = "/venv/bin/python"

def sh(cmd, **kw):
    return subprocess.run(cmd, shell=True, capture_output=True, text=True, **kw)

if "--no-confirm" not in sys.argv:
    wt = f"/tmp/wt_confirm_{name}"
    sh(f"git -C /repo worktree remove --force {wt}")
    r = sh(f"git -C /repo worktree add -q --detach {wt} HEAD"); assert r.returncode == 0, r.stderr
    try:
        if os.path.exists("/repo/Solverz/_version.py"):
            shutil.copy("/repo/Solverz/_version.py", wt + "/Solverz/_version.py")
        env = dict(os.environ, SOLVERZ_ROOT=wt, PYTHONPATH=wt)
        r0 = sh(f"{py} {demo}", cwd=wt, env=env)
        a = sh(f"git apply {patch}", cwd=wt)
        r1 = sh(f"{py} {demo}", cwd=wt, env=env)
        t = sh(f"{py} -m pytest -q -p no:cacheprovider --timeout=900 --continue-on-collection-errors 2>&1 | tail -3", cwd=wt, env=env)
        meta["confirmed"] = dict(demo_clean_exit=r0.returncode, patch_applies=a.returncode == 0, demo_mutated_exit=r1.returncode,
                                 demo_mutated_tail=(r1.stdout + r1.stderr).strip().splitlines()[-1:] , tests_tail=t.stdout.strip().splitlines()[-1:],
                                 head=sh("git -C /repo rev-parse --short HEAD").stdout.strip())
        print("confirm:", meta["confirmed"])
    finally:
        sh(f"git -C /repo worktree remove --force {wt}")

if "--confirm-only" in sys.argv:
    json.dump(meta, open(meta_p, "w"), indent=1)
    sys.exit(0)
checks = [prop] + meta.get("also", [])
st = sh("git -C /repo status --porcelain --untracked-files=no").stdout.strip()
assert st == "", "/repo has uncommitted tracked changes: " + st
r = sh(f"git -C /repo apply {patch}"); assert r.returncode == 0, r.stderr
res = {}
try:
    for c in checks:
        t0 = time.time()
        r = sh(f"./check {c} quick", cwd=V)
        lines = [l for l in r.stdout.splitlines() if l.startswith(("VIOLATION", "KNOWN", "OK", "INTERNAL"))]
        res[c] = dict(exit=r.returncode, lines=lines[:6], wall=round(time.time() - t0, 1))
        print(c, res[c])
        for l in lines:
            if l.startswith("VIOLATION"):
                rp = l.split("replay=")[1].split()[0]
                try:
                    res[c]["what"] = json.load(open(rp))["what"][:300]
                except Exception:
                    pass
                break
finally:
    sh("git -C /repo checkout -- .")
meta["checks_run"] = res
meta["detected_by"] = [c for c, v in res.items() if v["exit"] == 1]
json.dump(meta, open(meta_p, "w"), indent=1)
print("detected_by:", meta["detected_by"])
