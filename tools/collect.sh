#!/bin/bash
# usage: tools/collect.sh <Cxx> <first new index>   — copy a sub-agent's two mutations from /tmp/wt_<Cxx>/_mutations into seeded/, remove the worktree
set -e
cd "$(dirname "$0")/.."
p=$1; base=${2:-3}
for k in 1 2; do
  src=/tmp/wt_$p/_mutations
  [ -f $src/m$k.diff ] || { echo "no m$k.diff"; continue; }
  d=seeded/${p}_m$((base + k - 1))
  mkdir -p $d
  cp $src/m$k.diff $d/patch.diff; cp $src/m${k}_demo.py $d/demo.py; cp $src/m${k}_note.txt $d/note.txt
  echo "collected $d"
done
git -C /repo worktree remove --force /tmp/wt_$p && echo "worktree removed"
