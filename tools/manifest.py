#!/usr/bin/env python3
"""Regenerates MANIFEST.json from the table below (single source of truth)."""
import json, os, subprocess
V = os.path.dirname(os.path.dirname(os.path.abspath(__file__)))
NOTE = "trusted: Lean 4.33 kernel + propext/Classical.choice/Quot.sound (audited each run); the Python correspondence harness and generators; numpy/scipy/sympy semantics are modelled, not verified; theorems are over the model (exact arithmetic), floats are compared bit-for-bit in the correspondence runs"
CHECKS = {
 "C16": ("Lean theorems about a heap model of Address/Vars/TimeVars (layout, get/set exactness, arithmetic freshness, solver-result columns, invariant over all operation sequences); the model is tied to the code on every run by an exact differential run of seeded op sequences plus an independent property oracle on the real objects",
         "Lean 4 proof (invariant by induction over operation lists) + model/implementation correspondence via line protocol", "§3 C16"),
 "C04": ("Lean theorems that the assembled mass-matrix triplets have exactly one 1 per ODE element at the differentiated element's column and none in algebraic rows, for every declaration; tied to DAE.M (symbolic, inline, rendered) by exact comparison of triplets on random declarations",
         "Lean 4 proof (induction over the equation list) + exact triplet correspondence", "§3 C04"),
 "C07": ("the Rodas tables are re-read from the running Rodas_param on every run and Lean re-proves, by kernel evaluation over exact rationals, the order conditions of every rooted tree (complete enumeration, proved complete) up to the declared order for b, order-1 for the embedded weights, the dense-output conditions coefficient-wise in tau, stiff accuracy and the row-sum consistency of a and g; the stage loop and dense formula of Rodas are tied to the Lean stage loop by differential runs; h-ladders on ODE and index-1 DAE problems search for order loss",
         "Lean 4 proof by kernel evaluation (decide +kernel) on tables translated from source + stage-loop correspondence + h-ladder search", "§3 C07"),
 "C06": ("Lean theorems that each algebraic solver's success flag equals (residual at the returned point < tol) for every residual function incl. NaN (loop invariant for Newton / continuous Newton; final fresh evaluation for lm / sicnm); the Newton controller is tied to nr_method by exact scripted-oracle runs (residuals on/around the tolerance, NaN, inf), all four solvers by an independent flag oracle on constructed families; basin convergence is sampled only",
         "Lean 4 proof (loop invariant by induction on iterations) + scripted-oracle correspondence + flag oracle on constructed families", "§3 C06"),
 "C12": ("Lean theorems over exact rationals for the grid loop of backward_euler / implicit_trapezoid (grid values t0+k*h, first exit index, step count <= floor((tend-t0)/h)+1 so the buffer never overflows, exact arrival at tend for integral ratios, overshoot < one step otherwise); the Float behaviour of all three integrators (incl. fdae_solver's shortened last step) is tied by bit-exact grid comparison on (t0,tend,h) triples; step equations are evaluated on returned rows by an oracle. fdae grid and step equations: correspondence/oracle only (partial)",
         "Lean 4 proof (induction over loop iterations, Mathlib linarith over Q) + bit-exact Float grid correspondence + step-equation oracle", "§3 C12"),
 "C11": ("Lean theorems about the DaeIc controller for arbitrary residual / linear-solve oracles: only algebraic positions are ever written (states bit-identical), and every returned point has algebraic residual <= 1e-6 (exits A, C) or <= 1e-5*rtol (exit B), anything else raises; tied to the real DaeIc by bit-exact Float runs on a quadratic-constraint family where Lean evaluates the oracles itself; the four DAE solvers' first rows are checked by an oracle on index-1 families with interleaved variable and equation order",
         "Lean 4 proof (induction over Newton iterations and probes) + bit-exact controller correspondence + first-row oracle", "§3 C11"),
 "C14": ("Lean frame theorem (a call that leaves the shared state unchanged gives fresh results in every history) instantiated on effect summaries that a translator re-derives from the solver sources on every run (attribute stores on Opt, stores through parameter aliases, module-level state, memoisation), decided empty by the kernel; backed by random call histories on shared Opt/model/y0 objects compared bit-for-bit with fresh-object calls",
         "Lean 4 proof (induction over call histories) over translator-generated effect summaries + history differential runs", "§3 C14"),
 "C13": ("the code /repo generates now (inline sparse/dense, rendered module; F, J, Hvp) for a model zoo is translated to a small IR; Lean proves a purity analysis sound for a heap semantics (arguments never written, result freshly allocated, on every initial heap) and decides that every generated program passes; random call histories on the real objects retain arguments and results and check bit-identity, unchanged retained results and history independence",
         "Lean 4 proof (soundness of a static analysis by induction over statements) on translator-generated IR + retained-object call histories", "§3 C13"),
 "C03": ("Lean theorems on facts translated from the module generator as it is now: the rendered dependency.py addresses the pickle exactly where it was saved on POSIX and Windows, from abspath(__file__) (cwd-independent); all four files are written unconditionally and a re-render overwrites each. Backend agreement and reload are tied by rendering every zoo model, importing it in a fresh interpreter from another directory, comparing F/J/HVP/M/p/y/nstep with the in-process sparse and dense models, and repeating after two kinds of re-render. Import machinery / dill / numba cache: runtime, partial",
         "Lean 4 proof over translator-extracted path/IO facts + fresh-interpreter differential runs over render/import/re-render histories", "§3 C03"),
 "C08": ("PARTIAL. Lean theorems are invariants of the Rodas step-size controller (accept iff err<=1, bounded step-size change, proposals clamped into [hmin,hmax], failures reported); the controller model is tied to the code by exact replay of per-attempt traces. Tolerance-proportional accuracy itself is numerical analysis: sampled on constructed families with reference solutions against bounds calibrated on the unchanged tree (one recorded finding: dense output on stiff forced problems)",
         "Lean 4 proof of controller invariants + exact trace replay + accuracy sampling against reference solutions (partial)", "§3 C08"),
 "C09": ("Lean theorems on the Rodas controller model: the end point is assigned (t = tend for every number type), no attempted step exceeds hmax, proposals are clamped, events and rejections never touch the emitted times; the model (accept/reject, step sizes, two-node and dense output bookkeeping) is tied to the code by bit-exact replay of real runs from their per-attempt (err, fac0) traces; the grid clauses are checked directly on Rodas (3 schemes) and ode15s results",
         "Lean 4 proof on a controller model + bit-exact trace replay (hook) + grid oracle", "§3 C09"),
 "C10": ("Lean theorems on the event block of the Rodas controller model: bracket invariant of the bisection, direction filter, no-event-no-effect (state identical), terminal event truncates the step at its time; the multi-component full-strength statement is proved FALSE on the model (recorded finding D11). Tied to the code by bit-exact replay of runs with event functions of time; analytic event lists as oracle",
         "Lean 4 proof + kernel-evaluated counterexample + bit-exact trace replay with scripted event functions + analytic oracle", "§3 C10"),
}
REASONS = {}
props = [json.loads(l)["id"] for l in open(os.path.join(V, "properties.jsonl"))]
hooks = subprocess.run("git -C /repo log --format=%h --grep='^hook:' ", shell=True, capture_output=True, text=True).stdout.split()
m = {
 "version": 1,
 "setup_cmd": "cd lean && lake build SolverzModel",
 "hooks": {"guard": "SOLVERZ_VERIF", "enable": "checks export SOLVERZ_VERIF=1 before importing Solverz from /repo's working tree (PYTHONPATH=/repo)",
           "baseline_off_cmd": "cd /repo && env -u SOLVERZ_VERIF /venv/bin/python -m pytest -ra -q -p no:cacheprovider --timeout=900 --continue-on-collection-errors",
           "source_commits": hooks, "add_only": True},
 "engines": [{"name": "lean-model", "path": "lean", "serves_properties": sorted(CHECKS), "kind_free_text": "Lean 4 model (import-free Core, executable by the driver) + property theorems; Python harness: translators, correspondence over a line protocol, failing-input search"}],
 "checks": [
  {"property_id": p, "quick_cmd": f"./check {p} quick", "thorough_cmd": f"./check {p} thorough", "evidence_file": f"evidence/{p}.json",
   "replay_cmd_template": f"./check {p} --replay {{path}}", "engine": "lean-model",
   "level_claimed": {"category": "proof", "text": CHECKS[p][0], "design_ref": "DESIGN.md " + CHECKS[p][2]},
   "level_note": NOTE, "technique": CHECKS[p][1]} for p in sorted(CHECKS)],
 "not_applicable": [{"property_id": p, "reason": REASONS.get(p, "check not built yet in this round (construction order in DESIGN.md §6.3); not a claim that the technique cannot apply")} for p in props if p not in CHECKS],
 "notes": "see DESIGN.md; seeded/ holds confirmed test mutations and which check detects each",
}
json.dump(m, open(os.path.join(V, "MANIFEST.json"), "w"), indent=1)
print("manifest:", sorted(CHECKS))
