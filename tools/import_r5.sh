#!/bin/bash
# tools/import_r5.sh <Cxx> <A|B> <mN>: copy a sub-agent's output from /tmp/r5_<Cxx>/out/<A|B> into seeded/<Cxx>_<mN>
set -e
src=/tmp/r5_$1/out/$2; dst=/verif/seeded/$1_$3
mkdir -p $dst
cp $src/patch.diff $src/demo.py $dst/
cp $src/note.txt $dst/note.txt 2>/dev/null || true
sed -i "s#/tmp/r5_$1#/repo#g" $dst/demo.py
echo imported $dst
