#!/bin/bash
# usage: tools/collect2.sh <Cxx> <k...>   — copy mutations k (1 and/or 2) of /tmp/wt_<Cxx>/_mutations into the next free seeded/<Cxx>_mN, remove the worktree
cd "$(dirname "$0")/.."
p=$1; shift
for k in "$@"; do
  n=1; while [ -d seeded/${p}_m$n ]; do n=$((n+1)); done
  d=seeded/${p}_m$n; src=/tmp/wt_$p/_mutations
  mkdir -p $d; cp $src/m$k.diff $d/patch.diff; cp $src/m${k}_demo.py $d/demo.py; cp $src/m${k}_note.txt $d/note.txt
  echo "$d"
done
git -C /repo worktree remove --force /tmp/wt_$p
