#!/bin/bash
# re-run every seeded change against the current checks (applies each patch to /repo in turn: run nothing else meanwhile)
cd "$(dirname "$0")/.."
for d in seeded/*/; do n=$(basename $d); r=$(python3 tools/seeded.py $n --no-confirm 2>&1 | tail -1); echo "$n $r"; done
git -C /repo status --short | head -3
