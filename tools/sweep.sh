#!/bin/bash
# usage: tools/sweep.sh <tier> <seed>...   — runs every registered check on the current tree, prints non-OK results
cd "$(dirname "$0")/.."
tier=$1; shift
for s in "$@"; do
  for p in C01 C02 C03 C04 C05 C06 C07 C08 C09 C10 C11 C12 C13 C14 C15 C16 C17 C18; do
    out=$(VERIF_SEED=$s timeout 7200 ./check $p $tier 2>&1); rc=$?
    last=$(echo "$out" | grep -v "^KNOWN-FINDING" | tail -1)
    echo "seed=$s $p rc=$rc $last"
  done
done
