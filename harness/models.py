"""
models.py — symbolic models used by several checks: a fixed zoo (covering the documented language) and
a seeded random generator.  Every builder returns a fresh `Model` built with the real Solverz API.
"""
from __future__ import annotations

import io
import contextlib
import warnings
import numpy as np


def quiet(f, *a, **k):
    with contextlib.redirect_stdout(io.StringIO()), contextlib.redirect_stderr(io.StringIO()), warnings.catch_warnings():
        warnings.simplefilter("ignore")
        return f(*a, **k)


def trig_gain(x):
    return np.where(x > 1.0, 2.0, 1.0)


def trig_sq(x):
    return 1.0 + x ** 2


def trig_builtins(x):
    # written with Python's builtins (max with two arguments, any over a generator, abs, sum): the rendered module pastes this source
    # below `from numpy import *`, where the same names mean something else
    return np.array([max(x[0], 0.0), max(x[1], 0.0)]) + (1.0 if any(v > 1 for v in x) else 0.0) + abs(sum(v for v in x)) / 10


def sq(x):
    # the function's name occurs inside its own body (np.sqrt): renaming it in a rendered module must not touch the body (D76)
    return np.sqrt(x * x + 1.0)


def zoo():
    """name -> builder.  Builders return (Model, kind) with kind in {'AE','DAE','FDAE'}."""
    from Solverz import Model, Var, Param, TimeSeriesParam, Eqn, Ode, AliasVar, sin, cos, exp, ln, Abs, Sign, Min, Saturation, heaviside, AntiWindUp

    def ae_basic():
        m = Model()
        m.x = Var("x", [1.0, 2.0, 0.5])
        m.y = Var("y", 0.7)
        m.k = Param("k", [2.0, 3.0, -1.0])
        m.c = Param("c", 1.5)
        m.e1 = Eqn("e1", m.k * m.x ** 2 + m.y * m.x - m.c)
        m.e2 = Eqn("e2", sin(m.y) + m.x[0] * m.x[2] - exp(m.x[1] / 4))
        return m, "AE"

    def ae_slices():
        m = Model()
        m.u = Var("u", [0.3, -0.4, 1.2, 2.0])
        m.w = Var("w", [1.0, 1.5])
        m.a = Param("a", [0.5, 2.0])
        m.e1 = Eqn("e1", m.u[0:2] * m.w + m.u[2:4] - m.a)
        m.e2 = Eqn("e2", m.u[1:3] * m.u[1:3] + cos(m.w) * m.u[0] - 1)
        m.e3 = Eqn("e3", m.w[0] * m.w[1] + m.u[3] - 2)
        m.e4 = Eqn("e4", m.w[1] - ln(m.u[3]) - m.u[2] + 1)
        return m, "AE"

    def ae_piecewise():
        m = Model()
        m.x = Var("x", [0.4, -1.3, 2.5])
        m.z = Var("z", [0.2, 0.9, -0.6])
        m.lo = Param("lo", -1.0)
        m.hi = Param("hi", [1.0, 2.0, 0.5])
        m.e1 = Eqn("e1", Abs(m.x) + Saturation(m.z, m.lo, m.hi) - 1.1 + Sign(m.x) * m.z)
        m.e2 = Eqn("e2", Min(m.x, m.z) + heaviside(m.x - 0.1) * m.z ** 2 - 0.3 * m.x)
        return m, "AE"

    def dae_ts():
        m = Model()
        m.x = Var("x", [1.0, 2.0])
        m.z = Var("z", 0.5)
        m.k = Param("k", [2.0, 3.0])
        m.u = TimeSeriesParam("u", [0.0, 1.0, 3.0], [0.0, 1.0, 2.0])
        m.f = Ode("f", -m.k * m.x + m.z * m.u, m.x)
        m.g = Eqn("g", m.z - sin(m.x[0]) * m.x[1])
        return m, "DAE"

    def dae_ts_index():
        m = Model()
        m.x = Var("x", [1.0, 2.0, 0.5])
        m.G = TimeSeriesParam("G", [20.0, 25.0, 35.0], [0.0, 1.0, 2.0], index=[1], value=[10.0, 20.0, 30.0])
        m.f = Ode("f", -m.x * m.x + m.G / 10, m.x)
        return m, "DAE"

    def ae_consts():
        # coefficients that are symbol-free constants but not plain numbers
        from sympy import pi, sqrt, E, Rational
        m = Model()
        m.x = Var("x", [0.3, 1.1])
        m.z = Var("z", 0.8)
        m.e1 = Eqn("e1", pi * m.x + sqrt(2) * m.z - E + Rational(1, 3) * m.x ** 2)
        m.e2 = Eqn("e2", m.z * pi - m.x[0] * sqrt(3) + 2 * m.x[1] - 1)
        return m, "AE"

    def dae_interleaved():
        m = Model()
        m.q = Var("q", 0.8)
        m.p = Var("p", [0.1, 0.2])
        m.r = Var("r", [1.0, -1.0])
        m.s = Param("s", [1.0, 2.0])
        m.g1 = Eqn("g1", m.r - m.p * m.s - m.q)
        m.f1 = Ode("f1", -m.p + m.r, m.p)
        m.f2 = Ode("f2", -m.q ** 3 + m.p[0] * m.p[1], m.q)
        return m, "DAE"

    def dae_awu():
        m = Model()
        m.zi = Var("zi", 0.2)
        m.v = Var("v", 0.9)
        m.kp = Param("kp", 2.0)
        m.ki = Param("ki", 1.0)
        m.ref = Param("ref", 1.0)
        m.f1 = Ode("f1", AntiWindUp(m.kp * (m.ref - m.v) + m.ki * m.zi, 0.0, 1.5, m.ref - m.v), m.zi)
        m.f2 = Ode("f2", -m.v + Saturation(m.kp * (m.ref - m.v) + m.ki * m.zi, 0.0, 1.5), m.v)
        return m, "DAE"

    def fdae_heat():
        m = Model()
        m.T = Var("T", [1.0, 0.5, 0.2])
        m.T0 = AliasVar("T", init=m.T)
        m.dt = Param("dt", 0.1)
        m.a = Param("a", 0.4)
        m.e1 = Eqn("e1", m.T[1] - m.T0[1] - m.dt * m.a * (m.T[0] - 2 * m.T[1] + m.T[2]))
        m.e2 = Eqn("e2", m.T[0] - 1.0)
        m.e3 = Eqn("e3", m.T[2] - m.T0[2] + m.dt * m.T[2] ** 2)
        return m, "FDAE"

    def ae_trigger():
        m = Model()
        m.x = Var("x", [0.5, 1.5])
        m.g = Param("g", [1.0, 2.0], triggerable=True, trigger_var=["x"], trigger_fun=trig_gain)
        m.b = Param("b", [0.3, 0.6])
        m.e1 = Eqn("e1", m.g * m.x ** 2 - m.b - m.x ** 3 / 10)      # g in the second derivative: HVP must fire the trigger
        return m, "AE"

    def ae_trigger_builtins():
        m = Model()
        m.x = Var("x", [-0.5, 1.5])
        m.h = Param("h", [2.0, 2.7], triggerable=True, trigger_var=["x"], trigger_fun=trig_builtins)
        m.e1 = Eqn("e1", m.h * m.x - 1)
        return m, "AE"

    def ae_trigger_smooth():
        # the stored value of k (10, 10) is NOT trigger_fun(x0): every function that uses k must fire the trigger
        m = Model()
        m.x = Var("x", [0.5, 1.5])
        # same parameter NAME as in ae_trigger, another trigger function: models living in one process must not share it
        m.g = Param("g", [10.0, 10.0], triggerable=True, trigger_var=["x"], trigger_fun=trig_sq)
        m.b = Param("b", [0.3, 0.6])
        m.e1 = Eqn("e1", m.g * m.x ** 2 - m.b)
        return m, "AE"

    def ae_logic():
        # the comparison / logic helpers applied directly to declared parameters (0/1 switches) and variables: the numerical helpers
        # receive the caller's arrays themselves, not intermediate results
        from Solverz.sym_algebra.functions import Not, And, Or, GreaterThan, LessThan, In
        m = Model()
        m.x = Var("x", [0.4, -1.3, 2.5])
        m.blocked = Param("blocked", [0.0, 1.0, 0.0])
        m.open_ = Param("open_", [1.0, 1.0, 0.0])
        m.lim = Param("lim", [1.0, 1.0, 2.0])
        m.e1 = Eqn("e1", m.x ** 2 * Not(m.blocked) + m.x * And(m.open_, GreaterThan(m.x, m.lim)) - Or(m.blocked, m.open_) * LessThan(m.x, m.lim)
                   - In(m.x, -m.lim, m.lim) + 0.5)
        return m, "AE"

    def ae_trigger_subname():
        m = Model()
        m.x = Var("x", [0.5, 1.5])
        m.kq = Param("kq", [float(v) for v in sq(np.array([0.5, 1.5]))], triggerable=True, trigger_var=["x"], trigger_fun=sq)
        m.e1 = Eqn("e1", m.kq * m.x - 1)
        return m, "AE"

    return dict(ae_trigger_subname=ae_trigger_subname, ae_logic=ae_logic, ae_trigger_smooth=ae_trigger_smooth, ae_basic=ae_basic, ae_slices=ae_slices, ae_piecewise=ae_piecewise, dae_ts=dae_ts,
                dae_interleaved=dae_interleaved, ae_consts=ae_consts, ae_trigger_builtins=ae_trigger_builtins, dae_ts_index=dae_ts_index, dae_awu=dae_awu, fdae_heat=fdae_heat, ae_trigger=ae_trigger)


def instantiate(builder):
    m, kind = builder()
    eqs, y0 = quiet(m.create_instance)
    return eqs, y0, kind


def call_args(kind, nd, t, y, yprev=None):
    """positional arguments of F/J for a numerical model of the given kind"""
    if kind == "AE":
        return (y, nd.p)
    if kind == "DAE":
        return (t, y, nd.p)
    return (t, y, nd.p, yprev if yprev is not None else y)
