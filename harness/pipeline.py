"""
pipeline.py — differential evaluation of generated models: real Solverz backends against the Lean reference
semantics (driver `c01`), shared by C01 (F), C02 (J), C15 (permutations / renamings) and C18.
"""
from __future__ import annotations

import importlib
import os
import shutil
import sys
import tempfile
import warnings
import numpy as np

from harness.common import h2f, run_driver, LeanError
from harness import lang

RTOL, ATOL = 1e-9, 1e-11
PATTERN_EPS = 1e-12      # reference entries below this (relative to the row) are rounding residues, not structure
KINK = 1e-3


def close(a, b):
    a, b = np.asarray(a, dtype=float), np.asarray(b, dtype=float)
    if a.shape != b.shape:
        return False
    with np.errstate(invalid="ignore"):
        # the absolute allowance scales with the largest finite magnitude present (entries of size 1e-9 next to nothing larger are
        # compared relatively; a cancellation residue next to entries of size 1 is allowed)
        fin = np.abs(np.concatenate([a[np.isfinite(a)].ravel(), b[np.isfinite(b)].ravel()]))
        scale = min(1.0, float(fin.max())) if fin.size and fin.max() > 0 else 1.0
        ok = np.abs(a - b) <= ATOL * scale + RTOL * np.maximum(np.abs(a), np.abs(b))
    return bool(np.all(ok | (np.isnan(a) & np.isnan(b)) | (a == b)))


class Built:
    """one generated model instantiated on the real code"""

    def __init__(self, gm: lang.GModel):
        self.gm = gm
        mdl = lang.build(gm)
        self.eqs, self.y0 = lang.quiet(mdl.create_instance)
        self.kind = gm.kind
        self.backends = {}

    def add_inline(self):
        from Solverz import made_numerical
        for sp in (True, False):
            mdl = lang.build(self.gm)
            eqs, y0 = lang.quiet(mdl.create_instance)
            self.backends["inline-sparse" if sp else "inline-dense"] = (lang.quiet(made_numerical, eqs, y0, sparse=sp), eqs, y0)

    def add_module(self, tmp, name, jit=False):
        from Solverz import module_printer
        mdl = lang.build(self.gm)
        eqs, y0 = lang.quiet(mdl.create_instance)
        lang.quiet(module_printer(eqs, y0, name, directory=tmp, jit=jit).render)
        if tmp not in sys.path:
            sys.path.insert(0, tmp)
        mod = lang.quiet(importlib.import_module, name)
        self.backends["module-numba" if jit else "module"] = (mod.mdl, eqs, y0)


def degenerate(b: Built):
    """sympy cancels terms at construction (x - x -> 0, x/x -> 1): an equation written with vector operands can
    become a scalar constant.  Such a declaration has no vector-valued symbol left; it is not a meaningful model
    and is skipped (counted in the evidence)."""
    gm = b.gm
    sizes = {n: len(v) for n, v, _ in gm.vars}
    for (_, _, d), (n, _, _) in zip([(p[0], p[1], p[2]) for p in gm.pars], gm.pars):
        pass
    psizes = {p[0]: len(p[2]["value"]) for p in gm.pars}
    for (name, kind, a, dv) in gm.eqs:
        want = lang.ast_size(gm, a)
        got = int(len(b.eqs.a.v[name]))
        target = len(lang.sel_indices(len(gm.vars[dv[0]][1]), dv[1])) if dv is not None else 0
        if got == max(want, target):
            continue
        syms = set(str(s) for s in b.eqs.EQNs[name].RHS.free_symbols) if hasattr(b.eqs.EQNs[name].RHS, "free_symbols") else set()
        def sym_size(txt):
            base = txt.split("[")[0].replace("_tag_0", "")
            n = sizes.get(base, psizes.get(base))
            if n is None:
                return None
            if "[" not in txt:
                return n
            inner = txt[txt.index("[") + 1:txt.rindex("]")]
            if ":" not in inner:
                return 1                                   # an integer index selects one element
            parts = [None if q.strip() in ("", "None") else int(q) for q in inner.split(":")]
            return len(range(n)[slice(*parts)])
        has_vector = any(sym_size(s) == want for s in syms)
        if want > 1 and not has_vector:
            return True
    return False


def layout_problems(b: Built):
    """C01's clause on the initial vector and the reported offsets"""
    out = []
    gm = b.gm
    names = [v[0] for v in gm.vars]
    if list(b.y0.a.object_list) != names:
        out.append(f"variable order of the initial vector {list(b.y0.a.object_list)} differs from the declaration order {names}")
        return out
    off = 0
    for (name, vals, _) in gm.vars:
        idx = list(b.y0.a.v[name])
        if idx != list(range(off, off + len(vals))):
            out.append(f"variable {name} is reported at {idx}, declaration order puts it at [{off}, {off + len(vals)})")
        elif not np.array_equal(b.y0.array[idx], np.array(vals)):
            out.append(f"initial vector holds {b.y0.array[idx]} for {name}, declared {vals}")
        off += len(vals)
    return out


def gen_points(gm: lang.GModel, rng, n):
    """(t, y, overrides, yprev)"""
    pts = []
    ny = sum(gm.var_sizes())
    y_decl = np.concatenate([np.array(v[1]) for v in gm.vars])
    ts_nodes = [t for (_, k, d) in gm.pars if k in ("ts", "ts_index") for t in d["times"]]
    for i in range(n):
        if i == 0:
            y = y_decl.copy()
        else:
            y = y_decl * rng.uniform(0.6, 1.6, size=ny) + rng.normal(scale=0.4, size=ny) * (i % 2)
        t = 0.0 if gm.kind == "AE" else float(rng.choice([0.0, 0.37, 1.0, 2.2, 5.0, 9.0] + ts_nodes)) if i else 0.0
        if i >= 3 and i % 2 == 1 and gm.kind != "AE":
            t = pts[-1][0]          # the same instant as the previous call, with other parameter values: nothing may be remembered per t
        overrides = {}
        if i >= 2:
            for (name, kind, data) in gm.pars:
                if kind == "plain" and rng.random() < 0.7:
                    overrides[name] = [float(x) for x in np.round(rng.uniform(0.4, 3.0, size=len(data["value"])), 3)]
                if kind == "ts_index" and rng.random() < 0.5:
                    overrides[name] = [float(x) for x in np.round(rng.uniform(0.4, 3.0, size=len(data["value"])), 3)]
        yprev = y_decl * rng.uniform(0.8, 1.2, size=ny) if gm.kind == "FDAE" else y
        pts.append((t, y, overrides, yprev))
    if ts_nodes and gm.kind != "AE" and n >= 3:
        # back in time: after the later instants, one call inside the FIRST segment of a time series and one exactly at its first
        # node (a value once interpolated may not depend on which segment was used before)
        first = sorted(set(ts_nodes))[:2]
        if len(first) == 2:
            t_, y_, ov_, yp_ = pts[-1]
            pts.append((0.5 * (first[0] + first[1]), y_, {}, yp_))
            pts.append((first[0], y_, {}, yp_))
    return pts


def real_call(nd, kind, which, t, y, yprev):
    if kind == "AE":
        args = (y, nd.p)
    elif kind == "DAE":
        args = (t, y, nd.p)
    else:
        args = (t, y, nd.p, yprev)
    with warnings.catch_warnings():
        warnings.simplefilter("ignore")
        r = getattr(nd, which)(*args)
    if which == "J":
        pattern = None
        if hasattr(r, "tocoo"):
            c = r.tocsc()
            pattern = set()
            for col in range(c.shape[1]):
                for k in range(c.indptr[col], c.indptr[col + 1]):
                    pattern.add((int(c.indices[k]), col))
            r = r.toarray()
        return np.asarray(r, dtype=float), pattern
    return np.asarray(r, dtype=float), None


def apply_overrides(nd, gm, overrides):
    """the caller assigns new values into the parameter mapping"""
    for name, vals in overrides.items():
        cur = nd.p[name]
        if hasattr(cur, "v"):
            cur.v = np.array(vals, dtype=float)
        else:
            nd.p[name] = np.array(vals, dtype=float)


def restore_params(nd, gm):
    for (name, kind, data) in gm.pars:
        cur = nd.p[name]
        if hasattr(cur, "v"):
            cur.v = np.array(data["value"], dtype=float)
        else:
            nd.p[name] = np.array(data["value"], dtype=float)


def run_models(rng, nmodels, npoints, want=("F", "J"), module_every=8, kinds=None, tmp=None, jit=False, gens=None):
    """returns dict(records=[...], problems=[...], stats=...)
    each record: model, backend, point index, what, real, model value (after the driver ran), margins"""
    own_tmp = tmp is None
    tmp = tmp or tempfile.mkdtemp(prefix="pipe_")
    lines, slots = [], []
    problems, notes = [], []
    stats = dict(models=0, build_raised=0, points=0, kinds={}, ops={}, backends={}, kink_rejected=0, par_kinds={})
    try:
        fixed = list(gens) if gens is not None else lang.corpus()
        for k in range(nmodels + (len(fixed) if gens is None else 0) if gens is None else len(fixed)):
            gm = fixed[k] if k < len(fixed) else lang.Gen(rng, kind=(None if kinds is None else str(rng.choice(kinds)))).model()
            # corpus models added later draw their points from a generator of their own, so that the random models that follow
            # (and what the seeded changes of section 14 need of them) stay what they were
            rng_k = np.random.default_rng([4242, k]) if getattr(gm, "own_rng", False) else rng
            stats["models"] += 1
            stats["kinds"][gm.kind] = stats["kinds"].get(gm.kind, 0) + 1
            for (_, pk, _) in gm.pars:
                stats["par_kinds"][pk] = stats["par_kinds"].get(pk, 0) + 1
            _count_ops(gm, stats["ops"])
            try:
                b = Built(gm)
                if degenerate(b):
                    stats["degenerate_after_simplification"] = stats.get("degenerate_after_simplification", 0) + 1
                    continue
                b.add_inline()
                if module_every and (k % module_every == 0 or (gens is None and k < len(fixed))):      # every corpus model also as a rendered module
                    b.add_module(tmp, f"pipe_m{k}_{os.getpid()}", jit=jit)
            except Exception as ex:  # noqa
                stats["build_raised"] += 1
                problems.append(dict(model=gm.describe(), what=f"building / generating code for a model of the documented language raised "
                                                              f"{type(ex).__name__}: {str(ex)[:200]}", kind="build"))
                continue
            for msg in layout_problems(b):
                problems.append(dict(model=gm.describe(), what=msg, kind="layout"))
            pts = gen_points(gm, rng_k, npoints)
            if "J" in want:
                # a point with some state elements exactly 0: derivative entries that vanish there (d(x*z)/dz = x) must stay in the
                # stored sparse pattern; only the pattern is judged at this point when it lies near a kink
                t_, y_, ov_, yp_ = pts[-1]
                yz = np.array(y_, dtype=float).copy()
                mask = rng_k.random(yz.shape[0]) < 0.6
                if not mask.any():
                    mask[int(rng_k.integers(0, yz.shape[0]))] = True
                yz[mask] = 0.0
                pts.append((t_, yz, ov_, yp_))
            eq_names = [e[0] for e in gm.eqs]
            for pi, (t, y, overrides, yprev) in enumerate(pts):
                zero_point = ("J" in want) and pi == len(pts) - 1
                margins = []
                env = dict(y=y, yprev=yprev, p=lang.par_values(gm, overrides, None if gm.kind == "AE" else t, y))
                ref = []
                try:
                    with np.errstate(all="ignore"):
                        for (_, _, a, _) in gm.eqs:
                            v = lang.np_eval(gm, a, env, margins)
                            n = lang.ast_size(gm, a)
                            ref.append(np.broadcast_to(v, (n,)).astype(float))      # (kept for the search oracle)
                except Exception as ex:  # noqa
                    notes.append(f"reference evaluator raised {type(ex).__name__}: {ex}")
                    continue
                pflat = np.concatenate([np.atleast_1d(x) for x in env["p"]]) if env["p"] else np.array([])
                stats["points"] += 1
                near_kink = bool(margins) and min(margins) < KINK
                for which in want:
                    if which == "J" and near_kink and not zero_point:
                        stats["kink_rejected"] += 1
                        continue
                    if which != "J" and zero_point:
                        continue
                    lines.append(lang.request(which, gm, y, pflat, yprev))
                    real = {}
                    for label, (nd, eqs, y0) in b.backends.items():
                        stats["backends"][label] = stats["backends"].get(label, 0) + 1
                        try:
                            apply_overrides(nd, gm, overrides)
                            val, pattern = real_call(nd, gm.kind, which, t, y.copy(), yprev.copy())
                            real[label] = (val, pattern, eqs, y0)
                        except Exception as ex:  # noqa
                            real[label] = (ex, None, eqs, y0)
                        finally:
                            restore_params(nd, gm)
                    slots.append(dict(gm=gm, pi=pi, which=which, real=real, pattern_only=bool(which == "J" and zero_point),
                                      point=dict(t=t, y=[float(v) for v in y], overrides=overrides,
                                                                                      yprev=[float(v) for v in yprev]),
                                      ref=np.concatenate(ref) if which == "F" else None, eq_names=eq_names))
        try:
            answers = run_driver(lines) if lines else []
        except LeanError as ex:
            return dict(records=[], problems=problems, notes=notes + [f"driver: {ex}"], stats=stats, driver_broken=str(ex))
        records = []
        for slot, ans in zip(slots, answers):
            slot["model_answer"] = ans
            records.append(slot)
        return dict(records=records, problems=problems, notes=notes, stats=stats, driver_broken=None)
    finally:
        for kmod in [kk for kk in sys.modules if kk.startswith("pipe_m")]:
            del sys.modules[kmod]
        if own_tmp:
            if tmp in sys.path:
                sys.path.remove(tmp)
            shutil.rmtree(tmp, ignore_errors=True)


def _count_ops(gm, hist):
    def walk(a):
        hist[a[0]] = hist.get(a[0], 0) + 1
        if a[0] in ("var", "par", "prev"):
            hist["sel:" + a[2][0]] = hist.get("sel:" + a[2][0], 0) + 1
            if a[2][0] == "i" and a[2][1] < 0:
                hist["sel:negative-index"] = hist.get("sel:negative-index", 0) + 1
        for x in a[1:]:
            if isinstance(x, tuple) and x and isinstance(x[0], str) and x[0] not in ("w", "i", "s"):
                walk(x)
    for (_, kind, a, dv) in gm.eqs:
        hist["eqn:" + kind] = hist.get("eqn:" + kind, 0) + 1
        walk(a)


def reorder_rows(val, eqs, eq_names, gm):
    """bring a real F vector / J row set into declaration order using the *reported* equation addresses"""
    rows = []
    for nm in eq_names:
        rows += [int(i) for i in eqs.a.v[nm]]
    return rows


def judge_F(rec):
    """-> list of (label, message) disagreements between the real F and the Lean reference"""
    out = []
    ans = rec["model_answer"]
    gm = rec["gm"]
    if not ans.startswith("ok"):
        model_val = None
    else:
        model_val = np.array([h2f(x) for x in ans.split()[1:]])
    for label, (val, _, eqs, y0) in rec["real"].items():
        if isinstance(val, Exception):
            out.append((label, f"F raised {type(val).__name__}: {str(val)[:120]}", "raise")); continue
        if model_val is None:
            out.append((label, f"reference semantics reject the model ({ans}) but F returned values", "model")); continue
        rows = reorder_rows(val, eqs, rec["eq_names"], gm)
        if sorted(rows) != list(range(len(val))) or len(rows) != len(model_val):
            out.append((label, f"reported equation addresses {rows} do not partition [0, {len(val)}) / reference has {len(model_val)} elements", "address")); continue
        got = val[rows]
        if not close(got, model_val):
            k = int(np.argmax(np.abs(got - model_val)))
            out.append((label, f"F element {k} (declaration order) = {got[k]!r}, the declared equation evaluates to {model_val[k]!r}", "value"))
    return out


def judge_J(rec):
    out = []
    ans = rec["model_answer"]
    gm = rec["gm"]
    if not ans.startswith("ok"):
        return [(lab, f"reference semantics reject the model ({ans})", "model") for lab in rec["real"]]
    w = ans.split()
    nr, nc = int(w[1]), int(w[2])
    Jm = np.array([h2f(x) for x in w[3:]]).reshape(nr, nc)
    undefined = ~np.isfinite(Jm)
    Jm = np.where(undefined, 0.0, Jm)
    for label, (val, pattern, eqs, y0) in rec["real"].items():
        if isinstance(val, Exception):
            out.append((label, f"J raised {type(val).__name__}: {str(val)[:120]}", "raise")); continue
        rows = reorder_rows(val, eqs, rec["eq_names"], gm)
        if val.shape != (nr, nc):
            out.append((label, f"J has shape {val.shape}, expected ({nr}, {nc})", "shape")); continue
        if rec.get("pattern_only"):
            continue
        got = val[rows, :]
        # entries where the reference derivative is not finite (inf * 0 after a division by a zero parameter) have no
        # mathematical value at this point: they are not compared
        if undefined.any():
            got = np.where(undefined, 0.0, got)
        if not close(got, Jm):
            d = np.abs(got - Jm)
            r, c = np.unravel_index(int(np.argmax(d)), d.shape)
            out.append((label, f"J[{r},{c}] (declaration order) = {got[r, c]!r}, the derivative of the declared equation is {Jm[r, c]!r}", "value"))
        if pattern is not None:
            inv = {rr: k for k, rr in enumerate(rows)}
            missing = [(inv[r], c) for r in range(nr) for c in range(nc) if Jm[inv[r], c] != 0 and (r, c) not in pattern] if False else \
                [(k, c) for k in range(nr) for c in range(nc) if abs(Jm[k, c]) > PATTERN_EPS * max(1.0, float(np.max(np.abs(Jm[k])))) and (rows[k], c) not in pattern]
            if missing:
                out.append((label, f"entries {missing[:4]} are non-zero but missing from the sparse pattern", "pattern"))
    return out


def judge_pattern(records):
    """structural sparse pattern: an entry that is non-zero at SOME evaluated point of a model must be stored in the pattern at
    EVERY evaluated point (the pattern may not depend on the values).  -> list of (record, label, message)"""
    out = []
    groups = {}
    for r in records:
        if r["which"] == "J":
            groups.setdefault(id(r["gm"]), []).append(r)
    for recs in groups.values():
        union = {}
        for r in recs:
            ans = r["model_answer"]
            if not ans.startswith("ok") or r.get("pattern_only"):
                continue
            w = ans.split()
            nr, nc = int(w[1]), int(w[2])
            Jm = np.array([h2f(x) for x in w[3:]]).reshape(nr, nc)
            for k in range(nr):
                for c in range(nc):
                    # a float residue of terms that cancel symbolically (w**-1 * w) is not a structural non-zero
                    if np.isfinite(Jm[k, c]) and abs(Jm[k, c]) > PATTERN_EPS * max(1.0, float(np.nanmax(np.abs(np.where(np.isfinite(Jm[k]), Jm[k], 0.0))))):
                        union[(k, c)] = True
        if not union:
            continue
        for r in recs:
            for label, (val, pattern, eqs, y0) in r["real"].items():
                if pattern is None or isinstance(val, Exception):
                    continue
                rows = reorder_rows(val, eqs, r["eq_names"], r["gm"])
                missing = [(k, c) for (k, c) in union if k < len(rows) and (rows[k], c) not in pattern]
                if missing:
                    out.append((r, label, f"entries {sorted(missing)[:5]} (declaration order) are non-zero at other points of the same model "
                                          f"but missing from the sparse pattern stored at y = {np.round(r['point']['y'], 4).tolist()}"))
    return out


def regen_histories(gms, rng, tmp, tag, what=("F", "J", "M", "HVP"), with_module=True):
    """generation histories on ONE symbolic equations object: inline for the declared variable layout, inline again for the
    reversed layout, then (optionally) a rendered module for a rotated layout — each compared with a fresh generation from fresh
    equations for the same layout.  Whatever was generated before must not show in what is generated now.
    -> (failures [(case, message)], number of histories run)"""
    from Solverz import made_numerical, module_printer
    from Solverz.variable.variables import Vars
    from Solverz.utilities.address import Address
    fails, nh = [], 0

    def relayout(y0_, names):
        a = Address()
        for n in names:
            a.add(n, int(y0_.a.size[n]))
        return Vars(a, np.concatenate([np.atleast_1d(y0_[n]) for n in names]))

    def values(nd, kind, y, v):
        out = {}
        t = 0.3
        args = (y, nd.p) if kind == "AE" else (t, y, nd.p)
        if "F" in what:
            out["F"] = np.asarray(nd.F(*args), dtype=float)
        if "J" in what:
            J = nd.J(*args); out["J"] = J.toarray() if hasattr(J, "toarray") else np.asarray(J)
        if "M" in what and kind == "DAE":
            out["M"] = nd.M.toarray() if hasattr(nd.M, "toarray") else np.asarray(nd.M)
        if "HVP" in what and hasattr(nd, "HVP"):
            hargs = (y, nd.p, v) if kind == "AE" else (t, y, nd.p, v)
            try:
                out["HVP"] = nd.HVP(*hargs).toarray()
            except Exception as ex:  # noqa
                out["HVP"] = f"{type(ex).__name__}: {ex}"[:120]
        return out

    for k, gm in enumerate(gms):
        if gm.kind not in ("AE", "DAE") or len(gm.vars) < 2:
            continue
        want_hvp = "HVP" in what
        try:
            mdl = lang.build(gm); eqs, y0 = lang.quiet(mdl.create_instance)
            names = list(y0.a.object_list)
            rot = names[1:] + names[:1]
            layouts = [names, list(reversed(names)), rot if rot != list(reversed(names)) else names]    # each differs from the one before
            lang.quiet(made_numerical, eqs, y0, sparse=True, make_hvp=want_hvp)         # first generation
            steps = [("inline generated again for the reversed variable layout", layouts[1], "inline")]
            if with_module:
                steps.append(("module rendered afterwards for a rotated variable layout", layouts[2], "module"))
            for si, (label, lay, backend) in enumerate(steps):
                def gen(e, y, nm):
                    if backend == "inline":
                        return lang.quiet(made_numerical, e, y, sparse=True, make_hvp=want_hvp)
                    lang.quiet(module_printer(e, y, nm, directory=tmp, jit=False, make_hvp=want_hvp).render)
                    if tmp not in sys.path:
                        sys.path.insert(0, tmp)
                    return lang.quiet(importlib.import_module, nm).mdl
                yl = relayout(y0, lay)
                mdl2 = lang.build(gm); eqs2, y02 = lang.quiet(mdl2.create_instance)
                nd_fresh = gen(eqs2, relayout(y02, lay), f"{tag}_f{k}_{si}_{os.getpid()}")     # a model the generators refuse ends the history
                try:
                    nd_reuse = gen(eqs, yl, f"{tag}_r{k}_{si}_{os.getpid()}")
                except Exception as ex:  # noqa
                    nh += 1
                    fails.append((dict(model=gm.describe(), history=label), f"generation raised {type(ex).__name__}: {str(ex)[:100]} for the same symbolic "
                                  f"equations, {label}, while a fresh generation for that layout succeeds"))
                    break
                yy = yl.array * 1.1 + 0.05
                v = np.round(rng.normal(size=len(yy)), 3)
                with warnings.catch_warnings():
                    warnings.simplefilter("ignore")
                    a1, a2 = values(nd_reuse, gm.kind, yy, v), values(nd_fresh, gm.kind, yy, v)
                nh += 1
                for key in a2:
                    x1, x2 = a1.get(key), a2[key]
                    if isinstance(x1, str) or isinstance(x2, str):
                        if isinstance(x1, str) != isinstance(x2, str):
                            fails.append((dict(model=gm.describe(), history=label), f"{key}: {x1 if isinstance(x1, str) else 'values'} after the "
                                          f"history, {x2 if isinstance(x2, str) else 'values'} from a fresh generation"))
                        continue
                    if x1 is None or np.shape(x1) != np.shape(x2) or not np.allclose(x1, x2, rtol=1e-12, atol=1e-13, equal_nan=True):
                        dd = "shape" if (x1 is None or np.shape(x1) != np.shape(x2)) else f"{np.nanmax(np.abs(x1 - x2)):.3g}"
                        fails.append((dict(model=gm.describe(), history=label), f"{key} of the same symbolic equations, {label}, differs from a fresh "
                                      f"generation for that layout (max abs diff {dd})"))
        except Exception as ex:  # noqa — a model the generators refuse is not a history failure
            continue
    for kmod in [kk for kk in sys.modules if kk.startswith(tag + "_")]:
        del sys.modules[kmod]
    return fails, nh
