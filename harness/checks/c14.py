"""
C14 — solvers are functions of their arguments: no hidden state between calls.

1. T5: effect summaries of the nine solvers and their helpers are re-derived from the sources
   (Generated/Effects.lean); Properties/C14.lean proves the frame theorem (no store to shared state =>
   every history gives fresh results) and decides that the summaries are all empty.
2. K: random call histories (2-5 calls over the nine solvers) sharing ONE Opt object, one model object
   and one initial-value object, with the caller changing option values between calls; after each call
   the caller's Opt attributes, y0, tspan and parameter mapping must be unchanged and the result must be
   bit-identical to a call with fresh objects of equal values.
"""
from __future__ import annotations

import copy
import io
import contextlib
import warnings
import numpy as np

from harness.common import prove, BASE_TRUST, LEAN, REPO
from harness.translate import effects


def quiet(f, *a, **k):
    with contextlib.redirect_stdout(io.StringIO()), contextlib.redirect_stderr(io.StringIO()), warnings.catch_warnings():
        warnings.simplefilter("ignore")
        return f(*a, **k)


def make_dae():
    from scipy.sparse import csc_array
    from Solverz.num_api.num_eqn import nDAE
    M = csc_array((np.array([1.0]), (np.array([0]), np.array([0]))), shape=(2, 2))
    from Solverz.equation.param import TimeSeriesParam
    # as in generated code, a time-series parameter stays an object in the mapping and is read with get_v_t(t); `u` writes its series
    # into element 1 of a vector parameter, element 0 is read from the stored value at every call
    # the algebraic equation is nonlinear in the algebraic variable: the projection of an inconsistent start takes several iterations
    F = lambda t, y, p: np.array([-p["k"][0] * y[0] ** 3 + y[1] + np.cos(t) + 0.1 * np.sum(p["u"].get_v_t(t)), y[1] + 0.3 * y[1] ** 3 - np.sin(y[0])])
    J = lambda t, y, p: csc_array(np.array([[-3 * p["k"][0] * y[0] ** 2, 1.0], [-np.cos(y[0]), 1.0 + 0.9 * y[1] ** 2]]))
    return nDAE(M, F, J, {"k": np.array([1.0]),
                          "u": TimeSeriesParam("u", v_series=[1.0, 3.0, 2.0], time_series=[-2.0, 1.0, 4.0], value=[0.5, 1.0], index=[1])})


def make_ae():
    from scipy.sparse import csc_array
    from Solverz.num_api.num_eqn import nAE
    A = np.array([[3.0, 0.5], [-0.3, 2.0]])
    r = np.array([0.7, -1.2])
    F = lambda y, p: A @ (y - r) + p["c"][0] * (y - r) ** 3
    J = lambda y, p: csc_array(A + np.diag(3 * p["c"][0] * (y - r) ** 2))
    ae = nAE(F, J, {"c": np.array([0.5])})
    ae.HVP = lambda y, p, v: csc_array(np.diag(6 * p["c"][0] * (y - r) * v))
    return ae


def make_fdae():
    from scipy.sparse import csc_array
    from Solverz.num_api.num_eqn import nFDAE
    F = lambda t, y, p, y0: y - y0 + p["h"][0] * y ** 3
    J = lambda t, y, p, y0: csc_array(np.diag(1 + 3 * p["h"][0] * y ** 2))
    return nFDAE(F, J, {"h": np.array([0.05])}, 1)


def _int_dae():
    """x' = -1.5 x^2, z' = -2 z^2 + 0.5: slopes -1.5, -17.5 at the start (1, 3), not integers; nonlinear, so the predictor matters"""
    from scipy.sparse import csc_array
    from Solverz.num_api.num_eqn import nDAE
    return nDAE(csc_array(np.eye(2)), lambda t, y, p: np.array([-1.5 * y[0] ** 2, -2.0 * y[1] ** 2 + 0.5]),
                lambda t, y, p: csc_array(np.array([[-3.0 * y[0], 0.0], [0.0, -4.0 * y[1]]])), {})


def opt_values(rng):
    return dict(rtol=float(rng.choice([1e-3, 1e-5, 1e-7])), atol=float(rng.choice([1e-6, 1e-8])),
                hinit=rng.choice([None, 0.01, 0.1]), hmax=rng.choice([None, None, 0.5, 0.05]),
                facmax=float(rng.choice([6, 2, 3])), fac2=float(rng.choice([6, 4])),
                scheme=str(rng.choice(["rodas4", "rodasp", "rodas5p"])), ite_tol=float(rng.choice([1e-5, 1e-8, 1e-10])),
                step_size=float(rng.choice([0.05, 0.1, 0.02])), max_it=int(rng.choice([100, 50])))


def p_snapshot(pv):
    """value of a parameter-mapping entry as the caller sees it (a parameter object's stored value, or the array itself)"""
    return np.array(pv.v if hasattr(pv, "get_v_t") else pv, dtype=float, copy=True)


def res_digest(sol):
    out = []
    for name in ("T", "Y", "y", "te", "ye", "ie"):
        v = getattr(sol, name, None)
        if v is None:
            continue
        a = np.asarray(v.array if hasattr(v, "array") else v, dtype=float)
        out.append((name, a.shape, a.tobytes()))
    st = sol.stats
    out.append(("stats", (st.nstep, st.nfeval, st.ndecomp, st.nreject, bool(st.succeed))))
    return out


def run(rep, tier, seed):
    from Solverz import Rodas, ode15s, sicnm, nr_method, continuous_nr, lm, backward_euler, implicit_trapezoid, fdae_solver, Opt
    from Solverz.variable.variables import Vars
    from Solverz.utilities.address import Address
    rep.cov["trusted_base"] = BASE_TRUST + [
        "T5 translator harness/translate/effects.py: syntactic, conservative for simple aliases (y = y0, p = dae.p, basic slices); "
        "stores through containers of aliases or through callee functions outside Solverz/solvers are not seen statically",
        "the registered SOLVERZ_VERIF hook (`if _VERIF: _verif_trace.append(...)`) is excluded from the summaries after checking, per file, "
        "that _VERIF is exactly the environment guard and that _verif_trace is only ever appended to under it (write-only log); "
        "the history runs execute with the guard on, so the hook code itself is exercised",
        "the link 'no syntactic store => the call preserves the shared state' is the translator's claim; the history runs test it dynamically"]
    changed, eff = effects.write(LEAN, REPO)
    rep.cov["effects_regenerated"] = bool(changed)
    rep.cov["hook_sites_excluded"] = {k: v.get("hook_sites", 0) for k, v in eff.items() if v.get("hook_sites")}
    failed = rep.add_proof(prove("C14"))
    static_findings = [(k, a, x) for k, v in eff.items() for a in ("opt_writes", "arg_stores", "global_state") for x in v[a]]
    rng = np.random.default_rng(seed)
    kinds = {
        "Rodas": ("dae", lambda m, ts, y, o: Rodas(m, ts, y, o)),
        "ode15s": ("dae", lambda m, ts, y, o: ode15s(m, ts, y, o)),
        "backward_euler": ("dae", lambda m, ts, y, o: backward_euler(m, ts, y, o)),
        "implicit_trapezoid": ("dae", lambda m, ts, y, o: implicit_trapezoid(m, ts, y, o)),
        "fdae_solver": ("fdae", lambda m, ts, y, o: fdae_solver(m, ts, y, o)),
        "nr_method": ("ae", lambda m, ts, y, o: nr_method(m, y, o)),
        "continuous_nr": ("ae", lambda m, ts, y, o: continuous_nr(m, y, o)),
        "lm": ("ae", lambda m, ts, y, o: lm(m, y, o)),
        "sicnm": ("ae", lambda m, ts, y, o: sicnm(m, y, o)),
    }
    factories = dict(dae=make_dae, ae=make_ae, fdae=make_fdae)
    starts = dict(dae=np.array([0.5, np.sin(0.5) + 0.2]), ae=np.array([1.0, -1.0]), fdae=np.array([1.0]))
    import inspect
    opt_fields = set(inspect.signature(Opt.__init__).parameters) - {"self"}
    nhist = 20 if tier == "quick" else 200
    fails, hist_samples, ncalls = [], [], 0
    for h in range(nhist):
        shared_opt = Opt()
        shared_model = {k: f() for k, f in factories.items()}
        use_vars = bool(rng.random() < 0.5)
        shared_y0 = {}
        for k, v in starts.items():
            if use_vars:
                a = Address(); a.add("u", 1)
                if len(v) > 1:
                    a.add("w", len(v) - 1)
                shared_y0[k] = Vars(a, v.copy())
            else:
                shared_y0[k] = v.copy()
        shared_tspan = None
        history = []
        kept = []
        for c in range(int(rng.integers(2, 6))):
            # repeat the previous solver often: state kept per solver shows on its second call
            if history and rng.random() < 0.45:
                name = history[-1]["solver"]
            else:
                name = str(rng.choice(list(kinds) + ["Rodas", "Rodas", "ode15s"]))
            kind, call = kinds[name]
            vals = opt_values(rng)
            for k2, v2 in vals.items():          # the caller sets new option values on the shared object
                setattr(shared_opt, k2, v2)
            t0 = float(rng.choice([0.0, 0.5, -1.0]))
            span = float(rng.choice([0.3, 1.0, 5.0]))
            if rng.random() < 0.5:
                tspan = [t0, t0 + span]
            else:
                tspan = np.linspace(t0, t0 + span, int(rng.integers(3, 8)))
            # Rodas only: a terminal event in the middle of the span on some calls (the bookkeeping of a terminal event works on
            # the requested nodes: the caller's span must stay what it was); every other solver gets no event function
            if name == "Rodas" and rng.random() < 0.4:
                c_ev = t0 + float(rng.choice([0.35, 0.6])) * span
                shared_opt.event = (lambda cc: (lambda t, y: (np.array([t - cc]), np.array([True]), np.array([0.0]))))(c_ev)
                step_event = c_ev
            else:
                shared_opt.event = None
                step_event = None
            # parameter change by the caller between calls
            if rng.random() < 0.3:
                for pk in shared_model[kind].p:
                    fct = float(rng.choice([1.0, 2.0, 0.5]))
                    if hasattr(shared_model[kind].p[pk], "get_v_t"):
                        shared_model[kind].p[pk].v = shared_model[kind].p[pk].v * fct
                    else:
                        shared_model[kind].p[pk] = shared_model[kind].p[pk] * fct
            step = dict(solver=name, opt={k2: (None if v2 is None else (v2 if isinstance(v2, (str, int)) else float(v2))) for k2, v2 in vals.items()},
                        tspan=[float(x) for x in tspan], y0_is_vars=use_vars, terminal_event_at=step_event)
            history.append(step)
            ncalls += 1
            # snapshots
            opt_before = dict(vars(shared_opt))
            y_obj = shared_y0[kind]
            y_before = (y_obj.array if use_vars else y_obj).copy()
            ts_before = copy.deepcopy(tspan)
            p_before = {pk: p_snapshot(pv) for pk, pv in shared_model[kind].p.items()}
            try:
                sol = quiet(call, shared_model[kind], tspan, y_obj, shared_opt)
                d1 = res_digest(sol)
                kept.append((sol, d1, name, c))            # the result object is retained: later calls must not write into it
            except Exception as ex:  # noqa
                d1 = ("raised", type(ex).__name__)
            case = dict(history=list(history), call_index=c)
            opt_after = dict(vars(shared_opt))
            changed_fields = [k2 for k2 in opt_before if not (opt_before[k2] is opt_after[k2] or opt_before[k2] == opt_after[k2])]
            if changed_fields:
                fails.append((case, f"{name} changed the caller's Opt: " + ", ".join(f"{k2}: {opt_before[k2]!r} -> {opt_after[k2]!r}" for k2 in changed_fields)))
            y_after = (y_obj.array if use_vars else y_obj)
            if not np.array_equal(y_before, y_after):
                fails.append((case, f"{name} modified the caller's initial values: {y_before} -> {y_after}"))
            if not np.array_equal(np.asarray(ts_before), np.asarray(tspan)):
                fails.append((case, f"{name} modified the caller's tspan"))
            for pk in p_before:
                if not np.array_equal(p_before[pk], p_snapshot(shared_model[kind].p[pk])):
                    fails.append((case, f"{name} modified the caller's parameter mapping entry {pk}: stored value {p_before[pk]} -> "
                                        f"{p_snapshot(shared_model[kind].p[pk])}"))
            # fresh objects of equal values
            fresh_model = factories[kind]()
            for pk in p_before:
                if hasattr(fresh_model.p[pk], "get_v_t"):
                    fresh_model.p[pk].v = p_before[pk].copy()
                else:
                    fresh_model.p[pk] = p_before[pk].copy()
            # a fresh option object of equal *option values* (the constructor's fields; anything else a solver may have left on the
            # shared object is not a value the caller set)
            fresh_opt = Opt(**{k2: v2 for k2, v2 in opt_before.items() if k2 in opt_fields})
            if use_vars:
                a = Address()
                for nm, ln in zip(y_obj.a.object_list, y_obj.a.length_array):
                    a.add(nm, int(ln))
                fresh_y = Vars(a, y_before.copy())
            else:
                fresh_y = y_before.copy()
            try:
                sol2 = quiet(call, fresh_model, copy.deepcopy(ts_before), fresh_y, fresh_opt)
                d2 = res_digest(sol2)
            except Exception as ex:  # noqa
                d2 = ("raised", type(ex).__name__)
            if d1 != d2:
                what = "raised differently" if (isinstance(d1, tuple) or isinstance(d2, tuple)) else \
                    ", ".join(x[0] for x, y in zip(d1, d2) if x != y)
                fails.append((case, f"call #{c} ({name}) after {c} earlier call(s) on shared objects differs from the same call on fresh objects "
                                    f"of equal values ({what})"))
        for sol_k, d_k, name_k, c_k in kept:
            if res_digest(sol_k) != d_k:
                fails.append((dict(history=list(history), call_index=c_k), f"the result returned by call #{c_k} ({name_k}) was changed by a later call "
                                                                             f"of the history"))
                break
        if h < 3:
            hist_samples.append(history)
    # ---- equal values, other array types: an integer-typed or single-precision y0 / tspan that holds the same numbers is an equal
    #      argument (values that are exact in every type involved); the results must be bit-identical
    for name in ("Rodas", "ode15s", "backward_euler", "implicit_trapezoid"):
        kind, call = kinds[name]
        mk = lambda: _int_dae()
        for what, y_alt, ts_alt in (("y0 int64", np.array([1, 3]), None), ("y0 float32", np.array([1, 3], dtype=np.float32), None),
                                    ("tspan float32", None, np.array([0, 2], dtype=np.float32)), ("tspan int8", None, np.array([0, 2], dtype=np.int8)),
                                    ("tspan list of int", None, [0, 2])):
            try:
                o = dict(rtol=1e-5, atol=1e-8, step_size=0.125)
                ref = quiet(call, mk(), np.array([0.0, 2.0]), np.array([1.0, 3.0]), Opt(**o))
                alt = quiet(call, mk(), np.array([0.0, 2.0]) if ts_alt is None else ts_alt, np.array([1.0, 3.0]) if y_alt is None else y_alt, Opt(**o))
                ncalls += 2
                if res_digest(ref) != res_digest(alt):
                    dT = len(np.asarray(ref.T)) - len(np.asarray(alt.T))
                    fails.append((dict(history=[dict(solver=name, arguments="float64 arrays"), dict(solver=name, arguments=what)], call_index=1),
                                  f"{name} with equal argument values given as {what} returns a different result than with float64 arrays "
                                  f"({len(np.asarray(ref.T))} vs {len(np.asarray(alt.T))} returned times, last state {np.asarray(ref.Y)[-1]} vs {np.asarray(alt.Y)[-1]})"))
            except Exception as ex:  # noqa
                rep.notes.append(f"dtype probe {name}/{what}: {type(ex).__name__}: {str(ex)[:80]}")
    # ---- the same for the fixed-step integrators on a span far from the origin, where single precision resolves 6e-5 only
    for name in ("backward_euler", "implicit_trapezoid", "fdae_solver"):
        kind, call = kinds[name]
        try:
            o = dict(step_size=1e-2, ite_tol=1e-10)
            mk2 = (lambda: factories["fdae"]()) if name == "fdae_solver" else (lambda: _int_dae())
            st = np.array([1.0]) if name == "fdae_solver" else np.array([1.0, 3.0])
            ref = quiet(call, mk2(), np.array([1000.0, 1000.5]), st.copy(), Opt(**o))
            alt = quiet(call, mk2(), np.array([1000, 1000.5], dtype=np.float32), st.copy(), Opt(**o))
            ncalls += 2
            if res_digest(ref) != res_digest(alt):
                fails.append((dict(history=[dict(solver=name, arguments="tspan float64 [1000, 1000.5]"), dict(solver=name, arguments="tspan float32 [1000, 1000.5]")], call_index=1),
                              f"{name} with the time span given as a float32 array of equal values returns a different result "
                              f"({len(np.asarray(ref.T))} vs {len(np.asarray(alt.T))} returned times, last time {np.asarray(ref.T)[-1]!r} vs {np.asarray(alt.T)[-1]!r})"))
        except Exception as ex:  # noqa
            rep.notes.append(f"dtype probe {name}/float32 span: {type(ex).__name__}: {str(ex)[:80]}")
    # ---- the result never aliases the caller's start: refilling the start array for the next run must not change a result
    for name in ("nr_method", "continuous_nr", "lm", "sicnm"):
        kind, call = kinds[name]
        try:
            mdl = factories[kind]()
            root = quiet(nr_method, factories[kind](), starts[kind].copy(), Opt(ite_tol=1e-13)).y
            start = np.array(np.asarray(root.array if hasattr(root, "array") else root), dtype=float)     # already a root: no iteration needed
            s1 = quiet(call, mdl, None, start, Opt(ite_tol=1e-6))
            ncalls += 1
            y1 = np.asarray(s1.y.array if hasattr(s1.y, "array") else s1.y)
            if np.shares_memory(y1, start):
                fails.append((dict(history=[dict(solver=name, start="a root of the model (ndarray)")], call_index=0),
                              f"{name} returns the caller's own start array as its result (started at a root): refilling the start for a "
                              f"second run changes the first result"))
        except Exception as ex:  # noqa
            rep.notes.append(f"alias probe {name}: {type(ex).__name__}: {str(ex)[:80]}")
    # ---- overwrite probe: a result is kept, the same solver is called again on a problem of the same size that needs more
    #      iterations / steps (tighter tolerance, farther start); the kept result must be untouched
    for name in ("nr_method", "continuous_nr", "lm", "sicnm", "Rodas", "ode15s", "backward_euler", "implicit_trapezoid", "fdae_solver"):
        kind, call = kinds[name]
        try:
            o1 = Opt(ite_tol=1e-5, rtol=1e-3, atol=1e-6, step_size=0.1)
            o2 = Opt(ite_tol=1e-11, rtol=1e-8, atol=1e-10, step_size=0.01)
            s1 = quiet(call, factories[kind](), [0.0, 1.0], starts[kind].copy(), o1)
            d1 = res_digest(s1)
            quiet(call, factories[kind](), [0.0, 1.0], starts[kind] * 1.7 + 0.3, o2)
            ncalls += 2
            if res_digest(s1) != d1:
                fails.append((dict(history=[dict(solver=name, opt="loose"), dict(solver=name, opt="tight, other start")], call_index=0),
                              f"the result returned by the first {name} call was changed by a second {name} call (same problem size, more steps)"))
        except Exception as ex:  # noqa
            rep.notes.append(f"overwrite probe {name}: {type(ex).__name__}: {str(ex)[:80]}")
    rep.cov["evaluations"] = ncalls
    rep.cov["distinct_nontrivial"] = nhist
    rep.cov["rule"] = ("histories of 2-5 calls over the nine solvers sharing one Opt, one model per kind and one y0 (ndarray or Vars), the caller "
                       "re-setting option values, spans and parameters between calls; each call is repeated on fresh objects of equal values and "
                       "compared bit-for-bit. distinct = histories")
    rep.cov["samples"] = hist_samples
    rep.cov["static_effect_findings"] = [f"{k}: {a}: {x}" for k, a, x in static_findings]
    seen = set()
    for case, m in fails:
        key = m[:35]
        if key in seen or len(seen) >= 6:
            continue
        seen.add(key)
        rep.violation("C14 fails on the real code: " + m, dict(kind="history", case=case, message=m))
    if not fails:
        for f in failed:
            rep.violation(f"effect-freedom obligation no longer checks: {f} (static findings: {static_findings[:4]}); "
                          f"{nhist} call histories showed no dependence on earlier calls",
                          dict(kind="proof", theorem=f, static_findings=[list(x) for x in static_findings]), has_input=False)


def replay(rep, payload):
    print("replay:", payload.get("message"))
    print(payload.get("case"))
