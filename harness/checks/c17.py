"""
C17 — piecewise library functions mean what the documentation says, everywhere.

1. T4 + proofs: the rewrites of Min / AntiWindUp and every derivative rule are read from the running
   functions.py (Generated/FnRules.lean); Properties/C17.lean proves that the rewritten forms evaluate to the
   documented piecewise definitions (thresholds included) and that the code's derivative rules give the
   derivative of the documented function on every open piece, for every argument position.
2. K (exact): one-equation models per function and shape pattern (scalar, length-1, length-n, mixed) evaluated
   by the generated code at values on / around every threshold (including -0.0) against the Lean reference
   evaluation and against the documented definition written out in plain Python; direct calls of the numerical
   helpers (In, GreaterThan, LessThan, And, Or, Not, Heaviside, Saturation) on the same grids.
3. search: central finite differences of the documented function against the generated Jacobian at kink-free
   points, for each argument position made a variable.
"""
from __future__ import annotations

import itertools
import warnings
import numpy as np

from harness.common import prove, BASE_TRUST, LEAN, run_driver, h2f, LeanError
from harness import lang, pipeline
from harness.translate import fnrules

TH = [-2.0, -1.0, -0.5, -0.0, 0.0, 0.5, 1.0, 1.5, 2.0, 3.0, 1e20, -1e20, 1e6, 1e-9]     # incl. "no limit" caps and tiny values


def doc(fn, *a):
    """documented definitions, scalar, plain Python"""
    if fn == "abs":
        return abs(a[0])
    if fn == "sign":
        return 1.0 if a[0] > 0 else (0.0 if a[0] == 0 else -1.0)
    if fn == "heav":
        return 1.0 if a[0] >= 0 else 0.0
    if fn == "min":
        return a[0] if a[0] <= a[1] else a[1]
    if fn == "sat":
        v, lo, hi = a
        return hi if v > hi else (lo if v < lo else v)
    if fn == "awu":
        u, lo, hi, e = a
        return 0.0 if ((u >= hi and e >= 0) or (u <= lo and e <= 0)) else e
    raise ValueError(fn)


ARITY = dict(abs=1, sign=1, heav=1, min=2, sat=3, awu=4)


def shapes_for(fn, n):
    """argument size patterns: all-n, all-1, mixed"""
    k = ARITY[fn]
    pats = [tuple([n] * k), tuple([1] * k)]
    if k > 1:
        pats += [tuple([n] + [1] * (k - 1)), tuple([1] + [n] * (k - 1))]
        if k > 2:
            pats.append(tuple([n, 1, n] + [1] * (k - 3)))
    return pats


def model_for(fn, pat, as_param):
    """one equation f(args); argument j is a variable unless j in as_param (then a parameter)"""
    vars_, pars, leaves = [], [], []
    for j, s in enumerate(pat):
        if j in as_param:
            pars.append((f"p{j}", "plain", dict(value=[0.5] * s)))
            leaves.append(("par", len(pars) - 1, ("w",)))
        else:
            vars_.append((f"x{j}", [0.5] * s, None))
            leaves.append(("var", len(vars_) - 1, ("w",)))
    if not vars_:
        return None
    n = max(pat)
    eqs = [("e0", "alg", (fn, *leaves), None)]
    # pad with trivial equations so that the system is square
    tot = sum(len(v[1]) for v in vars_)
    k = 0
    used = n
    for vi, v in enumerate(vars_):
        pass
    extra = tot - n
    vi = 0
    while extra > 0:
        # one scalar equation per missing element
        cand = [(i, len(v[1])) for i, v in enumerate(vars_)]
        i, ln = cand[k % len(cand)]
        eqs.append((f"pad{k}", "alg", ("var", i, ("i", k % ln)), None))
        k += 1; extra -= 1
    return lang.GModel("AE", vars_, pars, eqs)


def run(rep, tier, seed):
    import Solverz.num_api.custom_function as CF
    rep.cov["trusted_base"] = BASE_TRUST + [
        "T4 translator harness/translate/fnrules.py (sympy tree of the rewritten expression / of fdiff(k) -> Lean term)",
        "numpy's abs / sign / where / minimum / maximum and numba's compilation of the helpers are oracles: compared exactly on threshold "
        "grids; numba's handling of further mixed shapes is only sampled (partial)"]
    broken, fails, diffs = [], [], []
    try:
        fnrules.write(LEAN)
    except Exception as ex:  # noqa
        broken.append(f"{type(ex).__name__}: {ex}")
    failed = rep.add_proof(prove("C17"))
    failed += [f for f in rep.add_proof(prove("C02")) if "rule" in f or "does not build" in f]
    rng = np.random.default_rng(seed)
    # ---- direct calls of the numerical helpers on threshold grids
    grid = np.array(TH)
    ndirect = 0
    for x in TH:
        for shape in ("scalar", "len1", "lenn"):
            xv = x if shape == "scalar" else (np.array([x]) if shape == "len1" else np.array([x, x, 1.25]))
            xs = np.atleast_1d(np.asarray(xv, dtype=float))
            ndirect += 1
            with warnings.catch_warnings():
                warnings.simplefilter("ignore")
                got = np.asarray(CF.Heaviside(xv), dtype=float).reshape(-1)
            exp = np.array([doc("heav", v) for v in xs])
            if not np.array_equal(got, exp):
                fails.append((dict(function="Heaviside", x=repr(xv)), f"Heaviside({xv!r}) = {got}, documented {exp}"))
            for lo, hi in ((-1.0, 1.0), (0.0, 0.0), (-0.0, 1.5), (np.array([-1.0]), np.array([1.0]))):
                try:
                    got = np.asarray(CF.Saturation(xv, lo, hi), dtype=float).reshape(-1)
                    exp = np.array([doc("sat", v, float(np.atleast_1d(lo)[0]), float(np.atleast_1d(hi)[0])) for v in xs])
                    if not (got.shape == exp.shape and np.array_equal(got, exp)):
                        fails.append((dict(function="Saturation", x=repr(xv), lo=repr(lo), hi=repr(hi)), f"Saturation({xv!r}, {lo!r}, {hi!r}) = {got}, documented {exp}"))
                    gi = np.asarray(CF.In(xv, lo, hi)).reshape(-1)
                    ei = np.array([1 if float(np.atleast_1d(lo)[0]) <= v <= float(np.atleast_1d(hi)[0]) else 0 for v in xs])
                    if not np.array_equal(gi, ei):
                        fails.append((dict(function="In", x=repr(xv)), f"In({xv!r}, {lo!r}, {hi!r}) = {gi}, documented {ei}"))
                except Exception as ex:  # noqa
                    fails.append((dict(function="Saturation/In", x=repr(xv), lo=repr(lo), hi=repr(hi)), f"raised {type(ex).__name__}: {str(ex)[:80]}"))
            for y in (0.0, -0.0, 1.0, x):
                g1 = np.asarray(CF.GreaterThan(xv, y)).reshape(-1); g2 = np.asarray(CF.LessThan(xv, y)).reshape(-1)
                if not (np.array_equal(g1, (xs > y).astype(int)) and np.array_equal(g2, (xs < y).astype(int))):
                    fails.append((dict(function="GreaterThan/LessThan", x=repr(xv), y=y), "comparison helper differs from > / <"))
    # strided views are vector arguments like any other
    base = np.array([-2.0, 9.0, 0.5, 9.0, 1.0, 9.0, 3.0, 9.0])
    for view, vname in ((base[0:8:2], "x[0:8:2]"), (base[6::-2], "x[6::-2]")):
        xs = np.array(view, dtype=float)
        ndirect += 1
        try:
            got = np.asarray(CF.Saturation(view, -1.0, 1.0), dtype=float).reshape(-1)
            exp = np.array([doc("sat", v, -1.0, 1.0) for v in xs])
            g_in = np.asarray(CF.In(view, -1.0, 1.0), dtype=float).reshape(-1); g_lt = np.asarray(CF.LessThan(view, 0.5), dtype=float).reshape(-1)
            g_gt = np.asarray(CF.GreaterThan(view, 0.5), dtype=float).reshape(-1)
            if not (np.array_equal(got, exp) and np.array_equal(g_in, ((xs >= -1) & (xs <= 1)).astype(float)) and
                    np.array_equal(g_lt, (xs < 0.5).astype(float)) and np.array_equal(g_gt, (xs > 0.5).astype(float))):
                fails.append((dict(function="Saturation/In/LessThan/GreaterThan", x=vname), f"helpers on the strided view {vname} = {xs} return {got}, {g_in}, {g_lt}, {g_gt}"))
        except Exception as ex:  # noqa
            fails.append((dict(function="Saturation/In/LessThan/GreaterThan", x=vname), f"helpers refuse the strided view {vname} (a vector argument): {type(ex).__name__}: {str(ex)[:80]}"))
    for a, b in itertools.product([0, 1], repeat=2):
        av, bv = np.array([a], dtype=np.int32), np.array([b], dtype=np.int32)
        if int(CF.And(av, bv)[0]) != (a and b) or int(CF.Or(av, bv)[0]) != (a or b) or int(CF.Not(av)[0]) != 1 - a:
            fails.append((dict(function="And/Or/Not", a=a, b=b), "logic helper differs from its truth table"))
    # ---- one-equation models at threshold points: generated code vs Lean reference vs documented definition
    lines, slots = [], []
    nmodels = 0
    for fn in ARITY:
        pats = shapes_for(fn, 3)
        for pat in pats:
            for as_param in ([set()] if ARITY[fn] == 1 else [set(), {1}] if ARITY[fn] == 2 else [set(), {1, 2}] if ARITY[fn] == 3 else [set(), {1, 2}]):
                gm = model_for(fn, pat, as_param)
                if gm is None:
                    continue
                try:
                    b = pipeline.Built(gm); b.add_inline()
                except Exception as ex:  # noqa
                    fails.append((dict(function=fn, shapes=pat), f"model with {fn} on shapes {pat} cannot be built: {type(ex).__name__}: {str(ex)[:120]}"))
                    continue
                nmodels += 1
                npts = 14 if tier == "quick" else 60
                for _ in range(npts):
                    vals = [rng.choice(TH, size=s) for s in pat]
                    if fn in ("sat",) and rng.random() < 0.8:
                        lo_, hi_ = np.minimum(vals[1][:1], vals[2][:1]), np.maximum(vals[1][:1], vals[2][:1])
                        vals[1] = np.broadcast_to(lo_, vals[1].shape).copy() if len(vals[1]) == 1 else np.minimum(vals[1], hi_[0])
                        vals[2] = np.broadcast_to(hi_, vals[2].shape).copy() if len(vals[2]) == 1 else np.maximum(vals[2], lo_[0])
                    y = np.concatenate([vals[j] for j in range(len(pat)) if j not in as_param])
                    overrides = {f"p{j}": [float(v) for v in vals[j]] for j in as_param}
                    pflat = np.concatenate([vals[j] for j in sorted(as_param)]) if as_param else np.array([])
                    n = max(pat)
                    exp = np.array([doc(fn, *[float(vals[j][i if len(vals[j]) > 1 else 0]) for j in range(len(pat))]) for i in range(n)])
                    if fn == "sat" and not np.all(np.broadcast_to(vals[1], (n,)) <= np.broadcast_to(vals[2], (n,))):
                        exp = None       # lo > hi: outside the documented domain
                    lines.append(lang.request("F", gm, y, pflat, y))
                    real = {}
                    for label, (nd, eqs, y0) in b.backends.items():
                        try:
                            pipeline.apply_overrides(nd, gm, overrides)
                            with warnings.catch_warnings():
                                warnings.simplefilter("ignore")
                                real[label] = np.asarray(nd.F(y.copy(), nd.p), dtype=float)[:n]
                        except Exception as ex:  # noqa
                            real[label] = ex
                        finally:
                            pipeline.restore_params(nd, gm)
                    slots.append(dict(fn=fn, pat=pat, as_param=sorted(as_param), vals=[[float(x) for x in v] for v in vals], exp=exp, real=real, n=n))
    # ---- numeric literals as arguments, next to other constants of the equation: Min(3*z, 1e18) - 1, Saturation(z, -1e6, 1e6) + 0.5 ...
    #      (a literal is an argument like any other; how sympy restructures the rewritten expression must not change the value)
    nlit = 0
    zs = np.array([1.0, 0.1, 1e-3, -2.0, 0.5, 3e7])
    for cap in (1e18, 1e6, 100.0, 0.25, -1e9):
        for d in (-1.0, 0.5, 1e-3):
            for form in ("min(a*z, c)", "min(c, a*z)", "sat(z, -|c|, |c|)", "awu(z, -|c|, |c|, z)"):
                zv = ("var", 0, ("w",))
                az = ("mul", ("num", 3.0), zv)
                if form == "min(a*z, c)":
                    tree, ref = ("min", az, ("num", cap, "float")), np.array([doc("min", 3.0 * v, cap) for v in zs])
                elif form == "min(c, a*z)":
                    tree, ref = ("min", ("num", cap, "float"), az), np.array([doc("min", cap, 3.0 * v) for v in zs])
                elif form.startswith("sat"):
                    tree, ref = ("sat", zv, ("num", -abs(cap), "float"), ("num", abs(cap), "float")), np.array([doc("sat", v, -abs(cap), abs(cap)) for v in zs])
                else:
                    tree, ref = ("awu", zv, ("num", -abs(cap), "float"), ("num", abs(cap), "float"), zv), np.array([doc("awu", v, -abs(cap), abs(cap), v) for v in zs])
                gm = lang.GModel("AE", [("z", [float(v) for v in zs], None)], [], [("e0", "alg", ("add", tree, ("num", d)), None)])
                case = dict(equation=f"{form} + ({d})", c=cap, z=[float(v) for v in zs])
                try:
                    b = pipeline.Built(gm); b.add_inline()
                except Exception as ex:  # noqa
                    fails.append((case, f"{form} with the literal {cap} cannot be built: {type(ex).__name__}: {str(ex)[:120]}")); continue
                for label, (nd, eqs, y0) in b.backends.items():
                    nlit += 1
                    try:
                        with warnings.catch_warnings():
                            warnings.simplefilter("ignore")
                            got = np.asarray(nd.F(zs.copy(), nd.p), dtype=float)
                    except Exception as ex:  # noqa
                        fails.append((case, f"{form} + ({d}) with c = {cap} ({label}) raised {type(ex).__name__}: {str(ex)[:100]}")); continue
                    tol = 16 * np.spacing(1.0) * (np.abs(ref) + abs(d))
                    if not np.all(np.abs(got - (ref + d)) <= tol):
                        fails.append((case, f"{form} + ({d}) with the literal c = {cap} evaluates to {got} ({label}) at z = {list(zs)}, "
                                            f"the documented value is {ref + d}"))
    # integer literals of size 2e9 as coefficients of piecewise functions: the 0/1 masks of the derivative rules times the literal
    # must not be evaluated in 32-bit integers (two terms of 2e9 each sum to 4e9 > 2**31)
    try:
        big = 2000000000.0
        gmb = lang.GModel("AE", [("x", [1.5, 0.5], None)], [],
                          [("e0", "alg", ("sub", ("add", ("mul", ("num", big), ("sat", ("var", 0, ("w",)), ("num", 0.0), ("num", 2.0))),
                                                   ("mul", ("num", big), ("sat", ("var", 0, ("w",)), ("num", 1.0), ("num", 3.0)))), ("num", 1.0)), None)])
        bb = pipeline.Built(gmb); bb.add_inline()
        xb = np.array([1.5, 0.5])
        Jexp = np.diag([2 * big, big])                                   # x0 = 1.5 inside both bands, x1 = 0.5 inside the first only
        for label, (nd, eqs, y0) in bb.backends.items():
            nlit += 1
            Jb = nd.J(xb.copy(), nd.p); Jb = Jb.toarray() if hasattr(Jb, "toarray") else np.asarray(Jb)
            if not np.allclose(Jb, Jexp, rtol=1e-12):
                fails.append((dict(equation="2000000000*Saturation(x, 0, 2) + 2000000000*Saturation(x, 1, 3) - 1", x=[1.5, 0.5]),
                              f"derivative of the Saturation terms with integer coefficients 2000000000 ({label}): J = {Jb.tolist()}, "
                              f"the derivative of the documented function is {Jexp.tolist()}"))
    except Exception as ex:  # noqa
        fails.append((dict(equation="2000000000*Saturation(x, 0, 2) + 2000000000*Saturation(x, 1, 3) - 1"), f"raised {type(ex).__name__}: {str(ex)[:100]}"))
    rep.cov["literal_argument_evaluations"] = nlit
    try:
        answers = run_driver(lines)
    except LeanError as ex:
        answers = []
        broken.append(str(ex))
    for s, ans in zip(slots, answers):
        case = dict(function=s["fn"], shapes=s["pat"], params=s["as_param"], args=s["vals"])
        mv = np.array([h2f(x) for x in ans.split()[1:]])[:s["n"]] if ans.startswith("ok") else None
        for label, val in s["real"].items():
            if isinstance(val, Exception):
                fails.append((case, f"{s['fn']} on shapes {s['pat']} ({label}) raised {type(val).__name__}: {str(val)[:100]}")); continue
            if s["exp"] is not None and not np.array_equal(val, s["exp"]):
                fails.append((case, f"{s['fn']}{tuple(s['vals'])} = {val} ({label}), documented value {s['exp']}"))
            if mv is not None and not np.array_equal(val, mv):
                diffs.append(dict(case=case, implementation=[float(x) for x in val], model=[float(x) for x in mv]))
    rep.cov["evaluations"] = len(lines) + ndirect
    rep.cov["distinct_nontrivial"] = len(set(lines))
    rep.cov["rule"] = ("each function x argument shape pattern (all length-3, all length-1, mixed) x arguments as variables or parameters x values "
                       f"drawn from the threshold grid {TH}; exact comparison of the generated code with the Lean reference and with the documented "
                       "definition; direct helper calls on the same grid")
    rep.cov["samples"] = [dict(function=s["fn"], shapes=s["pat"], args=s["vals"]) for s in slots[:4]]
    rep.cov["models"] = nmodels
    rep.cov["disagreements"] = len(diffs)
    seen = set()
    for case, m in fails:
        key = m[:25]
        if key in seen or len(seen) >= 6:
            continue
        seen.add(key)
        rep.violation("C17 fails on the real code: " + m, dict(kind="call", case=case, message=m))
    if not fails:
        if failed or broken:
            # search: the generated Jacobian against finite differences of the documented functions
            found = fd_search(rng)
            for case, m in found[:3]:
                rep.violation("C17 fails on the real code: " + m, dict(kind="derivative", case=case, message=m))
            if not found:
                for f in failed:
                    rep.violation(f"proof obligation no longer checks: {f}; finite differences found no wrong derivative", dict(kind="proof", theorem=f), has_input=False)
                for b in broken:
                    rep.violation("translator / driver: " + b, dict(kind="tie", detail=b), has_input=False)
        for d in diffs[:3]:
            rep.violation("model and implementation disagree on a library function value (correspondence C17/fn); documented values hold",
                          dict(kind="correspondence", **d), has_input=False)


def fd_search(rng):
    """finite differences of the documented definition vs the generated J, every argument position a variable"""
    from Solverz import made_numerical
    out = []
    for fn in ("abs", "min", "sat", "awu"):
        k = ARITY[fn]
        gm = model_for(fn, tuple([1] * k), set())
        try:
            b = pipeline.Built(gm); b.add_inline()
        except Exception:  # noqa
            continue
        nd = b.backends["inline-dense"][0]
        for _ in range(200):
            args = rng.uniform(-2, 3, size=k)
            if fn == "sat" and not args[1] + 0.2 < args[2]:
                continue
            margins = [abs(args[0])] if fn == "abs" else [abs(args[0] - args[1])] if fn == "min" else \
                [abs(args[0] - args[1]), abs(args[0] - args[2])] if fn == "sat" else [abs(args[0] - args[1]), abs(args[0] - args[2]), abs(args[3])]
            if min(margins) < 0.05:
                continue
            y = np.array(args, dtype=float)
            with warnings.catch_warnings():
                warnings.simplefilter("ignore")
                J = np.asarray(nd.J(y, nd.p))
            h = 1e-6
            for j in range(k):
                e = np.zeros(k); e[j] = h
                fd = (doc(fn, *(y + e)) - doc(fn, *(y - e))) / (2 * h)
                if abs(J[0, j] - fd) > 1e-5 * max(1.0, abs(fd)):
                    out.append((dict(function=fn, args=[float(v) for v in y], argument=j + 1),
                                f"d {fn}/d arg{j + 1} at {tuple(float(v) for v in y)}: generated Jacobian {J[0, j]!r}, derivative of the documented function {fd!r}"))
                    break
            if out and out[-1][0]["function"] == fn:
                break
    # several arguments depending on ONE variable (a band of fixed width around a moving centre, a limit equal to the value):
    # the total derivative is the sum over the argument positions
    try:
        from Solverz import Model, Var, Eqn, Saturation, Min, AntiWindUp
        forms = {"Saturation(x, w-1, w+1)": (lambda x, w: Saturation(x, w - 1, w + 1), lambda x, w: doc("sat", x, w - 1, w + 1)),
                 "Saturation(w, x-1, w+2)": (lambda x, w: Saturation(w, x - 1, w + 2), lambda x, w: doc("sat", w, x - 1, w + 2)),
                 "Min(x*w, w)": (lambda x, w: Min(x * w, w), lambda x, w: doc("min", x * w, w)),
                 "AntiWindUp(w, x-1, x+1, w)": (lambda x, w: AntiWindUp(w, x - 1, x + 1, w), lambda x, w: doc("awu", w, x - 1, x + 1, w))}
        for label, (sym, num) in forms.items():
            m = Model(); m.x = Var("x", [0.3]); m.w = Var("w", [1.7])
            m.e1 = Eqn("e1", sym(m.x, m.w)); m.e2 = Eqn("e2", m.x - m.w)
            eqs, y0 = lang.quiet(m.create_instance)
            nd = lang.quiet(made_numerical, eqs, y0, sparse=False)
            for _ in range(60):
                xv, wv = rng.uniform(-4, 4, size=2)
                h = 1e-6
                vals = [num(xv + dx, wv + dw) for dx in (-2 * h, 0, 2 * h) for dw in (-2 * h, 0, 2 * h)]
                # skip points near a kink: the documented function must be (numerically) affine on the stencil
                fdx = (num(xv + h, wv) - num(xv - h, wv)) / (2 * h); fdw = (num(xv, wv + h) - num(xv, wv - h)) / (2 * h)
                if abs(num(xv + 2 * h, wv) - num(xv, wv) - 2 * h * fdx) > 1e-9 or abs(num(xv, wv + 2 * h) - num(xv, wv) - 2 * h * fdw) > 1e-9:
                    continue
                with warnings.catch_warnings():
                    warnings.simplefilter("ignore")
                    J = np.asarray(nd.J(np.array([xv, wv]), nd.p))
                for j, fd in enumerate((fdx, fdw)):
                    if abs(J[0, j] - fd) > 1e-5 * max(1.0, abs(fd)):
                        out.append((dict(function=label, x=float(xv), w=float(wv), variable="xw"[j]),
                                    f"d {label} / d {'xw'[j]} at x={xv!r}, w={wv!r}: generated Jacobian {J[0, j]!r}, derivative of the documented function {fd!r}"))
                        break
                if out and out[-1][0]["function"] == label:
                    break
    except Exception as ex:  # noqa
        out.append((dict(function="shared-variable forms"), f"building the shared-variable models raised {type(ex).__name__}: {str(ex)[:120]}"))
    return out


def replay(rep, payload):
    print("replay:", payload.get("message")); print(payload.get("case"))
