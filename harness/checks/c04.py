"""
C04 — mass matrix encodes exactly the declared differential structure.

1. proof obligations: Properties/C04.lean (row-exactness of the assembled triplets, M·y' picks the
   differentiated element, algebraic rows are zero, numpy-slice resolution of diff_var)
2. correspondence: random DAE declarations built with the real `Model`/`Ode`/`Eqn`; `DAE.M`
   (symbolic object, inline numerical model, pickled setting of a rendered module) as sorted
   triplets against the Lean `DaeDecl.mass` — exact comparison
3. independent oracle on the real code: expected 0/1 matrix computed from the declaration with
   plain numpy indexing, compared entry by entry
"""
from __future__ import annotations

import os
import shutil
import tempfile
import warnings
import io
import contextlib
import shutil
import sys
import numpy as np

from harness.common import run_driver, prove, BASE_TRUST, LeanError

NAMES = ["x", "y", "z", "u", "w", "q", "ab", "Pm", "b_1", "c"]


def gen_decl(rng, malformed):
    nv = int(rng.integers(1, 7))
    names = [str(n) for n in rng.permutation(NAMES)[:nv]]
    sizes = [int(rng.integers(1, 6)) for _ in names]
    ne = int(rng.integers(1, 7))
    kinds = ["ode"] + [str(rng.choice(["ode", "alg"])) for _ in range(ne - 1)]
    rng.shuffle(kinds)
    eqs = []
    for k in kinds:
        if k == "alg":
            eqs.append(dict(kind="alg", rhs=int(rng.choice([1, 1, 2, 3]))))
            continue
        v = int(rng.integers(0, nv))
        n = sizes[v]
        form = str(rng.choice(["whole", "idx", "slice", "slice", "strided", "pick"]))
        if form == "whole":
            e = dict(kind="whole", v=v)
            lhs = n
        elif form == "idx":
            lo = -n if malformed or rng.random() < 0.3 else 0
            i = int(rng.integers(lo, n))
            e = dict(kind="idx", v=v, i=i)
            lhs = len(np.arange(n)[i:i + 1])
        elif form == "strided":
            # x[a:b:step] incl. reversed slices: the equation elements pair with the selected elements in slice order
            step = int(rng.choice([-1, -1, 2, -2, 3]))
            a = None if rng.random() < 0.4 else int(rng.integers(-n, n))
            b = None if rng.random() < 0.4 else int(rng.integers(-n, n + 1))
            if not malformed:
                for _ in range(10):
                    if len(np.arange(n)[a:b:step]) > 0:
                        break
                    a, b = None, None
            e = dict(kind="strided", v=v, a=a, b=b, step=step)
            lhs = len(np.arange(n)[a:b:step])
        elif form == "pick":
            # x[[k1, k2, ...]]: an index list in any order (distinct elements)
            cnt = int(rng.integers(1, n + 1))
            ks = [int(i) for i in rng.permutation(n)[:cnt]]
            ks = [k - n if rng.random() < 0.3 else k for k in ks]
            e = dict(kind="pick", v=v, ks=ks)
            lhs = cnt
        else:
            a = None if rng.random() < 0.2 else int(rng.integers(-n, n))
            b = None if rng.random() < 0.2 else int(rng.integers(-n, n + 2))
            if not malformed:
                # mostly non-empty selections
                for _ in range(10):
                    if len(np.arange(n)[a:b]) > 0:
                        break
                    a = None if rng.random() < 0.3 else int(rng.integers(0, n))
                    b = None if rng.random() < 0.3 else int(rng.integers(1, n + 1))
            e = dict(kind="slice", v=v, a=a, b=b)
            lhs = len(np.arange(n)[a:b])
        # rhs size: equal to lhs, or scalar; malformed: any
        if malformed and rng.random() < 0.4:
            e["rhs"] = int(rng.integers(1, 5))
        else:
            e["rhs"] = int(rng.choice([1, max(lhs, 1)]))
        eqs.append(e)
    return dict(names=names, sizes=sizes, eqs=eqs)


def lhs_size(decl, e):
    n = decl["sizes"][e["v"]]
    if e["kind"] == "whole":
        return n
    if e["kind"] == "idx":
        return len(np.arange(n)[e["i"]:e["i"] + 1])
    if e["kind"] == "strided":
        return len(np.arange(n)[e["a"]:e["b"]:e["step"]])
    if e["kind"] == "pick":
        return len(e["ks"])
    return len(np.arange(n)[e["a"]:e["b"]])


def line_of(decl):
    parts = ["c04 mass", str(len(decl["sizes"]))] + [str(s) for s in decl["sizes"]] + [str(len(decl["eqs"]))]
    for e in decl["eqs"]:
        k = e["kind"]
        if k == "alg":
            parts += ["alg", str(e["rhs"])]
        elif k == "whole":
            parts += ["whole", str(e["v"]), str(e["rhs"])]
        elif k == "idx":
            parts += ["idx", str(e["v"]), str(e["i"]), str(e["rhs"])]
        elif k == "strided":
            parts += ["strided", str(e["v"]), "none" if e["a"] is None else str(e["a"]),
                      "none" if e["b"] is None else str(e["b"]), str(e["step"]), str(e["rhs"])]
        elif k == "pick":
            parts += ["pick", str(e["v"]), str(len(e["ks"]))] + [str(x) for x in e["ks"]] + [str(e["rhs"])]
        else:
            parts += ["slice", str(e["v"]), "none" if e["a"] is None else str(e["a"]),
                      "none" if e["b"] is None else str(e["b"]), str(e["rhs"])]
    return " ".join(parts)


def build(decl, rng):
    """Build the model with the real API. Returns (sdae, y0, eqn_names)."""
    from Solverz import Model, Var, Eqn, Ode
    m = Model()
    vs = []
    for n, s in zip(decl["names"], decl["sizes"]):
        v = Var(n, [float(x) for x in rng.integers(1, 5, size=s)])
        setattr(m, n, v)
        vs.append(v)

    def vec(size):
        # an expression that evaluates to a vector of `size` elements (or a scalar for size 1)
        cands = [i for i, s in enumerate(decl["sizes"]) if s >= size]
        if size == 1:
            if cands and rng.random() < 0.7:
                i = int(rng.choice(cands))
                return -vs[i][int(rng.integers(0, decl["sizes"][i]))]
            return int(rng.integers(0, 3))
        if not cands:
            return None
        i = int(rng.choice(cands))
        if decl["sizes"][i] == size and rng.random() < 0.5:
            return -2 * vs[i]
        return -vs[i][0:size]

    names = []
    for k, e in enumerate(decl["eqs"]):
        rhs = vec(e["rhs"])
        if rhs is None:
            return None
        nm = f"e{k}"
        names.append(nm)
        if e["kind"] == "alg":
            setattr(m, nm, Eqn(nm, rhs))
        else:
            v = vs[e["v"]]
            if e["kind"] == "whole":
                dv = v
            elif e["kind"] == "idx":
                dv = v[e["i"]]
            elif e["kind"] == "strided":
                dv = v[e["a"]:e["b"]:e["step"]]
            elif e["kind"] == "pick":
                dv = v[list(e["ks"])]
            else:
                dv = v[e["a"]:e["b"]]
            setattr(m, nm, Ode(nm, rhs, dv))
    with warnings.catch_warnings():
        warnings.simplefilter("ignore")
        sdae, y0 = m.create_instance()
    return sdae, y0, names


def trip(M):
    from scipy.sparse import coo_array
    C = coo_array(M)
    t = sorted((int(r), int(c), float(v)) for r, c, v in zip(C.row, C.col, C.data) if v != 0)
    return t, tuple(int(x) for x in M.shape)


def fmt(t, shape):
    if any(v != 1.0 for _, _, v in t):
        return f"ok {shape[0]} {shape[1]} NOT-0/1 {t}"
    return f"ok {shape[0]} {shape[1]} " + " ".join(f"{r} {c}" for r, c, _ in t)


def errkind(e):
    for k, v in ((KeyError, "key"), (ValueError, "value"), (TypeError, "type"), (IndexError, "index"),
                 (NotImplementedError, "notimpl")):
        if isinstance(e, k):
            return v
    return "other"


def expected_matrix(decl, sdae, y0, names):
    """Property oracle: the 0/1 matrix the declaration means, from the *reported* equation and
    variable offsets and plain numpy selection."""
    R = int(sdae.eqn_size)
    C = int(y0.total_size)
    E = np.zeros((R, C))
    for nm, e in zip(names, decl["eqs"]):
        if e["kind"] == "alg":
            continue
        rows = np.asarray(sdae.a.v[nm])
        vname = decl["names"][e["v"]]
        cols_all = np.asarray(y0.a.v[vname])
        if e["kind"] == "whole":
            cols = cols_all
        elif e["kind"] == "idx":
            n = len(cols_all)
            i = e["i"] if e["i"] >= 0 else e["i"] + n
            cols = cols_all[[i]]
        elif e["kind"] == "strided":
            cols = cols_all[e["a"]:e["b"]:e["step"]]
        elif e["kind"] == "pick":
            cols = cols_all[list(e["ks"])]
        else:
            cols = cols_all[e["a"]:e["b"]]
        if len(rows) != len(cols):
            return None     # ill-formed declaration (size mismatch): outside the property's domain
        for r, c in zip(rows, cols):
            E[r, c] += 1
    return E


def run(rep, tier, seed):
    rep.cov["trusted_base"] = BASE_TRUST + [
        "correspondence runner harness/checks/c04.py (declaration generator, triplet canonicalisation)",
        "numpy basic slicing and scipy csc_array duplicate summation are modelled, not verified"]
    failed = rep.add_proof(prove("C04"))
    rng = np.random.default_rng(seed)
    ndecl, ninline, nmodule = (300, 60, 6) if tier == "quick" else (6000, 600, 40)
    lines, expect, decls, fails = [], [], [], []
    hist = dict(whole=0, idx=0, slice=0, strided=0, pick=0, alg=0, neg_idx=0, open_slice=0, scalar_rhs_vector_lhs=0, errors=0, interleaved=0)
    tmp = tempfile.mkdtemp(prefix="c04_")
    try:
        n_inline = n_module = 0
        for k in range(ndecl):
            mal = bool(rng.random() < 0.2)
            decl = gen_decl(rng, mal)
            for e in decl["eqs"]:
                hist[e["kind"]] += 1
                if e["kind"] == "idx" and e["i"] < 0:
                    hist["neg_idx"] += 1
                if e["kind"] == "slice" and (e["a"] is None or e["b"] is None):
                    hist["open_slice"] += 1
            kinds = [e["kind"] == "alg" for e in decl["eqs"]]
            if any(kinds[i] and not kinds[i + 1] for i in range(len(kinds) - 1)):
                hist["interleaved"] += 1
            sink = io.StringIO()
            try:
                with contextlib.redirect_stdout(sink), warnings.catch_warnings():
                    warnings.simplefilter("ignore")
                    built = build(decl, rng)
                    if built is None:
                        continue
                    sdae, y0, names = built
                    M = sdae.M
                    t, shape = trip(M)
                    ans = fmt(t, shape)
                    E = expected_matrix(decl, sdae, y0, names)
                    if E is not None and (M.shape != E.shape or not np.array_equal(M.toarray(), E)):
                        fails.append((decl, f"DAE.M differs from the declared structure: got triplets {t}, expected "
                                            f"{[(int(r), int(c)) for r, c in zip(*np.nonzero(E))]}"))
            except Exception as ex:  # noqa
                ans = "err " + errkind(ex)
                hist["errors"] += 1
                E = None
            lines.append(line_of(decl)); expect.append(ans); decls.append(decl)
            # other backends must carry the same matrix (only for well-formed declarations)
            wellformed = E is not None and all(e["kind"] == "alg" or e["rhs"] in (1, lhs_size(decl, e)) for e in decl["eqs"])
            if not wellformed:
                continue
            try:
                with contextlib.redirect_stdout(sink), warnings.catch_warnings():
                    warnings.simplefilter("ignore")
                    if n_inline < ninline:
                        n_inline += 1
                        from Solverz import made_numerical
                        for sp in (True, False):
                            nd = made_numerical(sdae, y0, sparse=sp)
                            if trip(nd.M) != (t, shape):
                                fails.append((decl, f"inline backend (sparse={sp}) carries a different mass matrix: {trip(nd.M)} vs {t}"))
                    if n_module < nmodule:
                        n_module += 1
                        from Solverz import module_printer, load
                        name = f"c04mod{k}"
                        module_printer(sdae, y0, name, directory=tmp, jit=False).render()
                        aux = load(os.path.join(tmp, name, "param_and_setting.pkl"))
                        if trip(aux["eqn_param"]["M"]) != (t, shape):
                            fails.append((decl, f"rendered module carries a different mass matrix: {trip(aux['eqn_param']['M'])} vs {t}"))
            except Exception as ex:  # noqa
                hist["backend_unavailable"] = hist.get("backend_unavailable", 0) + 1
                rep.notes.append(f"backend generation raised {type(ex).__name__} for {line_of(decl)}")
    finally:
        shutil.rmtree(tmp, ignore_errors=True)
    diffs, broken = [], []
    try:
        got = run_driver(lines)
        for d, e, g, l in zip(decls, expect, got, lines):
            if e != g:
                diffs.append(dict(declaration=d, line=l, implementation=e, model=g))
    except LeanError as ex:
        broken.append(str(ex))
    # ---- generation histories: one symbolic DAE, numerical models made for several variable layouts in turn; the mass matrix of
    #      each must be the one a fresh DAE object gives for that layout (nothing cached from an earlier layout)
    from harness import lang as _lang, pipeline as _pipe
    htmp = tempfile.mkdtemp(prefix="c04h_")
    try:
        gms = [m for m in _lang.corpus() if m.kind == "DAE"] + [_lang.Gen(rng, kind="DAE").model() for _ in range(2 if tier == "quick" else 40)]
        hf, nh = _pipe.regen_histories(gms, rng, htmp, "c04h", what=("M",), with_module=True)
    finally:
        shutil.rmtree(htmp, ignore_errors=True)
        if htmp in sys.path:
            sys.path.remove(htmp)
    rep.cov["generation_histories"] = nh
    hist_fails = list(hf)
    rep.cov["evaluations"] = len(lines)
    rep.cov["distinct_nontrivial"] = len({l for l, d in zip(lines, decls) if len(d["eqs"]) > 1})
    rep.cov["rule"] = ("random DAE declarations (1-6 variables of sizes 1-5 in random order, 1-6 equations, any interleaving of Ode/Eqn, "
                       "diff_var whole / x[i] incl. negative i / x[a:b] incl. open and negative bounds, scalar or vector right-hand sides; "
                       "20% malformed: size mismatches, empty selections). distinct = distinct declarations with > 1 equation")
    rep.cov["samples"] = [dict(line=l, answer=e) for l, e in list(zip(lines, expect))[:4]]
    rep.cov["histogram"] = hist
    rep.cov["inline_backends_compared"] = n_inline
    rep.cov["rendered_modules_compared"] = n_module
    rep.cov["disagreements"] = len(diffs)
    for decl, m in fails[:5]:
        rep.violation("C04 fails on the real code: " + m, dict(kind="declaration", declaration=decl, line=line_of(decl), message=m))
    for case, m in hist_fails[:3]:
        rep.violation("C04 fails on the real code: " + m, dict(kind="generation-history", case=case, message=m))
    if not fails and not hist_fails:
        for f in failed:
            rep.violation(f"proof obligation no longer checks: {f}; oracle found no failing declaration among {len(lines)}",
                          dict(kind="proof", theorem=f), has_input=False)
        for b in broken:
            rep.violation("driver: " + b, dict(kind="driver", detail=b), has_input=False)
        for d in diffs[:5]:
            rep.violation("model and implementation disagree on DAE.M (correspondence C04/mass); the declared-structure oracle found no failing input",
                          dict(kind="correspondence", **d), has_input=False)


def replay(rep, payload):
    decl = payload.get("declaration")
    if not decl:
        print("replay: nothing executable (proof/driver breakage):", payload); return
    rng = np.random.default_rng(0)
    with warnings.catch_warnings():
        warnings.simplefilter("ignore")
        try:
            sdae, y0, names = build(decl, rng)
            M = sdae.M
            E = expected_matrix(decl, sdae, y0, names)
            print("M =\n", M.toarray(), "\nexpected =\n", E)
            if E is not None and not np.array_equal(M.toarray(), E):
                rep.violation("replayed failure", payload)
        except Exception as ex:  # noqa
            print("implementation raises", type(ex).__name__, ex)
    print("model:", run_driver([line_of(decl)])[0])
