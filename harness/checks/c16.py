"""
C16 — named access and flat storage (Address / Vars / TimeVars / parse_*_v).

1. proof obligations: Properties/C16.lean (heap model, refinement to an immutable spec)
2. correspondence: seeded op sequences run on the real classes and on the Lean heap model
   (`c16` line protocol); after every op the answer and the full observable state of every
   object are compared exactly (floats travel as bit patterns)
3. independent property oracle on the real code for the same sequences (used as the failing
   input search when 1 or 2 break, and run always because it is cheap)
"""
from __future__ import annotations

import copy
import warnings
import numpy as np

from harness.common import f2h, fl, run_driver, prove, BASE_TRUST, LeanError

ERR = {KeyError: "key", ValueError: "value", TypeError: "type", IndexError: "index",
       NotImplementedError: "notimpl"}


def errkind(e):
    for k, v in ERR.items():
        if type(e) is k:
            return v
    for k, v in ERR.items():
        if isinstance(e, k):
            return v
    return "other"


def show_addr(a):
    ents = []
    seen = set()
    for n in a.object_list:
        v = a.v.get(n)
        if v is None:
            s = f"{n}=?"
        elif len(v) == 0:
            s = f"{n}=_+0"
        else:
            if not np.array_equal(v, np.arange(v[0], v[0] + len(v))):
                s = f"{n}=noncontig{list(v)}"
            else:
                s = f"{n}={int(v[0])}+{len(v)}"
        if s not in seen:
            seen.add(s)
            ents.append(s)
    lens = "[" + ", ".join(str(int(x)) for x in a.length_array) + "]"
    return "{" + ",".join(ents) + f"|{lens}|total={int(a.total_size)}" + "}"


class Impl:
    """Runs ops on the real Solverz classes, mirroring the heap indices of the model."""

    def __init__(self):
        from Solverz.utilities.address import Address, combine_Address
        from Solverz.variable.variables import Vars, TimeVars, combine_Vars
        from Solverz.solvers.parser import parse_ae_v, parse_dae_v
        self.Address, self.combine_Address = Address, combine_Address
        self.Vars, self.TimeVars, self.combine_Vars = Vars, TimeVars, combine_Vars
        self.parse_ae_v, self.parse_dae_v = parse_ae_v, parse_dae_v
        self.reset()

    def reset(self):
        self.addrs, self.vars, self.tvs = [], [], []

    def _reg_addr(self, a):
        for i, b in enumerate(self.addrs):
            if a is b:
                return i
        self.addrs.append(a)
        return len(self.addrs) - 1

    def _reg_vars(self, v):
        self._reg_addr(v.a)
        self.vars.append(v)
        return len(self.vars) - 1

    def _reg_tv(self, t):
        self._reg_addr(t.a)
        self.tvs.append(t)
        return len(self.tvs) - 1

    def dump(self):
        out = [f"A{i}:{show_addr(a)}" for i, a in enumerate(self.addrs)]
        out += [f"V{i}:{show_addr(v.a)}[{fl(v.array)}]" for i, v in enumerate(self.vars)]
        for i, t in enumerate(self.tvs):
            rows = " ; ".join(fl(r) for r in t.array)
            out.append(f"T{i}:{show_addr(t.a)}len={t.len}[{rows}]")
        return " || ".join(out)

    def step(self, w):
        try:
            return "ok " + self._step(w)
        except Exception as e:  # noqa
            return "err " + errkind(e)

    def _step(self, w):
        op = w[0]
        A, V, T = self.addrs, self.vars, self.tvs
        if op == "reset":
            self.reset(); return "unit"
        if op == "anew":
            return f"addr {self._reg_addr(self.Address())}"
        if op == "aadd":
            A[int(w[1])].add(w[2], int(w[3])); return "unit"
        if op == "aupd":
            A[int(w[1])].update(w[2], int(w[3])); return "unit"
        if op == "aalias":
            return f"addr {self._reg_addr(A[int(w[1])].derive_alias(w[2]))}"
        if op == "acomb":
            return f"addr {self._reg_addr(self.combine_Address(A[int(w[1])], A[int(w[2])]))}"
        if op == "aget":
            s = A[int(w[1])][w[2]]
            return f"slice {int(s.start)} {int(s.stop)}"
        if op == "ainq":
            return f"name {A[int(w[1])].inquiry_eqn_name(int(w[2]))}"
        if op == "vnew":
            v = self.Vars(A[int(w[1])], np.array([_h(x) for x in w[2:]], dtype=float))
            return f"vars {self._reg_vars(v)}"
        if op == "vget":
            return "arr " + fl(V[int(w[1])][w[2]])
        if op == "vgeti":
            return "arr " + fl([V[int(w[1])][int(w[2])]])
        if op == "vset":
            vals = [_h(x) for x in w[3:]]
            V[int(w[1])][w[2]] = np.array(vals, dtype=float)
            return "unit"
        if op == "vop":
            v = V[int(w[1])]
            kind = w[4]
            ann = [t[1:] for t in w if t.startswith("@")]        # how the operand is handed over (not part of the model's protocol)
            w = [t for t in w if not t.startswith("@")]
            if kind == "s":
                o = _h(w[5])
                if ann:                                            # the same number as a numpy scalar
                    o = getattr(np, ann[0])(o)
            elif kind == "a":
                o = np.array([_h(x) for x in w[5:]], dtype=float)
                if ann and ann[0] == "col":                        # the library's default Array shape (n, 1)
                    o = o.reshape(-1, 1)
            else:
                o = V[int(w[5])]
            import operator
            f = dict(add=operator.add, sub=operator.sub, mul=operator.mul, div=operator.truediv)[w[2]]
            with warnings.catch_warnings():
                warnings.simplefilter("ignore")
                r = f(v, o) if w[3] == "l" else f(o, v)
            if isinstance(r, self.Vars):
                return f"vars {self._reg_vars(r)}"
            if isinstance(r, np.ndarray):
                return "arr " + fl(r.reshape(-1)) if r.size == v.array.size else f"arr-of-shape {r.shape}"
            if r is None:
                return "none"
            raise RuntimeError(f"unexpected result {type(r)}")
        if op == "valias":
            return f"vars {self._reg_vars(V[int(w[1])].derive_alias(w[2]))}"
        if op == "vcomb":
            return f"vars {self._reg_vars(self.combine_Vars(V[int(w[1])], V[int(w[2])]))}"
        if op == "tnew":
            return f"tv {self._reg_tv(self.TimeVars(V[int(w[1])], int(w[2])))}"
        if op == "trow":
            return f"vars {self._reg_vars(T[int(w[1])][int(w[2])])}"
        if op == "tname":
            m = T[int(w[1])][w[2]]
            return "mat " + " ; ".join(fl(r) for r in m)
        if op == "tslice":
            stop = None if w[3] == "none" else int(w[3])
            return f"tv {self._reg_tv(T[int(w[1])][int(w[2]):stop])}"
        if op == "tset":
            T[int(w[1])][int(w[2])] = V[int(w[3])]; return "unit"
        if op == "tapp":
            T[int(w[1])].append(T[int(w[2])]); return "unit"
        if op == "pae":
            return f"vars {self._reg_vars(self.parse_ae_v(np.array([_h(x) for x in w[2:]], dtype=float), A[int(w[1])]))}"
        if op == "pdae":
            nc = int(w[2])
            Y = np.array([_h(x) for x in w[3:]], dtype=float).reshape(-1, nc)
            return f"tv {self._reg_tv(self.parse_dae_v(Y, A[int(w[1])]))}"
        raise RuntimeError("bad-op")


def _h(s):
    from harness.common import h2f
    return h2f(s)


# ----------------------------------------------------------------------------- generator

NAMES = ["x", "y", "z", "u", "w", "q", "ab", "a", "b_1", "Pm"]
VALS = [0.0, 1.0, -1.0, 2.0, 0.5, -0.25, 3.0, 4.0, 1.5, -2.0, 8.0, 0.125]


class Gen:
    """Generates the next op by looking at the implementation's live objects, so every
    reference is valid and 'mostly valid' really is mostly valid."""

    def __init__(self, rng, malformed, impl):
        self.r = rng
        self.mal = malformed
        self.impl = impl
        self.hist = {}

    def val(self):
        return float(self.r.choice(VALS))

    def vals(self, n):
        return [self.val() for _ in range(n)]

    def bound(self, a):
        return any(v.a is a for v in self.impl.vars) or any(t.a is a for t in self.impl.tvs)

    def layout_ops(self):
        r = self.r
        nv = int(r.integers(1, 7))
        names = [str(x) for x in r.permutation(NAMES)[:nv]]
        aid = len(self.impl.addrs)
        ops = ["anew"]
        tot = 0
        for n in names:
            ln = int(r.integers(1, 6))
            if self.mal and r.random() < 0.1:
                ln = 0
            tot += ln
            ops.append(f"aadd {aid} {n} {ln}")
        if r.random() < 0.3 and nv >= 2:
            # an address that is still being laid out (no collection bound to it yet): slices are read, an earlier name is resized,
            # the slices are read again
            ops += [f"aget {aid} {n}" for n in names[1:]]
            ops.append(f"aupd {aid} {names[int(r.integers(0, nv - 1))]} {int(r.integers(1, 6))}")
            ops += [f"aget {aid} {n}" for n in names]
            return ops
        ops.append(f"vnew {aid} " + fl(self.vals(tot)))
        return ops

    def pick_name(self, a):
        if (self.mal and self.r.random() < 0.15) or not a.object_list:
            return "nosuch"
        return str(self.r.choice(a.object_list))

    def same_layout(self, a, b):
        return a.object_list == b.object_list and list(a.length_array) == list(b.length_array)

    KINDS = ["aget", "ainq", "vget", "vgeti", "vset", "vset", "vop", "vop", "vop", "vop", "valias", "vcomb", "tnew", "trow",
             "tname", "tslice", "tset", "tset", "tapp", "pae", "pdae", "aalias", "acomb", "aupd", "aadd", "vnew", "layout"]

    def next(self):
        for _ in range(60):
            k = str(self.r.choice(self.KINDS))
            o = self._op(k)
            if o is not None:
                self.hist[k] = self.hist.get(k, 0) + 1
                return o
        return ["dump"]

    def _op(self, k):
        r, mal, I = self.r, self.mal, self.impl
        if k == "layout":
            return self.layout_ops() if len(I.addrs) < 8 else None
        if not I.addrs:
            return None
        aid = int(r.integers(0, len(I.addrs)))
        a = I.addrs[aid]
        tot = int(a.total_size)
        if k == "aget":
            return [f"aget {aid} {self.pick_name(a)}"]
        if k == "ainq":
            hi = tot + (2 if mal else 0)
            return [f"ainq {aid} {int(r.integers(0, hi))}"] if hi > 0 else None
        if k in ("aupd", "aadd"):
            if self.bound(a):      # documented usage: the layout is fixed once bound to a collection
                return None
            if k == "aadd":
                n = str(r.choice(NAMES))
                if n in a.object_list and not mal:
                    return None
                return [f"aadd {aid} {n} {int(r.integers(1, 6))}"]
            return [f"aupd {aid} {self.pick_name(a)} {int(r.integers(1, 6))}"]
        if k == "aalias":
            return [f"aalias {aid} {str(r.choice(['0', '_tag', '1']))}"]
        if k == "acomb":
            bid = int(r.integers(0, len(I.addrs)))
            if set(a.object_list) & set(I.addrs[bid].object_list) and not mal:
                return None
            return [f"acomb {aid} {bid}"]
        if k == "vnew":
            n = tot + (1 if mal and r.random() < 0.3 else 0)
            return [f"vnew {aid} " + fl(self.vals(n))]
        if k == "pae":
            return [f"pae {aid} " + fl(self.vals(tot))]
        if k == "pdae":
            if tot == 0:
                return None
            return [f"pdae {aid} {tot} " + fl(self.vals(tot * int(r.integers(1, 5))))]
        if not I.vars:
            return None
        vid = int(r.integers(0, len(I.vars)))
        v = I.vars[vid]
        n = v.array.shape[0]
        if k == "vget":
            return [f"vget {vid} {self.pick_name(v.a)}"]
        if k == "vgeti":
            lo, hi = (-n - 1, n + 1) if mal else (-n, n)
            return [f"vgeti {vid} {int(r.integers(lo, hi))}"] if hi > lo else None
        if k == "vset":
            nm = self.pick_name(v.a)
            ln = int(v.a.size[nm]) if nm in v.a.object_list else 1
            if mal and r.random() < 0.3:
                ln += 1
            return [f"vset {vid} {nm} " + fl(self.vals(ln))]
        if k == "vop":
            op = str(r.choice(["add", "sub", "mul", "div"]))
            side = str(r.choice(["l", "r"]))
            kind = str(r.choice(["s", "a", "v"]))
            if kind == "s":
                # the same number as a Python float, or as a numpy scalar (integral values for the integer types)
                ann = str(r.choice(["", "", "@float64", "@float32", "@int64", "@int32"]))
                x = self.val()
                if ann in ("@int64", "@int32", "@float32"):
                    x = float(int(r.integers(-4, 6))) or 2.0
                return [f"vop {vid} {op} {side} s {f2h(x)}" + (" " + ann if ann else "")]
            if kind == "a":
                ln = n
                if mal and r.random() < 0.3:
                    ln = int(r.choice([1, n + 1]))
                col = " @col" if (ln == n and n > 1 and r.random() < 0.3) else ""     # the library's default Array shape (n, 1)
                return [f"vop {vid} {op} {side} a " + fl(self.vals(ln)) + col]
            cands = [i for i, w in enumerate(I.vars) if self.same_layout(w.a, v.a)]
            if mal and r.random() < 0.3:
                cands = list(range(len(I.vars)))
            wid = int(r.choice(cands))
            # with two collections Python always dispatches the left operand's method
            return [f"vop {vid} {op} l v {wid}"]
        if k == "valias":
            return [f"valias {vid} {str(r.choice(['0', '_p']))}"]
        if k == "vcomb":
            wid = int(r.integers(0, len(I.vars)))
            if set(v.a.object_list) & set(I.vars[wid].a.object_list) and not mal:
                return None
            return [f"vcomb {vid} {wid}"]
        if k == "tnew":
            return [f"tnew {vid} {int(r.integers(0 if mal else 1, 6))}"]
        if not I.tvs:
            return None
        tid = int(r.integers(0, len(I.tvs)))
        t = I.tvs[tid]
        if k == "trow":
            lo, hi = (-t.len - 1, t.len + 2) if mal else (0, t.len)
            return [f"trow {tid} {int(r.integers(lo, hi))}"] if hi > lo else None
        if k == "tname":
            return [f"tname {tid} {self.pick_name(t.a)}"]
        if k == "tslice":
            if t.len == 0:
                return None
            s = int(r.integers(0, t.len))
            e = int(r.integers(s, t.len + 1))
            if mal and r.random() < 0.3:
                s, e = int(r.integers(-t.len - 1, t.len + 2)), int(r.integers(-t.len - 1, t.len + 2))
            return [f"tslice {tid} {s} {'none' if r.random() < 0.2 else e}"]
        if k == "tset":
            cands = [i for i, w in enumerate(I.vars) if w.array.shape[0] == t.array.shape[1]]
            if mal and r.random() < 0.3:
                cands = list(range(len(I.vars)))
            if not cands or t.len == 0:
                return None
            lo, hi = (-t.len - 1, t.len + 2) if mal else (0, t.len)
            return [f"tset {tid} {int(r.integers(lo, hi))} {int(r.choice(cands))}"]
        if k == "tapp":
            cands = [i for i, w in enumerate(I.tvs) if self.same_layout(w.a, t.a)]
            if mal and r.random() < 0.3:
                cands = list(range(len(I.tvs)))
            return [f"tapp {tid} {int(r.choice(cands))}"]
        return None


# ----------------------------------------------------------------------------- property oracle on the real code

class _Bare:
    """an address that is not (yet) bound to a collection, seen through the same oracle"""
    def __init__(self, a):
        self.a = a
        self.array = np.zeros((int(np.sum(a.length_array)),))


def oracle_state(impl, report_fail):
    """C16's first sentence, checked directly on every live object with distinct names."""
    for kind, objs in (("V", impl.vars), ("T", impl.tvs), ("A", [_Bare(a) for a in impl.addrs])):
        for i, o in enumerate(objs):
            a = o.a
            if len(set(a.object_list)) != len(a.object_list):
                continue
            pos = 0
            for n in a.object_list:
                v = a.v[n]
                ln = int(a.size[n])
                if len(v) != ln or (ln and (v[0] != pos or v[-1] != pos + ln - 1)):
                    report_fail(f"{kind}{i}: variable {n} occupies {list(v)} but declaration order puts it at [{pos},{pos + ln})")
                pos += ln
            width = o.array.shape[-1]
            if pos != width and not (kind == "T" and o.array.shape[0] == 0 and False):
                report_fail(f"{kind}{i}: slices cover [0,{pos}) but the flat array has width {width}")
            if int(a.total_size) != pos:
                report_fail(f"{kind}{i}: total_size {int(a.total_size)} != sum of slices {pos}")


def snapshot(impl):
    return ([a_state(a) for a in impl.addrs],
            [(a_state(v.a), v.array.copy()) for v in impl.vars],
            [(a_state(t.a), t.array.copy()) for t in impl.tvs])


def a_state(a):
    return (tuple(a.object_list), tuple(int(x) for x in a.length_array),
            tuple((k, tuple(int(x) for x in v)) for k, v in a.v.items()))


def same(x, y):
    return x.shape == y.shape and np.array_equal(x, y, equal_nan=True)


def oracle_op(impl, w, before, answer, report_fail):
    """Op-specific clauses of C16 checked on the real objects, independent of the model."""
    A0, V0, T0 = before
    op = w[0]
    ok = answer.startswith("ok")
    # operands unchanged for every op that is not an assignment
    mut_v = {int(w[1])} if op == "vset" and ok else set()
    for i, (ast, arr) in enumerate(V0):
        if i in mut_v:
            continue
        if a_state(impl.vars[i].a) != ast or not same(impl.vars[i].array, arr):
            report_fail(f"op `{' '.join(w)}` changed Vars V{i} (operand or bystander)")
    if op not in ("aadd", "aupd"):
        for i, ast in enumerate(A0):
            if a_state(impl.addrs[i]) != ast:
                report_fail(f"op `{' '.join(w)}` changed Address A{i}")
    else:
        tgt = int(w[1])
        for i, ast in enumerate(A0):
            if i != tgt and a_state(impl.addrs[i]) != ast:
                report_fail(f"op `{' '.join(w)}` on A{tgt} changed another Address A{i}")
    if op not in ("tset", "tapp"):
        for i, (ast, arr) in enumerate(T0):
            if a_state(impl.tvs[i].a) != ast or not same(impl.tvs[i].array, arr):
                report_fail(f"op `{' '.join(w)}` changed TimeVars T{i}")
    if not ok:
        # a refused op must leave everything unchanged
        for i, (ast, arr) in enumerate(T0):
            if not same(impl.tvs[i].array, arr):
                report_fail(f"refused op `{' '.join(w)}` still changed T{i}")
        for i, (ast, arr) in enumerate(V0):
            if not same(impl.vars[i].array, arr):
                report_fail(f"refused op `{' '.join(w)}` still changed V{i}")
        return
    if op == "vget":
        v = impl.vars[int(w[1])]
        names = list(v.a.object_list)
        if len(set(names)) == len(names):
            pos = sum(int(v.a.size[n]) for n in names[:names.index(w[2])])
            exp = V0[int(w[1])][1][pos:pos + int(v.a.size[w[2]])]
            got = np.array([_h(x) for x in answer.split()[2:]])
            if not same(exp, got):
                report_fail(f"V{w[1]}[{w[2]}] returned {got}, flat array holds {exp} at the variable's slice")
    if op == "vset":
        i = int(w[1])
        v = impl.vars[i]
        names = list(v.a.object_list)
        if len(set(names)) == len(names):
            pos = sum(int(v.a.size[n]) for n in names[:names.index(w[2])])
            ln = int(v.a.size[w[2]])
            exp = V0[i][1].copy()
            exp[pos:pos + ln] = [_h(x) for x in w[3:]]
            if not same(exp, v.array):
                report_fail(f"assignment V{i}[{w[2]}] produced {v.array}, expected only slice [{pos},{pos + ln}) to change: {exp}")
    if op == "tset" and answer.startswith("ok"):
        tv = impl.tvs[int(w[1])]; val = impl.vars[int(w[3])]
        k = int(w[2])
        arr = np.asarray(tv.array)
        if np.asarray(val.array).size != arr.shape[1]:
            report_fail(f"`{' '.join(w)}`: a row of {np.asarray(val.array).size} value(s) was accepted for a time series of width {arr.shape[1]} "
                        f"(assignment of a wrong length must be refused)")
        elif not (-arr.shape[0] <= k < arr.shape[0]) or not same(arr[k], np.asarray(val.array).reshape(-1)):
            report_fail(f"`{' '.join(w)}` returned normally but row {k} of the series does not hold the assigned values "
                        f"(the series has {arr.shape[0]} rows)")
    if op in ("vcomb", "acomb") and answer.startswith("ok"):
        obj = impl.vars[int(answer.split()[2])].a if op == "vcomb" else impl.addrs[int(answer.split()[2])]
        names = list(obj.object_list)
        if len(set(names)) != len(names):
            report_fail(f"`{' '.join(w)}`: the combined layout lists a name twice ({names}): both entries get the first slice, "
                        f"part of the flat array cannot be reached by name")
    if op == "vop" and (answer == "ok none" or answer.startswith("ok arr-of-shape")):
        report_fail(f"`{' '.join(w)}`: arithmetic of a collection with a scalar / array returned {answer[3:]} instead of the element-wise result")
    w = [t for t in w if not t.startswith("@")]
    if op == "vop" and answer.startswith("ok vars"):
        i = int(w[1])
        rid = int(answer.split()[2])
        r = impl.vars[rid]
        x = V0[i][1]
        kind = w[4]
        o = _h(w[5]) if kind == "s" else (np.array([_h(s) for s in w[5:]]) if kind == "a" else V0[int(w[5])][1])
        import operator
        f = dict(add=operator.add, sub=operator.sub, mul=operator.mul, div=operator.truediv)[w[2]]
        with warnings.catch_warnings():
            warnings.simplefilter("ignore")
            exp = f(x, o) if w[3] == "l" else f(o, x)
        same_layout = kind != "v" or V0[int(w[5])][0][:2] == V0[i][0][:2]
        if same_layout and (kind != "a" or len(o) == len(x)):
            if not same(np.asarray(exp, dtype=float).reshape(-1), r.array):
                report_fail(f"`{' '.join(w)}` is not element-wise: got {r.array}, expected {exp}")
            if r is impl.vars[i] or (kind == "v" and r is impl.vars[int(w[5])]) or np.shares_memory(r.array, impl.vars[i].array):
                report_fail(f"`{' '.join(w)}` did not return a new object")
            if a_state(r.a)[:2] != V0[i][0][:2]:
                report_fail(f"`{' '.join(w)}` result has a different layout")
    if op in ("pae",):
        rid = int(answer.split()[2])
        r = impl.vars[rid]
        a = impl.addrs[int(w[1])]
        y = np.array([_h(x) for x in w[2:]])
        for n in a.object_list:
            if len(a.v[n]) and not same(r[n], y[a.v[n]]):
                report_fail(f"parse_ae_v: result[{n}] is not the corresponding part of the flat result")
    if op in ("pdae",):
        rid = int(answer.split()[2])
        r = impl.tvs[rid]
        a = impl.addrs[int(w[1])]
        nc = int(w[2])
        Y = np.array([_h(x) for x in w[3:]]).reshape(-1, nc)
        if len(set(a.object_list)) == len(a.object_list):
            for n in a.object_list:
                if len(a.v[n]) and not same(r[n], Y[:, a.v[n]]):
                    report_fail(f"parse_dae_v: result[{n}] is not the corresponding columns of the flat result")
        if r.len != Y.shape[0]:
            report_fail("parse_dae_v: row count differs")


# ----------------------------------------------------------------------------- run

class Runner:
    """Executes op sequences on the implementation (with the property oracle) while
    recording the protocol lines and expected answers for the model."""

    def __init__(self):
        self.impl = Impl()
        self.lines, self.expect, self.meta = [], [], []
        self.fails = []
        self.seqs = []

    def begin(self, tag):
        self.impl.reset()
        self.seqs.append((tag, []))
        self.lines.append("c16 reset"); self.expect.append("ok unit"); self.meta.append((len(self.seqs) - 1, "reset"))

    def do(self, op, observe=True):
        si = len(self.seqs) - 1
        self.seqs[si][1].append(op)
        w = op.split()
        if not observe:
            # the op is carried out on both sides and its answer compared, but no state is read: what an op leaves to be computed
            # later (a table rebuilt on the next read, a cached layout) is still pending when the next op runs
            ans = self.impl.step(w)
            self.lines.append("c16 " + " ".join(t for t in w if not t.startswith("@"))); self.expect.append(ans); self.meta.append((si, op))
            return
        before = snapshot(self.impl)
        ans = self.impl.step(w)
        self.lines.append("c16 " + " ".join(t for t in w if not t.startswith("@"))); self.expect.append(ans); self.meta.append((si, op))
        rec = lambda m: self.fails.append((si, op, m))
        try:
            oracle_op(self.impl, w, before, ans, rec)
            oracle_state(self.impl, rec)
        except Exception as e:  # an inconsistent object can break the oracle's own indexing
            rec(f"objects are inconsistent after `{op}`: {type(e).__name__}: {e}")
        self.lines.append("c16 dump"); self.expect.append(self.impl.dump()); self.meta.append((si, "dump after " + op))

    def compare(self):
        got = run_driver(self.lines)
        diffs, seen = [], set()
        for (si, op), e, g in zip(self.meta, self.expect, got):
            if e != g and si not in seen:
                seen.add(si)
                diffs.append(dict(sequence=si, tag=self.seqs[si][0], at=op, implementation=e[:800], model=g[:800],
                                  ops=self.seqs[si][1]))
        return diffs


def run_all(seed, nseq, maxops, mal_frac, corpus):
    R = Runner()
    hist = {}
    for tag, ops in corpus:
        R.begin(tag)
        for op in ops:
            R.do(op)
    # sequences without intermediate observation: layouts are built and resized, then combined / aliased / bound, and only then read
    rb = np.random.default_rng([seed, 1616])
    for s in range(max(20, nseq // 6)):
        R.begin("unobserved")
        names = [str(x) for x in rb.permutation(NAMES)]
        na, nb = int(rb.integers(1, 4)), int(rb.integers(1, 4))
        ops, sizes = [], {0: {}, 1: {}}
        for aid, nn in ((0, names[:na]), (1, names[na:na + nb])):
            ops.append("anew")
            for n in nn:
                sizes[aid][n] = int(rb.integers(1, 6)); ops.append(f"aadd {aid} {n} {sizes[aid][n]}")
        for _ in range(int(rb.integers(1, 4))):
            aid = int(rb.integers(0, 2))
            n = str(rb.choice(list(sizes[aid])))
            sizes[aid][n] = int(rb.integers(1, 6)); ops.append(f"aupd {aid} {n} {sizes[aid][n]}")
        kind = int(rb.integers(0, 4))
        if kind == 0:
            ops.append("acomb 0 1")
        elif kind == 1:
            ops += ["acomb 1 0", "aalias 2 0"]
        elif kind == 2:
            ops += ["aalias 0 0", "acomb 2 1"]
        else:
            ops += ["vnew 0 " + fl([float(x) for x in range(1, 1 + sum(sizes[0].values()))]),
                    "vnew 1 " + fl([float(-x) for x in range(1, 1 + sum(sizes[1].values()))]), "vcomb 0 1"]
        for op in ops:
            R.do(op, observe=False)
        hist["unobserved:" + ["acomb", "acomb+alias", "alias+acomb", "vcomb"][kind]] = hist.get("unobserved:" + ["acomb", "acomb+alias", "alias+acomb", "vcomb"][kind], 0) + 1
        R.do(f"aget 0 {names[0]}")           # the first read: answer, full state dump and the oracles
    rng = np.random.default_rng(seed)
    for s in range(nseq):
        mal = bool(rng.random() < mal_frac)
        R.begin("malformed" if mal else "valid")
        g = Gen(rng, mal, R.impl)
        for op in g.layout_ops():
            R.do(op)
        for _ in range(int(rng.integers(5, maxops + 1))):
            for op in g.next():
                R.do(op)
        for k, v in g.hist.items():
            hist[k] = hist.get(k, 0) + v
    return R, hist


CORPUS = [
    ("corpus:numpy-scalars-and-column-arrays", ["anew", "aadd 0 x 2", "aadd 0 y 1", "vnew 0 " + fl([1, 2, 4]),
                                                "vop 0 add l s " + f2h(2.0) + " @int64", "vop 0 sub l s " + f2h(2.0) + " @int64",
                                                "vop 0 div l s " + f2h(2.0) + " @float32", "vop 0 mul l s " + f2h(2.0) + " @int64",
                                                "vop 0 add r s " + f2h(2.0) + " @int64", "vop 0 div r s " + f2h(8.0) + " @float32",
                                                "vop 0 add r a " + fl([1, 2, 3]) + " @col", "vop 0 sub r a " + fl([1, 2, 3]) + " @col",
                                                "vop 0 div r a " + fl([1, 2, 4]) + " @col", "vop 0 mul r a " + fl([1, 2, 4]) + " @col",
                                                "vop 0 mul l a " + fl([1, 2, 4]), "vop 0 add l a " + fl([1, 2, 4]) + " @col"]),
    ("corpus:combine-shared-name", ["anew", "aadd 0 x 2", "aadd 0 x0 1", "vnew 0 " + fl([1, 2, 3]), "valias 0 0", "vcomb 0 1", "acomb 0 0",
                                    "aalias 0 0", "acomb 0 1"]),
    ("corpus:tset-width-and-range", ["anew", "aadd 0 x 2", "aadd 0 y 1", "vnew 0 " + fl([1, 2, 3]), "tnew 0 4", "anew", "aadd 1 k 1",
                                     "vnew 1 " + fl([7]), "tset 0 1 1", "tset 0 -1 0", "tset 0 4 0", "tset 0 -4 0", "tset 0 -5 0", "trow 0 3"]),
    ("corpus:get-update-get", ["anew", "aadd 0 u 1", "aadd 0 y 1", "aadd 0 w 2", "aget 0 y", "aget 0 w", "aupd 0 u 2", "aget 0 y", "aget 0 w",
                               "aupd 0 y 3", "aget 0 w", "aget 0 u", "ainq 0 3", "vnew 0 " + fl([1, 2, 3, 4, 5, 6, 7]), "vget 0 w", "vget 0 y",
                               "vset 0 w " + fl([9, 8]), "vget 0 y"]),
    ("corpus:alias-then-update", ["anew", "aadd 0 x 2", "aadd 0 y 3", "aalias 0 0", "aupd 0 x 4", "aget 1 y0", "aget 0 y"]),
    ("corpus:tset-minus-one", ["anew", "aadd 0 x 2", "vnew 0 " + fl([1, 2]), "tnew 0 3", "vop 0 mul l s " + f2h(2.0),
                               "tset 0 -1 1", "tset 0 -2 1", "tset 0 3 1"]),
    ("corpus:slice-view", ["anew", "aadd 0 x 1", "aadd 0 y 2", "vnew 0 " + fl([1, 2, 3]), "tnew 0 4", "tslice 0 1 3",
                           "vop 0 add l s " + f2h(1.0), "tset 1 0 1", "tname 0 y", "tapp 1 0", "tset 1 0 0"]),
    ("corpus:broadcast", ["anew", "aadd 0 x 3", "vnew 0 " + fl([1, 2, 3]), "anew", "aadd 1 k 1", "vnew 1 " + fl([2]),
                          "vop 0 add l v 1", "vop 1 add l v 0", "vop 0 sub l v 1", "vop 1 sub l v 0", "vop 0 mul l v 1",
                          "vop 0 div l a " + fl([2]), "vop 0 mul l a " + fl([1, 1, 1]),
                          "vop 0 div r a " + fl([1, 2, 4])]),
]


def daesol_append_failures():
    """results collected with daesol.append: the collection holds all rows, and the results handed in stay what they were"""
    out = []
    try:
        from scipy.sparse import csc_array
        from Solverz.num_api.num_eqn import nDAE
        from Solverz import Rodas, Opt
        from Solverz.solvers.solution import daesol
        from Solverz.variable.variables import Vars
        from Solverz.utilities.address import Address
        dae = nDAE(csc_array(np.eye(2)), lambda t, y, p: np.array([-y[0], -2.0 * y[1]]), lambda t, y, p: csc_array(np.diag([-1.0, -2.0])), {})
        a = Address(); a.add("x", 1); a.add("z", 1)
        with warnings.catch_warnings():
            warnings.simplefilter("ignore")
            s1 = Rodas(dae, np.linspace(0, 1, 5), Vars(a, np.array([1.0, 2.0])), Opt())
            s2 = Rodas(dae, np.linspace(1, 2, 5), s1.Y[-1], Opt())
        n1, n2 = len(s1.T), len(s2.T)
        x1 = np.array(s1.Y["x"], copy=True)
        acc = daesol(); acc.append(s1); acc.append(s2)
        if np.asarray(acc.Y.array).shape[0] != n1 + n2 or len(acc.T) != n1 + n2:
            out.append(f"daesol.append: the collection holds {np.asarray(acc.Y.array).shape[0]} state rows for {len(acc.T)} times ({n1} + {n2} appended)")
        if np.asarray(s1.Y.array).shape[0] != n1 or not np.array_equal(np.asarray(s1.Y["x"]), x1):
            out.append(f"daesol.append changed a result it was given: the first solution has {np.asarray(s1.Y.array).shape[0]} state rows for its "
                       f"{n1} times after a second solution was appended to the collection")
    except Exception as ex:  # noqa
        out.append(f"daesol.append probe raised {type(ex).__name__}: {str(ex)[:100]}")
    return out


def run(rep, tier, seed):
    rep.cov["trusted_base"] = BASE_TRUST + [
        "correspondence runner harness/checks/c16.py (op generator, state dump canonicalisation)",
        "numpy array semantics are modelled (1-D broadcasting, views on basic slices, copy in astype)"]
    rep.assumptions += ["Address objects are mutated (add/update) only before they are bound to a collection (documented usage)",
                        "variable names within one layout are distinct (WF hypothesis of the theorems; duplicates are exercised only in the malformed stream)"]
    failed = rep.add_proof(prove("C16"))
    nseq, maxops = (400, 30) if tier == "quick" else (12000, 30)
    R, hist = run_all(seed, nseq, maxops, 0.25, CORPUS)
    seqs, fails = R.seqs, R.fails
    extra_fails = daesol_append_failures()
    broken, diffs = [], []
    try:
        diffs = R.compare()
    except LeanError as e:
        broken.append(f"driver: {e}")
    rep.cov["evaluations"] = sum(len(o) for _, o in seqs)
    rep.cov["distinct_nontrivial"] = len({tuple(o) for _, o in seqs if len(o) > 4})
    rep.cov["rule"] = ("op sequences drawn from one PRNG (VERIF_SEED): a layout of 1-6 variables of sizes 1-5, then 5-30 ops over "
                       "Address/Vars/TimeVars/parse_*_v chosen by looking at the live objects; 25% of sequences come from the malformed "
                       "stream (unknown names, wrong lengths, out-of-range rows, duplicate names, zero-length entries, different-layout "
                       "partners). distinct = distinct op tuples with > 4 ops; every op is followed by a comparison of the full "
                       "observable state of all live objects with the Lean heap model, and by the independent property oracle")
    rep.cov["samples"] = [dict(tag=t, ops=o[:12]) for t, o in seqs[:2] + seqs[len(CORPUS):len(CORPUS) + 3]]
    rep.cov["op_histogram"] = hist
    rep.cov["protocol_lines"] = len(R.lines)
    rep.cov["sequences"] = len(seqs)
    rep.cov["malformed_sequences"] = sum(1 for t, _ in seqs if t == "malformed")
    rep.cov["answers_err"] = sum(1 for e in R.expect if e.startswith("err"))
    rep.cov["disagreements"] = len(diffs)
    seen_msgs = set()
    for si, op, m in fails:
        key = m.split(":")[0][:40]
        if key in seen_msgs or len(seen_msgs) >= 5:
            continue
        seen_msgs.add(key)
        rep.violation(f"C16 fails on the real code: {m}", dict(kind="op-sequence", ops=seqs[si][1], failing_op=op, message=m))
    for m in extra_fails:
        rep.violation(f"C16 fails on the real code: {m}", dict(kind="solution-collection", message=m,
                                                               history="s1 = Rodas(...); s2 = Rodas(...); acc = daesol(); acc.append(s1); acc.append(s2)"))
    if not fails and not extra_fails:
        for f in failed:
            rep.violation(f"proof obligation no longer checks: {f}; the oracle found no failing input on {len(seqs)} sequences",
                          dict(kind="proof", theorem=f), has_input=False)
        for b in broken:
            rep.violation(b, dict(kind="driver", detail=b), has_input=False)
        for d in diffs[:5]:
            rep.violation(f"model and implementation disagree at `{d['at']}` (correspondence C16/heap); the property oracle found "
                          f"no failing input", dict(kind="correspondence", **d), has_input=False)


def replay(rep, payload):
    ops = payload.get("ops")
    if not ops:
        print("replay: nothing executable in this file (proof/correspondence breakage): ", payload)
        return
    R = Runner()
    R.begin("replay")
    for op in ops:
        R.do(op)
    for si, op, m in R.fails:
        print("FAIL", op, "::", m)
    for d in R.compare():
        print("DIFF", d["at"], "\n impl :", d["implementation"], "\n model:", d["model"])
    if R.fails:
        rep.violation("replayed failure: " + R.fails[0][2], payload)
