"""
C12 — fixed-step integrators cover the interval and satisfy their step equations.

1. proof obligations: Properties/C12.lean (over Rat: grid values t0 + k*h, loop exit condition, number
   of steps <= floor((tend-t0)/h) + 1 hence the buffer never overflows, reaches tend when h divides the
   span; fdae grid ends exactly at tend)
2. correspondence (exact, Float): returned time grids of backward_euler, implicit_trapezoid and
   fdae_solver for (t0, tend, h) triples against the Lean grid loops executed in Float
3. oracle on the real code: grid clauses checked directly; step equations (implicit Euler,
   trapezoidal rule, the model's own difference equation) evaluated on consecutive returned rows
"""
from __future__ import annotations

import io
import contextlib
import warnings
import numpy as np

from harness.common import f2h, h2f, run_driver, prove, BASE_TRUST, LeanError


def quiet(f, *a, **k):
    with contextlib.redirect_stdout(io.StringIO()), contextlib.redirect_stderr(io.StringIO()), warnings.catch_warnings():
        warnings.simplefilter("ignore")
        return f(*a, **k)


def dae_problem(kind):
    from scipy.sparse import csc_array
    from Solverz.num_api.num_eqn import nDAE
    if kind == "scalar":
        return (nDAE(csc_array(np.array([[1.0]])), lambda t, y, p: -y, lambda t, y, p: csc_array(np.array([[-1.0]])), {}),
                np.array([1.0]))
    if kind == "mild":
        # mildly nonlinear and non-autonomous: Newton converges for steps larger than 1 as well
        return (nDAE(csc_array(np.array([[1.0]])), lambda t, y, p: -y + 0.3 * np.sin(y) + np.cos(0.3 * t),
                     lambda t, y, p: csc_array(np.array([[-1.0 + 0.3 * np.cos(y[0])]])), {}), np.array([1.0]))
    if kind == "scaled":
        # the same nonlinear problem in 'SI units': states of magnitude 1e5
        S = 1e5
        M = csc_array((np.array([1.0]), (np.array([0]), np.array([0]))), shape=(2, 2))
        F = lambda t, y, p: np.array([-S * (y[0] / S) ** 3 + y[1] + S * np.cos(t), y[1] - S * np.sin(y[0] / S)])
        J = lambda t, y, p: csc_array(np.array([[-3 * (y[0] / S) ** 2, 1.0], [-np.cos(y[0] / S), 1.0]]))
        return nDAE(M, F, J, {}), np.array([0.5 * S, S * np.sin(0.5)])
    # nonlinear semi-explicit index-1:  x' = -x^3 + z + cos t,  0 = z - sin(x)
    M = csc_array((np.array([1.0]), (np.array([0]), np.array([0]))), shape=(2, 2))
    F = lambda t, y, p: np.array([-y[0] ** 3 + y[1] + np.cos(t), y[1] - np.sin(y[0])])
    J = lambda t, y, p: csc_array(np.array([[-3 * y[0] ** 2, 1.0], [-np.cos(y[0]), 1.0]]))
    return nDAE(M, F, J, {}), np.array([0.5, np.sin(0.5)])


def fdae_problem_t(h):
    """a difference equation with explicit time dependence: x - x_prev + h*x^3 - h*cos(t) = 0 (t is the NEW time level)"""
    from scipy.sparse import csc_array
    from Solverz.num_api.num_eqn import nFDAE
    F = lambda t, y, p, y0: y - y0 + h * y ** 3 - h * np.cos(t)
    J = lambda t, y, p, y0: csc_array(np.diag(1 + 3 * h * y ** 2))
    return nFDAE(F, J, {}, 1), np.array([1.0])


def fdae_problem(h):
    from scipy.sparse import csc_array
    from Solverz.num_api.num_eqn import nFDAE
    # the model's own difference equation: x - x_prev + h*x^3 = 0   (implicit Euler for x' = -x^3)
    F = lambda t, y, p, y0: y - y0 + h * y ** 3
    J = lambda t, y, p, y0: csc_array(np.diag(1 + 3 * h * y ** 2))
    return nFDAE(F, J, {}, 1), np.array([1.0])


def triples(rng, n):
    out = [(0.0, 1.0, 0.1), (0.0, 0.3, 0.1), (0.0, 1.0, 0.3), (0.0, 2.0, 0.25), (-3.0, 1.0, 0.3), (0.0, 0.05, 0.1),
           (0.0, 1.0, 1.0 / 3.0), (-0.7, 0.5, 0.1), (2.5, 2.5, 0.1), (0.0, 20.0, 0.1), (-20.0, 0.0, 0.01), (0.0, 1.1, 0.25),
           # large absolute times with exactly representable steps (epoch seconds, 2**23): the end test is relative to the step
           (1700000000.0, 1700000060.0, 1.0), (8388608.0, 8388608.5, 0.0078125), (-1700000000.0, -1699999990.0, 0.5),
           # very small steps in the model's time unit (nanoseconds on a seconds axis): any rounding allowance has to be relative to the step
           (2e-8, 5e-8, 2.5e-10), (0.0, 1e-9, 3e-10), (0.0, 1e-6, 1e-8), (0.0, 3.5e-12, 1e-12), (1e-7, 1.0000004e-7, 1e-13),
           # thousands of steps away from the origin: rounding must not accumulate in the grid (an extra step of length 1e-12 advances
           # an FDAE by a full model step)
           (10.0, 12.0, 1e-3), (1000.0, 1001.0, 1e-3), (-1000.0, -999.0, 1e-3), (1e4, 10005.0, 0.05), (0.0, 200.0, 0.01),
           # epoch seconds with a step that is not representable at that magnitude: every t + h rounds the same way, an accumulated grid
           # drifts (more steps than the buffer holds on longer spans)
           (1.7e9, 1.7e9 + 0.25, 1e-4), (1.7e9, 1.7e9 + 0.05, 1e-5), (-1.7e9, -1.7e9 + 0.2, 1e-4)]
    hs = [0.1, 0.3, 1.0 / 3.0, 0.25, 0.01, 0.7, 0.05, 1e-3, 0.2, 0.6]
    while len(out) < n:
        h = float(rng.choice(hs))
        t0 = float(rng.choice([0.0, 0.0, -1.0, 0.37, -12.5, 100.0, 1e-3, 1048576.0, 1.7e9]))
        if abs(t0) >= 1e6:
            h = float(rng.choice([1.0, 0.5, 0.25, 0.125]))        # steps that are exact at that magnitude
        k = int(rng.integers(1, 400))
        frac = float(rng.choice([0.0, 0.0, 0.0, 0.05, 0.1, 0.11, 0.3, 0.5, 0.9, 0.99]))
        tend = t0 + (k + frac) * h
        out.append((t0, tend, h))
    return out


def fmt_grid(T):
    T = [float(x) for x in T]
    if len(T) > 40:
        T = T[:20] + T[-20:]
    return " ".join(f2h(x) for x in T)


def run(rep, tier, seed):
    from Solverz import backward_euler, implicit_trapezoid, fdae_solver, Opt
    rep.cov["trusted_base"] = BASE_TRUST + [
        "grid theorems are over exact rationals; floating-point accumulation of tt is covered only by the exact Float correspondence runs",
        "the step solves (Newton, LU) are not modelled; step equations are evaluated by the oracle on returned rows",
        "reading of 'reaches tend' for a non-integral ratio: backward_euler / implicit_trapezoid stop at the first grid point within h/10 of "
        "tend or beyond it (|T[-1]-tend| < h); fdae_solver shortens its last step and ends at tend"]
    failed = rep.add_proof(prove("C12"))
    rng = np.random.default_rng(seed)
    ntrip = 60 if tier == "quick" else 600
    fails, diffs, broken = [], [], []
    lines, expect, cases = [], [], []
    dae, y0 = dae_problem("scalar")
    for (t0, tend, h) in triples(rng, ntrip):
        for name, solver in (("backward_euler", backward_euler), ("implicit_trapezoid", implicit_trapezoid), ("fdae_solver", fdae_solver)):
            case = dict(solver=name, t0=t0, tend=tend, h=h)
            try:
                if name == "fdae_solver":
                    fd, u0 = fdae_problem(h)
                    sol = quiet(solver, fd, [t0, tend], u0, Opt(step_size=h))
                else:
                    sol = quiet(solver, dae, [t0, tend], y0.copy(), Opt(step_size=h))
                T = np.asarray(sol.T, dtype=float)
                ans = f"ok {len(T)} " + fmt_grid(T)
                # ---- grid clauses, directly
                Y = np.asarray(sol.Y)
                if T[0] != t0:
                    fails.append((case, f"{name}: grid starts at {T[0]!r}, not at t0 = {t0!r}"))
                if Y.shape[0] != len(T):
                    fails.append((case, f"{name}: {Y.shape[0]} state rows for {len(T)} times"))
                d = np.diff(T)
                nst = len(d)
                if nst:
                    tolh = 4 * np.spacing(max(abs(t0), abs(tend), 1.0)) * (nst + 1)
                    body = d if name != "fdae_solver" else d[:-1]
                    if len(body) and np.max(np.abs(body - h)) > tolh:
                        fails.append((case, f"{name}: steps are not the requested step {h!r}: min {body.min()!r} max {body.max()!r}"))
                    if name == "fdae_solver" and tend > t0 and (d[-1] > h * (1 + 1e-8) + tolh or d[-1] <= 0):
                        fails.append((case, f"{name}: last step {d[-1]!r} is not in (0, h]"))
                q = (tend - t0) / h
                # at |t| >> h the ratio itself is only defined up to the resolution of the time axis
                near_int = abs(q - round(q)) < max(1e-9 * max(1.0, abs(q)), 8 * np.spacing(max(abs(t0), abs(tend), 1.0)) / h)
                if name == "fdae_solver":
                    if T[-1] != tend and tend > t0:
                        fails.append((case, f"{name}: ends at {T[-1]!r}, not at tend = {tend!r}"))
                    implied = int(round(q)) if near_int else int(np.ceil(q - 1e-9))
                    if tend > t0 and nst != implied:
                        fails.append((case, f"{name}: {nst} steps, the interval implies {implied}"))
                else:
                    if abs(T[-1] - tend) >= h * (1 + 1e-9) and tend > t0:
                        fails.append((case, f"{name}: ends at {T[-1]!r}, more than one step from tend = {tend!r}"))
                    if near_int:
                        if abs(T[-1] - tend) > tolh:
                            fails.append((case, f"{name}: integral ratio but the grid ends at {T[-1]!r} != tend {tend!r}"))
                        if nst != int(round(q)):
                            fails.append((case, f"{name}: {nst} steps for an integral ratio of {int(round(q))}"))
            except IndexError as ex:
                ans = "err index"
                fails.append((case, f"{name}: failed on a buffer bound: {ex}"))
            except Exception as ex:  # noqa
                ans = "err other"
                fails.append((case, f"{name}: raised {type(ex).__name__}: {ex}"))
            kind = "fdae" if name == "fdae_solver" else "fixed"
            lines.append(f"c12 {kind} {f2h(t0)} {f2h(tend)} {f2h(h)}")
            expect.append(ans); cases.append(case)
    try:
        got = run_driver(lines)
        for c, e, g in zip(cases, expect, got):
            if e != g:
                diffs.append(dict(case=c, implementation=e[:300], model=g[:300]))
    except LeanError as ex:
        broken.append(str(ex))
    # ---- step equations on consecutive rows
    nstepeq = 0
    for pname in ("nonlinear", "scaled"):
      dae2, y02 = dae_problem(pname)
      for h in ([0.1, 0.01] if tier == "quick" else [0.2, 0.1, 0.05, 0.01, 0.001]):
          for tol in ([1e-5, 1e-9] if tier == "quick" else [1e-4, 1e-6, 1e-8, 1e-10]):
              for name, solver in (("backward_euler", backward_euler), ("implicit_trapezoid", implicit_trapezoid)):
                  case = dict(solver=name, problem=pname, h=h, ite_tol=tol)
                  try:
                      sol = quiet(solver, dae2, [0.0, 10 * h], y02.copy(), Opt(step_size=h, ite_tol=tol))
                  except Exception as ex:  # noqa
                      fails.append((case, f"{name}: raised {type(ex).__name__}: {ex}")); continue
                  T, Y = np.asarray(sol.T), np.asarray(sol.Y)
                  M = dae2.M.toarray()
                  for k in range(len(T) - 1):
                      nstepeq += 1
                      if name == "backward_euler":
                          r = M @ (Y[k + 1] - Y[k]) - h * dae2.F(T[k + 1], Y[k + 1], {})
                      else:
                          r = M @ (Y[k + 1] - Y[k]) - h / 2 * (dae2.F(T[k + 1], Y[k + 1], {}) + dae2.F(T[k], Y[k], {}))
                      if not np.max(np.abs(r)) < tol:
                          fails.append((dict(case, step=k), f"{name}: step {k} violates its discrete equation: residual {np.max(np.abs(r)):.3g} >= ite_tol {tol:g}"))
                          break
              for fdp, fdname, span in ((fdae_problem, "x - x_prev + h x^3", 10.0), (fdae_problem_t, "x - x_prev + h x^3 - h cos(t), span 10.3 h", 10.3)):
                fd, u0 = fdp(h)
                case = dict(solver="fdae_solver", problem=fdname, h=h, ite_tol=tol)
                try:
                    sol = quiet(fdae_solver, fd, [0.0, span * h], u0, Opt(step_size=h, ite_tol=tol))
                    T, Y = np.asarray(sol.T), np.asarray(sol.Y)
                    for k in range(len(T) - 1):
                        nstepeq += 1
                        r = fd.F(T[k + 1], Y[k + 1], {}, Y[k])
                        if not np.max(np.abs(r)) < tol:
                            fails.append((dict(case, step=k), f"fdae_solver: step {k} violates the model's difference equation: residual {np.max(np.abs(r)):.3g} >= ite_tol {tol:g}"))
                            break
                except Exception as ex:  # noqa
                    fails.append((case, f"fdae_solver: raised {type(ex).__name__}: {ex}"))
    # starts given as integer-typed arrays (np.array([2, 4])): legal input, the states become real after the first step
    from scipy.sparse import csc_array as _csc
    from Solverz.num_api.num_eqn import nDAE as _nDAE
    Mi = _csc((np.array([1.0]), (np.array([0]), np.array([0]))), shape=(2, 2))
    dint = _nDAE(Mi, lambda t, y, p: np.array([-y[0] + 0.1 * y[1], y[1] - 2.0 * y[0]]), lambda t, y, p: _csc(np.array([[-1.0, 0.1], [-2.0, 1.0]])), {})
    for start in (np.array([2, 4]), np.array([-3, -6], dtype=np.int32), np.array([1, 2], dtype=np.int64)):
        for h in (0.1, 0.03):
            for name, solver in (("backward_euler", backward_euler), ("implicit_trapezoid", implicit_trapezoid), ("fdae_solver", fdae_solver)):
                case = dict(solver=name, problem="x' = -x + z/10, 0 = z - 2x" if name != "fdae_solver" else "x - x_prev + h x^3", h=h,
                            start=[int(v) for v in start], start_dtype=str(start.dtype))
                try:
                    if name == "fdae_solver":
                        fd, _ = fdae_problem(h)
                        sol = quiet(solver, fd, [0.0, 10 * h], start[:1].copy(), Opt(step_size=h, ite_tol=1e-9))
                    else:
                        sol = quiet(solver, dint, [0.0, 10 * h], start.copy(), Opt(step_size=h, ite_tol=1e-9))
                except Exception as ex:  # noqa
                    fails.append((case, f"{name}: raised {type(ex).__name__}: {ex}")); continue
                T, Y = np.asarray(sol.T), np.asarray(sol.Y, dtype=float)
                Md = Mi.toarray()
                for k in range(len(T) - 1):
                    nstepeq += 1
                    if name == "backward_euler":
                        r = Md @ (Y[k + 1] - Y[k]) - h * dint.F(T[k + 1], Y[k + 1], {})
                    elif name == "implicit_trapezoid":
                        r = Md @ (Y[k + 1] - Y[k]) - h / 2 * (dint.F(T[k + 1], Y[k + 1], {}) + dint.F(T[k], Y[k], {}))
                    else:
                        r = fd.F(T[k + 1], Y[k + 1], {}, Y[k])
                    if not np.max(np.abs(r)) < 1e-8:
                        fails.append((dict(case, step=k), f"{name} started from the integer-typed array {start!r}: step {k} violates its discrete "
                                                          f"equation: residual {np.max(np.abs(r)):.3g}"))
                        break
    # the global error is O(h) / O(h^2) for the Newton tolerances a user gets by default: x' = -x on [0, 10] with ite_tol = 1e-5 and
    # steps down to 1e-4 (the residual of the step equation at the start value is h |F|: below ite_tol the state must still move)
    dexp = _nDAE(_csc(np.array([[1.0]])), lambda t, y, p: -y, lambda t, y, p: _csc(np.array([[-1.0]])), {})
    for name, solver, order in (("backward_euler", backward_euler, 1), ("implicit_trapezoid", implicit_trapezoid, 2)):
        for h in ((1e-2, 1e-3) if tier == "quick" else (1e-2, 1e-3, 1e-4)):
            case = dict(solver=name, problem="x' = -x, x(0) = 1 on [0, 10]", h=h, ite_tol="default (1e-5)")
            try:
                sol = quiet(solver, dexp, [0.0, 10.0], np.array([1.0]), Opt(step_size=h))
            except Exception as ex:  # noqa
                fails.append((case, f"{name}: raised {type(ex).__name__}: {ex}")); continue
            nstepeq += 1
            T, Y = np.asarray(sol.T), np.asarray(sol.Y, dtype=float)
            err = float(np.max(np.abs(Y[:, 0] - np.exp(-T))))
            bound = (0.5 * h if order == 1 else 0.2 * h * h) + 50 * 1e-5       # discretisation error + the Newton tolerance carried along
            if not err <= bound:
                fails.append((case, f"{name} with the default Newton tolerance and h = {h}: max error {err:.3g} on x' = -x over [0, 10] "
                                    f"(x(10) = {Y[-1, 0]:.4g}, exact {np.exp(-10):.4g}); an O(h^{order}) method allows about {bound:.2g}"))
    # a step on which Newton's iteration cycles (x' = -Saturation(100 x, -1, 1) across the kink, h = 0.1): the iterate it ends with does
    # not satisfy the step equation — it must not be returned as a state of the trajectory
    ksat = lambda x: 100.0 if abs(100.0 * x) < 1.0 else 0.0
    dsat = _nDAE(_csc(np.array([[1.0]])), lambda t, y, p: -np.clip(100.0 * y, -1.0, 1.0), lambda t, y, p: _csc(np.array([[-ksat(y[0])]])), {})
    from Solverz.num_api.num_eqn import nFDAE as _nFDAE
    fsat = _nFDAE(lambda t, y, p, y0: y - y0 + 0.1 * np.clip(100.0 * y, -1.0, 1.0), lambda t, y, p, y0: _csc(np.array([[1.0 + 0.1 * ksat(y[0])]])), {}, 1)
    for name, solver in (("backward_euler", backward_euler), ("implicit_trapezoid", implicit_trapezoid), ("fdae_solver", fdae_solver)):
        case = dict(solver=name, problem="x' = -Saturation(100 x, -1, 1), x(0) = 0.95", h=0.1, ite_tol=1e-8)
        try:
            sol = quiet(solver, fsat if name == "fdae_solver" else dsat, [0.0, 2.0], np.array([0.95]), Opt(step_size=0.1, ite_tol=1e-8))
        except Exception:  # noqa
            continue            # raising is a way of not returning such a state
        T, Y = np.asarray(sol.T), np.asarray(sol.Y, dtype=float)
        for k in range(len(T) - 1):
            nstepeq += 1
            if name == "backward_euler" or name == "fdae_solver":
                r = (Y[k + 1] - Y[k]) + 0.1 * np.clip(100.0 * Y[k + 1], -1.0, 1.0)
            else:
                r = (Y[k + 1] - Y[k]) + 0.05 * (np.clip(100.0 * Y[k + 1], -1.0, 1.0) + np.clip(100.0 * Y[k], -1.0, 1.0))
            if not np.max(np.abs(r)) < 1e-8:
                fails.append((dict(case, step=k), f"{name}: step {k} (t = {T[k + 1]}) was returned although Newton's iteration did not converge: "
                                                  f"residual of the step equation {np.max(np.abs(r)):.3g} >= ite_tol 1e-08"))
                break
    # steps larger than 1 (the Newton test must be on the step equation itself, not on a per-unit-time scaling of it)
    daem, ym = dae_problem("mild")
    for h in ([2.0] if tier == "quick" else [2.0, 4.0, 1.5]):
        for tol in [1e-3, 3e-4, 1e-4, 3e-5, 1e-5, 1e-6]:
            for name, solver in (("backward_euler", backward_euler), ("implicit_trapezoid", implicit_trapezoid)):
                case = dict(solver=name, problem="mild", h=h, ite_tol=tol)
                try:
                    sol = quiet(solver, daem, [0.0, 20 * h], ym.copy(), Opt(step_size=h, ite_tol=tol))
                except Exception as ex:  # noqa
                    fails.append((case, f"{name}: raised {type(ex).__name__}: {ex}")); continue
                T, Y = np.asarray(sol.T), np.asarray(sol.Y)
                for k in range(len(T) - 1):
                    nstepeq += 1
                    if name == "backward_euler":
                        r = (Y[k + 1] - Y[k]) - h * daem.F(T[k + 1], Y[k + 1], {})
                    else:
                        r = (Y[k + 1] - Y[k]) - h / 2 * (daem.F(T[k + 1], Y[k + 1], {}) + daem.F(T[k], Y[k], {}))
                    if not np.max(np.abs(r)) < tol:
                        fails.append((dict(case, step=k), f"{name}: step {k} (h = {h}) violates its discrete equation: residual {np.max(np.abs(r)):.3g} >= ite_tol {tol:g}"))
                        break
    rep.cov["evaluations"] = len(lines) + nstepeq
    rep.cov["distinct_nontrivial"] = len(set(lines))
    rep.cov["rule"] = ("(t0, tend, h) triples: a fixed list (integral, non-representable 0.3/0.1, non-integral, negative t0, span < h, empty span, "
                       "long) plus random t0/h/step-count/fraction; three solvers each; grids compared bit-for-bit with the Lean loops in Float. "
                       "step equations on a nonlinear index-1 DAE and a nonlinear difference equation for several h and Newton tolerances")
    rep.cov["samples"] = [dict(line=l, answer=e[:120]) for l, e in list(zip(lines, expect))[:4]]
    rep.cov["step_equations_checked"] = nstepeq
    rep.cov["disagreements"] = len(diffs)
    seen = set()
    for case, m in fails:
        key = m[:40]
        if key in seen or len(seen) >= 6:
            continue
        seen.add(key)
        rep.violation("C12 fails on the real code: " + m, dict(kind="run", case=case, message=m))
    if not fails:
        for f in failed:
            rep.violation(f"proof obligation no longer checks: {f}; no failing run found", dict(kind="proof", theorem=f), has_input=False)
        for b in broken:
            rep.violation("driver: " + b, dict(kind="driver", detail=b), has_input=False)
        for d in diffs[:5]:
            rep.violation("model and implementation disagree on the fixed-step time grid (correspondence C12/grid); the grid oracle found no violation",
                          dict(kind="correspondence", **d), has_input=False)


def replay(rep, payload):
    print("replay:", payload.get("message"), payload.get("case"))
