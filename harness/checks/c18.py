"""
C18 — unsupported constructs fail loudly, never with wrong numbers.

1. proof obligations: Properties/C18.lean — the meaning of the extended grammar in the reference semantics
   (Core/Lang.lean: strided slices = Python's slice.indices progression, index lists / index parameters, matrix
   parameters under Mat_Mul with the Jacobian A · ∂a/∂y), and which programs have NO meaning (zero step, integer /
   list index out of range, operands of different sizes, matrix shape that does not fit): there the reference is
   an error and the only acceptable behaviour of the code is to raise.
2. K: models of the extended grammar — structured families (one per construct the property names, in every operator
   placement the generators distinguish) and random models whose leaves use the extended selections — are taken
   through every stage of every backend (construction, create_instance, made_numerical dense / sparse,
   module rendering + import, first F, first J, at the declared point and at a perturbed one).  Outcome rule per
   (model, backend):   raised at some stage -> allowed;   returned numbers -> the Lean reference must accept the
   model and the numbers must equal its F / J (declaration order, tolerance 1e-9 relative).
   A silent wrong number is a violation with the model as the replay.
"""
from __future__ import annotations

import importlib
import os
import shutil
import sys
import tempfile
import warnings
import numpy as np

from harness.common import prove, BASE_TRUST, run_driver, h2f, LeanError, known_findings
from harness import lang, pipeline
from harness.lang import GModel, ast_size, sel_indices

ROUND = lambda r, n, lo=0.3, hi=2.0: [float(x) for x in np.round(r.uniform(lo, hi, size=n), 3)]


# ------------------------------------------------------------------------------------------- structured families
def fam_strided(r):
    n = int(r.integers(3, 7))
    step = int(r.choice([2, 2, 3]))
    a = int(r.integers(0, 2)) if r.random() < 0.7 else None
    b = n if r.random() < 0.5 else None
    s1 = ("t", a, b, step)
    k1 = len(sel_indices(n, s1))
    rest = [i for i in range(n) if i not in sel_indices(n, s1)]
    vars_ = [("x", ROUND(r, n), None)]
    pars = [("b2", "plain", dict(value=ROUND(r, k1)))]
    body = str(r.choice(["sq", "par", "matmulfree"]))
    e1 = ("sub", ("powi", ("var", 0, s1), 2), ("num", 1.0)) if body == "sq" else \
        ("sub", ("mul", ("par", 0, ("w",)), ("var", 0, s1)), ("num", 2.0)) if body == "par" else \
        ("add", ("sin", ("var", 0, s1)), ("var", 0, s1))
    eqs = [("e0", "alg", e1, None)]
    # the remaining elements, one scalar equation each (keeps the system square)
    for j, i in enumerate(rest):
        eqs.append((f"r{j}", "alg", ("sub", ("mul", ("var", 0, ("i", i)), ("num", 3.0)), ("var", 0, ("i", int(sel_indices(n, s1)[0])))), None))
    return GModel("AE", vars_, pars, eqs), "strided"


def fam_neg_stride(r):
    n = int(r.integers(2, 6))
    step = int(r.choice([-1, -1, -2]))
    s1 = ("t", None, None, step)
    k = len(sel_indices(n, s1))
    vars_ = [("x", ROUND(r, n), None)]
    if step == -1:
        eqs = [("e0", "alg", ("sub", ("mul", ("var", 0, s1), ("var", 0, ("w",))), ("num", 1.0)), None)]
    else:
        eqs = [("e0", "alg", ("sub", ("powi", ("var", 0, s1), 2), ("num", 1.0)), None)]
        for j in range(n - k):
            eqs.append((f"r{j}", "alg", ("sub", ("var", 0, ("i", j)), ("num", 0.5)), None))
    return GModel("AE", vars_, [], eqs), "negative-stride"


def fam_list(r, kind="l"):
    n = int(r.integers(3, 7))
    k = int(r.integers(1, n))
    ks = [int(i) for i in r.permutation(n)[:k]]
    if r.random() < 0.3:
        ks = [i - n if r.random() < 0.5 else i for i in ks]
    sel = ("l", ks) if kind == "l" else ("lp", "idx", ks)
    others = [i for i in range(n) if i not in [kk % n for kk in ks]]
    vars_ = [("x", ROUND(r, n), None)]
    eqs = [("e0", "alg", ("sub", ("powi", ("var", 0, sel), 2), ("num", 1.0)), None)]
    if others:
        sel2 = ("l", others) if kind == "l" else ("lp", "jdx", others)
        eqs.append(("e1", "alg", ("sub", ("mul", ("var", 0, sel2), ("num", 3.0)), ("num", 2.0)), None))
    return GModel("AE", vars_, [], eqs), "list-index" if kind == "l" else "index-parameter"


def fam_par_list(r):
    n = int(r.integers(2, 5))
    L = n + int(r.integers(1, 4))
    ks = [int(i) for i in r.permutation(L)[:n]]
    sel = ("lp", "idx", ks) if r.random() < 0.6 else ("l", ks)
    vars_ = [("x", ROUND(r, n), None)]
    pars = [("b2", "plain", dict(value=ROUND(r, L)))]
    eqs = [("e0", "alg", ("sub", ("mul", ("var", 0, ("w",)), ("par", 0, sel)), ("num", 1.0)), None)]
    return GModel("AE", vars_, pars, eqs), "parameter-indexed-by-list"


def fam_list_endpoints(r):
    """index lists whose first and last entries look like the ends of a range (last - first + 1 == length) while the entries
    in between are permuted or repeated: x[[0, 2, 1, 3]], b[[1, 1, 3]] — a list is a list, not a slice"""
    k = int(r.integers(3, 6))
    a = int(r.integers(0, 3))
    inner = list(range(a + 1, a + k - 1))
    if len(inner) >= 2 and r.random() < 0.6:
        while True:
            perm = [int(i) for i in r.permutation(inner)]
            if perm != inner:
                break
        inner, repeated = perm, False
    else:
        j = int(r.integers(0, len(inner)))
        inner[j] = inner[j] + int(r.choice([-1, 1]))          # a neighbour twice, one entry of the range missing
        repeated = True
    ks = [a] + inner + [a + k - 1]
    if repeated or r.random() < 0.5:
        L = a + k + int(r.integers(0, 3))
        vars_ = [("x", ROUND(r, k), None)]
        pars = [("b2", "plain", dict(value=ROUND(r, L)))]
        eqs = [("e0", "alg", ("sub", ("mul", ("var", 0, ("w",)), ("par", 0, ("l", ks))), ("num", 1.0)), None)]
        return GModel("AE", vars_, pars, eqs), "parameter-indexed-by-list"
    n = a + k + int(r.integers(0, 2))
    others = [i for i in range(n) if i not in ks]
    vars_ = [("x", ROUND(r, n), None)]
    eqs = [("e0", "alg", ("sub", ("mul", ("powi", ("var", 0, ("l", ks)), 2), ("num", 2.0)), ("var", 0, ("s", a, a + k))), None)]
    for j, i in enumerate(others):
        eqs.append((f"r{j}", "alg", ("sub", ("var", 0, ("i", i)), ("num", 0.5)), None))
    return GModel("AE", vars_, [], eqs), "list-index"


def fam_par_strided(r):
    n = int(r.integers(2, 4))
    L = 2 * n
    vars_ = [("x", ROUND(r, n), None)]
    pars = [("b2", "plain", dict(value=ROUND(r, L)))]
    sel = ("t", int(r.integers(0, 2)), None, 2)
    eqs = [("e0", "alg", ("sub", ("mul", ("powi", ("var", 0, ("w",)), 2), ("par", 0, sel)), ("num", 1.0)), None)]
    return GModel("AE", vars_, pars, eqs), "parameter-strided"


def fam_oob(r):
    n = int(r.integers(1, 5))
    m = int(r.integers(1, 4))
    which = str(r.choice(["int", "negint", "list", "par-int", "scalar-var"]))
    vars_ = [("x", ROUND(r, n), None), ("z", ROUND(r, m), None)]
    pars = [("b2", "plain", dict(value=ROUND(r, 2)))]
    if which == "int":
        leaf = ("var", 0, ("i", n + int(r.integers(0, m))))          # lands inside z in the flat vector
    elif which == "negint":
        leaf = ("var", 1, ("i", -m - int(r.integers(1, n + 1))))     # lands inside x
    elif which == "list":
        leaf = ("var", 0, ("l", [0, n]))
    elif which == "par-int":
        leaf = ("par", 0, ("i", 2 + int(r.integers(0, 3))))
    else:
        vars_[0] = ("x", ROUND(r, 1), None); n = 1
        leaf = ("var", 0, ("i", 1))
    e0 = ("sub", ("mul", leaf, ("var", 0, ("w",))), ("num", 1.0)) if which != "list" else ("sub", ("powi", leaf, 2), ("num", 1.0))
    eqs = [("e0", "alg", e0, None), ("e1", "alg", ("sub", ("var", 1, ("w",)), ("num", 2.0)), None)]
    return GModel("AE", vars_, pars, eqs), "index-out-of-range"


def fam_mismatch(r):
    n = int(r.integers(2, 5))
    m = int(r.choice([k for k in range(2, 7) if k != n]))
    which = str(r.choice(["var-var", "var-par", "fn", "slice"]))
    vars_ = [("x", ROUND(r, n), None), ("z", ROUND(r, m), None)]
    pars = [("b2", "plain", dict(value=ROUND(r, m)))]
    if which == "var-var":
        e0 = ("sub", ("mul", ("var", 0, ("w",)), ("var", 1, ("w",))), ("num", 1.0))
    elif which == "var-par":
        e0 = ("add", ("var", 0, ("w",)), ("par", 0, ("w",)))
    elif which == "fn":
        e0 = ("add", ("sin", ("var", 0, ("w",))), ("powi", ("var", 1, ("w",)), 2))
    else:
        e0 = ("sub", ("var", 0, ("w",)), ("var", 0, ("s", 1, None))) if n > 2 else ("sub", ("var", 1, ("w",)), ("var", 1, ("s", 1, None)))
    eqs = [("e0", "alg", e0, None), ("e1", "alg", ("sub", ("var", 1, ("w",)), ("num", 2.0)), None)]
    return GModel("AE", vars_, pars, eqs), "size-mismatch"


def fam_ode_mismatch(r):
    n = int(r.integers(2, 4))
    m = n + int(r.integers(1, 3))
    vars_ = [("x", ROUND(r, n), None)]
    pars = [("b2", "plain", dict(value=ROUND(r, m)))]
    eqs = [("f0", "ode", ("mul", ("par", 0, ("w",)), ("num", 2.0)), (0, ("w",)))]
    return GModel("DAE", vars_, pars, eqs), "ode-rhs-larger-than-diff-var"


def _matrix(r, rows, cols):
    return [[float(x) for x in np.round(r.uniform(-2.0, 3.0, size=cols), 2)] for _ in range(rows)]


MATVEC_PLACES = ["plain", "plus-scalar-x", "plus-x", "minus-x-times-par", "times-x", "of-scaled", "of-product", "nested",
                 "two-matrices", "fn", "other-var", "abs", "strided-arg", "with-const-vector", "plus-scalar-x", "of-scaled",
                 "of-abs-difference", "abs-difference-plus-matvec", "of-abs-negated", "of-abs-scaled-by-par"]
_matvec_counter = [0]
_len1_counter = [0]


def fam_matvec(r):
    n = int(r.integers(2, 5))
    # every placement in turn (so that each run covers all of them), coefficients cycle through integer and non-integer values
    place = MATVEC_PLACES[_matvec_counter[0] % len(MATVEC_PLACES)]
    coef = [3.0, -1.5, 0.5, 2.0][(_matvec_counter[0] // len(MATVEC_PLACES) + _matvec_counter[0]) % 4]
    _matvec_counter[0] += 1
    vars_ = [("x", ROUND(r, n), None)]
    pars = [("A", "matrix", dict(value=_matrix(r, n, n))), ("b2", "plain", dict(value=ROUND(r, n)))]
    X = ("var", 0, ("w",))
    AX = ("matvec", 0, n, X)
    one = ("num", 1.0)
    if place == "plain":
        e0 = ("sub", AX, one)
    elif place == "plus-scalar-x":
        e0 = ("sub", ("add", ("neg", AX), ("mul", ("num", coef), X)), one)
    elif place == "plus-x":
        e0 = ("add", AX, X)
    elif place == "minus-x-times-par":
        e0 = ("sub", AX, ("mul", ("par", 1, ("w",)), X))
    elif place == "times-x":
        e0 = ("sub", ("mul", X, AX), one)
    elif place == "of-scaled":
        e0 = ("sub", ("matvec", 0, n, ("mul", ("num", coef), X)), one)
    elif place == "of-product":
        e0 = ("sub", ("matvec", 0, n, ("mul", ("par", 1, ("w",)), X)), one)
    elif place == "nested":
        e0 = ("sub", ("matvec", 0, n, AX), X)
    elif place == "two-matrices":
        pars.append(("B", "matrix", dict(value=_matrix(r, n, n))))
        e0 = ("sub", ("add", AX, ("matvec", 2, n, X)), one)
    elif place == "fn":
        e0 = ("sub", ("sin", AX), X)
    elif place == "abs":
        e0 = ("sub", ("abs", AX), ("num", 0.123))
    elif place == "of-abs-difference":              # A @ |x - b|: the derivative is A @ diag(sign(x - b))
        e0 = ("sub", ("matvec", 0, n, ("abs", ("sub", X, ("par", 1, ("w",))))), one)
    elif place == "abs-difference-plus-matvec":     # |x - z| + A @ z: the block w.r.t. z is A - diag(sign(x - z))
        vars_.append(("z", ROUND(r, n), None))
        e0 = ("add", ("abs", ("sub", X, ("var", 1, ("w",)))), ("matvec", 0, n, ("var", 1, ("w",))))
    elif place == "of-abs-negated":
        e0 = ("sub", ("matvec", 0, n, ("abs", ("neg", X))), one)
    elif place == "of-abs-scaled-by-par":
        e0 = ("sub", ("matvec", 0, n, ("abs", ("mul", ("par", 1, ("w",)), X))), one)
    elif place == "other-var":
        vars_.append(("z", ROUND(r, n), None))
        e0 = ("sub", ("add", AX, ("mul", ("num", 2.0), ("var", 1, ("w",)))), one)
    elif place == "strided-arg":
        vars_[0] = ("x", ROUND(r, 2 * n), None)
        e0 = ("sub", ("matvec", 0, n, ("var", 0, ("t", 0, 2 * n, 2))), one)
    else:
        e0 = ("sub", ("add", AX, ("par", 1, ("w",))), ("mul", ("num", 2.0), X))
    eqs = [("e0", "alg", e0, None)]
    if place in ("other-var", "abs-difference-plus-matvec"):
        eqs.append(("e1", "alg", ("sub", ("mul", ("var", 1, ("w",)), X), one), None))
    if place == "strided-arg":
        eqs.append(("e1", "alg", ("sub", ("powi", ("var", 0, ("t", 1, 2 * n, 2)), 2), one), None))
    return GModel("AE", vars_, pars, eqs), "matrix:" + place


def fam_len1_mixed(r):
    """the recorded witness class of D21: a length-one operand multiplying a vector next to a matrix term"""
    n = int(r.integers(2, 5))
    vars_ = [("x", ROUND(r, n), None)]
    pars = [("A", "matrix", dict(value=_matrix(r, n, n))), ("c", "plain", dict(value=ROUND(r, 1)))]
    X = ("var", 0, ("w",))
    opts = ["c*x + A@x", "b - (c*x + A@x)", "d[0]*x + A@x", "2*(c*x + A@x)", "A@(c*x)", "c*(A@x)", "A@x + c"]
    which = opts[_len1_counter[0] % len(opts)]             # every form in turn (the first two in every quick run)
    _len1_counter[0] += 1
    if which == "d[0]*x + A@x":                       # one element of a longer vector parameter is a length-one operand too
        pars.append(("d", "plain", dict(value=ROUND(r, 3))))
        e0 = ("sub", ("add", ("mul", ("par", 2, ("i", 0)), X), ("matvec", 0, n, X)), ("num", 1.0))
    elif which == "b - (c*x + A@x)":                 # the sum below a factor (-1): sympy keeps it as one product
        pars.append(("b2", "plain", dict(value=ROUND(r, n))))
        e0 = ("sub", ("par", 2, ("w",)), ("add", ("mul", ("par", 1, ("w",)), X), ("matvec", 0, n, X)))
    elif which == "2*(c*x + A@x)":
        e0 = ("sub", ("mul", ("num", 2.0), ("add", ("mul", ("par", 1, ("w",)), X), ("matvec", 0, n, X))), ("num", 1.0))
    elif which == "c*x + A@x":
        e0 = ("sub", ("add", ("mul", ("par", 1, ("w",)), X), ("matvec", 0, n, X)), ("num", 1.0))
    elif which == "A@(c*x)":
        e0 = ("sub", ("matvec", 0, n, ("mul", ("par", 1, ("w",)), X)), ("num", 1.0))
    elif which == "c*(A@x)":
        e0 = ("sub", ("mul", ("par", 1, ("w",)), ("matvec", 0, n, X)), ("num", 1.0))
    else:
        e0 = ("add", ("matvec", 0, n, X), ("par", 1, ("w",)))
    return GModel("AE", vars_, pars, [("e0", "alg", e0, None)]), "matrix-with-length-one-operand"


def fam_matvec_shape(r):
    n = int(r.integers(2, 4))
    which = str(r.choice(["nonsquare-ok", "cols-mismatch", "elementwise"]))
    if which == "nonsquare-ok":
        rows = n + 1
        vars_ = [("x", ROUND(r, n), None), ("z", ROUND(r, 1), None)]
        pars = [("A", "matrix", dict(value=_matrix(r, rows, n)))]
        eqs = [("e0", "alg", ("sub", ("matvec", 0, n, ("var", 0, ("w",))), ("var", 1, ("w",))), None)]
    elif which == "cols-mismatch":
        vars_ = [("x", ROUND(r, n), None)]
        pars = [("A", "matrix", dict(value=_matrix(r, n, n + 1)))]
        eqs = [("e0", "alg", ("sub", ("matvec", 0, n + 1, ("var", 0, ("w",))), ("num", 1.0)), None)]
    else:
        vars_ = [("x", ROUND(r, n), None)]
        pars = [("A", "matrix", dict(value=_matrix(r, n, n)))]
        eqs = [("e0", "alg", ("sub", ("mul", ("par", 0, ("w",)), ("var", 0, ("w",))), ("num", 1.0)), None)]
    return GModel("AE", vars_, pars, eqs), "matrix-shape:" + which


def fam_time_name(r):
    """a variable / parameter whose name is the one the generated functions use for time"""
    which = str(r.choice(["var", "var", "par", "alg-var"]))
    nodes = [0.0, float(np.round(r.uniform(1.0, 3.0), 2)), 10.0]
    vs = [float(x) for x in np.round(r.uniform(-1.0, 3.0, size=3), 3)]
    ts = ("u", "ts", dict(value=[vs[0]], times=nodes, series=vs))
    if which == "var":
        vars_ = [("t", ROUND(r, 1), None), ("x", ROUND(r, 1), None)]
        eqs = [("f0", "ode", ("sub", ("par", 0, ("w",)), ("var", 0, ("w",))), (0, ("w",))),
               ("g0", "alg", ("sub", ("var", 1, ("w",)), ("mul", ("var", 0, ("w",)), ("num", 2.0))), None)]
        pars = [ts]
    elif which == "alg-var":
        vars_ = [("x", ROUND(r, 1), None), ("t", ROUND(r, 1), None)]
        eqs = [("f0", "ode", ("sub", ("par", 0, ("w",)), ("var", 0, ("w",))), (0, ("w",))),
               ("g0", "alg", ("sub", ("var", 1, ("w",)), ("mul", ("par", 0, ("w",)), ("var", 0, ("w",)))), None)]
        pars = [ts]
    else:
        vars_ = [("x", ROUND(r, 1), None)]
        pars = [("t", "plain", dict(value=ROUND(r, 1))), ts]
        eqs = [("f0", "ode", ("sub", ("mul", ("par", 0, ("w",)), ("par", 1, ("w",))), ("var", 0, ("w",))), (0, ("w",)))]
    return GModel("DAE", vars_, pars, eqs), "name-of-time:" + which


def fam_zero_step(r):
    n = int(r.integers(2, 5))
    vars_ = [("x", ROUND(r, n), None)]
    eqs = [("e0", "alg", ("sub", ("var", 0, ("w",)), ("var", 0, ("t", None, None, 0))), None)]
    return GModel("AE", vars_, [], eqs), "zero-step"


class GenX(lang.Gen):
    """random models of the documented language whose leaves also use the extended selections"""

    def __init__(self, rng, kind):
        super().__init__(rng, kind=kind)

    def leaf(self, m, n):
        r = self.r
        if r.random() < 0.45:
            cands = []
            for vi, (vn, vv, _) in enumerate(m.vars):
                L = len(vv)
                for step in (2, 3, -1, -2):
                    for a in (None, 0, 1):
                        sel = ("t", a, None, step)
                        if len(sel_indices(L, sel)) == n:
                            cands.append(("var", vi, sel))
                if L >= n:
                    ks = [int(i) for i in r.permutation(L)[:n]]
                    cands.append(("var", vi, ("l", ks)))
                    cands.append(("var", vi, ("lp", f"ix{vi}_{n}_{int(r.integers(0, 100))}", ks)))
            for qi in range(len(m.pars)):
                if m.pars[qi][1] != "plain":
                    continue
                L = len(m.par_base(qi))
                if L >= n and L > 1:
                    ks = [int(i) for i in r.permutation(L)[:n]]
                    cands.append(("par", qi, ("lp", f"ip{qi}_{n}_{int(r.integers(0, 100))}", ks)))
                    sel = ("t", None, None, 2)
                    if len(sel_indices(L, sel)) == n:
                        cands.append(("par", qi, sel))
            if cands:
                return cands[int(r.integers(0, len(cands)))]
        return super().leaf(m, n)

    def _expr(self, m, n, depth):
        r = self.r
        if depth == 0 or r.random() < 0.2:
            return self.leaf(m, n)
        op = str(r.choice(["add", "add", "sub", "mul", "mul", "div", "neg", "powi", "sin", "cos", "exp", "abs"]))
        if op in ("add", "sub", "mul"):
            a, b = self.expr(m, n if r.random() < 0.75 else 1, depth - 1), self.expr(m, n if r.random() < 0.75 else 1, depth - 1)
            if a == b:
                b = ("add", b, ("num", 0.75))
            if ast_size(m, a) != n and ast_size(m, b) != n:
                a = self.expr(m, n, depth - 1)
            return (op, a, b)
        if op == "div":
            return ("div", self.expr(m, n, depth - 1), ("add", ("num", 2.0), ("powi", self.leaf(m, 1), 2)))
        if op == "neg":
            return ("neg", self.expr(m, n, depth - 1))
        if op == "powi":
            return ("powi", self.expr(m, n, depth - 1), int(r.choice([2, 3])))
        if op == "exp":
            return ("exp", ("mul", ("num", 0.25), self.leaf(m, n)))
        return (op, self.expr(m, n, depth - 1))


def fam_random(r):
    g = GenX(r, kind=str(r.choice(["AE", "AE", "DAE"])))
    m = g.model()
    # plain and time-series parameters only: triggers are C13's subject
    m.pars = [p if p[1] in ("plain", "ts") else (p[0], "plain", dict(value=list(p[2]["value"]))) for p in m.pars]
    return m, "random-extended"


def fam_random_matrix(r):
    """random mixed matrix-vector equations over the operators the matrix calculus knows (+, -, *, Mat_Mul, Abs, numbers)"""
    n = int(r.integers(2, 4))
    vars_ = [("x", ROUND(r, n), None), ("z", ROUND(r, n), None)]
    pars = [("A", "matrix", dict(value=_matrix(r, n, n))), ("B", "matrix", dict(value=_matrix(r, n, n))), ("b2", "plain", dict(value=ROUND(r, n))),
            ("c", "plain", dict(value=ROUND(r, 1)))]

    def vec(depth):
        c = int(r.integers(0, 9 if depth > 0 else 4))
        if c == 0:
            return ("var", 0, ("w",))
        if c == 1:
            return ("var", 1, ("w",))
        if c == 2:
            return ("par", 2, ("w",))
        if c == 3:
            return ("mul", ("num", float(r.choice([2.0, -1.0, 0.5, 3.0]))), ("var", int(r.integers(0, 2)), ("w",)))
        if c in (4, 5):
            return ("matvec", int(r.integers(0, 2)), n, vec(depth - 1))
        if c == 6:
            return (str(r.choice(["add", "sub"])), vec(depth - 1), vec(depth - 1))
        if c == 7:
            return ("mul", vec(depth - 1), vec(depth - 1))
        return ("mul", ("par", 3, ("w",)), vec(depth - 1))
    eqs = []
    for k in range(2):
        e = vec(3)
        if "matvec" not in repr(e):
            e = ("add", e, ("matvec", 0, n, ("var", k, ("w",))))
        eqs.append((f"e{k}", "alg", ("sub", e, ("num", 1.0)), None))
    return GModel("AE", vars_, pars, eqs), "random-matrix"


FAMILIES = [fam_len1_mixed, fam_strided, fam_neg_stride, lambda r: fam_list(r, "l"), lambda r: fam_list(r, "lp"), fam_par_list, fam_list_endpoints,
            fam_list_endpoints, fam_par_strided, fam_oob,
            fam_mismatch, fam_ode_mismatch, fam_matvec, fam_matvec, fam_matvec, fam_matvec, fam_matvec, fam_matvec, fam_matvec, fam_matvec_shape, fam_time_name, fam_zero_step, fam_random, fam_random,
            fam_random_matrix, fam_random_matrix]


# ------------------------------------------------------------------------------------------- running the real code
def uses_matrix(gm):
    return any(k == "matrix" for _, k, _ in gm.pars)


def outcomes(gm, tmp, tag, with_module, points):
    """-> {backend: ("error", stage, exc) | ("values", [(which, point index, value, rows)])}"""
    from Solverz import made_numerical, module_printer
    out = {}
    for backend in ["inline-sparse", "inline-dense"] + (["module"] if with_module else []):
        stage = "construct"
        try:
            mdl = lang.quiet(lang.build, gm)
            stage = "create_instance"
            eqs, y0 = lang.quiet(mdl.create_instance)
            if backend.startswith("inline"):
                stage = "made_numerical"
                nd = lang.quiet(made_numerical, eqs, y0, sparse=(backend == "inline-sparse"))
            else:
                stage = "render"
                name = f"c18_{tag}_{os.getpid()}"
                lang.quiet(module_printer(eqs, y0, name, directory=tmp, jit=False).render)
                if tmp not in sys.path:
                    sys.path.insert(0, tmp)
                stage = "import"
                nd = lang.quiet(importlib.import_module, name).mdl
            vals = []
            for pi, (t, y, _, yprev) in enumerate(points):
                for which in ("F", "J"):
                    stage = f"first {which}" if pi == 0 else f"{which} at point {pi}"
                    v, _pat = pipeline.real_call(nd, gm.kind, which, t, np.array(y, dtype=float), np.array(yprev, dtype=float))
                    vals.append((which, pi, v))
            stage = "addresses"
            rows = pipeline.reorder_rows(None, eqs, [e[0] for e in gm.eqs], gm)
            layout = [int(i) for nm, _, _ in gm.vars for i in np.atleast_1d(np.arange(y0.array.shape[0])[y0.a.v[nm]])]
            out[backend] = ("values", vals, rows, layout, [int(len(np.atleast_1d(eqs.a.v[e[0]]))) for e in gm.eqs])
        except Exception as ex:  # noqa — a loud failure at any stage is an allowed outcome
            out[backend] = ("error", stage, ex)
    return out


def parse_answer(ans, which):
    if not ans.startswith("ok"):
        return None
    w = ans.split()
    if which == "F":
        return np.array([h2f(x) for x in w[1:]])
    nr, nc = int(w[1]), int(w[2])
    return np.array([h2f(x) for x in w[3:]]).reshape(nr, nc)


def numpy_reference(gm, t, y, yprev):
    """second, independent reading of the documented meaning (numpy); used to cross-check the Lean driver's verdict"""
    env = dict(y=np.array(y), yprev=np.array(yprev), p=lang.par_values(gm, {}, None if gm.kind == "AE" else t, y))
    margins = []
    parts = []
    with np.errstate(all="ignore"):
        for (_, kind, a, dv) in gm.eqs:
            v = lang.np_eval(gm, a, env, margins)
            n = ast_size(gm, a)
            tgt = len(sel_indices(len(gm.vars[dv[0]][1]), dv[1])) if dv is not None else 0
            if n != 1 and tgt not in (0, n) and not (tgt == 1):
                raise ValueError("ode shape")
            parts.append(np.broadcast_to(v, (max(n, tgt),)).astype(float))
    return np.concatenate(parts), margins


def collapsed(gm, real_sizes, npref):
    """an equation that the code sees as a scalar while it was written with vector operands, and whose documented value is the
    same constant in every element (no element-wise dependence left): the cancellation class"""
    if isinstance(npref, Exception):
        return False
    ref, _ = npref
    off = 0
    found = False
    for (name, kind, a, dv), rs in zip(gm.eqs, real_sizes):
        try:
            n = ast_size(gm, a)
        except Exception:  # noqa
            return False
        block = ref[off:off + n]
        off += n
        if rs != n:
            if rs == 1 and n > 1 and np.all(block == block[0]):
                found = True
            else:
                return False
    return found


def classes(gm):
    """program classes that recorded findings refer to"""
    out = set()

    def leaves(a, acc):
        if a[0] in ("var", "par", "prev"):
            n = len(gm.vars[a[1]][1]) if a[0] != "par" else len(gm.par_base(a[1]))
            try:
                acc.append(len(sel_indices(n, a[2])))
            except Exception:  # noqa
                acc.append(-1)
        for x in a[1:]:
            if isinstance(x, tuple) and x and isinstance(x[0], str) and x[0] not in ("w", "i", "s", "t", "l", "lp"):
                leaves(x, acc)
    for (_, _, a, _) in gm.eqs:
        if "matvec" in repr(a):
            acc = []
            leaves(a, acc)
            if 1 in acc and any(k > 1 for k in acc):
                out.add("length-one-operand-in-mixed-matrix-vector-equation")
    return out


def idx_param_failures():
    """an index parameter whose values are not integers (0.29*100 = 28.999999999999996) is refused, or means numpy's own reading
    (numpy refuses a float subscript array); never a silently truncated index"""
    out = []
    try:
        from Solverz import Model, Var, Param, IdxParam, Eqn, made_numerical
        d = np.arange(40.0) * 1.5
        m = Model(); m.x = Var("x", [1.0, 2.0]); m.d = Param("d", d); m.i = IdxParam("i", [0.29 * 100, 3])
        m.e = Eqn("e", m.x - m.d[m.i])
        eqs, y0 = lang.quiet(m.create_instance)
        nd = lang.quiet(made_numerical, eqs, y0, sparse=True)
        F = np.asarray(nd.F(np.array([1.0, 2.0]), nd.p), dtype=float)
        if not np.allclose(F, np.array([1.0, 2.0]) - d[[29, 3]]):
            out.append(f"IdxParam('i', [0.29*100, 3]) (= [28.999999999999996, 3]) was accepted and x - d[i] evaluates to {F}: the index was "
                       f"truncated to 28 (d[28] = {d[28]}, d[29] = {d[29]}); numpy itself refuses a float subscript")
    except Exception:  # noqa — refused loudly
        pass
    # index parameters as the bounds of a slice of a parameter, p[i:j].  A bound is one position: with one entry per bound the
    # meaning is p[int(i):int(j)] (error or exactly those numbers); with several entries in a bound the subscript has no meaning
    # (numpy refuses it) and must fail loudly
    pv = np.array([2.0, 3.0, 5.0, 7.0, 11.0, 13.0])
    for i_val, j_val in (([1], [4]), ([1, 3], [4]), ([0], [2, 5]), ([2, 0], [5])):
        for sparse in (True, False):
            try:
                from Solverz import Model, Var, Param, IdxParam, Eqn, made_numerical
                n = j_val[0] - i_val[0]
                m = Model(); m.x = Var("x", [1.0 + 0.5 * k for k in range(n)]); m.p = Param("p", pv)
                m.i = IdxParam("i", i_val); m.j = IdxParam("j", j_val)
                m.f = Eqn("f", m.p[m.i:m.j] * m.x - 1)
                eqs, y0 = lang.quiet(m.create_instance)
                nd = lang.quiet(made_numerical, eqs, y0, sparse=sparse)
                yv = np.array([0.7 + 0.3 * k for k in range(n)])
                F = np.asarray(nd.F(yv, nd.p), dtype=float).reshape(-1)
                J = nd.J(yv, nd.p)
                J = np.asarray(J.toarray() if hasattr(J, "toarray") else J, dtype=float)
            except Exception:  # noqa — refused loudly
                continue
            tag = f"p[i:j] with i = IdxParam({i_val}), j = IdxParam({j_val}), inline {'sparse' if sparse else 'dense'}"
            if len(i_val) > 1 or len(j_val) > 1:
                out.append(f"{tag}: a slice bound with several entries has no meaning (numpy refuses it) but F = {F} and J were returned")
            elif not (np.allclose(F, pv[i_val[0]:j_val[0]] * yv - 1) and np.allclose(J, np.diag(pv[i_val[0]:j_val[0]]))):
                out.append(f"{tag}: F = {F}, the declared equation gives {pv[i_val[0]:j_val[0]] * yv - 1}")
    return out


def run(rep, tier, seed):
    rep.cov["trusted_base"] = BASE_TRUST + [
        "the reference semantics (Core/Lang.lean) give the meaning of the extended grammar: Python's slice.indices for strides, "
        "normalised integer indices for index lists / index parameters, row-major matrix parameters under Mat_Mul; written from the "
        "documentation and from numpy's semantics, cross-checked on every run against an independent numpy evaluator",
        "a loud failure is any Python exception at construction, create_instance, made_numerical / render / import, or at an F / J call",
        "sympy, numpy and scipy are oracles; values are compared with tolerance 1e-9 relative (summation order of A @ x is not fixed)"]
    failed = rep.add_proof(prove("C18"))
    rng = np.random.default_rng(seed)
    _matvec_counter[0] = 0
    _len1_counter[0] = 0
    per_family = 3 if tier == "quick" else 40
    tmp = tempfile.mkdtemp(prefix="c18_")
    lines, slots = [], []
    stats = dict(models=0, families={}, outcomes={}, error_stages={}, error_types={}, reference_rejects=0, module_backends=0)
    fails, diffs, samples = [], [], []
    try:
        k = 0
        for rnd in range(per_family):
            for fi, fam in enumerate(FAMILIES):
                gm, family = fam(rng)
                k += 1
                stats["models"] += 1
                stats["families"][family.split(":")[0]] = stats["families"].get(family.split(":")[0], 0) + 1
                pts = pipeline.gen_points(gm, rng, 2)
                pts = [(t, y, {}, yp) for (t, y, _, yp) in pts]
                with_module = uses_matrix(gm) or (k % 3 == 0)
                stats["module_backends"] += int(with_module)
                with warnings.catch_warnings():
                    warnings.simplefilter("ignore")
                    res = outcomes(gm, tmp, f"m{k}", with_module, pts)
                if len(samples) < 3:
                    samples.append(dict(family=family, model=gm.describe(), outcomes={b: (o[0] if o[0] == "values" else f"error at {o[1]}: {type(o[2]).__name__}") for b, o in res.items()}))
                for pi, (t, y, _, yprev) in enumerate(pts):
                    pflat = [x for arr in lang.par_values(gm, {}, None if gm.kind == "AE" else t, y) for x in np.atleast_1d(arr)]
                    try:
                        npref = numpy_reference(gm, t, y, yprev)
                    except Exception as ex:  # noqa
                        npref = ex
                    for which in ("F", "J"):
                        lines.append(lang.request(which, gm, y, np.array(pflat), yprev))
                        slots.append(dict(gm=gm, family=family, pi=pi, which=which, res=res, npref=npref,
                                          point=dict(t=t, y=[float(v) for v in y], yprev=[float(v) for v in yprev])))
        try:
            answers = run_driver(lines)
        except LeanError as ex:
            answers = None
            rep.violation(f"driver: {ex}", dict(kind="tie", detail=str(ex)), has_input=False) if not failed else None
        for m_idx in idx_param_failures():
            fails.append((dict(family="index-parameter", backend="inline-sparse", what="F", model="x - d[i], i = IdxParam([0.29*100, 3])"), m_idx))
        counted = set()
        for slot, ans in zip(slots, answers or []):
            gm, family, which, pi = slot["gm"], slot["family"], slot["which"], slot["pi"]
            ref = parse_answer(ans, which)
            npref = slot["npref"]
            # the two readings of the documented meaning must agree on accept / reject and on F
            if which == "F" and pi == 0:
                if (ref is None) != isinstance(npref, Exception):
                    diffs.append(dict(case=dict(family=family, model=gm.describe()), what=f"Lean reference says {ans[:40]!r}, numpy reading says "
                                                                                          f"{'error ' + str(npref)[:60] if isinstance(npref, Exception) else 'values'}"))
                elif ref is not None and not pipeline.close(ref, npref[0]):
                    diffs.append(dict(case=dict(family=family, model=gm.describe()), what="Lean reference and numpy reading give different F"))
                if ref is None:
                    stats["reference_rejects"] += 1
            near_kink = (not isinstance(npref, Exception)) and bool(npref[1]) and min(npref[1]) < pipeline.KINK
            for backend, o in slot["res"].items():
                keyc = (id(gm), backend)
                if o[0] == "error":
                    if keyc not in counted:
                        counted.add(keyc)
                        stats["outcomes"]["error"] = stats["outcomes"].get("error", 0) + 1
                        stats["error_stages"][o[1]] = stats["error_stages"].get(o[1], 0) + 1
                        stats["error_types"][type(o[2]).__name__] = stats["error_types"].get(type(o[2]).__name__, 0) + 1
                    continue
                if keyc not in counted:
                    counted.add(keyc)
                    stats["outcomes"]["values"] = stats["outcomes"].get("values", 0) + 1
                _, vals, rows, layout, real_sizes = o
                if layout != list(range(len(layout))):
                    stats["layout_not_declaration_order"] = stats.get("layout_not_declaration_order", 0) + 1
                    continue
                got = [v for (w, p_, v) in vals if w == which and p_ == pi][0]
                case = dict(family=family, model=gm.describe(), backend=backend, point=slot["point"], what=which, classes=sorted(classes(gm)))
                if ref is None:
                    fails.append((case, f"{backend} returned {which} = {np.round(np.asarray(got).ravel()[:6], 6).tolist()} for a program that has no meaning "
                                        f"({ans}; {family})"))
                    continue
                if which == "J" and near_kink:
                    continue
                if len(rows) != ref.shape[0] and collapsed(gm, real_sizes, slot["npref"]):
                    # sympy cancelled a vector sub-expression (z - z -> 0) at construction: the equation became a scalar constant.
                    # Same class as in C01 / C02: not a meaningful model, skipped and counted
                    if keyc + ("c",) not in counted:
                        counted.add(keyc + ("c",))
                        stats["collapsed_by_sympy"] = stats.get("collapsed_by_sympy", 0) + 1
                    continue
                if sorted(rows) != list(range(len(rows))) or len(rows) != ref.shape[0] or np.asarray(got).shape[0] != ref.shape[0]:
                    fails.append((case, f"{backend}: {which} has {np.asarray(got).shape} elements / rows at addresses {rows}, the declared model has {ref.shape}"))
                    continue
                g = np.asarray(got, dtype=float)[rows] if which == "F" else np.asarray(got, dtype=float)[rows, :]
                if g.shape != ref.shape:
                    fails.append((case, f"{backend}: {which} has shape {g.shape}, the declared model gives {ref.shape}"))
                elif not pipeline.close(g, ref):
                    d = np.abs(g - ref)
                    ix = np.unravel_index(int(np.nanargmax(d)), d.shape)
                    fails.append((case, f"{backend}: {which}{list(map(int, ix))} = {float(g[ix])!r} but the declared model gives {float(ref[ix])!r} ({family}); no error was raised"))
    finally:
        for kmod in [kk for kk in sys.modules if kk.startswith("c18_m")]:
            del sys.modules[kmod]
        if tmp in sys.path:
            sys.path.remove(tmp)
        shutil.rmtree(tmp, ignore_errors=True)

    rep.cov["evaluations"] = len(slots)
    rep.cov["distinct_nontrivial"] = stats["models"]
    rep.cov["rule"] = ("19 generators x rounds: strided / negative-stride / zero-step slices, index lists and index parameters on variables and "
                       "parameters, integer / list indices out of range (landing inside a neighbouring variable), operands of different sizes, Ode "
                       "right-hand side larger than its diff_var, Mat_Mul with a matrix parameter in 14 placements, non-square / mismatched / "
                       "element-wise matrix parameters, variables and parameters named like the time argument, random models of the documented "
                       "language with extended selections at the leaves, random mixed matrix-vector equations; every model through inline sparse, "
                       "inline dense and (matrix models and every third other model) the rendered module; 2 points each")
    rep.cov["generator_distribution"] = stats
    rep.cov["samples"] = samples
    # known findings: an entry names a class of programs (predicate below) and the backends / outputs it concerns
    kf = {e["key"]: e for e in known_findings("C18") if e.get("key")}
    new, seen = [], set()
    for case, m in fails:
        hit = None
        for key, e in kf.items():
            if e.get("class") in case["classes"] and case["backend"] in e.get("backends", [case["backend"]]) and case["what"] in e.get("what", ["F", "J"]):
                hit = key
        if hit:
            rep.known(hit, kf[hit]["line"].split("property=C18 ", 1)[1])
            stats["known_finding_inputs"] = stats.get("known_finding_inputs", 0) + 1
            continue
        key = (case["family"], case["backend"], case["what"])
        if key in seen or len(seen) >= 8:
            continue
        seen.add(key)
        new.append((case, m))
    for case, m in new:
        rep.violation("C18 fails on the real code: " + m, dict(kind="model-point", case=case, message=m))
    if not new:
        for f in failed:
            rep.violation(f"proof obligation no longer checks: {f}; no silent wrong number found", dict(kind="proof", theorem=f), has_input=False)
        for d in diffs[:3]:
            rep.violation("the two readings of the documented meaning disagree: " + d["what"], dict(kind="correspondence", **d), has_input=False)


def replay(rep, payload):
    print("replay:", payload.get("message")); print(payload.get("case"))
