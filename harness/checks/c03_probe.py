"""Run in a FRESH interpreter with cwd somewhere else:  python c03_probe.py <render dir> <out.npz> <name>...
Imports each rendered module by name and dumps F, J, HVP, M, p, y, nstep at fixed test points."""
import sys, os, json, io, contextlib, warnings
import numpy as np

render_dir, out = sys.argv[1], sys.argv[2]
names = sys.argv[3:]
sys.path.insert(0, os.environ["SOLVERZ_ROOT"])
sys.path.insert(0, render_dir)
import Solverz
assert os.path.realpath(Solverz.__file__).startswith(os.path.realpath(os.environ["SOLVERZ_ROOT"]) + os.sep), Solverz.__file__
import importlib
res = {}
res["__cwd__"] = np.array([0.0])
meta = {}
for nm in names:
    try:
        with contextlib.redirect_stdout(io.StringIO()), warnings.catch_warnings():
            warnings.simplefilter("ignore")
            mod = importlib.import_module(nm)
        mdl = mod.mdl
        y = np.asarray(mod.y.array, dtype=float)
        kind = "DAE" if hasattr(mdl, "M") else ("FDAE" if hasattr(mdl, "nstep") else "AE")
        meta[nm] = dict(kind=kind, ok=True, nstep=int(getattr(mdl, "nstep", -1)), pkeys=sorted(mdl.p.keys()),
                        varlist=list(mod.y.a.object_list), varlens=[int(x) for x in mod.y.a.length_array])
        res[nm + "/y"] = y
        for k, v in mdl.p.items():
            res[nm + "/p/" + k] = np.asarray(v.v if hasattr(v, "v") else v, dtype=float)
        if kind == "DAE":
            res[nm + "/M"] = mdl.M.toarray()
        rng = np.random.default_rng(12345)
        for i in range(3):
            yy = y + (0.25 * rng.normal(size=y.shape) if i else 0.0)
            v = rng.normal(size=y.shape)
            t = [0.0, 0.7, 2.5][i]
            args = (yy, mdl.p) if kind == "AE" else ((t, yy, mdl.p) if kind == "DAE" else (t, yy, mdl.p, y))
            with warnings.catch_warnings():
                warnings.simplefilter("ignore")
                res[f"{nm}/F{i}"] = np.asarray(mdl.F(*args), dtype=float)
                res[f"{nm}/J{i}"] = mdl.J(*args).toarray()
                if hasattr(mdl, "HVP"):
                    hargs = (yy, mdl.p, v) if kind == "AE" else ((t, yy, mdl.p, v) if kind == "DAE" else (t, yy, mdl.p, v, y))
                    res[f"{nm}/H{i}"] = mdl.HVP(*hargs).toarray()
    except Exception as ex:  # noqa
        meta[nm] = dict(ok=False, error=f"{type(ex).__name__}: {ex}"[:300])
np.savez(out, **res)
json.dump(meta, open(out + ".json", "w"))
