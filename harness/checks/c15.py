"""
C15 — results do not depend on declaration order or on names.

1. proof obligations: Properties/C15.lean (reference semantics: permuting the equation declarations permutes the
   residual blocks and leaves every block unchanged; Newton step and Rosenbrock stage are equivariant under
   invertible row/column transformations, in particular permutations — Mathlib matrices)
2. K: for generated models, random permutations of the variable / parameter / equation declarations and injective
   renamings (names whose lexicographic order differs from declaration order; t, y, p, F, J in autonomous models)
   are built with the real API: F, J, M of the variant must be the permuted copy of F, J, M of the original at the
   same (permuted) points — exact for pure permutations, 1e-12 under renaming — and the solvers must return the same
   values for each named variable.
"""
from __future__ import annotations

import warnings
import numpy as np

from harness.common import prove, BASE_TRUST
from harness import lang, pipeline

ALT_NAMES = ["zz9", "a1", "Beta", "m_2", "kappa", "Z", "aa", "n0", "Omega", "b"]
SPECIAL = ["t", "y", "p", "F", "J", "x0", "M", "v"]


def permute_model(gm: lang.GModel, rng, rename, special_ok):
    nv, npar, ne = len(gm.vars), len(gm.pars), len(gm.eqs)
    pv = list(rng.permutation(nv)); pp = list(rng.permutation(npar)); pe = list(rng.permutation(ne))
    inv_v = {int(old): new for new, old in enumerate(pv)}
    inv_p = {int(old): new for new, old in enumerate(pp)}

    def re(a):
        op = a[0]
        if op in ("var", "prev"):
            return (op, inv_v[a[1]], a[2])
        if op == "par":
            return ("par", inv_p[a[1]], a[2])
        if op == "num":
            return a
        if op == "powi":
            return ("powi", re(a[1]), a[2])
        return (op,) + tuple(re(x) for x in a[1:])
    names_v = [gm.vars[int(i)][0] for i in pv]
    names_p = [gm.pars[int(i)][0] for i in pp]
    if rename:
        if rng.random() < 0.4:
            # names that are prefixes of one another (va / va1 / va1x ...), in random declaration order
            base = str(rng.choice(["va", "xs", "Tin", "kq", "w"]))
            chain = [base + "1x2y3z4"[:k] for k in range(len(names_v) + len(names_p))]
            pool = list(rng.permutation(chain))
        else:
            pool = list(rng.permutation(ALT_NAMES + (SPECIAL if special_ok else [])))
        names_v = [str(pool.pop()) for _ in names_v]
        names_p = [str(pool.pop()) for _ in names_p]
    vars_ = [(names_v[k], gm.vars[int(i)][1], None) for k, i in enumerate(pv)]
    pars = []
    for k, i in enumerate(pp):
        n, kind, data = gm.pars[int(i)]
        d = dict(data)
        if kind == "trigger":
            d["trigger_var"] = inv_v[data["trigger_var"]]
        if kind == "trigger_p":
            d["trigger_par"] = inv_p[data["trigger_par"]]
        pars.append((names_p[k], kind, d))
    # a parameter triggered by another parameter must be declared after it? (no: Model collects attributes) keep as is
    eqs = []
    for k, i in enumerate(pe):
        n, kind, a, dv = gm.eqs[int(i)]
        eqs.append((n if not rename else f"q{k}_{n}", kind, re(a), None if dv is None else (inv_v[dv[0]], dv[1])))
    return lang.GModel(gm.kind, vars_, pars, eqs), [int(i) for i in pv], [int(i) for i in pp], [int(i) for i in pe]


def flat_map(sizes, perm):
    """index map: position in the permuted flat vector -> position in the original flat vector"""
    offs = np.concatenate([[0], np.cumsum(sizes)])
    idx = []
    for old in perm:
        idx += list(range(int(offs[old]), int(offs[old + 1])))
    return np.array(idx, dtype=int)


def eq_rows(b, gm):
    rows = []
    for (n, _, _, _) in gm.eqs:
        rows.append([int(i) for i in b.eqs.a.v[n]])
    return rows


def run(rep, tier, seed):
    rep.cov["trusted_base"] = BASE_TRUST + [
        "variants are compared with the original on the real code (both sides are the implementation); the Lean theorems are about the "
        "reference semantics and about exact-arithmetic equivariance of the Newton / Rosenbrock linear algebra; floating-point factorisations "
        "of permuted matrices differ by rounding (tolerances below)",
        "names the generated code uses itself (y_, p_, _F_, data, row, col in sparse J) and Python keywords belong to C18, not here"]
    failed = rep.add_proof(prove("C15"))
    rng = np.random.default_rng(seed)
    nm = 14 if tier == "quick" else 200
    fails = []
    ncmp = 0
    nvariants = 0
    stats = dict(perm_only=0, renamed=0, special_names=0, solver_runs=0)
    models = lang.corpus() + [lang.Gen(rng).model() for _ in range(nm)]
    for gm in models:
        try:
            b0 = pipeline.Built(gm)
            if pipeline.degenerate(b0):
                continue
            b0.add_inline()
        except Exception:  # noqa
            continue
        nd0, eqs0, y00 = b0.backends["inline-sparse"]
        pts = pipeline.gen_points(gm, rng, 3)
        rows0 = eq_rows(b0, gm)
        for variant in range(3 if tier == "quick" else 5):
            rename = variant >= 1
            special_ok = gm.kind == "AE" and not any(p[1] in ("ts", "ts_index") for p in gm.pars)
            gm2, pv, pp, pe = permute_model(gm, rng, rename, special_ok and variant == 2)
            nvariants += 1
            stats["renamed" if rename else "perm_only"] += 1
            if any(v[0] in SPECIAL for v in gm2.vars) or any(p[0] in SPECIAL for p in gm2.pars):
                stats["special_names"] += 1
            case = dict(original=gm.describe(), variant=gm2.describe(), var_perm=pv, par_perm=pp, eqn_perm=pe)
            try:
                b2 = pipeline.Built(gm2); b2.add_inline()
            except Exception as ex:  # noqa
                fails.append((case, f"the permuted / renamed declaration cannot be built: {type(ex).__name__}: {str(ex)[:150]}"))
                continue
            nd2 = b2.backends["inline-sparse"][0]
            cmap = flat_map(gm.var_sizes(), pv)          # permuted position -> original position
            rows2 = eq_rows(b2, gm2)
            tol = dict(rtol=0, atol=0) if not rename else dict(rtol=1e-12, atol=1e-13)
            if gm.kind == "DAE":
                M0, M2 = nd0.M.toarray(), nd2.M.toarray()
                r0 = [r for k in pe for r in rows0[k]]; r2 = [r for rr in rows2 for r in rr]
                if not np.array_equal(M2[np.ix_(r2, range(M2.shape[1]))], M0[np.ix_(r0, cmap)]):
                    fails.append((case, "mass matrix of the variant is not the permuted copy of the original"))
            for (t, y, overrides, yprev) in pts:
                ov2 = {gm2.pars[k][0]: overrides[gm.pars[pp[k]][0]] for k in range(len(pp)) if gm.pars[pp[k]][0] in overrides}
                y2, yp2 = y[cmap], yprev[cmap]
                try:
                    pipeline.apply_overrides(nd0, gm, overrides); pipeline.apply_overrides(nd2, gm2, ov2)
                    F0, _ = pipeline.real_call(nd0, gm.kind, "F", t, y.copy(), yprev.copy())
                    F2, _ = pipeline.real_call(nd2, gm2.kind, "F", t, y2.copy(), yp2.copy())
                    J0, _ = pipeline.real_call(nd0, gm.kind, "J", t, y.copy(), yprev.copy())
                    J2, _ = pipeline.real_call(nd2, gm2.kind, "J", t, y2.copy(), yp2.copy())
                except Exception as ex:  # noqa
                    fails.append((case, f"evaluation raised {type(ex).__name__}: {str(ex)[:120]}")); continue
                finally:
                    pipeline.restore_params(nd0, gm); pipeline.restore_params(nd2, gm2)
                ncmp += 2
                r0 = [r for k in pe for r in rows0[k]]; r2 = [r for rr in rows2 for r in rr]
                if len(r0) != len(r2):
                    fails.append((case, "equation sizes differ between the original and the variant")); continue
                with np.errstate(invalid="ignore"):
                    if not np.allclose(F2[r2], F0[r0], equal_nan=True, **tol):
                        fails.append((case, f"residual of the variant is not the permuted copy: {F2[r2]} vs {F0[r0]} at y = {list(y)}"))
                    if not np.allclose(J2[np.ix_(r2, range(J2.shape[1]))], J0[np.ix_(r0, cmap)], equal_nan=True, **tol):
                        fails.append((case, "Jacobian of the variant is not the permuted copy of the original"))
        # ---- solver results per named variable (autonomous AE models: Newton; DAE: trapezoid, Rodas)
    # ---- the same symbolic equations made numerical for another variable order (the order of the Vars handed to made_numerical
    #      is the declaration order the addresses follow): a permuted copy of what a declaration from scratch in that order gives
    import tempfile as _tf, shutil as _sh
    _htmp = _tf.mkdtemp(prefix="c15h_")
    try:
        hf, nh = pipeline.regen_histories(models[:len(lang.corpus()) + (4 if tier == "quick" else 60)], rng, _htmp, "c15h", what=("F", "J", "M"),
                                          with_module=(tier != "quick"))
    finally:
        _sh.rmtree(_htmp, ignore_errors=True)
    stats["relayout_histories"] = nh
    for case_h, msg in hf[:3]:
        fails.append((case_h, "variable order changed on kept equations: " + msg))
    # dedicated solver comparison on zoo-like models
    from Solverz import nr_method, Rodas, implicit_trapezoid, Opt, made_numerical
    solver_models = [m for m in models if m.kind in ("AE", "DAE")][:6 if tier == "quick" else 40]
    for gm in solver_models:
        try:
            b0 = pipeline.Built(gm)
            if pipeline.degenerate(b0):
                continue
            b0.add_inline()
            gm2, pv, pp, pe = permute_model(gm, rng, True, False)
            b2 = pipeline.Built(gm2); b2.add_inline()
        except Exception:  # noqa
            continue
        nd0, _, y00 = b0.backends["inline-sparse"]; nd2, _, y02 = b2.backends["inline-sparse"]
        case = dict(original=gm.describe(), variant=gm2.describe())
        try:
            with warnings.catch_warnings():
                warnings.simplefilter("ignore")
                if gm.kind == "AE":
                    s0 = lang.quiet(nr_method, nd0, y00, Opt(ite_tol=1e-10)); s2 = lang.quiet(nr_method, nd2, y02, Opt(ite_tol=1e-10))
                    pairs = [("nr_method", s0.y, s2.y, 1e-8)] if (s0.stats.succeed and s2.stats.succeed) else []
                    if s0.stats.succeed != s2.stats.succeed:
                        pairs = []
                        rep.notes.append("Newton converged for one declaration order only (ill-conditioned random model)")
                else:
                    a0 = lang.quiet(implicit_trapezoid, nd0, [0, 0.2], y00, Opt(step_size=0.05, ite_tol=1e-11))
                    a2 = lang.quiet(implicit_trapezoid, nd2, [0, 0.2], y02, Opt(step_size=0.05, ite_tol=1e-11))
                    r0 = lang.quiet(Rodas, nd0, [0, 0.2], y00, Opt(rtol=1e-6, atol=1e-9))
                    r2 = lang.quiet(Rodas, nd2, [0, 0.2], y02, Opt(rtol=1e-6, atol=1e-9))
                    pairs = [("implicit_trapezoid", a0.Y[-1], a2.Y[-1], 1e-8), ("Rodas", r0.Y[-1], r2.Y[-1], 1e-4)]
                    # the initial slope ode15s starts from (first step size, first predictor): per named variable the same numbers
                    from Solverz.solvers.daesolver.daeic import getyp0 as _getyp0
                    from Solverz.variable.variables import Vars as _Vars
                    s0 = _Vars(y00.a, _getyp0(nd0, y00.array.copy(), 0.0)); s2 = _Vars(y02.a, _getyp0(nd2, y02.array.copy(), 0.0))
                    for newk in range(len(gm2.vars)):
                        n0 = gm.vars[pv[newk]][0]; n2 = gm2.vars[newk][0]
                        a_, b_ = np.asarray(s0[n0]), np.asarray(s2[n2])
                        if np.all(np.isfinite(a_)) and np.all(np.isfinite(b_)) and not np.allclose(a_, b_, rtol=1e-9, atol=1e-12):
                            fails.append((case, f"initial slope of {n0} (renamed {n2}) used by ode15s is {a_} in the original and {b_} after "
                                                f"reordering / renaming the declarations"))
                    # conditioning baseline: the same declaration from a start perturbed in the 11th digit.  A trajectory that
                    # amplifies that by more than a tenth of the comparison tolerance (blow-up, 1/(a-b) terms of random models)
                    # cannot be compared across term orderings: renaming changes sympy's summation order by an ulp
                    import copy as _copy
                    y0p = _copy.deepcopy(y00); y0p.array[:] = y0p.array * (1.0 + 1e-11)
                    ap = lang.quiet(implicit_trapezoid, nd0, [0, 0.2], y0p, Opt(step_size=0.05, ite_tol=1e-11))
                    rp = lang.quiet(Rodas, nd0, [0, 0.2], y0p, Opt(rtol=1e-6, atol=1e-9))
                    kept = []
                    for (sname, v0, v2, tol), vp in zip(pairs, (ap.Y[-1], rp.Y[-1])):
                        if np.allclose(np.asarray(v0.array), np.asarray(vp.array), rtol=tol / 10, atol=tol / 10):
                            kept.append((sname, v0, v2, tol))
                        else:
                            stats["ill_conditioned_skipped"] = stats.get("ill_conditioned_skipped", 0) + 1
                    pairs = kept
        except Exception as ex:  # noqa
            continue
        stats["solver_runs"] += 1
        for sname, v0, v2, tol in pairs:
            for k, newk in enumerate(range(len(gm2.vars))):
                n0 = gm.vars[pv[newk]][0]; n2 = gm2.vars[newk][0]
                a, bb = np.asarray(v0[n0]), np.asarray(v2[n2])
                if not (np.all(np.isfinite(a)) and np.all(np.isfinite(bb))):
                    continue
                if not np.allclose(a, bb, rtol=tol, atol=tol):
                    fails.append((case, f"{sname}: variable {n0} (renamed {n2}) = {a} in the original and {bb} after reordering / renaming"))
    # ---- renaming a variable of a finite-difference model to the name the generated code gives the previous-step vector (y_0):
    #      the name is refused, or the model means the same as under any other name
    try:
        from Solverz import Model, Var, Eqn, AliasVar, made_numerical
        def fd_model(vn):
            m = Model()
            setattr(m, vn, Var(vn, [1.0, 0.5]))
            setattr(m, vn + "_prev", AliasVar(vn, init=getattr(m, vn)))
            m.e = Eqn("e", getattr(m, vn) - getattr(m, vn + "_prev") + 0.1 * getattr(m, vn))
            eqs, y0 = lang.quiet(m.create_instance)
            return lang.quiet(made_numerical, eqs, y0, sparse=True), y0
        ref_nd, ref_y0 = fd_model("q")
        yv, yp = np.array([0.9, 0.4]), np.array([1.0, 0.5])
        F_ref = np.asarray(ref_nd.F(0.0, yv, ref_nd.p, yp), dtype=float)
        for vn in ("y_0", "y_1"):
            try:
                nd_r, _ = fd_model(vn)
            except Exception:  # noqa — refused loudly
                continue
            F_r = np.asarray(nd_r.F(0.0, yv, nd_r.p, yp), dtype=float)
            stats["reserved_prev_names"] = stats.get("reserved_prev_names", 0) + 1
            if not np.allclose(F_r, F_ref, rtol=1e-12, atol=1e-14):
                fails.append((dict(original="FDAE q - q_prev + 0.1 q", variant=f"the variable renamed to {vn}"),
                              f"renaming the variable of a finite-difference model to {vn} changes F from {F_ref} to {F_r} "
                              f"(the previous-step argument of the generated function is overwritten)"))
    except Exception as ex:  # noqa
        rep.notes.append(f"reserved-name probe: {type(ex).__name__}: {str(ex)[:100]}")
    # ---- renaming a variable to `pi` / `e` in a model that uses the constants pi / E, and a parameter to the name of an alias
    #      (`x_tag_0`) in a finite-difference model: refused, or the same model
    try:
        import sympy as _sp
        from Solverz import Model, Var, Param, Eqn, AliasVar, made_numerical, sin as _sin
        def const_model(vn, const):
            m = Model(); setattr(m, vn, Var(vn, [0.1, 0.3])); m.k = Param("k", [1.0, 0.5])
            m.eq = Eqn("eq", _sin(const * getattr(m, vn)) - 0.5 * m.k)
            eqs, y0 = lang.quiet(m.create_instance)
            return lang.quiet(made_numerical, eqs, y0, sparse=True), eqs, y0
        for const, bad in ((_sp.pi, "pi"), (_sp.E, "e")):
            nd_ref, _, y_ref = const_model("u", const)
            F_ref = np.asarray(nd_ref.F(y_ref.array, nd_ref.p), dtype=float)
            try:
                nd_b, eqs_b, y_b = const_model(bad, const)
            except Exception:  # noqa
                continue
            F_b = np.asarray(nd_b.F(y_b.array, nd_b.p), dtype=float)
            g_b = np.asarray(eqs_b.g(y_b), dtype=float).reshape(-1) if hasattr(eqs_b, "g") else F_b
            stats["constant_names"] = stats.get("constant_names", 0) + 1
            if not (np.allclose(F_b, F_ref, rtol=1e-12) and np.allclose(g_b, F_ref, rtol=1e-12)):
                fails.append((dict(original=f"sin({const}*u) - k/2", variant=f"u renamed to {bad}"),
                              f"renaming the variable to {bad} changes F from {F_ref} to {F_b} (symbolic evaluation {g_b}): the name shadows the constant"))
        def fd_tag(pn):
            m = Model(); m.x = Var("x", 1.0); m.x_prev = AliasVar("x", init=m.x); m.dt = Param("dt", 0.1); setattr(m, pn, Param(pn, 1.5))
            m.e1 = Eqn("e1", m.x - m.x_prev + m.dt * m.x * getattr(m, pn))
            eqs, y0 = lang.quiet(m.create_instance)
            return lang.quiet(made_numerical, eqs, y0, sparse=True)
        nd_w = fd_tag("w")
        F_w = np.asarray(nd_w.F(0.0, np.array([0.9]), nd_w.p, np.array([1.0])), dtype=float)
        try:
            nd_t = fd_tag("x_tag_0")
            F_t = np.asarray(nd_t.F(0.0, np.array([0.9]), nd_t.p, np.array([1.0])), dtype=float)
            if not np.allclose(F_t, F_w, rtol=1e-12):
                fails.append((dict(original="FDAE x - x_prev + dt*x*w", variant="w renamed to x_tag_0"),
                              f"renaming the parameter to x_tag_0 changes F from {F_w} to {F_t}: it shares the slot of the alias of x"))
        except Exception:  # noqa — refused loudly
            pass
    except Exception as ex:  # noqa
        rep.notes.append(f"constant / alias name probe: {type(ex).__name__}: {str(ex)[:100]}")
    # ---- start values given by an expression (Var(init=...)) over a parameter and a variable: the value must not depend on how the
    #      names of the two sort
    from Solverz import Model, Var, Param, Eqn
    ninit = 0
    for (nx, nk, nz) in [("c", "k", "z"), ("u", "k", "z"), ("x", "a", "w"), ("b", "a", "w"), ("va", "va1", "q"), ("m2", "m", "s")]:
        for form in ("k + x**2", "x*k - k", "k**2 + x"):
            try:
                m = Model()
                xv = Var(nx, [2.0, 3.0]); kp = Param(nk, [3.0, -1.0])
                setattr(m, nx, xv); setattr(m, nk, kp)
                expr = {"k + x**2": kp + xv ** 2, "x*k - k": xv * kp - kp, "k**2 + x": kp ** 2 + xv}[form]
                want = {"k + x**2": np.array([3.0 + 4.0, -1.0 + 9.0]), "x*k - k": np.array([6.0 - 3.0, -3.0 + 1.0]),
                        "k**2 + x": np.array([9.0 + 2.0, 1.0 + 3.0])}[form]
                zv = Var(nz, init=expr)
                setattr(m, nz, zv)
                m.e1 = Eqn("e1", xv - 1); m.e2 = Eqn("e2", zv - xv * kp)
                eqs_i, y0_i = lang.quiet(m.create_instance)
                got = np.asarray(y0_i[nz], dtype=float)
                ninit += 1
                if not np.allclose(got, want, rtol=1e-13, atol=0):
                    fails.append((dict(names=dict(x=nx, k=nk, z=nz), init=form), f"start value of {nz} = init({form}) is {got} with the names x->{nx}, k->{nk}; "
                                                                                  f"the expression evaluates to {want}"))
            except Exception as ex:  # noqa
                rep.notes.append(f"init family {nx},{nk},{nz},{form}: {type(ex).__name__}: {str(ex)[:80]}")
    stats["init_expressions"] = ninit
    rep.cov["evaluations"] = ncmp
    rep.cov["distinct_nontrivial"] = nvariants
    rep.cov["rule"] = ("for each generated model 3-5 variants: random permutation of variable, parameter and equation declarations, plus injective "
                       "renamings from a pool whose lexicographic order differs from declaration order (and t, y, p, F, J, x0, row, data in "
                       "autonomous models); F, J, M compared as permuted copies at 3 points incl. parameter reassignment; Newton / trapezoid / "
                       "Rodas results compared per variable name. distinct = variants")
    rep.cov["samples"] = [models[len(lang.corpus())].describe()] if len(models) > len(lang.corpus()) else []
    rep.cov["stats"] = stats
    seen = set()
    for case, m in fails:
        key = m[:40]
        if key in seen or len(seen) >= 6:
            continue
        seen.add(key)
        rep.violation("C15 fails on the real code: " + m, dict(kind="variant", case=case, message=m))
    if not fails:
        for f in failed:
            rep.violation(f"proof obligation no longer checks: {f}; no variant disagreed", dict(kind="proof", theorem=f), has_input=False)


def replay(rep, payload):
    print("replay:", payload.get("message")); print(payload.get("case"))
