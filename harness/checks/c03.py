"""
C03 — all code-generation backends agree and rendered modules reload.

1. proof obligations: Properties/C03.lean on Generated/ModuleFs.lean (translated from the generated
   dependency.py text and from create_python_module): load path = save path on POSIX and Windows for
   the joiner generated now, independence of the working directory, all four files written
   unconditionally, re-render overwrites all four.
2. K: every zoo model is rendered into a temp directory and imported by a FRESH interpreter started
   from another working directory; F, J, HVP, M, parameter mapping, initial vector and nstep are
   compared with the in-process sparse and dense models at three points.  Then every name is
   re-rendered (a) with a *different* model and (b) with the same equations but different parameter
   and initial values, and imported again by another fresh interpreter.
"""
from __future__ import annotations

import json
import os
import shutil
import subprocess
import sys
import tempfile
import warnings
import numpy as np

from harness.common import prove, BASE_TRUST, LEAN, REPO, VERIF
from harness import models
from harness.translate import modulefs

PROBE = str(VERIF / "harness" / "checks" / "c03_probe.py")


RETAINED = []      # (label, numerical model, args of the first F call, its value): re-evaluated after every other model has been built


def inline_values(builder, tweak=None, make_hvp=True):
    """reference values from the in-process backends (sparse and dense)"""
    from Solverz import made_numerical
    out = {}
    for sp in (True, False):
        eqs, y0, kind = models.instantiate(builder)
        if tweak:
            tweak(eqs, y0)
        try:
            nd = models.quiet(made_numerical, eqs, y0, sparse=sp, make_hvp=(make_hvp and sp))
        except Exception:
            eqs, y0, kind = models.instantiate(builder)
            if tweak:
                tweak(eqs, y0)
            nd = models.quiet(made_numerical, eqs, y0, sparse=sp)
        y = np.asarray(y0.array, dtype=float)
        d = {"y": y, "kind": kind, "nstep": int(getattr(nd, "nstep", -1)), "pkeys": sorted(nd.p.keys())}
        for k, v in nd.p.items():
            d["p/" + k] = np.asarray(v.v if hasattr(v, "v") else v, dtype=float)
        if kind == "DAE":
            d["M"] = nd.M.toarray()
        rng = np.random.default_rng(12345)
        for i in range(3):
            yy = y + (0.25 * rng.normal(size=y.shape) if i else 0.0)
            v = rng.normal(size=y.shape)
            t = [0.0, 0.7, 2.5][i]
            args = (yy, nd.p) if kind == "AE" else ((t, yy, nd.p) if kind == "DAE" else (t, yy, nd.p, y))
            with warnings.catch_warnings():
                warnings.simplefilter("ignore")
                d[f"F{i}"] = np.asarray(nd.F(*args), dtype=float)
                if i == 1:
                    RETAINED.append((f"{getattr(builder, '__name__', 'model')}/{'sparse' if sp else 'dense'}", nd, args, d[f"F{i}"].copy()))
                J = nd.J(*args)
                d[f"J{i}"] = J.toarray() if hasattr(J, "toarray") else np.asarray(J)
                if hasattr(nd, "HVP") and sp:
                    hargs = (yy, nd.p, v) if kind == "AE" else ((t, yy, nd.p, v) if kind == "DAE" else (t, yy, nd.p, v, y))
                    try:
                        d[f"H{i}"] = nd.HVP(*hargs).toarray()
                    except Exception as ex:  # noqa
                        d[f"H{i}_error"] = f"{type(ex).__name__}: {ex}"[:200]
        out["sparse" if sp else "dense"] = d
    return out


def render(builder, name, directory, tweak=None, jit=False, make_hvp=True):
    from Solverz import module_printer
    eqs, y0, kind = models.instantiate(builder)
    if tweak:
        tweak(eqs, y0)
    try:
        models.quiet(module_printer(eqs, y0, name, directory=directory, jit=jit, make_hvp=make_hvp and kind != "FDAE").render)
        return True
    except Exception:
        eqs, y0, kind = models.instantiate(builder)
        if tweak:
            tweak(eqs, y0)
        models.quiet(module_printer(eqs, y0, name, directory=directory, jit=jit, make_hvp=False).render)
        return False


def probe(render_dir, names, cwd):
    out = os.path.join(render_dir, f"probe_{os.getpid()}_{len(os.listdir(render_dir))}.npz")
    env = dict(os.environ, SOLVERZ_ROOT=str(REPO), PYTHONPATH=str(REPO), SOLVERZ_VERIF="1")
    p = subprocess.run([sys.executable, PROBE, render_dir, out, *names], cwd=cwd, env=env, capture_output=True, text=True, timeout=1800)
    if p.returncode != 0:
        return None, {n: dict(ok=False, error="probe interpreter failed: " + (p.stderr or p.stdout)[-300:]) for n in names}
    return np.load(out), json.load(open(out + ".json"))


def close(a, b):
    a, b = np.asarray(a, dtype=float), np.asarray(b, dtype=float)
    if a.shape != b.shape:
        return False
    return bool(np.all(np.abs(a - b) <= 1e-11 * np.maximum(1.0, np.maximum(np.abs(a), np.abs(b)))) or np.array_equal(a, b, equal_nan=True))


def compare(tag, nm, ref, data, meta, fails, case):
    m = meta.get(nm, {})
    if not m.get("ok"):
        fails.append((case, f"{tag}: rendered module {nm} cannot be imported in a fresh interpreter from another directory: {m.get('error')}"))
        return 0
    n = 0
    sp, de = ref["sparse"], ref["dense"]
    if m["kind"] != sp["kind"] or m["nstep"] != sp["nstep"]:
        fails.append((case, f"{tag}: {nm} is a {m['kind']} model with nstep {m['nstep']}, in-process: {sp['kind']} / {sp['nstep']}"))
    if m["pkeys"] != sp["pkeys"]:
        fails.append((case, f"{tag}: {nm} parameter mapping has keys {m['pkeys']}, in-process {sp['pkeys']}"))
    keys = ["y"] + [k for k in sp if k.startswith("p/")] + (["M"] if "M" in sp else []) + \
           [f"{c}{i}" for i in range(3) for c in "FJH" if f"{c}{i}" in sp]
    for k in keys:
        n += 1
        if f"{nm}/{k}" not in data.files:
            if k.startswith("H"):
                continue
            fails.append((case, f"{tag}: {nm} does not provide {k}")); continue
        if not close(data[f"{nm}/{k}"], sp[k]):
            fails.append((case, f"{tag}: {k} of the re-imported module {nm} differs from the in-process sparse model "
                                f"(max abs diff {np.max(np.abs(np.asarray(data[f'{nm}/{k}'], dtype=float) - np.asarray(sp[k], dtype=float))) if np.shape(data[f'{nm}/{k}']) == np.shape(sp[k]) else 'shape'})"))
        if k in de and not close(sp[k], de[k]):
            fails.append((case, f"{tag}: {k} differs between the in-process sparse and dense models"))
    return n


def stale_bytecode_failure(tmp):
    """render x - 2.0, import it in an interpreter that writes byte code (Python's default), render x - 3.0 under the same name
    (same length of code) and give the sources the modification time of the first rendering (as within one second): a fresh
    interpreter must see the second model"""
    from Solverz import Model, Var, Eqn, module_printer
    name = "c03_rerender_pyc"
    child = ("import sys, numpy as np; sys.path.insert(0, sys.argv[1]); import importlib; m = importlib.import_module(sys.argv[2]); "
             "print(float(np.asarray(m.mdl.F(np.array([0.0]), m.mdl.p))[0]))")
    env = {k: v for k, v in os.environ.items() if k != "PYTHONDONTWRITEBYTECODE"}
    env.update(PYTHONPATH=str(REPO), SOLVERZ_VERIF="1")
    def build(c):
        m = Model(); m.x = Var("x", 1.0); m.e = Eqn("e", m.x - c)
        eqs, y0 = models.quiet(m.create_instance)
        models.quiet(module_printer(eqs, y0, name, directory=tmp, jit=False).render)
    def stamps():
        d = os.path.join(tmp, name)
        return {f: os.stat(os.path.join(d, f)) for f in os.listdir(d) if f.endswith(".py")}
    try:
        build(2.0)
        st1 = stamps()
        r1 = subprocess.run([sys.executable, "-c", child, tmp, name], env=env, capture_output=True, text=True, timeout=600)
        build(3.0)
        for f, st in st1.items():
            pth = os.path.join(tmp, name, f)
            if os.path.exists(pth):
                os.utime(pth, ns=(st.st_atime_ns, st.st_mtime_ns))
        r2 = subprocess.run([sys.executable, "-c", child, tmp, name], env=env, capture_output=True, text=True, timeout=600)
        v1, v2 = r1.stdout.strip().splitlines()[-1:], r2.stdout.strip().splitlines()[-1:]
        if v1 != ["-2.0"]:
            return f"first rendering x - 2.0: a fresh interpreter reports F(0) = {v1} ({(r1.stderr or '')[-150:]})"
        if v2 != ["-3.0"]:
            return (f"re-rendered under the same name as x - 3.0 (code of equal length, same modification time): a fresh interpreter "
                    f"reports F(0) = {v2}, the earlier model is still in place")
    except Exception as ex:  # noqa
        return f"re-render history raised {type(ex).__name__}: {str(ex)[:120]}"
    return None


def run(rep, tier, seed):
    rep.cov["trusted_base"] = BASE_TRUST + [
        "translator harness/translate/modulefs.py (reads the generated dependency.py and the AST of create_python_module)",
        "dill round trips, CPython's import system, __pycache__ and numba's on-disk cache are runtime behaviour outside the model: "
        "exercised only by the fresh-interpreter runs"]
    fails, broken = [], []
    try:
        changed, info = modulefs.write(LEAN, REPO)
        rep.cov["module_fs"] = {k: v for k, v in info.items()}
    except modulefs.TieBroken as ex:
        broken.append(str(ex))
    failed = rep.add_proof(prove("C03"))
    rng = np.random.default_rng(seed)
    zoo = models.zoo()
    names = list(zoo)
    if tier == "quick":
        keep = ["ae_basic", "dae_ts", "fdae_heat", "dae_ts_index", "ae_consts", "ae_trigger", "ae_trigger_smooth", "ae_trigger_builtins", "ae_trigger_subname"]
        extra = [n for n in names if n not in keep]
        names = keep + list(rng.permutation(extra)[:1])
    tmp = tempfile.mkdtemp(prefix="c03_")
    other_cwd = tempfile.mkdtemp(prefix="c03cwd_")
    ncmp = 0
    try:
        # phase 1: render + fresh import
        refs = {}
        for nm in names:
            modname = "c03_" + nm
            render(zoo[nm], modname, tmp)
            refs[modname] = inline_values(zoo[nm])
        data, meta = probe(tmp, list(refs), other_cwd)
        for modname, ref in refs.items():
            ncmp += compare("render->import", modname, ref, data if data is not None else np.load, meta, fails, dict(model=modname, phase=1)) \
                if data is not None else (fails.append((dict(model=modname), "probe failed: " + str(meta[modname].get("error")))) or 0)
        # phase 2: re-render every name with the NEXT model of the list; fresh import
        refs2 = {}
        for i, nm in enumerate(names):
            other = names[(i + 1) % len(names)]
            modname = "c03_" + nm
            render(zoo[other], modname, tmp)
            refs2[modname] = inline_values(zoo[other])
        data, meta = probe(tmp, list(refs2), other_cwd)
        if data is not None:
            for modname, ref in refs2.items():
                ncmp += compare("re-render(other model)->import", modname, ref, data, meta, fails, dict(model=modname, phase=2))
        # phase 3: same equations, different parameter values and initial vector (code text identical)
        def tweak(eqs, y0):
            for k, prm in eqs.PARAM.items():
                if getattr(prm, "triggerable", False) or hasattr(prm, "v_series") or getattr(prm, "is_alias", False):
                    continue
                if prm.v is not None and np.asarray(prm.v).dtype.kind == "f":
                    prm.v = np.asarray(prm.v) * 1.5 + 0.25
            y0.array[:] = y0.array * 0.5 + 0.1
        refs3 = {}
        for i, nm in enumerate(names):
            other = names[(i + 1) % len(names)]
            modname = "c03_" + nm
            render(zoo[other], modname, tmp, tweak=tweak)
            refs3[modname] = inline_values(zoo[other], tweak=tweak)
        data, meta = probe(tmp, list(refs3), other_cwd)
        if data is not None:
            for modname, ref in refs3.items():
                ncmp += compare("re-render(same code, new values)->import", modname, ref, data, meta, fails, dict(model=modname, phase=3))
        if tier != "quick":
            # numba backend for two models
            refsj = {}
            for nm in names[:2]:
                modname = "c03j_" + nm
                render(zoo[nm], modname, tmp, jit=True)
                refsj[modname] = inline_values(zoo[nm])
            data, meta = probe(tmp, list(refsj), other_cwd)
            if data is not None:
                for modname, ref in refsj.items():
                    ncmp += compare("render(numba)->import", modname, ref, data, meta, fails, dict(model=modname, phase="jit"))
        ncmp += 1
        msg_pyc = stale_bytecode_failure(tmp)
        if msg_pyc:
            fails.append((dict(model="x - 2.0, then x - 3.0 under the same name", phase="re-render, byte code cache"), msg_pyc))
        # the numba backend on an integer-typed state vector of equal values: the same numbers as for the float array, or an error
        # (x**-2 is 0 in integer arithmetic)
        try:
            from Solverz import Model, Var, Eqn, module_printer
            import importlib
            mi = Model()
            mi.x = Var("x", 2.0); mi.z = Var("z", 1.0)
            mi.f1 = Eqn("f1", mi.x ** (-2) + mi.z - 1); mi.f2 = Eqn("f2", mi.z - 1 / mi.x)
            eqs_i, y0_i = models.quiet(mi.create_instance)
            models.quiet(module_printer(eqs_i, y0_i, "c03_intpow", directory=tmp, jit=True).render)
            if tmp not in sys.path:
                sys.path.insert(0, tmp)
            mod_i = models.quiet(importlib.import_module, "c03_intpow")
            # parameters declared with narrow dtypes: the numba module and the in-process model are the same model
            from Solverz import Param, heaviside, made_numerical
            def narrow():
                mn = Model()
                mn.x = Var("x", [2.0, 1.0])
                mn.n = Param("n", [50000, 3], dtype=np.int32); mn.a = Param("a", [0.1, 0.7], dtype=np.float32)
                mn.e = Eqn("e", mn.x * mn.n ** 2 - 60000 * mn.n + mn.x ** 2 * heaviside(0.1 - mn.a))
                return models.quiet(mn.create_instance)
            eqs_n, y0_n = narrow()
            nd_n = models.quiet(made_numerical, eqs_n, y0_n, sparse=True)
            eqs_n2, y0_n2 = narrow()
            models.quiet(module_printer(eqs_n2, y0_n2, "c03_narrow", directory=tmp, jit=True).render)
            mod_n = models.quiet(importlib.import_module, "c03_narrow")
            ncmp += 1
            Fa, Fb = np.asarray(nd_n.F(y0_n.array, nd_n.p), dtype=float), np.asarray(mod_n.mdl.F(y0_n2.array, mod_n.mdl.p), dtype=float)
            Ja, Jb = nd_n.J(y0_n.array, nd_n.p).toarray(), mod_n.mdl.J(y0_n2.array, mod_n.mdl.p).toarray()
            if not (close(Fa, Fb) and close(Ja, Jb)):
                fails.append((dict(model="x*n**2 - 60000*n + x**2*heaviside(0.1 - a), n int32, a float32", phase="jit vs in-process"),
                              f"parameters of narrow dtype: in-process F = {Fa}, J = {Ja.tolist()}; numba module F = {Fb}, J = {Jb.tolist()}"))
            ncmp += 1
            Ff = np.asarray(mod_i.mdl.F(np.array([2.0, 1.0]), mod_i.mdl.p), dtype=float)
            try:
                Fi = np.asarray(mod_i.mdl.F(np.array([2, 1]), mod_i.mdl.p), dtype=float)
                Ji = mod_i.mdl.J(np.array([2, 1]), mod_i.mdl.p).toarray(); Jf = mod_i.mdl.J(np.array([2.0, 1.0]), mod_i.mdl.p).toarray()
                if not (close(Fi, Ff) and close(Ji, Jf)):
                    fails.append((dict(model="f1 = x**-2 + z - 1, f2 = z - 1/x", phase="jit, integer-typed state"),
                                  f"numba module at y = np.array([2, 1]) returns F = {Fi}, J = {Ji.tolist()}; at the float array of equal values "
                                  f"F = {Ff}, J = {Jf.tolist()}"))
            except Exception:  # noqa — refusing integers is fine
                pass
        except Exception as ex:  # noqa
            rep.notes.append(f"integer-state numba probe: {type(ex).__name__}: {str(ex)[:100]}")
        finally:
            sys.modules.pop("c03_intpow", None); sys.modules.pop("c03_narrow", None)
        # in-process models built earlier must not have been changed by the models built after them (shared name spaces)
        for label, nd, args, F1 in RETAINED:
            ncmp += 1
            try:
                with warnings.catch_warnings():
                    warnings.simplefilter("ignore")
                    again = np.asarray(nd.F(*args), dtype=float)
            except Exception as ex:  # noqa
                fails.append((dict(model=label, phase="retained"), f"in-process model {label}: F raised {type(ex).__name__} after other models were built")); continue
            if again.shape != F1.shape or not np.array_equal(again, F1, equal_nan=True):
                fails.append((dict(model=label, phase="retained"), f"in-process model {label}: F at the same point changed after other in-process models were "
                                                                    f"built ({F1[:3]} -> {again[:3]})"))
        del RETAINED[:]
    finally:
        shutil.rmtree(tmp, ignore_errors=True)
        shutil.rmtree(other_cwd, ignore_errors=True)
    rep.cov["evaluations"] = ncmp
    rep.cov["distinct_nontrivial"] = 3 * len(names)
    rep.cov["rule"] = ("zoo models rendered to a temp directory, imported by a fresh interpreter with another cwd; F/J/HVP/M/p/y/nstep at 3 points "
                       "compared (1e-11) with in-process sparse and dense models; three phases: render, re-render with another model, re-render "
                       "with identical code but new parameter/initial values. distinct = (model, phase) pairs")
    rep.cov["samples"] = [dict(models=names, phases=["render->import", "re-render(other model)", "re-render(same code,new values)"])]
    seen = set()
    for case, m in fails:
        key = m[:45]
        if key in seen or len(seen) >= 6:
            continue
        seen.add(key)
        rep.violation("C03 fails on the real code: " + m, dict(kind="render-import", case=case, message=m))
    if not fails:
        for f in failed:
            rep.violation(f"proof obligation no longer checks: {f}; the render/import runs found no disagreement", dict(kind="proof", theorem=f), has_input=False)
        for b in broken:
            rep.violation("translator could not read the module generator (tie broken): " + b, dict(kind="translator", detail=b), has_input=False)


def replay(rep, payload):
    print("replay:", payload.get("message")); print(payload.get("case"))
