"""
C09 — returned time grid and dense output honour the request.

1. proof obligations: Properties/C09.lean (Rodas controller model: for every err/fac script and every
   tspan the emitted times start at t0, strictly increase, are a prefix of tspan in dense mode and all of
   tspan on normal termination, end at tend by assignment; no accepted step exceeds hmax)
2. correspondence (exact, Float): real Rodas runs with the per-attempt hook; the Lean controller replays
   the run from (err, fac0) per attempt and must reproduce T, te, ie, nstep, nreject, failure, bit for bit
3. oracle on the real code (Rodas three schemes and ode15s): the clauses of the property checked directly
"""
from __future__ import annotations

import numpy as np

from harness.common import run_driver, prove, BASE_TRUST, LeanError, f2h
from harness import rodas_common as RC


def oracle_grid(name, sol, tspan, hmax, terminal_possible, fails, case):
    T = np.asarray(sol.T, dtype=float)
    Y = np.asarray(sol.Y.array if hasattr(sol.Y, "array") else sol.Y)
    t0, tend = tspan[0], tspan[-1]
    failed = getattr(sol.stats, "ret", None) == "failed"
    stopped = terminal_possible and sol.te is not None and len(sol.te) > 0
    if T[0] != t0:
        fails.append((case, f"{name}: first returned time {T[0]!r} != t0 {t0!r}"))
    if np.any(np.diff(T) <= 0):
        k = int(np.argmax(np.diff(T) <= 0))
        fails.append((case, f"{name}: returned times are not strictly increasing at index {k}: {T[k]!r}, {T[k + 1]!r}"))
    if Y.shape[0] != len(T):
        fails.append((case, f"{name}: {Y.shape[0]} state rows for {len(T)} times"))
    if not failed and not stopped:
        if T[-1] != tend:
            fails.append((case, f"{name}: integration ended at {T[-1]!r}, not at tend {tend!r}"))
        if len(tspan) > 2 and not (len(T) == len(tspan) and np.array_equal(T, np.asarray(tspan))):
            fails.append((case, f"{name}: requested {len(tspan)} nodes, returned {len(T)}"
                                + ("" if len(T) != len(tspan) else " with different values")))
    elif len(tspan) > 2:
        n = len(T)
        body = T[:-1] if stopped else T
        if not np.array_equal(body, np.asarray(tspan)[:len(body)]):
            fails.append((case, f"{name}: returned times are not a prefix of the requested nodes"))
    if hmax is not None and len(tspan) == 2 and len(T) > 1:
        d = np.diff(T)
        # the step taken is fl(t + h) - t: it may differ from h by the rounding of t + h (half a spacing of the times)
        slack = 2 * np.spacing(np.abs(T[1:]) + np.abs(T[:-1]))
        if np.any(d > hmax * (1 + 1e-12) + slack):
            d = np.where(d > hmax * (1 + 1e-12) + slack, d, 0.0)
            fails.append((case, f"{name}: a step of {d.max()!r} (step #{int(np.argmax(d))}) exceeds the requested maximum step {hmax!r}"))


def o15_line(tspan, trace):
    """protocol line replaying one ode15s run on the Lean controller from its per-step hook records"""
    parts = ["o15", "t", str(len(tspan))] + [f2h(float(x)) for x in tspan]
    parts += ["hmax", f2h(trace[0]["hmax"]), "absh0", f2h(trace[0]["absh_in"]), "recs", str(len(trace))]
    for r in trace:
        parts += ["inner", str(len(r["inner"]))]
        for e in r["inner"]:
            if e[0] == "slowJ":
                parts.append("J")
            elif e[0] == "slowShrink":
                parts.append("S")
            else:
                parts += ["E", f2h(e[1]), "none" if e[2] is None else f2h(e[2])]
        if r.get("temps") is None:
            parts += ["temps", "none"]
        else:
            a, b, c = r["temps"]
            parts += ["temps", f2h(a), "none" if b is None else f2h(b), "none" if c is None else f2h(c)]
    return " ".join(parts)


def o15_expected(sol, trace):
    T = [float(x) for x in np.asarray(sol.T).ravel()]
    ks = [r["k_out"] for r in trace if "k_out" in r]
    hs = [r["absh_out"] for r in trace if "absh_out" in r]
    return dict(T=[f2h(x) for x in T], k=[str(k) for k in ks], h=[f2h(x) for x in hs], nstep=len(trace),
                failed=any(r.get("failed") for r in trace))


def o15_compare(exp, ans):
    """-> None or a description of the first difference"""
    w = ans.split()
    if not w or w[0] != "T":
        return f"driver answered {ans[:80]!r}"
    n = int(w[1])
    T = w[2:2 + n]
    rest = w[2 + n:]
    ki, hi, si = rest.index("k"), rest.index("h"), rest.index("stat")
    ks, hs, stat = rest[ki + 1:hi], rest[hi + 1:si], rest[si + 1:]
    if T != exp["T"]:
        j = next((i for i, (a, b) in enumerate(zip(T, exp["T"])) if a != b), min(len(T), len(exp["T"])))
        return f"returned times differ at index {j}: model has {len(T)} times, implementation {len(exp['T'])}"
    m = len(exp["k"])                      # the final (done) step records no proposal
    if ks[:m] != exp["k"]:
        return f"orders after each step differ: model {ks[:m][:12]}, implementation {exp['k'][:12]}"
    if hs[:m] != exp["h"]:
        j = next(i for i, (a, b) in enumerate(zip(hs, exp["h"])) if a != b)
        return f"step size after step {j} differs"
    if int(stat[0]) != exp["nstep"] or (stat[1] == "true") != exp["failed"]:
        return f"counters differ: model {stat}, implementation nstep={exp['nstep']} failed={exp['failed']}"
    return None


def run(rep, tier, seed):
    from Solverz import ode15s, Opt
    import importlib, sys as _sys
    importlib.import_module('Solverz.solvers.daesolver.ode15s.ode15s')
    O15 = _sys.modules['Solverz.solvers.daesolver.ode15s.ode15s']
    rep.cov["trusted_base"] = BASE_TRUST + [
        "hooks: per-attempt (err, fac0) of Rodas and per-step records of ode15s under SOLVERZ_VERIF=1; err**(1/pord) is taken from the run",
        "the stage computations and the values of the dense output are not part of the controller model (C07 covers their order)",
        "ode15s: the step-size / order / output controller is modelled (Core/Ctl/Ode15s.lean) and replayed bit for bit from per-step hook "
        "records (what each retry did, the factors of the proposals); the Newton iteration and the error norms are oracles"]
    failed = rep.add_proof(prove("C09"))
    rng = np.random.default_rng(seed)
    P = RC.problems()
    ncase = 60 if tier == "quick" else 800
    lines, expect, cases = [], [], []
    fails, diffs, broken = [], [], []
    hist = dict(two=0, dense=0, rejected_runs=0, failed_runs=0, attempts=0, o15_runs=0, o15_steps=0, o15_retries={}, o15_order_changes=0)
    o15_lines, o15_expect, o15_cases = [], [], []
    for _ in range(ncase):
        pname, tspan, optkw, _ = RC.gen_case(rng)
        dae, y0 = P[pname]
        case = dict(problem=pname, tspan=tspan if len(tspan) < 12 else [tspan[0], "...", tspan[-1], len(tspan)], opt=optkw)
        sol, tr = RC.run_rodas(dae, y0, tspan, optkw)
        if isinstance(sol, Exception):
            fails.append((case, f"Rodas raised {type(sol).__name__}: {sol}"))
            continue
        hist["two" if len(tspan) == 2 else "dense"] += 1
        hist["attempts"] += len(tr)
        hist["rejected_runs"] += int(sol.stats.nreject > 0)
        hist["failed_runs"] += int(sol.stats.ret == "failed")
        oracle_grid("Rodas/" + optkw.get("scheme", "rodas4"), sol, tspan, optkw.get("hmax"), False, fails, case)
        lines.append(RC.protocol_line(tspan, optkw, [], tr))
        expect.append(RC.expected_answer(sol, tr)); cases.append(case)
        # ---- ode15s on the same request
        if pname != "vdp" or tier != "quick":
            O15._verif_trace.clear()
            try:
                kw = {k: v for k, v in optkw.items() if k in ("rtol", "atol", "hmax", "hinit")}
                s15 = RC.quiet(ode15s, dae, tspan, y0.copy(), Opt(**kw))
                oracle_grid("ode15s", s15, tspan, optkw.get("hmax"), False, fails, case)
                tr15 = [dict(r) for r in O15._verif_trace]
                if tr15:
                    o15_lines.append(o15_line(tspan, tr15)); o15_expect.append(o15_expected(s15, tr15)); o15_cases.append(case)
                    hist["o15_runs"] += 1; hist["o15_steps"] += len(tr15)
                    for r in tr15:
                        for e in r["inner"]:
                            hist["o15_retries"][e[0]] = hist["o15_retries"].get(e[0], 0) + 1
                            if e[0] == "errFail" and not (e[1] <= 1.0):
                                # hypothesis `Inner.ok` of the ode15s run theorems: the factor of a failed error test is <= 1
                                diffs.append(dict(case=dict(case, solver="ode15s"), implementation=f"failed-step factor {e[1]!r} > 1", model="hypothesis Inner.ok of C09_ode15s_* not met"))
                        hist["o15_order_changes"] += int(r.get("k_out", r["k"]) != r["k_in"])
                for r in O15._verif_trace:
                    if not (1 <= r["k"] <= 5):
                        fails.append((case, f"ode15s: order {r['k']} outside 1..5"))
                    if r["dt"] > r["hmax"] * (1 + 1e-12) + 2 * np.spacing(abs(r["t"]) + abs(r["tnew"])):
                        fails.append((case, f"ode15s: accepted step {r['dt']!r} exceeds hmax {r['hmax']!r}"))
            except Exception as ex:  # noqa
                rep.notes.append(f"ode15s raised {type(ex).__name__} on {pname}: {str(ex)[:80]}")
            O15._verif_trace.clear()
    # ---- ode15s with the step pinned at a user hmax well below the tolerance-driven step (loose rtol): the order keeps changing while
    #      the step size does not; replayed on the Lean controller like every other run
    for pname in ("decay", "osc", "ramp"):
        if pname not in P:
            continue
        dae, y0 = P[pname]
        for hm in (0.1, 0.05, 0.02):
            for tspan in ([0.0, 2.0], list(np.linspace(0.0, 2.0, 9))):
                case = dict(problem=pname, tspan=tspan if len(tspan) < 12 else [tspan[0], "...", tspan[-1], len(tspan)], opt=dict(rtol=1e-3, atol=1e-6, hmax=hm), solver="ode15s")
                O15._verif_trace.clear()
                try:
                    s15 = RC.quiet(ode15s, dae, tspan, y0.copy(), Opt(rtol=1e-3, atol=1e-6, hmax=hm))
                    oracle_grid("ode15s", s15, tspan, hm, False, fails, case)
                    tr15 = [dict(r) for r in O15._verif_trace]
                    if tr15:
                        o15_lines.append(o15_line(tspan, tr15)); o15_expect.append(o15_expected(s15, tr15)); o15_cases.append(case)
                        hist["o15_runs"] += 1; hist["o15_steps"] += len(tr15)
                        hist["o15_pinned_at_hmax"] = hist.get("o15_pinned_at_hmax", 0) + sum(1 for r in tr15 if r["absh"] == r["hmax"])
                        hist["o15_order_changes"] += sum(int(r.get("k_out", r["k"]) != r["k_in"]) for r in tr15)
                except Exception as ex:  # noqa
                    rep.notes.append(f"ode15s (hmax family) raised {type(ex).__name__} on {pname}: {str(ex)[:80]}")
    O15._verif_trace.clear()
    # ---- end-point family: systems (almost) at rest take huge steps, so the last step starts far from tend and
    #      t + (tend - t) is inexact; t0 != 0 on purpose
    from Solverz import Rodas
    nend = 120 if tier == "quick" else 1500
    rest = P["decay"][0]
    fixed_pairs = [(0.2, 0.9), (0.36, 1.61), (-5.3, 7.1), (0.1, 0.8), (0.7, 1.3), (0.3, 1.0), (-0.1, 0.2)]
    for k in range(nend):
        if k < len(fixed_pairs):
            t0, tend = fixed_pairs[k]
        else:
            # decimal end points drawn independently: t0 + (tend - t0) is then often not tend
            t0 = round(float(rng.uniform(-6.0, 1.0)), int(rng.integers(1, 3)))
            tend = round(t0 + float(rng.uniform(0.1, 13.0)), int(rng.integers(1, 3)))
        tspan = [t0, tend] if k % 2 else list(np.linspace(t0, tend, 6))
        y0 = np.array([0.0]) if k % 4 else np.array([1.0])      # y = 0 is at rest: one huge step
        for sname, solver in (("ode15s", ode15s), ("Rodas", Rodas)):
            case = dict(problem="y'=-y", y0=float(y0[0]), tspan=tspan, solver=sname)
            try:
                sl = RC.quiet(solver, rest, tspan, y0.copy(), Opt())
                oracle_grid(sname, sl, tspan, None, False, fails, case)
            except Exception as ex:  # noqa
                fails.append((case, f"{sname} raised {type(ex).__name__}: {str(ex)[:80]}"))
    # ---- an iteration matrix that is exactly singular for the proposed step (y' = lam y with dt*gamma*lam = 1: gamma = 1/4 for rodas4 and
    #      rodasp, so lam = 8 with hinit = 0.5, lam = 4 with hinit = 1): a well-posed problem; the run ends at tend or reports a failure
    from scipy.sparse import csc_array as _csc
    from Solverz.num_api.num_eqn import nDAE as _nDAE
    for lam, h0 in ((8.0, 0.5), (4.0, 1.0), (16.0, 0.25)):
        grow = _nDAE(_csc(np.array([[1.0]])), lambda t, y, p, lam=lam: lam * y, lambda t, y, p, lam=lam: _csc(np.array([[lam]])), {})
        for scheme in ("rodas4", "rodasp"):
            for tspan in ([0.0, 1.0], list(np.linspace(0.0, 1.0, 11))):
                case = dict(problem=f"y'={lam:g}y", scheme=scheme, hinit=h0, tspan=tspan if len(tspan) == 2 else [0.0, "...", 1.0, len(tspan)])
                try:
                    sl = RC.quiet(Rodas, grow, tspan, np.array([1.0]), Opt(scheme=scheme, hinit=h0))
                    oracle_grid(f"Rodas/{scheme}", sl, tspan, None, False, fails, case)
                except Exception:  # noqa — raising is a reported failure
                    pass
    # ---- a very short span with a non-terminal event a few ulp-of-one (1e-16) before tend: 'at tend' is not 'within 2.2e-16 of tend'
    for span in (1e-9, 3e-10):
        for tspan in ([0.0, span], [float(x) for x in np.linspace(0.0, span, 11)]):
            for scheme in ("rodas4", "rodas5p"):
                c_ev = span - 1e-16
                case = dict(problem="y'=-y", scheme=scheme, tspan=tspan if len(tspan) == 2 else [0.0, "...", span, 11], event=f"t - ({span} - 1e-16), non-terminal")
                try:
                    sl = RC.quiet(Rodas, rest, tspan, np.array([1.0]),
                                  Opt(scheme=scheme, event=lambda t, y, c=c_ev: (np.array([t - c]), np.array([False]), np.array([0.0]))))
                    oracle_grid(f"Rodas/{scheme}", sl, tspan, None, False, fails, case)
                except Exception as ex:  # noqa
                    fails.append((case, f"Rodas/{scheme} raised {type(ex).__name__}: {str(ex)[:80]}"))
    # ---- ode15s has no event location: an event function must be refused, not answered with None
    try:
        r_ev = RC.quiet(ode15s, rest, [0.0, 1.0], np.array([1.0]), Opt(event=lambda t, y: (np.array([y[0] - 0.5]), np.array([False]), np.array([0.0]))))
        if r_ev is None or not hasattr(r_ev, "T"):
            fails.append((dict(problem="y'=-y", solver="ode15s", event="y - 0.5, non-terminal"), f"ode15s with an event function returned {r_ev!r}: no times, no states, no failure"))
        else:
            oracle_grid("ode15s", r_ev, [0.0, 1.0], None, False, fails, dict(problem="y'=-y", solver="ode15s", event="y - 0.5"))
    except Exception:  # noqa — a loud refusal
        pass
    # ---- "the states at the requested nodes are as accurate as step values": harmonic oscillator with exact solution;
    #      the error at 401 requested nodes against the error at the step ends of the matching two-node run
    from scipy.sparse import csc_array as _csc
    from Solverz.num_api.num_eqn import nDAE as _nDAE
    osc = _nDAE(_csc(np.eye(2)), lambda t, y, p: np.array([y[1], -y[0]]), lambda t, y, p: _csc(np.array([[0.0, 1.0], [-1.0, 0.0]])), {})
    exact = lambda T: np.column_stack([np.cos(T), -np.sin(T)])
    hist["dense_accuracy_ratio"] = {}
    for scheme in ("rodas4", "rodasp", "rodas5p"):
        for rt in ((1e-7,) if tier == "quick" else (1e-3, 1e-5, 1e-7)):
            case = dict(problem="harmonic oscillator", scheme=scheme, rtol=rt, nodes=401)
            try:
                s2 = RC.quiet(Rodas, osc, [0.0, 10.0], np.array([1.0, 0.0]), Opt(rtol=rt, atol=rt * 1e-2, scheme=scheme))
                sd = RC.quiet(Rodas, osc, np.linspace(0.0, 10.0, 401), np.array([1.0, 0.0]), Opt(rtol=rt, atol=rt * 1e-2, scheme=scheme))
                e_step = float(np.max(np.abs(np.asarray(s2.Y) - exact(np.asarray(s2.T).ravel()))))
                e_node = float(np.max(np.abs(np.asarray(sd.Y) - exact(np.asarray(sd.T).ravel()))))
                ratio = e_node / max(e_step, 1e-14)
                hist["dense_accuracy_ratio"][f"{scheme}/{rt}"] = round(ratio, 2)
                if ratio > 25.0:
                    fails.append((case, f"Rodas/{scheme}: error at the requested nodes {e_node:.3e} is {ratio:.0f} times the error at the step ends "
                                        f"{e_step:.3e} (rtol {rt})"))
                # the same with a non-terminal state event (x = 0): steps are cut short at the events, the nodes before an event
                # inside such a step must still be as accurate as step values
                ev = lambda t, y: (np.array([y[0]]), np.array([False]), np.array([0.0]))
                s2e = RC.quiet(Rodas, osc, [0.0, 10.0], np.array([1.0, 0.0]), Opt(rtol=rt, atol=rt * 1e-2, scheme=scheme, event=ev))
                sde = RC.quiet(Rodas, osc, np.linspace(0.0, 10.0, 401), np.array([1.0, 0.0]), Opt(rtol=rt, atol=rt * 1e-2, scheme=scheme, event=ev))
                e_step = float(np.max(np.abs(np.asarray(s2e.Y) - exact(np.asarray(s2e.T).ravel()))))
                e_node = float(np.max(np.abs(np.asarray(sde.Y) - exact(np.asarray(sde.T).ravel()))))
                ratio = e_node / max(e_step, 1e-14)
                hist["dense_accuracy_ratio"][f"{scheme}/{rt}/events"] = round(ratio, 2)
                if ratio > 25.0:
                    fails.append((dict(case, events="x = 0, non-terminal"), f"Rodas/{scheme} with events: error at the requested nodes {e_node:.3e} is "
                                  f"{ratio:.0f} times the error at the step ends {e_step:.3e} (rtol {rt})"))
            except Exception as ex:  # noqa
                fails.append((case, f"Rodas/{scheme} raised {type(ex).__name__}: {str(ex)[:80]}"))
    O15._verif_trace.clear()
    try:
        got = run_driver(lines)
        for c, e, g in zip(cases, expect, got):
            if e.split() != g.split()[:-1]:        # the model's trailing `done` flag is not compared
                diffs.append(dict(case=c, implementation=e[:400], model=g[:400]))
        got15 = run_driver(o15_lines) if o15_lines else []
        for c, e, g in zip(o15_cases, o15_expect, got15):
            d = o15_compare(e, g)
            if d:
                diffs.append(dict(case=dict(c, solver="ode15s"), implementation=d, model=g[:300]))
    except LeanError as ex:
        broken.append(str(ex))
    rep.cov["evaluations"] = len(lines) + len(o15_lines)
    rep.cov["distinct_nontrivial"] = len(set(lines))
    rep.cov["rule"] = ("random requests: problem (decay / ramp / stiff van der Pol DAE / forced oscillator), t0 incl. negative, spans 1e-3..20, "
                       "tspan shapes (2 nodes, uniform, non-uniform, finer and coarser than the steps), rtol/atol, hmax, hinit, scheme, facmax; "
                       "every Rodas run replayed on the Lean controller from its per-attempt trace and compared exactly; every ode15s run replayed on the "
                       "Lean ode15s controller from its per-step records (times, orders, step sizes, counters compared exactly) and checked by the grid oracle")
    rep.cov["samples"] = [dict(case=c, answer=e[:160]) for c, e in list(zip(cases, expect))[:3]]
    rep.cov["histogram"] = hist
    rep.cov["traces_validated_against_impl"] = len(lines) + len(o15_lines) - len(diffs)
    rep.cov["disagreements"] = len(diffs)
    seen = set()
    for case, m in fails:
        key = m[:38]
        if key in seen or len(seen) >= 6:
            continue
        seen.add(key)
        rep.violation("C09 fails on the real code: " + m, dict(kind="run", case=case, message=m))
    if not fails:
        for f in failed:
            rep.violation(f"proof obligation no longer checks: {f}; no failing run found", dict(kind="proof", theorem=f), has_input=False)
        for b in broken:
            rep.violation("driver: " + b, dict(kind="driver", detail=b), has_input=False)
        for d in diffs[:5]:
            rep.violation("model and implementation disagree on the Rodas / ode15s controller or output bookkeeping (correspondence C09/trace); "
                          "the grid oracle found no violation", dict(kind="correspondence", **d), has_input=False)


def replay(rep, payload):
    print("replay:", payload.get("message")); print(payload.get("case"))
