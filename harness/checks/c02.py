"""
C02 — the generated Jacobian equals the true derivative of the residual.

1. proof obligations: Properties/C02.lean — `SEx.diff` is the derivative of `SEx.eval` over the reals away from
   kinks (HasDerivAt, by induction over expressions, with Solverz's conventions for the piecewise functions);
   the rules `diff` uses for the library functions are *identical* to the ones the translator reads from the
   running functions.py (Generated/FnRules.lean).
2. K: random models of the documented language; J from inline sparse, inline dense and rendered-module
   backends at kink-free points (distance >= 1e-3 from every threshold) compared entry by entry with the Lean
   reference derivative; shape; every entry that is non-zero must be in the stored sparse pattern.
"""
from __future__ import annotations

import numpy as np

from harness.common import prove, BASE_TRUST, LEAN
from harness import pipeline
from harness.translate import fnrules


def run(rep, tier, seed):
    rep.cov["trusted_base"] = BASE_TRUST + [
        "the reference semantics Core/Lang.lean is written from the documentation; Min / AntiWindUp use the rewrite rules that the "
        "translator reads from the running functions.py (Generated/FnRules.lean) and that C17 proves equal to the documented definitions",
        "sympy's expression handling and printing and numpy's evaluation are oracles: compared with the reference on every run, not proved",
        "parameter semantics at call time (mapping values, time-series interpolation / hold, trigger re-evaluation) are computed by the "
        "harness from the documentation and passed to the reference as plain numbers",
        "declarations that sympy collapses to a constant at construction (x - x) are skipped and counted"]
    broken = []
    try:
        fnrules.write(LEAN)
    except fnrules.TieBroken as ex:
        broken.append(str(ex))
    failed = rep.add_proof(prove("C02"))
    rng = np.random.default_rng(seed)
    nm, npnt, me = (40, 5, 8) if tier == "quick" else (600, 6, 10)
    res = pipeline.run_models(rng, nm, npnt, want=("J",), module_every=me, jit=False)
    fails, diffs = [], []
    for p in res["problems"]:
        if p["kind"] in ("layout",):
            fails.append((dict(model=p["model"]), p["what"]))
        else:
            rep.notes.append(p["what"][:200])
    for r in res["records"]:
        for label, msg, kind in pipeline.judge_J(r):
            case = dict(model=r["gm"].describe(), backend=label, point=r["point"])
            if kind == "model":
                diffs.append(dict(case=case, what=msg))
            else:
                fails.append((case, f"{label}: {msg}"))
    # generation histories: the same symbolic equations made numerical for several variable layouts in turn
    import tempfile, shutil, sys as _sys
    from harness import lang as _lang
    htmp = tempfile.mkdtemp(prefix="c02h_")
    try:
        gms = _lang.corpus() + [_lang.Gen(rng, kind=str(rng.choice(["AE", "DAE"]))).model() for _ in range(4 if tier == "quick" else 40)]
        hf, nh = pipeline.regen_histories(gms, rng, htmp, "c02h", what=("J",), with_module=(tier != "quick"))
    finally:
        shutil.rmtree(htmp, ignore_errors=True)
        if htmp in _sys.path:
            _sys.path.remove(htmp)
    rep.cov["generation_histories"] = nh
    for case, msg in hf:
        fails.append((case, msg))
    for r, label, msg in pipeline.judge_pattern(res["records"]):
        fails.append((dict(model=r["gm"].describe(), backend=label, point=r["point"]), f"{label}: {msg}"))
    if res.get("driver_broken"):
        broken.append(res["driver_broken"])
    st = res["stats"]
    rep.cov["evaluations"] = len(res["records"])
    rep.cov["distinct_nontrivial"] = st["models"] - st["build_raised"] - st.get("degenerate_after_simplification", 0)
    rep.cov["rule"] = ("models drawn from the documented grammar (1-4 variables of sizes 1-4, 1-3 parameters: plain / zero-at-generation / "
                       "time series with and without index / triggerable; expressions of depth <= 3 over + - * / ** sin cos exp ln Abs Sign "
                       "Min Saturation heaviside AntiWindUp; whole, integer (incl. negative) and slice (incl. open) indexing; AE, DAE with "
                       "whole / indexed / sliced diff_var in shuffled declaration order, FDAE with a previous-step vector). "
                       "distinct = models that were built")
    rep.cov["samples"] = [r["gm"].describe() for r in res["records"][:2]]
    rep.cov["generator_distribution"] = st
    seen = set()
    for case, m in fails:
        key = m[:50]
        if key in seen or len(seen) >= 6:
            continue
        seen.add(key)
        rep.violation("C02 fails on the real code: " + m, dict(kind="model-point", case=case, message=m))
    if not fails:
        for f in failed:
            rep.violation(f"proof obligation no longer checks: {f}; no J disagreement found", dict(kind="proof", theorem=f), has_input=False)
        for b in broken:
            rep.violation("translator / driver: " + b, dict(kind="tie", detail=b), has_input=False)
        for d in diffs[:3]:
            rep.violation("the reference semantics reject a generated model that the code evaluates", dict(kind="correspondence", **d), has_input=False)


def replay(rep, payload):
    print("replay:", payload.get("message")); print(payload.get("case"))
