"""
C11 — inconsistent initial values are projected without touching the states.

1. proof obligations: Properties/C11.lean (only positions of algebraic variables are ever written;
   every returned point has algebraic residual <= max(1e-6, 1e-5*rtol); otherwise an error)
2. correspondence (exact, Float): the real `DaeIc` on the family  0 = a z^2 + b z + c x + d  (x state,
   z algebraic) against the Lean controller executed in Float: exit taken, returned point bit-for-bit,
   or the error
3. oracle on the real code: semi-explicit index-1 DAEs built with `Model` (random sizes, interleaved
   variable *and* equation order, t0 != 0), perturbed algebraic starts; the four DAE solvers must return
   a first row whose state part is bit-identical to the input and whose algebraic residual is small,
   or raise
"""
from __future__ import annotations

import io
import contextlib
import warnings
import numpy as np

from harness.common import f2h, h2f, run_driver, prove, BASE_TRUST, LeanError


def quiet(f, *a, **k):
    with contextlib.redirect_stdout(io.StringIO()), contextlib.redirect_stderr(io.StringIO()), warnings.catch_warnings():
        warnings.simplefilter("ignore")
        return f(*a, **k)


def quad_dae(a, b, c, d):
    from scipy.sparse import csc_array
    from Solverz.num_api.num_eqn import nDAE
    M = csc_array((np.array([1.0]), (np.array([0]), np.array([0]))), shape=(2, 2))
    F = lambda t, y, p: np.array([-y[0], a * y[1] * y[1] + b * y[1] + c * y[0] + d])
    J = lambda t, y, p: np.array([[-1.0, 0.0], [c, 2.0 * a * y[1] + b]])
    return nDAE(M, F, J, {})


def gen_quad(rng):
    a = float(rng.choice([0.0, 1.0, -1.0, 0.5, 1000.0, 3.0]))
    b = float(rng.choice([1.0, -2.0, 0.0, 4.0, 1000.0])) if a != 0 else float(rng.choice([1.0, -2.0, 4.0]))
    c = float(rng.choice([0.0, 1.0, -1.0, -1000.0]))
    d = float(rng.choice([0.0, -1.0, 1.0, -2.0, 5.0]))
    x0 = float(rng.choice([1.0, 0.0, -2.0, 0.25]))
    z0 = float(rng.choice([0.0, 1.0, 1.001, -1.0, 3.0, 0.1, 50.0, 1e-3, 1.0 + 1e-7]))
    rtol = float(rng.choice([1e-3, 1e-6, 1e-9, 1.0, 10.0, 0.3]))
    t0 = float(rng.choice([0.0, 0.0, 1.0, -3.5, 100.0]))
    if rng.random() < 0.3:
        # large algebraic values with a small absolute inconsistency: the consistency threshold is absolute (1e-6), it does
        # not scale with the size of the variables
        a = float(rng.choice([0.0, 0.0, 1e-6]))
        b = 1.0
        z0 = float(rng.choice([1e3, 1e5, -1e4, 2.5e6]))
        r = float(rng.choice([3e-6, 5e-5, 2e-3, 5e-7, 0.4]))
        d = r - (a * z0 * z0 + b * z0 + c * x0)
    return a, b, c, d, x0, z0, rtol, t0


def semi_explicit(rng):
    """x_i' = -x_i + sum z ; 0 = z_j + z_j^3/10 - (k_j * x_{j mod nx} + s_j)   in a random declaration order"""
    from Solverz import Model, Var, Eqn, Ode, made_numerical
    nx, nz = int(rng.integers(1, 4)), int(rng.integers(1, 4))
    xs = [f"x{i}" for i in range(nx)]
    zs = [f"z{j}" for j in range(nz)]
    x0 = {n: float(rng.normal()) + 1.5 for n in xs}
    k = {n: float(rng.choice([0.5, 1.0, -1.0])) for n in zs}
    s = {n: float(rng.normal()) for n in zs}
    # consistent z: solve z + z^3/10 = k x + s
    zc = {}
    for j, n in enumerate(zs):
        rhs = k[n] * x0[xs[j % nx]] + s[n]
        r = np.roots([0.1, 0.0, 1.0, -rhs])
        zc[n] = float(np.real(r[np.argmin(np.abs(np.imag(r)))]))
    m = Model()
    order = list(rng.permutation(xs + zs))
    vars_ = {}
    for n in order:
        vars_[n] = Var(n, x0[n] if n in x0 else zc[n])
        setattr(m, n, vars_[n])
    eqs = []
    for i, n in enumerate(xs):
        rhs = -vars_[n]
        for zn in zs:
            rhs = rhs + vars_[zn]
        eqs.append((f"f{i}", "ode", rhs, vars_[n]))
    for j, n in enumerate(zs):
        eqs.append((f"g{j}", "alg", vars_[n] + vars_[n] ** 3 / 10 - (k[n] * vars_[xs[j % nx]] + s[n]), None))
    for idx in rng.permutation(len(eqs)):
        nm, kind, rhs, dv = eqs[int(idx)]
        setattr(m, nm, Ode(nm, rhs, dv) if kind == "ode" else Eqn(nm, rhs))
    sdae, y0 = quiet(m.create_instance)
    ndae = quiet(made_numerical, sdae, y0, sparse=True)
    return ndae, sdae, y0, xs, zs, order


def run(rep, tier, seed):
    from Solverz.solvers.daesolver.daeic import DaeIc
    from Solverz import Rodas, ode15s, backward_euler, implicit_trapezoid, Opt
    rep.cov["trusted_base"] = BASE_TRUST + [
        "residual evaluation and linear solves are oracles of the model; the correspondence instantiates them on a scalar quadratic "
        "constraint where Lean can evaluate them itself (sqrt(x*x) as numpy's norm does)",
        "multi-dimensional linear algebra inside DaeIc is exercised only by the oracle families"]
    failed = rep.add_proof(prove("C11"))
    rng = np.random.default_rng(seed)
    fails, diffs, broken = [], [], []
    lines, expect, cases = [], [], []
    hist = dict(A=0, B=0, C=0, raised=0)
    nquad = 300 if tier == "quick" else 5000
    nan_starts = [(1.0, 1.0, 0.0, -1.0, 1.0, float("nan"), 1e-3, 0.0), (0.0, 1.0, 1.0, 0.0, 0.25, float("nan"), 1e-6, 1.0),
                  (0.0, 4.0, -1.0, 5.0, float("nan"), 1.0, 1e-3, 0.0), (3.0, 0.0, 0.0, -2.0, -2.0, float("inf"), 1e-9, -3.5)]
    # single-precision starts of 0 = z*z - x with x of size 1e3 .. 1e5: z*z rounds to x in float32 although the residual in double
    # precision is 1e-4 .. 1e-3 (the start values themselves are exact in double precision)
    rng32 = np.random.default_rng([seed, 3232])
    f32_starts = []
    for _ in range(12 if tier == "quick" else 120):
        x32 = np.float32(rng32.uniform(2.6e3, 6.3e4))
        z32 = np.float32(np.sqrt(np.float64(x32)))
        f32_starts.append((1.0, 0.0, -1.0, 0.0, float(x32), float(z32), float(rng32.choice([1e-3, 1e-6])), 0.0))
    for iq in range(nquad + len(nan_starts) + len(f32_starts)):
        is32 = iq >= nquad + len(nan_starts)
        a, b, c, d, x0, z0, rtol, t0 = gen_quad(rng) if iq < nquad else (nan_starts[iq - nquad] if not is32 else f32_starts[iq - nquad - len(nan_starts)])
        case = dict(a=a, b=b, c=c, d=d, x0=x0, z0=z0, rtol=rtol, t0=t0)
        dae = quad_dae(a, b, c, d)
        y0 = np.array([x0, z0])
        if is32:
            y0 = y0.astype(np.float32)
            case["start_dtype"] = "float32"
            hist["start_float32"] = hist.get("start_float32", 0) + 1
        y0c = y0.copy()
        try:
            y = quiet(DaeIc, dae, y0, t0, rtol)
            y = np.asarray(y, dtype=float)
            ans = "ok " + " ".join(f2h(v) for v in y)
            g = a * y[1] * y[1] + b * y[1] + c * y[0] + d       # in double precision
            if not (abs(g) <= 1e-6 * (1 + 1e-12)):          # a fixed threshold, whatever rtol is
                fails.append((case, f"DaeIc returned z = {y[1]!r} with algebraic residual {g!r} (> 1e-6): an inconsistent start is used silently"))
            if f2h(y[0]) != f2h(x0) and x0 == x0:
                fails.append((case, f"DaeIc changed the differential variable: {x0!r} -> {y[0]!r}"))
        except ValueError:
            ans = "err value"
            hist["raised"] += 1
        except Exception as ex:  # noqa
            ans = "err other"
            # singular 1x1 solve etc.: raising is allowed by the property
            hist["raised"] += 1
        if not np.array_equal(y0, y0c, equal_nan=True):
            fails.append((case, f"DaeIc modified the caller's y0 in place: {y0c} -> {y0}"))
        lines.append("c11 quad " + " ".join(f2h(v) for v in (a, b, c, d, x0, z0, rtol, float(np.spacing(t0)))))
        expect.append(ans); cases.append(case)
    try:
        got = run_driver(lines)
        for cse, e, g in zip(cases, expect, got):
            gg = g.split()
            if g.startswith("ok"):
                hist[gg[1].split(".")[-1]] = hist.get(gg[1].split(".")[-1], 0) + 1
                g_cmp = "ok " + " ".join(gg[2:])
            else:
                g_cmp = g
            if e == "err other" and g.startswith("err"):
                continue
            if e == "err other" and g.startswith("ok"):
                # numpy raised LinAlgError (singular) where Float division yields inf/nan: both are failures of the start
                vals = [h2f(x) for x in gg[2:]]
                if any(v != v or abs(v) == float("inf") for v in vals):
                    continue
            if e != g_cmp:
                diffs.append(dict(case=cse, implementation=e, model=g))
    except LeanError as ex:
        broken.append(str(ex))
    # ---- families, four solvers
    nfam = 6 if tier == "quick" else 60
    nruns = 0
    solvers = dict(Rodas=lambda d, ts, y, rt: Rodas(d, ts, y, Opt(rtol=rt)),
                   ode15s=lambda d, ts, y, rt: ode15s(d, ts, y, Opt(rtol=rt)),
                   backward_euler=lambda d, ts, y, rt: backward_euler(d, ts, y, Opt(rtol=rt, step_size=0.05)),
                   implicit_trapezoid=lambda d, ts, y, rt: implicit_trapezoid(d, ts, y, Opt(rtol=rt, step_size=0.05)))
    from Solverz.variable.variables import Vars
    rng_v = np.random.default_rng([seed, 1111])
    for _ in range(nfam):
        try:
            ndae, sdae, y0, xs, zs, order = semi_explicit(rng)
        except Exception as ex:  # noqa
            rep.notes.append(f"family construction raised {type(ex).__name__}: {ex}")
            continue
        for pert in ([0.0, 1e-4, 0.3] if tier == "quick" else [0.0, 1e-8, 1e-4, 0.05, 0.3, 3.0]):
            t0 = float(rng.choice([0.0, 0.5, -2.0]))
            ystart = y0.array.copy()
            for zn in zs:
                ystart[y0.a[zn]] += pert * (1 + rng.random())
            for sname, solver in solvers.items():
                nruns += 1
                as_vars = bool(rng_v.random() < 0.5)
                case = dict(order=[str(o) for o in order], eqn_order=list(sdae.a.object_list), pert=pert, t0=t0, solver=sname,
                            y_start=[float(v) for v in ystart], start_given_as="Vars" if as_vars else "ndarray")
                hist["start_Vars" if as_vars else "start_ndarray"] = hist.get("start_Vars" if as_vars else "start_ndarray", 0) + 1
                yin = Vars(y0.a, ystart.copy()) if as_vars else ystart.copy()
                try:
                    sol = quiet(solver, ndae, [t0, t0 + 0.1], yin, 1e-3)
                except Exception:  # noqa
                    continue        # raising is allowed
                Y0 = np.asarray(sol.Y.array if hasattr(sol.Y, "array") else sol.Y)[0]
                if not np.array_equal(yin.array if as_vars else yin, ystart):
                    fails.append((case, f"{sname} modified the caller's initial values"))
                for xn in xs:
                    sl = y0.a[xn]
                    if f2h(Y0[sl][0]) != f2h(ystart[sl][0]):
                        fails.append((case, f"{sname}: first row changed differential variable {xn}: {ystart[sl][0]!r} -> {Y0[sl][0]!r}"))
                Fv = ndae.F(t0, Y0, ndae.p)
                alg_rows = [r for nm in sdae.g_list for r in sdae.a.v[nm]]
                r = float(np.max(np.abs(Fv[alg_rows])))
                if not r <= 2e-6:
                    fails.append((case, f"{sname}: first row has algebraic residual {r:.3g}: the integration starts from an inconsistent point silently"))
    # ---- an algebraic start at which the algebraic Jacobian is exactly singular (0 = z^2 - x started at z = 0), sparse and dense
    #      linear algebra: the projection cannot succeed; the solvers must raise or return a finite, consistent first row
    from scipy.sparse import csc_array as _csc
    from Solverz.num_api.num_eqn import nDAE as _nDAE
    Ms = _csc((np.array([1.0]), (np.array([0]), np.array([0]))), shape=(2, 2))
    for sparse in (True, False):
        Jf = (lambda t, y, p: _csc(np.array([[-1.0, 0.0], [-1.0, 2.0 * y[1]]]))) if sparse else \
            (lambda t, y, p: np.array([[-1.0, 0.0], [-1.0, 2.0 * y[1]]]))
        sing = _nDAE(Ms, lambda t, y, p: np.array([-y[0], y[1] ** 2 - y[0]]), Jf, {})
        for x0 in (1.0, 1e-4, 4.0):
            for sname, solver in solvers.items():
                nruns += 1
                case = dict(problem="x' = -x, 0 = z^2 - x", y_start=[x0, 0.0], sparse_jacobian=sparse, solver=sname)
                try:
                    sol = quiet(solver, sing, [0.0, 0.1], np.array([x0, 0.0]), 1e-3)
                except Exception:  # noqa
                    continue
                Y0 = np.asarray(sol.Y)[0]
                if not np.all(np.isfinite(Y0)):
                    fails.append((case, f"{sname}: no error was raised and the first row is not finite: {Y0}"))
                elif f2h(Y0[0]) != f2h(x0):
                    fails.append((case, f"{sname}: first row changed the differential variable: {x0!r} -> {Y0[0]!r}"))
                elif not abs(Y0[1] ** 2 - Y0[0]) <= 2e-6:
                    fails.append((case, f"{sname}: first row has algebraic residual {abs(Y0[1] ** 2 - Y0[0]):.3g}: starts from an inconsistent point silently"))
    # ---- an algebraic start outside the domain of its equation (0 = ln z - x or 0 = sqrt z - x started at z < 0): the residual at the
    #      start is NaN; this is not a consistent point and must not be used silently
    for nm, gf, dgf in (("ln", np.log, lambda z: 1.0 / z), ("sqrt", np.sqrt, lambda z: 0.5 / np.sqrt(z))):
        for sparse in (True, False):
            wrap = _csc if sparse else (lambda a: a)
            dom = _nDAE(Ms, lambda t, y, p, gf=gf: np.array([-y[0], gf(y[1]) - y[0]]),
                        lambda t, y, p, dgf=dgf, wrap=wrap: wrap(np.array([[-1.0, 0.0], [-1.0, dgf(y[1])]])), {})
            for z0 in (-1.5, -1e-3):
                for t0 in (0.0, 2.0):
                    for sname, solver in solvers.items():
                        nruns += 1
                        case = dict(problem=f"x' = -x, 0 = {nm}(z) - x", y_start=[0.5, z0], t0=t0, sparse_jacobian=sparse, solver=sname)
                        try:
                            sol = quiet(solver, dom, [t0, t0 + 0.1], np.array([0.5, z0]), 1e-3)
                        except Exception:  # noqa
                            continue
                        Y0 = np.asarray(sol.Y)[0]
                        with np.errstate(all="ignore"):
                            r = abs(gf(Y0[1]) - Y0[0])
                        if f2h(Y0[0]) != f2h(0.5):
                            fails.append((case, f"{sname}: first row changed the differential variable: 0.5 -> {Y0[0]!r}"))
                        elif not r <= 2e-6:
                            fails.append((case, f"{sname}: no error was raised and the first row {list(Y0)} has algebraic residual {r}: "
                                                f"starts from an inconsistent point silently"))
    rep.cov["evaluations"] = len(lines) + nruns
    rep.cov["distinct_nontrivial"] = len(set(lines))
    rep.cov["rule"] = ("quadratic-constraint family: coefficients, starts (incl. zero, tiny, far), rtol, t0 from fixed pools; exact comparison with the "
                       "Lean DaeIc in Float. families: semi-explicit index-1 DAEs via Model with random variable and equation order, perturbations, "
                       "t0, four solvers. distinct = distinct quad instances")
    rep.cov["samples"] = [dict(line=l, answer=e) for l, e in list(zip(lines, expect))[:4]]
    rep.cov["exit_histogram"] = hist
    rep.cov["family_runs"] = nruns
    rep.cov["disagreements"] = len(diffs)
    seen = set()
    for case, m in fails:
        key = m[:30]
        if key in seen or len(seen) >= 6:
            continue
        seen.add(key)
        rep.violation("C11 fails on the real code: " + m, dict(kind="run", case=case, message=m))
    if not fails:
        for f in failed:
            rep.violation(f"proof obligation no longer checks: {f}; no failing run found", dict(kind="proof", theorem=f), has_input=False)
        for b in broken:
            rep.violation("driver: " + b, dict(kind="driver", detail=b), has_input=False)
        for d in diffs[:5]:
            rep.violation("model and implementation disagree on DaeIc (correspondence C11/quad); the consistency oracle found no violation",
                          dict(kind="correspondence", **d), has_input=False)


def replay(rep, payload):
    print("replay:", payload.get("message"), payload.get("case"))
