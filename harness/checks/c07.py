"""
C07 — Rodas schemes have their declared step, embedded and dense-output orders.

1. T1: the tables are read from the running `Rodas_param` (exact rationals) into
   Generated/RodasTables.lean; Properties/C07.lean re-proves, by kernel evaluation, the order
   conditions for every rooted tree up to the declared order (b), order-1 (bd), the dense-output
   conditions coefficient-wise in tau, stiff accuracy, row-sum consistency of a and g.
2. K: the real `Rodas(fix_h=True)` stage loop and dense output on y' = lam*y against the Lean
   stage loop (`Scheme.stepLinear`, `denseLinear`) executed in Float on the same tables.
3. search (always, small; larger in thorough): h-ladders on smooth non-autonomous ODE / index-1
   DAE problems with closed-form solutions — observed order of step values and of dense values.
"""
from __future__ import annotations

import io
import contextlib
import warnings
import numpy as np

from harness.common import f2h, h2f, run_driver, prove, BASE_TRUST, LeanError, LEAN
from harness.translate import rodas_tables

SCHEMES = {"rodas4": (4, 3), "rodasp": (4, 3), "rodas5p": (5, 4)}


def quiet(f, *a, **k):
    with contextlib.redirect_stdout(io.StringIO()), warnings.catch_warnings():
        warnings.simplefilter("ignore")
        return f(*a, **k)


def lin_problem(lam):
    from scipy.sparse import csc_array
    from Solverz.num_api.num_eqn import nDAE
    return nDAE(csc_array(np.array([[1.0]])), lambda t, y, p: lam * y, lambda t, y, p: csc_array(np.array([[lam]])), {})


def run_real_lin(scheme, lam, dt, y0, nsteps, taus):
    from Solverz import Rodas, Opt
    nodes = [0.0]
    for k in range(nsteps):
        nodes += [k * dt + tau * dt for tau in taus] + [(k + 1) * dt]
    sol = quiet(Rodas, lin_problem(lam), np.array(nodes), np.array([y0]), Opt(fix_h=True, hinit=dt, scheme=scheme))
    T = np.asarray(sol.T)
    Y = np.asarray(sol.Y).reshape(-1)
    return nodes, T, Y


# ---------------------------------------------------------------------------- ladders (search on the real code)

def problems():
    from scipy.sparse import csc_array
    from Solverz.num_api.num_eqn import nDAE
    P = []
    # P1: non-autonomous scalar ODE  y' = cos(t) y,  y = exp(sin t)
    P.append(("ode y'=cos(t)y", nDAE(csc_array(np.array([[1.0]])),
                                     lambda t, y, p: np.cos(t) * y,
                                     lambda t, y, p: csc_array(np.array([[np.cos(t)]])), {}),
              np.array([1.0]), lambda t: np.array([np.exp(np.sin(t))]), [0]))
    # P2: autonomous index-1 DAE  x' = -x z, 0 = z - x   →  x = 1/(1+t)
    P.append(("dae x'=-xz, 0=z-x", nDAE(csc_array((np.array([1.0]), (np.array([0]), np.array([0]))), shape=(2, 2)),
                                        lambda t, y, p: np.array([-y[0] * y[1], y[1] - y[0]]),
                                        lambda t, y, p: csc_array(np.array([[-y[1], -y[0]], [-1.0, 1.0]])), {}),
              np.array([1.0, 1.0]), lambda t: np.array([1 / (1 + t), 1 / (1 + t)]), [0, 1]))
    # P3: non-autonomous index-1 DAE  x' = -x + z, 0 = z - sin t  →  x = 1.5 e^{-t} + (sin t - cos t)/2
    P.append(("dae x'=-x+z, 0=z-sin t", nDAE(csc_array((np.array([1.0]), (np.array([0]), np.array([0]))), shape=(2, 2)),
                                             lambda t, y, p: np.array([-y[0] + y[1], y[1] - np.sin(t)]),
                                             lambda t, y, p: csc_array(np.array([[-1.0, 1.0], [0.0, 1.0]])), {}),
              np.array([1.0, 0.0]), lambda t: np.array([1.5 * np.exp(-t) + (np.sin(t) - np.cos(t)) / 2, np.sin(t)]), [0]))
    # P4: forcing with the period of the integration span: F(t0, y) = F(tend, y) for every y, the problem is not autonomous
    w = 2 * np.pi
    P.append(("ode y'=-y+cos(2 pi t)", nDAE(csc_array(np.array([[1.0]])),
                                            lambda t, y, p, w=w: -y + np.cos(w * t),
                                            lambda t, y, p: csc_array(np.array([[-1.0]])), {}),
              np.array([1.0 / (1 + w ** 2)]), lambda t, w=w: np.array([(np.cos(w * t) + w * np.sin(w * t)) / (1 + w ** 2)]), [0]))
    # P5: the index-1 DAE of P2 with the algebraic equation written first: the 1 of the mass matrix is off the diagonal
    P.append(("dae 0=z-x, x'=-xz (mass matrix off the diagonal)",
              nDAE(csc_array((np.array([1.0]), (np.array([1]), np.array([0]))), shape=(2, 2)),
                   lambda t, y, p: np.array([y[1] - y[0], -y[0] * y[1]]),
                   lambda t, y, p: csc_array(np.array([[-1.0, 1.0], [-y[1], -y[0]]])), {}),
              np.array([1.0, 1.0]), lambda t: np.array([1 / (1 + t), 1 / (1 + t)]), [0, 1]))
    # P6: residual of size 1 and explicit time dependence with dF/dt(t0) = 1 from t0 = 0: the time derivative the method needs is
    #     taken by a forward difference, whose increment has to resolve F there   y' = -(y - 1 - sin t) + cos t,  y = 1 + sin t
    P.append(("ode y'=-(y-1-sin t)+cos t from t0=0", nDAE(csc_array(np.array([[1.0]])),
                                                         lambda t, y, p: -(y - 1.0 - np.sin(t)) + np.cos(t),
                                                         lambda t, y, p: csc_array(np.array([[-1.0]])), {}),
              np.array([1.0]), lambda t: np.array([1.0 + np.sin(t)]), [0]))
    # P7: the same forcing in the algebraic equation of an index-1 DAE   x' = -x + z,  0 = z - (1 + sin t + cos t),  x = 1 + sin t
    P.append(("dae x'=-x+z, 0=z-(1+sin t+cos t) from t0=0",
              nDAE(csc_array((np.array([1.0]), (np.array([0]), np.array([0]))), shape=(2, 2)),
                   lambda t, y, p: np.array([-y[0] + y[1], y[1] - (1.0 + np.sin(t) + np.cos(t))]),
                   lambda t, y, p: csc_array(np.array([[-1.0, 1.0], [0.0, 1.0]])), {}),
              np.array([1.0, 2.0]), lambda t: np.array([1.0 + np.sin(t), 1.0 + np.sin(t) + np.cos(t)]), [0]))
    # P8: a non-autonomous problem that runs at late times (t0 = 1000): the time derivative is a difference quotient in t, whose
    #     truncation error must not grow with |t|      y' = -(y - sin 20t)(1 + y^2) + 20 cos 20t,  y = sin 20t
    P.append(("ode y'=-(y-sin 20t)(1+y^2)+20cos 20t from t0=1000", nDAE(csc_array(np.array([[1.0]])),
                                                                   lambda t, y, p: -(y - np.sin(20 * t)) * (1 + y ** 2) + 20 * np.cos(20 * t),
                                                                   lambda t, y, p: csc_array(np.array([[-(1 + y[0] ** 2) - 2 * y[0] * (y[0] - np.sin(20 * t))]])), {}),
              np.array([np.sin(20 * 1000.0)]), lambda t: np.array([np.sin(20 * t)]), [0], 1000.0))
    return P


def fixed_grid_failures():
    """a fixed-step run covers [t0, tend]: it ends at tend (steps that do not divide the span exactly in floating point or at all
    included), with the number of steps the interval implies, and a dense request gets all its nodes"""
    from Solverz import Rodas, Opt
    out = []
    name, dae, y0, exact, comps = problems()[0][:5]
    for (a, b, h) in ((0.0, 2.0, 0.1), (0.0, 2.0, 0.05), (0.0, 1.0, 0.3), (0.5, 1.75, 0.025), (-1.0, 1.0, 0.1), (0.0, 1.0, 0.125)):
        for dense in (False, True):
            nn = int(np.ceil((b - a) / h - 1e-6))
            tspan = [a, b] if not dense else list(np.linspace(a, b, 11))
            case = dict(problem=name, tspan=[a, b], nodes=len(tspan), h=h, scheme="rodas4")
            try:
                sol = quiet(Rodas, dae, tspan, exact(a), Opt(fix_h=True, hinit=h))
            except Exception as ex:  # noqa
                out.append((case, f"fixed-step run on [{a}, {b}] with h = {h} ({len(tspan)} nodes) raised {type(ex).__name__}: {str(ex)[:80]}")); continue
            T = np.asarray(sol.T, dtype=float)
            if T[-1] != b:
                out.append((case, f"fixed-step run on [{a}, {b}] with h = {h} ({len(tspan)} nodes) ends at {T[-1]!r} after {sol.stats.nstep} steps"))
            elif dense and len(T) != len(tspan):
                out.append((case, f"fixed-step run on [{a}, {b}] with h = {h}: {len(T)} of {len(tspan)} requested nodes returned"))
            elif sol.stats.nstep != nn:
                out.append((case, f"fixed-step run on [{a}, {b}] with h = {h} took {sol.stats.nstep} steps, the interval implies {nn}"))
            elif abs(np.asarray(sol.Y)[-1][0] - exact(b)[0]) > 1e-3:
                out.append((case, f"fixed-step run on [{a}, {b}] with h = {h}: y(tend) = {np.asarray(sol.Y)[-1][0]!r}, exact {exact(b)[0]!r}"))
    return out


def slope(hs, es, floor=3e-13):
    pts = [(np.log2(h), np.log2(e)) for h, e in zip(hs, es) if e > floor]
    if len(pts) < 3:
        return None
    x, y = np.array(pts).T
    return float(np.polyfit(x, y, 1)[0])


def ladder(scheme, prob, ks, dense_only_ode=True, floor=3e-13):
    from Solverz import Rodas, Opt
    name, dae, y0, exact, comps = prob[:5]
    tstart = prob[5] if len(prob) > 5 else 0.0
    p, q = SCHEMES[scheme]
    hs, e_step, e_dense = [], [], []
    for k in ks:
        h = 2.0 ** (-k)
        n = 2 ** k
        nodes = tstart + np.array(sorted(set([i * h for i in range(n + 1)] + [(i + 0.5) * h for i in range(n)])))
        sol = quiet(Rodas, dae, nodes, y0.copy(), Opt(fix_h=True, hinit=h, scheme=scheme))
        T = np.asarray(sol.T)
        Y = np.asarray(sol.Y)
        if len(T) != len(nodes):
            return dict(problem=name, scheme=scheme, error=f"returned {len(T)} of {len(nodes)} nodes at h=2^-{k}")
        ex = np.array([exact(t) for t in T])
        err = np.abs(Y - ex)[:, comps].max(axis=1)
        hs.append(h)
        e_step.append(float(err[-1]))
        e_dense.append(float(err[1::2].max()))
    return dict(problem=name, scheme=scheme, hs=hs, step_err=e_step, dense_err=e_dense,
                step_slope=slope(hs, e_step, floor), dense_slope=slope(hs, e_dense, floor), p=p, q=q)


def local_dense_ladder(scheme, prob, ks, t0=0.3):
    """one step from the exact solution at t0; error of the dense value at tau = 1/2 and of the step value.
    For an ODE, dense order q means local error O(h^(q+1)), step order p means local error O(h^(p+1))."""
    from Solverz import Rodas, Opt
    name, dae, y0, exact, comps = prob[:5]
    p, q = SCHEMES[scheme]
    hs, e_mid, e_end = [], [], []
    for k in ks:
        h = 2.0 ** (-k)
        nodes = np.array([t0, t0 + 0.5 * h, t0 + h])
        sol = quiet(Rodas, dae, nodes, exact(t0), Opt(fix_h=True, hinit=h, scheme=scheme))
        T, Y = np.asarray(sol.T), np.asarray(sol.Y)
        if len(T) != 3:
            return dict(problem=name, scheme=scheme, error=f"local step returned {len(T)} of 3 nodes at h=2^-{k}")
        hs.append(h)
        e_mid.append(float(np.abs(Y[1] - exact(T[1]))[comps].max()))
        e_end.append(float(np.abs(Y[2] - exact(T[2]))[comps].max()))
    return dict(problem=name + " (local, one step)", scheme=scheme, hs=hs, dense_local_err=e_mid, step_local_err=e_end,
                dense_local_slope=slope(hs, e_mid), step_local_slope=slope(hs, e_end), p=p, q=q)


def judge(r):
    """returns a failure message or None.  Global ladders: step values must show order p, dense values
    order q (the property's reading: error of the continuous output is O(h^q)).  Local ODE ladder:
    local errors O(h^(p+1)) and O(h^(q+1))."""
    if "error" in r:
        return r["error"]
    if r.get("step_slope") is not None and r["step_slope"] < r["p"] - 0.4:
        return f"step values converge with observed order {r['step_slope']:.2f} < declared {r['p']}"
    if r.get("dense_slope") is not None and r["dense_slope"] < r["q"] - 0.4:
        return f"dense output converges with observed order {r['dense_slope']:.2f} < declared {r['q']}"
    if r.get("step_local_slope") is not None and r["step_local_slope"] < r["p"] + 1 - 0.4:
        return f"local error of the step value has observed order {r['step_local_slope']:.2f} < {r['p'] + 1} (declared order {r['p']})"
    if r.get("dense_local_slope") is not None and r["dense_local_slope"] < r["q"] + 1 - 0.4:
        return (f"local error of the dense output at tau=1/2 has observed order {r['dense_local_slope']:.2f} < {r['q'] + 1} "
                f"(declared dense order {r['q']})")
    return None


def run(rep, tier, seed):
    rep.cov["trusted_base"] = BASE_TRUST + [
        "T1 translator harness/translate/rodas_tables.py (reads the floats of the running Rodas_param as exact rationals)",
        "decide +kernel: kernel evaluation over core Rat, no additional axioms",
        "that the algebraic order conditions imply the observed convergence order is classical theory (Hairer-Wanner IV.7), not formalised",
        "index-1 DAE order conditions (two-colour trees) are not yet proved in Lean; DAE behaviour is covered by the ladders only"]
    changed, data = rodas_tables.write(LEAN)
    rep.cov["tables_regenerated"] = bool(changed)
    # thorough tier: the index-1 DAE order conditions too (Properties/C07dae*.lean, ~10 min of kernel evaluation when not cached)
    dae_files = ["C07daeDefs", "C07daeRodas4", "C07daeRodasp", "C07daeRodas5pY", "C07daeRodas5pZ"] if tier == "thorough" else []
    rep.cov["index1_dae_conditions"] = ("decided in Lean on 441 y-trees / 220 z-trees (rodas5p: y order 5, z order 4; rodas4, rodasp: 4 / 4; "
                                        "embedded one lower)" if dae_files else "thorough tier only; h-ladders on index-1 problems in this tier")
    failed = rep.add_proof(prove("C07", extra_files=dae_files))
    rng = np.random.default_rng(seed)
    # ---- K: stage loop and dense output
    lines, real, meta = [], [], []
    ncase = 24 if tier == "quick" else 200
    diffs, broken, fails = [], [], []
    for i in range(ncase):
        scheme = ["rodas4", "rodasp", "rodas5p"][i % 3]
        lam = float(rng.choice([-1.0, -0.5, -4.0, 0.25, -16.0, -100.0]))
        dt = float(rng.choice([0.5, 0.25, 0.125, 0.0625]))
        y0 = float(rng.choice([1.0, 2.0, -0.5]))
        nsteps = int(rng.integers(1, 4))
        taus = sorted(set(float(x) for x in rng.choice([0.125, 0.25, 0.5, 0.75], size=int(rng.integers(1, 3)))))
        try:
            nodes, T, Y = run_real_lin(scheme, lam, dt, y0, nsteps, taus)
        except Exception as ex:  # noqa
            fails.append((dict(scheme=scheme, lam=lam, dt=dt, y0=y0, nsteps=nsteps, taus=taus),
                          f"Rodas(fix_h) raised {type(ex).__name__}: {ex}"))
            continue
        lines.append(f"c07 lin {scheme} {f2h(lam)} {f2h(dt)} {f2h(y0)} {nsteps} {len(taus)} " + " ".join(f2h(t) for t in taus))
        real.append((nodes, T, Y))
        meta.append(dict(scheme=scheme, lam=lam, dt=dt, y0=y0, nsteps=nsteps, taus=taus))
    try:
        got = run_driver(lines)
        for m, (nodes, T, Y), g in zip(meta, real, got):
            if not g.startswith("ok"):
                diffs.append(dict(case=m, model=g)); continue
            mv = [h2f(x) for x in g.split()[1:]]
            if len(T) != len(nodes) or not np.array_equal(T, np.array(nodes)):
                diffs.append(dict(case=m, what="returned times differ from the requested nodes", T=list(map(float, T)))); continue
            rv = list(map(float, Y[1:]))
            if len(mv) != len(rv) or any(abs(a - b) > 1e-11 * max(1.0, abs(a), abs(b)) for a, b in zip(mv, rv)):
                diffs.append(dict(case=m, what="stage loop / dense output values differ", implementation=rv, model=mv))
    except LeanError as ex:
        broken.append(str(ex))
    # ---- ladders
    ks = [3, 4, 5, 6] if tier == "quick" else [3, 4, 5, 6, 7]
    ladders = []
    for prob in problems():
        for scheme in SCHEMES:
            try:
                if "from t0=1000" in prob[0]:
                    r = ladder(scheme, prob, [5, 6, 7, 8], floor=2e-10)
                elif "from t0=0" in prob[0]:
                    # dF/dt is a forward difference with a relative increment of sqrt(eps): its noise (1.5e-8 / h per unit of F) puts a
                    # floor of about 1e-11 under the dense values; the ladder stays above it
                    r = ladder(scheme, prob, [1, 2, 3, 4, 5], floor=5e-11)
                else:
                    r = ladder(scheme, prob, ks)
            except Exception as ex:  # noqa
                r = dict(problem=prob[0], scheme=scheme, error=f"{type(ex).__name__}: {ex}")
            ladders.append(r)
            msg = judge(r)
            if msg:
                fails.append((r, f"{scheme} on {prob[0]}: {msg}"))
            if prob[0].startswith("ode y'=cos"):        # the one-step ladder needs h well inside the asymptotic range of the problem
                try:
                    r = local_dense_ladder(scheme, prob, [2, 3, 4, 5])
                except Exception as ex:  # noqa
                    r = dict(problem=prob[0] + " (local)", scheme=scheme, error=f"{type(ex).__name__}: {ex}")
                ladders.append(r)
                msg = judge(r)
                if msg:
                    fails.append((r, f"{scheme} on {r['problem']}: {msg}"))
    fg = fixed_grid_failures()
    rep.cov["fixed_step_grid_runs"] = 12
    for case, m in fg:
        fails.append((case, m))
    rep.cov["evaluations"] = len(lines) + len(ladders)
    rep.cov["distinct_nontrivial"] = len(set(lines)) + len(ladders)
    rep.cov["rule"] = ("K: random (scheme, lambda, dt, y0, steps, tau set) on y'=lambda*y with fix_h, all values compared with the Lean stage loop "
                       "to 1e-11 relative; ladders: fixed-step h=2^-k runs on three problems x three schemes, observed orders. "
                       "distinct = distinct protocol lines + ladders")
    rep.cov["samples"] = [dict(line=l) for l in lines[:2]] + [
        {k: v for k, v in r.items() if k in ("problem", "scheme", "step_slope", "dense_slope", "step_local_slope", "dense_local_slope", "p", "q", "error")} for r in ladders]
    rep.cov["schemes_in_tables"] = {k: dict(s=v["s"], pord=v["pord"]) for k, v in data.items()}
    rep.cov["disagreements"] = len(diffs)
    for r, m in fails[:5]:
        rep.violation("C07 fails on the real code: " + m, dict(kind="ladder-or-run", detail=r, message=m))
    if not fails:
        for f in failed:
            rep.violation(f"order-condition obligation no longer checks for the tables now in /repo: {f}; ladders found no order loss",
                          dict(kind="proof", theorem=f, tables=data), has_input=False)
        for b in broken:
            rep.violation("driver: " + b, dict(kind="driver", detail=b), has_input=False)
        for d in diffs[:5]:
            rep.violation("model and implementation disagree on the Rodas stage loop / dense output (correspondence C07/lin); ladders found no order loss",
                          dict(kind="correspondence", **d), has_input=False)


def replay(rep, payload):
    d = payload.get("detail") or payload.get("case")
    print("replay payload:", payload.get("kind"), payload.get("message", ""))
    if payload.get("kind") == "ladder-or-run" and isinstance(d, dict) and "problem" in d:
        for prob in problems():
            if prob[0] == d["problem"]:
                r = ladder(d["scheme"], prob, [3, 4, 5, 6])
                print(r)
                if judge(r):
                    rep.violation("replayed failure: " + judge(r), payload)
