"""
C05 — the Hessian-vector product is the derivative of J*v.

1. proof obligations: Properties/C05.lean — in the reference semantics HVP entry (r, c) = sum_k d2F_r/dy_c dy_k v_k is
   the derivative (HasDerivAt, Mathlib) of element r of J(y) v with respect to y_c, away from kinks.
2. K: generated models (element-wise expressions of whole and indexed variables, size-one variables included), HVP from
   the inline sparse backend and from rendered modules at kink-free points and random directions v, compared entry by
   entry with the Lean reference HVP; generation must succeed for every such model.
3. search: central finite differences of the real J(y) v.
Recorded finding D16 (known_findings.json): the inline sparse Hvp_ raises TypeError for a second-derivative block that is
scalar-valued while the first derivative of the same (equation, variable) pair is vector-valued.
"""
from __future__ import annotations

import importlib
import os
import shutil
import sys
import tempfile
import warnings
import numpy as np

from harness.common import prove, BASE_TRUST, run_driver, h2f, LeanError, known_findings, f2h
from harness import lang, pipeline


def hvp_call(nd, kind, t, y, v, yprev):
    args = (y, nd.p, v) if kind == "AE" else ((t, y, nd.p, v) if kind == "DAE" else (t, y, nd.p, v, yprev))
    with warnings.catch_warnings():
        warnings.simplefilter("ignore")
        r = nd.HVP(*args)
    return r.toarray() if hasattr(r, "toarray") else np.asarray(r)


def d16_witness():
    # e0 = a**2 + a*p + x**2 (size-one variable a, vector parameter p): d/da = 2a + p is a vector, d2/da2 = 2 a scalar
    return lang.GModel("AE", [("a", [0.7], None), ("x", [1.1, 0.4], None)], [("p", "plain", dict(value=[2.0, 3.0]))],
                       [("e0", "alg", ("add", ("add", ("powi", ("var", 0, ("w",)), 2), ("mul", ("var", 0, ("w",)), ("par", 0, ("w",)))),
                                       ("powi", ("var", 1, ("w",)), 2)), None),
                        ("e1", "alg", ("add", ("sub", ("var", 0, ("w",)), ("num", 1.0)), ("var", 1, ("i", 0))), None)])


def run(rep, tier, seed):
    from Solverz import made_numerical, module_printer
    rep.cov["trusted_base"] = BASE_TRUST + [
        "the reference HVP is the twice-applied SEx.diff of Core/Lang.lean; its correctness is C05_hvp_is_derivative + C02_diff_correct",
        "matrix-valued blocks are outside the property; dense inline HVP is not offered by the property either"]
    failed = rep.add_proof(prove("C05"))
    rng = np.random.default_rng(seed)
    nm = 30 if tier == "quick" else 400
    tmp = tempfile.mkdtemp(prefix="c05_")
    lines, slots = [], []
    fails, known, notes = [], [], []
    stats = dict(models=0, generated=0, inline_calls=0, module_calls=0, kink_rejected=0, size_one_vars=0)
    try:
        ncorpus = len(lang.corpus())
        models = lang.corpus() + [lang.Gen(rng).model() for _ in range(nm)]
        for k, gm in enumerate(models):
            stats["models"] += 1
            try:
                b = pipeline.Built(gm)
                if pipeline.degenerate(b):
                    continue
            except Exception:  # noqa
                continue
            stats["size_one_vars"] += sum(1 for v in gm.vars if len(v[1]) == 1)
            case0 = dict(model=gm.describe())
            backends = {}
            try:
                mdl = lang.build(gm); eqs, y0 = lang.quiet(mdl.create_instance)
                backends["inline-sparse"] = lang.quiet(made_numerical, eqs, y0, sparse=True, make_hvp=True)
            except Exception as ex:  # noqa
                fails.append((case0, f"HVP generation failed for an element-wise model: {type(ex).__name__}: {str(ex)[:160]}"))
                continue
            stats["generated"] += 1
            if (k < ncorpus or k % (6 if tier == "quick" else 8) == 0) and gm.kind != "FDAE":
                try:
                    mdl = lang.build(gm); eqs, y0 = lang.quiet(mdl.create_instance)
                    name = f"c05m{k}_{os.getpid()}"
                    lang.quiet(module_printer(eqs, y0, name, directory=tmp, jit=False, make_hvp=True).render)
                    if tmp not in sys.path:
                        sys.path.insert(0, tmp)
                    backends["module"] = lang.quiet(importlib.import_module, name).mdl
                except Exception as ex:  # noqa
                    fails.append((case0, f"HVP module generation failed for an element-wise model: {type(ex).__name__}: {str(ex)[:160]}"))
            for (t, y, overrides, yprev) in pipeline.gen_points(gm, rng, 3):
                margins = []
                env = dict(y=y, yprev=yprev, p=lang.par_values(gm, overrides, None if gm.kind == "AE" else t, y))
                try:
                    finite = True
                    with np.errstate(all="ignore"):
                        for (_, _, a, _) in gm.eqs:
                            finite = finite and bool(np.all(np.isfinite(lang.np_eval(gm, a, env, margins))))
                    if not finite:
                        continue          # outside the functions' domains (division by zero, log of a non-positive number)
                except Exception:  # noqa
                    continue
                if margins and min(margins) < pipeline.KINK:
                    stats["kink_rejected"] += 1
                    continue
                v = np.round(rng.normal(size=len(y)), 3)
                pflat = np.concatenate([np.atleast_1d(x) for x in env["p"]]) if env["p"] else np.array([])
                real = {}
                for label, nd in backends.items():
                    try:
                        pipeline.apply_overrides(nd, gm, overrides)
                        real[label] = hvp_call(nd, gm.kind, t, y.copy(), v.copy(), yprev.copy())
                        stats["inline_calls" if label.startswith("inline") else "module_calls"] += 1
                    except Exception as ex:  # noqa
                        real[label] = ex
                    finally:
                        pipeline.restore_params(nd, gm)
                lines.append(lang.request("H", gm, y, pflat, yprev) + " v " + str(len(v)) + " " + " ".join(f2h(x) for x in v))
                slots.append(dict(gm=gm, real=real, point=dict(t=t, y=[float(x) for x in y], v=[float(x) for x in v], overrides=overrides), b=b))
        try:
            answers = run_driver(lines)
            broken = []
        except LeanError as ex:
            answers, broken = [], [str(ex)]
        diffs = []
        for s, ans in zip(slots, answers):
            gm = s["gm"]
            case = dict(model=gm.describe(), point=s["point"])
            if not ans.startswith("ok"):
                diffs.append(dict(case=case, model=ans)); continue
            w = ans.split(); nr, nc = int(w[1]), int(w[2])
            Hm = np.array([h2f(x) for x in w[3:]]).reshape(nr, nc)
            rows = pipeline.reorder_rows(None, s["b"].eqs, [e[0] for e in gm.eqs], gm)
            for label, val in s["real"].items():
                if isinstance(val, Exception):
                    # D16: a second-derivative block that is scalar-valued (a Python float: "not iterable"; a length-one array:
                    # row/col/data lengths differ) while the block is addressed as a vector block — no Ones(n) broadcast
                    if label == "inline-sparse" and ((isinstance(val, TypeError) and "not iterable" in str(val)) or
                                                     (isinstance(val, ValueError) and "all index and data arrays must have the same length" in str(val))):
                        known.append((case, f"{label}: {type(val).__name__}: {val}"))
                    else:
                        fails.append((case, f"HVP ({label}) raised {type(val).__name__}: {str(val)[:140]}"))
                    continue
                if val.shape != (nr, nc):
                    fails.append((case, f"HVP ({label}) has shape {val.shape}, expected {(nr, nc)}")); continue
                got = val[rows, :]
                if not pipeline.close(got, Hm) and not np.allclose(got, Hm, rtol=1e-8, atol=1e-9):
                    d = np.abs(got - Hm); r, c = np.unravel_index(int(np.argmax(d)), d.shape)
                    fails.append((case, f"HVP ({label}) entry ({r},{c}) = {got[r, c]!r}, d(J v)_{r}/dy_{c} = {Hm[r, c]!r}"))
    finally:
        for kmod in [kk for kk in sys.modules if kk.startswith("c05m")]:
            del sys.modules[kmod]
        if tmp in sys.path:
            sys.path.remove(tmp)
        shutil.rmtree(tmp, ignore_errors=True)
    # ---- generation histories: the same symbolic equations printed twice, the second time for another variable layout
    from Solverz.variable.variables import Vars
    from Solverz.utilities.address import Address
    nhist = 0
    for gm in [m for m in models if len(m.vars) >= 2 and m.kind == "AE"][:6 if tier == "quick" else 40]:
        try:
            mdl = lang.build(gm); eqs, y0 = lang.quiet(mdl.create_instance)
            lang.quiet(made_numerical, eqs, y0, sparse=True, make_hvp=True)

            def permuted(y0_):
                a = Address()
                names = list(reversed(y0_.a.object_list))
                for n in names:
                    a.add(n, int(y0_.a.size[n]))
                return Vars(a, np.concatenate([y0_[n] for n in names]))
            yp = permuted(y0)
            nd_reuse = lang.quiet(made_numerical, eqs, yp, sparse=True, make_hvp=True)
            mdl2 = lang.build(gm); eqs2, y02 = lang.quiet(mdl2.create_instance)
            nd_fresh = lang.quiet(made_numerical, eqs2, permuted(y02), sparse=True, make_hvp=True)
            yy = yp.array * 1.1 + 0.05
            v = np.round(rng.normal(size=len(yy)), 3)
            nhist += 1
            for what, f in (("F", lambda nd: np.asarray(nd.F(yy, nd.p))), ("J", lambda nd: nd.J(yy, nd.p).toarray()),
                            ("HVP", lambda nd: nd.HVP(yy, nd.p, v).toarray())):
                try:
                    a1, a2 = f(nd_reuse), f(nd_fresh)
                except TypeError:
                    continue      # D16 class
                except ValueError as ex:
                    if "all index and data arrays must have the same length" in str(ex):
                        continue  # D16 class (length-one array instead of a float)
                    raise
                if not np.allclose(a1, a2, rtol=1e-12, atol=1e-13, equal_nan=True):
                    fails.append((dict(model=gm.describe(), history="made_numerical(eqs, y0, make_hvp) then made_numerical(eqs, reversed layout, make_hvp)"),
                                  f"{what} generated a second time from the same symbolic equations (other variable layout) differs from a fresh "
                                  f"generation: max abs diff {np.max(np.abs(a1 - a2)):.3g}"))
        except Exception as ex:  # noqa
            notes.append(f"history run raised {type(ex).__name__}: {str(ex)[:100]}")
    stats["generation_histories"] = nhist
    # the same with a rendered module as the last generation of the history (inline, inline for another layout, module for a third)
    import tempfile as _tf
    htmp = _tf.mkdtemp(prefix="c05h_")
    try:
        hgm = [m for m in models if len(m.vars) >= 2 and m.kind == "AE"][:3 if tier == "quick" else 20]
        hf, nh2 = pipeline.regen_histories(hgm, rng, htmp, "c05h", what=("F", "J", "HVP"), with_module=True)
    finally:
        shutil.rmtree(htmp, ignore_errors=True)
        if htmp in sys.path:
            sys.path.remove(htmp)
    stats["generation_histories_with_module"] = nh2
    for case, msg in hf:
        if "HVP" in msg and ("not iterable" in msg or "same length" in msg):
            continue
        fails.append((case, msg))
    # ---- probes: variables indexed by stepped / reversed slices (generation must succeed), and an exact zero of the argument of an even
    #      power of Abs (smooth there); HVP against a central difference of the model's own J
    from Solverz import Model, Var, Eqn, Abs as _Abs
    def _probe(build, ypt, tag):
        try:
            m = build()
            eqs, y0 = lang.quiet(m.create_instance)
            nd = lang.quiet(made_numerical, eqs, y0, sparse=True, make_hvp=True)
            ypt = np.asarray(ypt, dtype=float); v = np.array([1.0, -0.5, 2.0, 0.7, 1.3][:len(ypt)])
            H = nd.HVP(ypt, nd.p, v).toarray()
        except Exception as ex:  # noqa
            fails.append((dict(model=tag), f"HVP generation / evaluation failed for an element-wise model of indexed variables ({tag}): "
                                           f"{type(ex).__name__}: {str(ex)[:120]}")); return
        n = len(ypt); ref = np.zeros((H.shape[0], n)); h = 1e-6
        for j in range(n):
            e = np.zeros(n); e[j] = h
            ref[:, j] = (nd.J(ypt + e, nd.p).toarray() @ v - nd.J(ypt - e, nd.p).toarray() @ v) / (2 * h)
        if not np.allclose(H, ref, rtol=1e-5, atol=1e-6):
            r, c = np.unravel_index(np.argmax(np.abs(H - ref)), H.shape)
            fails.append((dict(model=tag, y=[float(x) for x in ypt], v=[float(x) for x in v]),
                          f"HVP entry ({r},{c}) = {H[r, c]!r} but d(J v)_{r}/dy_{c} = {ref[r, c]!r} by central differences of the model's own J ({tag})"))
    def _b_step():
        m = Model(); m.x = Var("x", [1.0, 2.0, 3.0, 4.0]); m.y = Var("y", 0.5)
        m.f1 = Eqn("f1", m.x[0:4:2] ** 2 * m.y - 1); m.f2 = Eqn("f2", m.x[0:2] * m.x[2:4] - 1); m.f3 = Eqn("f3", m.y ** 2 - m.x[0]); return m
    def _b_rev():
        m = Model(); m.x = Var("x", [1.0, 2.0, 3.0, 4.0]); m.y = Var("y", 0.5)
        m.f1 = Eqn("f1", m.x[1::-1] ** 2 * m.y - 1); m.f2 = Eqn("f2", m.x[0:2] * m.x[2:4] - 1); m.f3 = Eqn("f3", m.y ** 2 - m.x[0]); return m
    def _b_abs():
        m = Model(); m.x = Var("x", [0.0, 2.0]); m.y = Var("y", 0.5)
        m.f1 = Eqn("f1", _Abs(m.x) ** 2 * m.y - 1); m.f2 = Eqn("f2", m.y ** 2 - m.x[0]); return m
    _probe(_b_step, [1.0, 2.0, 3.0, 4.0, 0.5], "f1 = x[0:4:2]**2 * y - 1")
    _probe(_b_rev, [1.0, 2.0, 3.0, 4.0, 0.5], "f1 = x[1::-1]**2 * y - 1")
    _probe(_b_abs, [0.0, 2.0, 0.5], "f1 = Abs(x)**2 * y - 1 at x[0] = 0")
    # recorded finding: replay the witness every run
    kf = known_findings("C05")
    if kf:
        try:
            gmw = d16_witness()
            mdl = lang.build(gmw); eqs, y0 = lang.quiet(mdl.create_instance)
            ndw = lang.quiet(made_numerical, eqs, y0, sparse=True, make_hvp=True)
            try:
                hvp_call(ndw, "AE", 0.0, y0.array.copy(), np.ones(3), y0.array.copy())
                rep.notes.append("recorded witness of D16 no longer fails: the entry in known_findings.json is stale")
            except TypeError as ex:
                rep.known("D16", kf[0]["line"].split("property=C05 ", 1)[1] + f"; witness reproduces ({str(ex)[:60]}); {len(known)} generated points in the class")
        except Exception as ex:  # noqa
            rep.notes.append(f"D16 witness could not be built: {type(ex).__name__}: {ex}")
    elif known:
        for case, m in known[:2]:
            fails.append((case, "inline sparse HVP raises at the first call: " + m))
    rep.cov["evaluations"] = len(lines)
    rep.cov["distinct_nontrivial"] = stats["generated"]
    rep.cov["rule"] = ("generated models of the C01 grammar (all element-wise) incl. size-one variables and the corpus; HVP from inline sparse for all, "
                       "rendered module for every 6th; 3 kink-free points x random direction v; compared with the Lean reference (1e-8)")
    rep.cov["samples"] = [s["point"] for s in slots[:2]]
    rep.cov["stats"] = stats
    rep.cov["known_finding_inputs"] = len(known)
    rep.cov["disagreements"] = len(diffs)
    seen = set()
    for case, m in fails:
        key = m[:40]
        if key in seen or len(seen) >= 6:
            continue
        seen.add(key)
        rep.violation("C05 fails on the real code: " + m, dict(kind="model-point", case=case, message=m))
    if not fails:
        for f in failed:
            rep.violation(f"proof obligation no longer checks: {f}; no HVP disagreement found", dict(kind="proof", theorem=f), has_input=False)
        for b in broken:
            rep.violation("driver: " + b, dict(kind="driver", detail=b), has_input=False)
        for d in diffs[:3]:
            rep.violation("the reference semantics reject a generated model", dict(kind="correspondence", **d), has_input=False)


def replay(rep, payload):
    print("replay:", payload.get("message")); print(payload.get("case"))
