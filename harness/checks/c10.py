"""
C10 — event location is sound, complete and respects direction and terminality (Rodas).

1. proof obligations: Properties/C10.lean (bracket invariant of the bisection, direction filter, events
   lie within the step, no-event-no-effect, terminal event ends the run with T[-1] = te[-1])
2. correspondence (exact, Float): real Rodas runs with event functions of time g_i(t) = t - c_i
   (direction, terminal flag per component) replayed on the Lean controller: te, ie, T, counters
3. oracle on the real code: the reported events against the analytic list (all c_i in the integrated span
   with a permitted direction, ascending, up to the first terminal one; ye = state at te).
   Runs in which two or more components are detected within one accepted step belong to the recorded
   finding (known_findings.json): there the implementation is compared with the model only.
"""
from __future__ import annotations

import numpy as np

from harness.common import run_driver, prove, BASE_TRUST, LeanError, known_findings
from harness import rodas_common as RC

EXACT = {"ramp": lambda t, t0: np.array([t - t0]), "decay": lambda t, t0: np.array([np.exp(-(t - t0))])}


def spec_events(specs, t0, tstop_default):
    """analytic list for g_i = t - c_i (rising): permitted directions 0 and +1"""
    cand = sorted((c, i) for i, (c, d, tm) in enumerate(specs) if d >= 0 and t0 < c < tstop_default)
    out = []
    for c, i in cand:
        out.append((c, i))
        if specs[i][2]:
            break
    return out


def special_case(rng, j):
    """inputs the random generator does not reach: nodes of integer type with a terminal event between them, and a crossing
    shortly (but more than the default event_duration 1e-8) after the start of the run.  Returns the case and the tspan object
    handed to Rodas."""
    pname = str(rng.choice(["decay", "ramp", "osc"]))
    optkw = dict(rtol=float(rng.choice([1e-3, 1e-5, 1e-7])), atol=float(rng.choice([1e-6, 1e-9])))
    if rng.random() < 0.3:
        optkw["scheme"] = str(rng.choice(["rodasp", "rodas5p"]))
    if j % 4 == 1:
        # the event function is exactly zero at the end of an accepted step (the step sizes are dyadic and y' = const, so every
        # proposed step is accepted): -, 0, + is a sign change and has to be reported; in fixed-step mode too
        pname = "ramp"
        t0 = float(rng.choice([0.0, 1.0, -2.0]))
        h = float(rng.choice([0.5, 0.25, 0.125]))
        k = int(rng.integers(1, 4))
        optkw = dict(rtol=1e-3, atol=1e-6, hinit=h)
        if rng.random() < 0.5:
            optkw["fix_h"] = True
        else:
            optkw["hmax"] = h
        tspan = [t0, t0 + 8 * h] if rng.random() < 0.6 else [float(x) for x in np.linspace(t0, t0 + 8 * h, 5)]
        specs = [(t0 + k * h, int(rng.choice([0, 1])), bool(rng.random() < 0.6))]
        return pname, tspan, tspan, optkw, specs, "zero_at_step_end"
    if j % 4 == 3:
        # fixed-step mode with a located non-terminal event: the step is cut at the event, the grid is shifted, the run still ends at tend
        pname = str(rng.choice(["decay", "ramp", "osc"]))
        t0 = float(rng.choice([0.0, 0.25, -1.5]))
        n = int(rng.integers(7, 40))
        span = float(rng.choice([1.0, 2.0, 4.0]))
        h = span / n if rng.random() < 0.5 else float(rng.choice([0.1, 0.05, 0.3, 0.125]))
        optkw = dict(rtol=1e-3, atol=1e-6, hinit=h, fix_h=True)
        tspan = [t0, t0 + span]
        specs = [(t0 + span * float(rng.choice([0.31, 0.5, 0.77])), 0, False)]
        if rng.random() < 0.4:
            specs.append((t0 + span * 0.9, 0, bool(rng.random() < 0.5)))
        return pname, tspan, tspan, optkw, specs, "fixed_step_with_event"
    if j % 4 == 0:
        a = int(rng.choice([0, -2, 10, 3]))
        n = int(rng.integers(3, 12))
        c = a + float(rng.integers(1, n)) + float(rng.choice([0.0816, 0.5, 0.93, 0.25]))
        if c >= a + n:
            c = a + n - 0.37
        nodes = np.arange(a, a + n + 1) if rng.random() < 0.5 else [int(x) for x in range(a, a + n + 1)]
        if rng.random() < 0.3:
            nodes = nodes[::2] if len(nodes[::2]) > 2 and nodes[::2][-1] == a + n else nodes
        specs = [(float(c), int(rng.choice([0, 1])), True)]
        if rng.random() < 0.4:
            specs.insert(0, (float(a + 0.5 * (c - a)), 0, False))
        return pname, [float(x) for x in nodes], nodes, optkw, specs, "integer_nodes_terminal"
    t0 = float(rng.choice([0.0, 0.25, 10.0, -1.5]))
    span = float(rng.choice([0.5, 2.0, 7.3]))
    delta = float(rng.choice([3e-8, 2e-7, 5e-7, 9e-7, 4e-6]))
    tspan = [t0, t0 + span] if rng.random() < 0.5 else [float(x) for x in np.linspace(t0, t0 + span, int(rng.integers(3, 30)))]
    specs = [(t0 + delta, int(rng.choice([0, 1])), bool(rng.random() < 0.5))]
    if rng.random() < 0.4:
        specs.append((t0 + 0.6 * span, 0, False))
    return pname, tspan, tspan, optkw, specs, "crossing_shortly_after_start"


def run(rep, tier, seed):
    rep.cov["trusted_base"] = BASE_TRUST + [
        "event functions in the correspondence depend on time only (g_i = t - c_i, (t - a)(t - b), (t - c)(1 + k (t - c)^2)), so that the Lean "
        "model can evaluate them itself; the theorems on the search (C10_search_sound, C10_locate_sound) quantify over every event "
        "function; state-dependent event functions are exercised by the oracle on closed-form problems only",
        "after a non-terminal event the integration restarts from the interpolated state: the later trajectory is perturbed within the "
        "dense-output accuracy (measured, not proved)"]
    failed = rep.add_proof(prove("C10"))
    rng = np.random.default_rng(seed)
    P = RC.problems()
    ncase = 80 if tier == "quick" else 1000
    lines, expect, cases = [], [], []
    fails, diffs, broken, known, known22 = [], [], [], [], []
    hist = dict(single=0, multi_in_step=0, terminal=0, events_reported=0, none=0)
    nspecial = 16 if tier == "quick" else 120
    rng_s = np.random.default_rng([seed, 1010])
    for k in range(ncase + nspecial):
        tspan_arg = None
        if k >= ncase:
            pname, tspan, tspan_arg, optkw, specs, kind = special_case(rng_s, k - ncase)
            hist[kind] = hist.get(kind, 0) + 1
        else:
            multi = bool(rng.random() < 0.5)
            pname, tspan, optkw, specs = RC.gen_case(rng, with_events=True, multi=multi)
        if pname == "vdp":
            pname = "ramp"
        if k < ncase and k % 5 == 4:
            # a single NON-terminal event close to tend (inside the last accepted step): only a terminal event may end the run
            span_ = float(tspan[-1] - tspan[0])
            specs = [(float(tspan[-1] - span_ * float(rng.choice([1e-3, 1e-2, 3e-2]))), 0, False)]
            hist["nonterminal_near_tend"] = hist.get("nonterminal_near_tend", 0) + 1
        dae, y0 = P[pname]
        case = dict(problem=pname, tspan=tspan if len(tspan) < 12 else [tspan[0], "...", tspan[-1], len(tspan)], opt=optkw, events=specs)
        if tspan_arg is not None and not isinstance(tspan_arg[0], float):
            case["tspan_type"] = ("ndarray of " + str(tspan_arg.dtype)) if isinstance(tspan_arg, np.ndarray) else "list of int"
            case["tspan"] = [int(x) for x in tspan_arg]
        # every third run: the event function returns one preallocated array that it re-uses (D77)
        reuse = (k % 3 == 1)
        if reuse:
            case["event_function"] = "returns a re-used buffer"
            hist["reused_buffer"] = hist.get("reused_buffer", 0) + 1
        sol, tr = RC.run_rodas(dae, y0, tspan if tspan_arg is None else tspan_arg, optkw, specs, reuse_buffer=reuse)
        if isinstance(sol, Exception):
            fails.append((case, f"Rodas raised {type(sol).__name__}: {sol}"))
            continue
        lines.append(RC.protocol_line(tspan, optkw, specs, tr))
        expect.append(RC.expected_answer(sol, tr)); cases.append(case)
        T = np.asarray(sol.T, dtype=float)
        te = np.asarray(sol.te, dtype=float)
        ie = [int(x) for x in sol.ie]
        ye = np.asarray(sol.ye.array if hasattr(sol.ye, "array") else sol.ye) if len(te) else np.zeros((0, 1))
        t0, tend = tspan[0], tspan[-1]
        hist["events_reported"] += len(te)
        hist["terminal"] += int(any(specs[i][2] for i in ie))
        # which accepted steps contain >= 2 detectable crossings?  (recorded finding D11)
        multi_step = False
        grid = {t0}
        for r in tr:
            if r["err"] <= 1.0:
                a, b = r["t"], r["t"] + r["dt"]
                # a zero exactly at the start of the step is seen by this step (the one that leaves it), one at its end by the next
                inside = [c for (c, d, tm) in specs if d >= 0 and a <= c < b and c > t0]
                if len(inside) >= 2:
                    multi_step = True
                grid.add(b)
        on_grid = any(any(abs(c - g) <= 4 * np.spacing(abs(g) + 1.0) for g in grid) for (c, d, tm) in specs)
        # recorded finding D22: a crossing within `event_duration` (default 1e-8) after the start of an accepted step is dropped
        evdur = optkw.get("event_duration", 1e-8)
        near_start = any(any(0.0 <= c - g < evdur for g in grid) for (c, d, tm) in specs if d >= 0)
        hist["multi_in_step" if multi_step else ("single" if len(specs) else "none")] += 1
        spec = spec_events(specs, t0, tend)
        bad = []
        # soundness
        for j, (t_e, i) in enumerate(zip(te, ie)):
            c, d, tm = specs[i]
            if not (t0 <= t_e <= tend):
                bad.append(f"event #{j} at {t_e!r} lies outside the integrated span [{t0}, {tend}]")
            if d < 0:
                bad.append(f"event #{j}: component {i} only permits falling crossings but g_{i} = t - c rises")
            if abs(t_e - c) > 1e-6 * max(1.0, abs(c)) + 256 * np.spacing(abs(c) + abs(t0) + 1.0):
                bad.append(f"event #{j}: component {i} reported at {t_e!r}, its only sign change is at {c!r}")
            if pname in EXACT and len(ye) > j:
                ex = EXACT[pname](t_e, t0)
                if abs(ye[j][0] - ex[0]) > 1e-2 * max(1e-3, abs(ex[0])) + 1e-4:
                    bad.append(f"event #{j}: ye = {ye[j][0]!r} is not the state at te = {t_e!r} (exact {ex[0]!r})")
        if np.any(np.diff(te) < 0):
            bad.append(f"reported event times are not ascending: {list(te)}")
        # completeness and terminality
        if True:       # crossings that coincide with a step end included: -, 0, + is a sign change (reported by the step that leaves the zero)
            if [i for _, i in spec] != ie:
                bad.append(f"reported components {ie}, the permitted sign changes in the span are {[i for _, i in spec]} (in time order)")
            if not any(specs[i][2] for i in ie) and getattr(sol.stats, "ret", None) != "failed" and T[-1] != tend:
                bad.append(f"no terminal event was reported but the run ended at {T[-1]!r}, not at tend {tend!r}")
            if spec and specs[spec[-1][1]][2]:
                if len(te) and (T[-1] != te[-1]):
                    bad.append(f"terminal event at {te[-1]!r} but the last returned time is {T[-1]!r}")
                Yl = np.asarray(sol.Y.array if hasattr(sol.Y, "array") else sol.Y)[-1]
                if len(te) and len(ye) and not np.allclose(Yl, ye[-1], rtol=1e-9, atol=1e-9):
                    bad.append("terminal event: last returned state differs from the event state")
        if bad:
            if multi_step:
                known.append((case, bad[0]))
            elif near_start and all(("reported components" in m or "terminal event" in m) for m in bad):
                known22.append((case, bad[0]))
            else:
                fails.append((case, "; ".join(bad[:2])))
    # ---- nonlinear event functions of time, one component per run (the `gfun` reading of the Lean model: theorems
    #      C10_search_sound / C10_locate_sound quantify over every event function).  ("q", a, b): (t-a)(t-b) falls through a and
    #      rises through b; ("k", c, kappa): (t-c)(1+kappa (t-c)^2) rises through c, the secant start is not the zero.
    #      hmax < (b-a)/3 keeps the two zeros of a "q" component in different accepted steps.  Replayed bit for bit on the Lean
    #      controller; oracle: the analytic crossing list filtered by direction, up to a terminal event.
    rng_n = np.random.default_rng([seed, 1011])
    nnl = 24 if tier == "quick" else 240
    for k in range(nnl):
        pname = str(rng_n.choice(["decay", "ramp", "osc"]))
        t0 = float(rng_n.choice([0.0, 0.25, -1.5, 10.0]))
        span = float(rng_n.choice([0.5, 2.0, 7.3]))
        tend = t0 + span
        d = int(rng_n.choice([-1, 0, 1]))
        tm = bool(rng_n.random() < 0.35)
        optkw = dict(rtol=float(rng_n.choice([1e-3, 1e-5, 1e-7])), atol=float(rng_n.choice([1e-6, 1e-9])))
        if rng_n.random() < 0.3:
            optkw["scheme"] = str(rng_n.choice(["rodasp", "rodas5p"]))
        if k % 2 == 0:
            a = t0 + span * float(rng_n.uniform(0.05, 0.55))
            b = a + span * float(rng_n.uniform(0.1, 0.4))
            optkw["hmax"] = float((b - a) / float(rng_n.choice([3.5, 8.0, 40.0])))
            cspec = ("q", float(a), float(b))
            cross = [(a, -1), (b, +1)]
        else:
            c = t0 + span * float(rng_n.uniform(0.05, 0.95))
            kappa = float(rng_n.choice([0.5, 10.0, 1e3, 1e6]))
            if rng_n.random() < 0.5:
                optkw["hmax"] = float(span * rng_n.choice([0.05, 0.3]))
            cspec = ("k", float(c), kappa)
            cross = [(c, +1)]
        tspan = [t0, tend] if rng_n.random() < 0.5 else [float(x) for x in np.linspace(t0, tend, int(rng_n.integers(3, 40)))]
        specs = [(cspec, d, tm)]
        if k % 4 == 2:
            # several components that are the same function: they cross together at a and again at b.  Each of them has to be
            # reported at each joint crossing (the times agree to the location tolerance), whatever was reported before
            mjoint = int(rng_n.integers(2, 4))
            specs = [(cspec, 0, False)] * mjoint
            hist["nonlinear_joint"] = hist.get("nonlinear_joint", 0) + 1
            dae, y0 = P[pname]
            case = dict(problem=pname, tspan=tspan if len(tspan) < 12 else [tspan[0], "...", tspan[-1], len(tspan)], opt=optkw,
                        events=[[list(cspec), 0, False]] * mjoint, family="identical nonlinear event components (joint crossings)")
            sol, tr = RC.run_rodas(dae, y0, tspan, optkw, specs)
            if isinstance(sol, Exception):
                fails.append((case, f"Rodas raised {type(sol).__name__}: {sol}"))
                continue
            lines.append(RC.protocol_line(tspan, optkw, specs, tr))
            expect.append(RC.expected_answer(sol, tr)); cases.append(case)
            te = [float(x) for x in np.asarray(sol.te, dtype=float)]
            ie = [int(x) for x in sol.ie]
            hist["events_reported"] += len(te)
            wantc = [c_ for (c_, _) in cross if t0 < c_ < tend]
            got = sorted(zip(te, ie))
            bad = []
            if len(te) != mjoint * len(wantc):
                bad.append(f"{len(te)} events reported (te = {te}, ie = {ie}); {mjoint} identical components {cspec} cross together at {wantc}: "
                           f"each component has to be reported at each crossing")
            else:
                for j, c_ in enumerate(wantc):
                    grp = got[j * mjoint:(j + 1) * mjoint]
                    if sorted(i for _, i in grp) != list(range(mjoint)) or any(abs(t_e - c_) > 1e-6 * max(1.0, abs(c_)) for t_e, _ in grp):
                        bad.append(f"at the joint crossing {c_!r} the events reported are {grp}, expected every component 0..{mjoint - 1} once")
            if any(te[j + 1] < te[j] - 1e-9 * max(1.0, abs(te[j])) for j in range(len(te) - 1)):
                bad.append(f"reported event times are not ascending: {te}")
            if np.asarray(sol.T, dtype=float)[-1] != tend and getattr(sol.stats, "ret", None) != "failed":
                bad.append(f"no terminal event but the run ended at {np.asarray(sol.T)[-1]!r}, not at tend {tend!r}")
            if bad:
                fails.append((case, "; ".join(bad[:2])))
            continue
        hist["nonlinear_" + cspec[0]] = hist.get("nonlinear_" + cspec[0], 0) + 1
        dae, y0 = P[pname]
        case = dict(problem=pname, tspan=tspan if len(tspan) < 12 else [tspan[0], "...", tspan[-1], len(tspan)], opt=optkw,
                    events=[[list(cspec), d, tm]], family="nonlinear event function of time")
        sol, tr = RC.run_rodas(dae, y0, tspan, optkw, specs)
        if isinstance(sol, Exception):
            fails.append((case, f"Rodas raised {type(sol).__name__}: {sol}"))
            continue
        lines.append(RC.protocol_line(tspan, optkw, specs, tr))
        expect.append(RC.expected_answer(sol, tr)); cases.append(case)
        T = np.asarray(sol.T, dtype=float)
        te = [float(x) for x in np.asarray(sol.te, dtype=float)]
        hist["events_reported"] += len(te)
        want = []
        for (c_, sgn) in cross:
            if t0 < c_ < tend and (d == 0 or d == sgn):
                want.append(c_)
                if tm:
                    break
        bad = []
        if len(te) != len(want):
            bad.append(f"{len(te)} events reported at {te}, the event function {cspec} has its permitted sign changes (direction {d}, "
                       f"terminal {tm}) at {want}")
        else:
            for t_e, c_ in zip(te, want):
                if abs(t_e - c_) > 1e-6 * max(1.0, abs(c_)):
                    bad.append(f"event reported at {t_e!r}, the sign change of {cspec} is at {c_!r}")
        for t_e in te:
            # soundness stated on the function itself: it changes sign (or vanishes) within 1e-6 of the reported time
            lo, hi = RC.ev_value(cspec, t_e - 1e-6 * max(1.0, abs(t_e))), RC.ev_value(cspec, t_e + 1e-6 * max(1.0, abs(t_e)))
            if lo * hi > 0:
                bad.append(f"event reported at {t_e!r} where {cspec} does not change sign (values {lo!r}, {hi!r} just before and after)")
        if tm and want:
            if len(te) and T[-1] != te[-1]:
                bad.append(f"terminal event at {te[-1]!r} but the last returned time is {T[-1]!r}")
        elif getattr(sol.stats, "ret", None) != "failed" and T[-1] != tend:
            bad.append(f"no terminal event was due but the run ended at {T[-1]!r}, not at tend {tend!r}")
        if bad:
            fails.append((case, "; ".join(bad[:2])))
    # ---- state-dependent events with analytic crossing times: harmonic oscillator x'' = -x, event g = x
    #      (soundness, completeness, ye = state at te, and 'detecting events never perturbs the trajectory')
    from scipy.sparse import csc_array
    from Solverz.num_api.num_eqn import nDAE
    from Solverz import Rodas, Opt
    osc = nDAE(csc_array(np.eye(2)), lambda t, y, p: np.array([y[1], -y[0]]), lambda t, y, p: csc_array(np.array([[0.0, 1.0], [-1.0, 0.0]])), {})
    ex_osc = lambda t: np.array([np.cos(t), -np.sin(t)])
    ev_x = lambda t, y: (np.array([y[0]]), np.array([False]), np.array([0.0]))
    nosc = 0
    for scheme in ("rodas4", "rodasp", "rodas5p"):
        for rtol, atol in ((1e-5, 1e-8), (1e-7, 1e-10)):
            for tspan in ([0.0, 8.0], list(np.linspace(0.0, 8.0, 33))):
                nosc += 1
                case = dict(problem="x''=-x, event g=x", scheme=scheme, rtol=rtol, tspan=len(tspan))
                try:
                    free = RC.quiet(Rodas, osc, tspan, np.array([1.0, 0.0]), Opt(scheme=scheme, rtol=rtol, atol=atol))
                    sev = RC.quiet(Rodas, osc, tspan, np.array([1.0, 0.0]), Opt(scheme=scheme, rtol=rtol, atol=atol, event=ev_x))
                except Exception as ex:  # noqa
                    fails.append((case, f"Rodas raised {type(ex).__name__}: {str(ex)[:80]}")); continue
                crossings = [np.pi / 2 + k * np.pi for k in range(3) if np.pi / 2 + k * np.pi < 8.0]
                te = np.asarray(sev.te, dtype=float)
                if len(te) != len(crossings):
                    fails.append((case, f"{len(te)} events reported, x(t) = cos t changes sign {len(crossings)} times in [0, 8]")); continue
                Yf = np.asarray(free.Y.array if hasattr(free.Y, "array") else free.Y)
                Tf = np.asarray(free.T)
                err_free = max(float(np.max(np.abs(Yf - np.array([ex_osc(t) for t in Tf])))), 1e-13)
                if np.max(np.abs(te - np.array(crossings))) > 20 * err_free + 1e-10:
                    fails.append((case, f"event times {list(te)} are off the analytic crossings by {np.max(np.abs(te - np.array(crossings))):.3g} "
                                        f"(integration error {err_free:.3g})"))
                ye = np.asarray(sev.ye.array if hasattr(sev.ye, "array") else sev.ye)
                err_ye = float(np.max(np.abs(ye - np.array([ex_osc(t) for t in te]))))
                if err_ye > 20 * err_free + 1e-10:
                    fails.append((case, f"event states ye are not the states at te: error {err_ye:.3g} against an integration error of {err_free:.3g}"))
                Ye = np.asarray(sev.Y.array if hasattr(sev.Y, "array") else sev.Y)
                err_ev = float(np.max(np.abs(Ye - np.array([ex_osc(t) for t in np.asarray(sev.T)]))))
                if err_ev > 20 * err_free + 1e-10:
                    fails.append((case, f"locating events perturbs the trajectory: error with events {err_ev:.3g} vs {err_free:.3g} without"))
    # ---- a state-dependent, nonlinear event function whose only sign change lies shortly after the start of the run (y' = 1,
    #      g = (s - delta) * (1 + a s + s^2), s = y - t0): within `event_duration` the crossing may be taken for the start itself and
    #      dropped, but no event may be reported anywhere else (soundness across steps, D25); beyond it the crossing is reported
    ramp_nl = nDAE(csc_array(np.eye(1)), lambda t, y, p: np.array([1.0]), lambda t, y, p: csc_array(np.array([[0.0]])), {})
    for t0 in ((0.0, 0.25, 10.0) if tier == "quick" else (0.0, 0.25, 10.0, -1.5, 1e3)):
        for delta in (2e-9, 5e-9, 9e-9, 5e-7, 1e-3):
            for a_ in (1.0, 3.0, -0.5):
                for scheme in (("rodas4",) if tier == "quick" else ("rodas4", "rodasp", "rodas5p")):
                    nosc += 1
                    # the scale of an event function carries no meaning: 1e-16 * g has the same sign changes as g
                    scale_ = 1.0 if (delta < 1e-4 or a_ == 1.0) else (1e-16 if a_ == 3.0 else 1e-10)
                    def ev_nl(t, y, t0=t0, delta=delta, a_=a_, scale_=scale_):
                        s_ = y[0] - t0
                        return np.array([scale_ * (s_ - delta) * (1.0 + a_ * s_ + s_ * s_)]), np.array([False]), np.array([0.0])
                    case = dict(problem="y' = 1, y(t0) = t0; event g = scale (s - delta)(1 + a s + s^2), s = y - t0", scale=scale_, t0=t0, delta=delta, a=a_, scheme=scheme,
                                tspan=[t0, t0 + 2.0])
                    try:
                        snl = RC.quiet(Rodas, ramp_nl, [t0, t0 + 2.0], np.array([t0]), Opt(scheme=scheme, rtol=1e-5, atol=1e-8, event=ev_nl))
                    except Exception as ex:  # noqa
                        fails.append((case, f"Rodas raised {type(ex).__name__}: {str(ex)[:80]}")); continue
                    te = np.asarray(snl.te, dtype=float)
                    wrong = [float(x) for x in te if abs(x - (t0 + delta)) > 1e-7 * max(1.0, abs(t0)) + 1e-9]
                    if wrong:
                        fails.append((case, f"event reported at {wrong} (t0 + {[w - t0 for w in wrong]}): the event function changes sign only at t0 + {delta}"))
                    elif delta > 1e-8 and len(te) != 1:
                        fails.append((case, f"{len(te)} events reported, the event function changes sign once, at t0 + {delta}"))
    # ---- ballistic flight y'' = -9.8, y(0) = 0, y'(0) = 20 with two event components: the apex g0 = y' (falling) and the height
    #      g1 = y - 20 (either direction); analytic crossings 1.7522 (g1), 2.0408 (g0), 2.3294 (g1).  With large steps both crossings
    #      of g1 fall into the accepted step that also contains the apex: that step belongs to the recorded class D11 (several sign
    #      changes of several components in one accepted step); with hmax small enough every step holds one crossing at most
    import Solverz.solvers.daesolver.rodas.rodas as _R
    ball = nDAE(csc_array(np.eye(2)), lambda t, y, p: np.array([y[1], -9.8]), lambda t, y, p: csc_array(np.array([[0.0, 1.0], [0.0, 0.0]])), {})
    ev_ball = lambda t, y: (np.array([y[1], y[0] - 20.0]), np.array([False, False]), np.array([-1.0, 0.0]))
    sq = np.sqrt(400.0 - 392.0)
    cross = sorted([((20.0 - sq) / 9.8, 1), (20.0 / 9.8, 0), ((20.0 + sq) / 9.8, 1)])
    for scheme in ("rodas4", "rodas5p"):
        for hmax in (None, 0.2, 0.05):
            nosc += 1
            case = dict(problem="y'' = -9.8, y(0) = 0, y'(0) = 20; events y' (falling), y - 20 (any)", scheme=scheme, hmax=hmax, tspan=[0.0, 4.0])
            try:
                _R._verif_trace.clear()
                sb = RC.quiet(Rodas, ball, [0.0, 4.0], np.array([0.0, 20.0]), Opt(scheme=scheme, event=ev_ball, **({} if hmax is None else dict(hmax=hmax))))
                trb = list(_R._verif_trace); _R._verif_trace.clear()
            except Exception as ex:  # noqa
                fails.append((case, f"Rodas raised {type(ex).__name__}: {str(ex)[:80]}")); continue
            got = [(float(a), int(b)) for a, b in zip(np.asarray(sb.te, dtype=float), sb.ie)]
            ok_ev = len(got) == 3 and all(abs(g[0] - c[0]) < 1e-3 and g[1] == c[1] for g, c in zip(got, cross))
            if not ok_ev:
                crowded = any(r["err"] <= 1.0 and sum(1 for (c, _) in cross if r["t"] < c < r["t"] + r["dt"]) >= 2 for r in trb)
                msg = f"events reported {got}, the event functions change sign at {[(round(c, 4), i) for c, i in cross]}"
                (known if crowded else fails).append((case, msg))
    rep.cov["state_dependent_event_runs"] = nosc
    try:
        got = run_driver(lines)
        for c, e, g in zip(cases, expect, got):
            if e.split() != g.split()[:-1]:
                diffs.append(dict(case=c, implementation=e[:400], model=g[:400]))
    except LeanError as ex:
        broken.append(str(ex))
    rep.cov["evaluations"] = len(lines)
    rep.cov["distinct_nontrivial"] = len(set(lines))
    rep.cov["rule"] = ("Rodas runs with 1-4 event components g_i = t - c_i, directions {-1,0,+1}, terminal flags, crossings placed inside, at the "
                       "ends of and beyond the span; all tspan shapes, hmax/hinit to get 0-3 crossings per step; replayed exactly on the Lean "
                       "controller and checked against the analytic event list")
    rep.cov["samples"] = [dict(case=c, answer=e[:200]) for c, e in list(zip(cases, expect))[:3]]
    rep.cov["histogram"] = hist
    rep.cov["traces_validated_against_impl"] = len(lines) - len(diffs)
    rep.cov["disagreements"] = len(diffs)
    rep.cov["known_finding_inputs"] = len(known)
    kf = known_findings("C10")
    # the recorded witness is replayed on the real code on every run: it must still fail in the recorded way
    if kf:
        w = kf[0].get("witness", {})
        try:
            dae, y0 = P["decay"]
            wsol, _ = RC.run_rodas(dae, y0, list(np.linspace(0, 0.5, 409)), dict(hinit=0.1, facmax=2.0, atol=1e-9),
                                   [tuple(e) for e in w.get("events", [])])
            wte = np.asarray(wsol.te, dtype=float)
            if len(wte) >= 2 and np.any(np.diff(wte) < 0):
                rep.known("D11", kf[0]["line"].split("property=C10 ", 1)[1] + f"; recorded witness reproduces: te = {[float(x) for x in wte]}")
            else:
                rep.notes.append(f"recorded witness of D11 no longer fails (te = {list(wte)}): the entry in known_findings.json is stale")
        except Exception as ex:  # noqa
            rep.notes.append(f"replaying the D11 witness raised {type(ex).__name__}: {ex}")
    kf22 = [e for e in kf if e.get("id") == "D22"]
    kf = [e for e in kf if e.get("id") != "D22"]
    if kf22:
        try:
            dae, y0 = P["ramp"]
            wsol, _ = RC.run_rodas(dae, y0, [0.25, 10.25, 20.25], dict(rtol=1e-5, atol=1e-6, hmax=0.2, hinit=40.0), [(18.25, 0, True)])
            if len(np.asarray(wsol.te)) == 0 and float(np.asarray(wsol.T)[-1]) == 20.25:
                rep.known("D22", kf22[0]["line"].split("property=C10 ", 1)[1] + f"; recorded witness reproduces (no event reported, run continues to 20.25); "
                                                                                  f"{len(known22)} generated runs of this seed fall in the recorded class")
            else:
                rep.notes.append("recorded witness of D22 no longer fails: the entry in known_findings.json is stale")
        except Exception as ex:  # noqa
            rep.notes.append(f"replaying the D22 witness raised {type(ex).__name__}: {ex}")
    else:
        for case, m in known22[:3]:
            fails.append((case, "crossing within event_duration of a step start: " + m))
    rep.cov["known_finding_inputs_D22"] = len(known22)
    if known:
        if kf:
            rep.known("D11", kf[0]["line"].split("property=C10 ", 1)[1] + f"; {len(known)} generated runs of this seed fall in the recorded class")
        else:
            for case, m in known[:3]:
                fails.append((case, "several event components in one step: " + m))
    seen = set()
    for case, m in fails:
        key = m[:38]
        if key in seen or len(seen) >= 6:
            continue
        seen.add(key)
        rep.violation("C10 fails on the real code: " + m, dict(kind="run", case=case, message=m))
    if not fails:
        for f in failed:
            rep.violation(f"proof obligation no longer checks: {f}; no failing run found", dict(kind="proof", theorem=f), has_input=False)
        for b in broken:
            rep.violation("driver: " + b, dict(kind="driver", detail=b), has_input=False)
        for d in diffs[:5]:
            rep.violation("model and implementation disagree on event handling (correspondence C10/trace); the analytic oracle found no violation "
                          "outside the recorded class", dict(kind="correspondence", **d), has_input=False)


def replay(rep, payload):
    print("replay:", payload.get("message")); print(payload.get("case"))
