"""
C01 — residual F is a faithful translation of the declared equations.

1. proof obligations: Properties/C01.lean on the reference semantics (Core/Lang.lean): equation elements are
   placed contiguously in declaration order; F depends on the parameters only through the values passed at the
   call; a scalar right-hand side of an Ode is broadcast over its diff_var; selection semantics (negative
   indices, open slices); time-series interpolation and hold.
2. K: random models of the documented language built with the real API; F from inline sparse, inline dense and
   rendered-module backends at several points (initial point, random points, after assigning new parameter
   values into the mapping, times inside / at a node of / beyond each time series, a previous-step vector for
   FDAE) compared with the Lean reference evaluation of the *declaration* (1e-9 relative); the initial vector
   and the reported offsets are checked against the declaration.
"""
from __future__ import annotations

import numpy as np

from harness.common import prove, BASE_TRUST, LEAN
from harness import pipeline
from harness.translate import fnrules


def literal_probes():
    """numbers the user wrote must reach the generated code and the init values unchanged: a literal of fewer than 53 bits
    (np.float32(0.1) = 0.10000000149011612) and a 17-digit constant in an init expression, both as thresholds of heaviside"""
    from Solverz import Model, Var, Eqn, made_numerical, heaviside
    from harness import lang
    out = []
    c32 = np.float32(0.1)
    for sparse in (True, False):
        m = Model()
        m.x = Var("x", [0.100000001, 0.2, float(c32)])
        m.e = Eqn("e", heaviside(m.x - c32) + 2 * m.x)
        try:
            eqs, y0 = lang.quiet(m.create_instance)
            nd = lang.quiet(made_numerical, eqs, y0, sparse=sparse)
            x = np.array([0.100000001, 0.2, float(c32)])
            got = np.asarray(nd.F(x, nd.p), dtype=float)
            exp = np.where(x - float(c32) >= 0, 1.0, 0.0) + 2 * x
            if not np.array_equal(got, exp):
                out.append((dict(model="e = heaviside(x - np.float32(0.1)) + 2 x", x=[float(v) for v in x], backend="inline-sparse" if sparse else "inline-dense"),
                            f"F = {got}, the declared equation (threshold {float(c32)!r}) evaluates to {exp}"))
        except Exception as ex:  # noqa
            out.append((dict(model="e = heaviside(x - np.float32(0.1)) + 2 x"), f"raised {type(ex).__name__}: {str(ex)[:100]}"))
    c17 = 0.1 + 0.2
    m = Model()
    m.x = Var("x", [0.3, c17])
    m.w = Var("w", init=heaviside(m.x - c17))
    m.e0 = Eqn("e0", m.w - m.x)
    m.e1 = Eqn("e1", m.x - 1)
    try:
        eqs, y0 = lang.quiet(m.create_instance)
        w0 = np.asarray(y0["w"], dtype=float)
        if not np.array_equal(w0, np.array([0.0, 1.0])):
            out.append((dict(model="w = Var(init=heaviside(x - (0.1 + 0.2))), x = [0.3, 0.1 + 0.2]"),
                        f"the returned initial vector holds w = {w0}, the init expression evaluates to [0. 1.]"))
    except Exception as ex:  # noqa
        out.append((dict(model="Var(init=heaviside(x - (0.1 + 0.2)))"), f"raised {type(ex).__name__}: {str(ex)[:100]}"))
    # the initial vector of a second create_instance() of the same Model, after the parameter of an init expression was re-declared
    from Solverz import Param
    try:
        m = Model()
        m.q = Param("q", 1.0)
        m.x = Var("x", init=2 * m.q)
        m.w = Var("w", init=m.x + m.q)
        m.e0 = Eqn("e0", m.x - 2 * m.q)
        m.e1 = Eqn("e1", m.w - m.x - m.q)
        _, y_first = lang.quiet(m.create_instance)
        m.q = Param("q", 5.0)
        _, y_second = lang.quiet(m.create_instance)
        got = [float(np.asarray(y_second["x"])[0]), float(np.asarray(y_second["w"])[0])]
        if [float(np.asarray(y_first["x"])[0]), float(np.asarray(y_first["w"])[0])] != [2.0, 3.0] or got != [10.0, 15.0]:
            out.append((dict(model="x = Var(init=2 q), w = Var(init=x + q); create_instance(), q re-declared as 5, create_instance()"),
                        f"the second initial vector holds (x, w) = {got}, the init expressions evaluate to [10.0, 15.0]"))
    except Exception as ex:  # noqa
        out.append((dict(model="re-instantiation with init expressions"), f"raised {type(ex).__name__}: {str(ex)[:100]}"))
    return out


def run(rep, tier, seed):
    rep.cov["trusted_base"] = BASE_TRUST + [
        "the reference semantics Core/Lang.lean is written from the documentation; Min / AntiWindUp use the rewrite rules that the "
        "translator reads from the running functions.py (Generated/FnRules.lean) and that C17 proves equal to the documented definitions",
        "sympy's expression handling and printing and numpy's evaluation are oracles: compared with the reference on every run, not proved",
        "parameter semantics at call time (mapping values, time-series interpolation / hold, trigger re-evaluation) are computed by the "
        "harness from the documentation and passed to the reference as plain numbers",
        "declarations that sympy collapses to a constant at construction (x - x) are skipped and counted"]
    broken = []
    try:
        fnrules.write(LEAN)
    except fnrules.TieBroken as ex:
        broken.append(str(ex))
    failed = rep.add_proof(prove("C01"))
    rng = np.random.default_rng(seed)
    nm, npnt, me = (40, 5, 8) if tier == "quick" else (600, 6, 10)
    res = pipeline.run_models(rng, nm, npnt, want=("F",), module_every=me, jit=False)
    fails, diffs = [], []
    for p in res["problems"]:
        if p["kind"] in ("layout",):
            fails.append((dict(model=p["model"]), p["what"]))
        else:
            rep.notes.append(p["what"][:200])
    fails += literal_probes()
    for r in res["records"]:
        for label, msg, kind in pipeline.judge_F(r):
            case = dict(model=r["gm"].describe(), backend=label, point=r["point"])
            if kind == "model":
                diffs.append(dict(case=case, what=msg))
            else:
                fails.append((case, f"{label}: {msg}"))
    if res.get("driver_broken"):
        broken.append(res["driver_broken"])
    st = res["stats"]
    rep.cov["evaluations"] = len(res["records"])
    rep.cov["distinct_nontrivial"] = st["models"] - st["build_raised"] - st.get("degenerate_after_simplification", 0)
    rep.cov["rule"] = ("models drawn from the documented grammar (1-4 variables of sizes 1-4, 1-3 parameters: plain / zero-at-generation / "
                       "time series with and without index / triggerable; expressions of depth <= 3 over + - * / ** sin cos exp ln Abs Sign "
                       "Min Saturation heaviside AntiWindUp; whole, integer (incl. negative) and slice (incl. open) indexing; AE, DAE with "
                       "whole / indexed / sliced diff_var in shuffled declaration order, FDAE with a previous-step vector). "
                       "distinct = models that were built")
    rep.cov["samples"] = [r["gm"].describe() for r in res["records"][:2]]
    rep.cov["generator_distribution"] = st
    seen = set()
    for case, m in fails:
        key = m[:50]
        if key in seen or len(seen) >= 6:
            continue
        seen.add(key)
        rep.violation("C01 fails on the real code: " + m, dict(kind="model-point", case=case, message=m))
    if not fails:
        for f in failed:
            rep.violation(f"proof obligation no longer checks: {f}; no F disagreement found", dict(kind="proof", theorem=f), has_input=False)
        for b in broken:
            rep.violation("translator / driver: " + b, dict(kind="tie", detail=b), has_input=False)
        for d in diffs[:3]:
            rep.violation("the reference semantics reject a generated model that the code evaluates", dict(kind="correspondence", **d), has_input=False)


def replay(rep, payload):
    print("replay:", payload.get("message")); print(payload.get("case"))
