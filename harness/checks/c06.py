"""
C06 — algebraic solvers report success truthfully and return roots.

1. proof obligations: Properties/C06.lean (Newton loop invariant "cached residual = residual of the
   current iterate", flag <-> residual at the returned point for nr / cnr / lm / sicnm, NaN is failure)
2. correspondence (exact): `nr_method` driven by a *scripted* problem — F is a table over the points
   Newton visits with J = I — against the Lean controller: final iterate, nstep, nfeval, ndecomp, flag.
   Residual values sit on, just above and just below the tolerance, huge, NaN and +inf.
3. oracle / search on the real code: constructed families with known root (random coupling, sizes
   1..8, cubic and |.|-type terms), no-root and NaN-producing problems, starts inside the basin to far
   outside, tolerances 1e-4..1e-11, four solvers:  flag == (max|F(y)| < tol) re-evaluated independently,
   result in the caller's layout, root reached from inside the basin.
"""
from __future__ import annotations

import io
import contextlib
import warnings
import numpy as np

from harness.common import f2h, run_driver, prove, BASE_TRUST, LeanError


def quiet(f, *a, **k):
    with contextlib.redirect_stdout(io.StringIO()), contextlib.redirect_stderr(io.StringIO()), warnings.catch_warnings():
        warnings.simplefilter("ignore")
        return f(*a, **k)


# ----------------------------------------------------------------------------- scripted Newton

def gen_script(rng):
    tol = float(rng.choice([2.0 ** -10, 2.0 ** -17, 2.0 ** -4]))
    max_it = int(rng.choice([100, 100, 3, 0, 1, 7]))
    n = int(rng.integers(1, 9)) if rng.random() < 0.8 else max_it + int(rng.integers(1, 4))
    vals = [tol, tol * (1 + 2.0 ** -20), tol * (1 - 2.0 ** -20), tol / 2, tol / 1024, tol * 2, 1.0, 0.5, 4.0, 256.0, 0.0]
    rs = [float(rng.choice(vals)) for _ in range(n)]
    # descending-ish tendency so that some scripts converge
    if rng.random() < 0.5:
        rs = sorted(rs, reverse=True)
    tail = rng.random()
    if tail < 0.15:
        rs.append(float("nan"))
    elif tail < 0.25:
        rs += [float("inf"), float("nan")]
    return tol, max_it, rs


def run_script(tol, max_it, rs, y_start=0.0):
    """Build the table problem and run the real nr_method. y_k = y_0 - sum r_j (exact: dyadic data)."""
    from Solverz import nr_method, Opt
    from Solverz.num_api.num_eqn import nAE
    ys = [float(y_start)]
    for r in rs[:-1]:
        ys.append(ys[-1] - r)
    table = {}
    for k, (y, r) in enumerate(zip(ys, rs)):
        if y == y and y not in table:
            table[y] = (k, r)
    last = rs[-1]

    def F(y, p):
        v = float(y[0])
        if v != v:
            return np.array([float("nan"), float("nan")])
        k, r = table.get(v, (len(rs) - 1, last))
        return np.array([r, -r / 2])

    def J(y, p):
        return np.eye(2)

    sol = quiet(nr_method, nAE(F, J, {}), np.array([float(y_start), 0.0]), Opt(ite_tol=tol, max_it=max_it))
    yv = float(sol.y[0])
    if yv != yv:
        kfin = None
    else:
        kfin = table.get(yv, (None, None))[0]
    return sol, kfin


# ----------------------------------------------------------------------------- families

class Prob:
    def __init__(self, name, F, J, H, root, n):
        self.name, self.F, self.J, self.H, self.root, self.n = name, F, J, H, root, n

    def nae(self):
        from Solverz.num_api.num_eqn import nAE
        ae = nAE(lambda y, p: self.F(y), lambda y, p: self.J(y), {})
        ae.HVP = lambda y, p, v: self.H(y, v)
        return ae


def family(rng, force=None):
    from scipy.sparse import csc_array, diags_array
    out = []
    for _ in range(1):
        n = int(rng.integers(1, 9)) if force is None else int(rng.integers(2, 7))
        # structure of the Jacobian: fully coupled, a permuted-diagonal one (decoupled equations written in another order
        # than the unknowns they determine: exactly n structural non-zeros, none on the diagonal in general), or sparse coupling
        structure = force or (str(rng.choice(["dense", "dense", "perm", "sparse"])) if n > 1 else "dense")
        if structure == "dense":
            A = rng.normal(size=(n, n)) * 0.3
            A += np.diag(2.0 + np.abs(A).sum(axis=1))
        elif structure == "perm":
            perm = rng.permutation(n)
            while n > 1 and np.all(perm == np.arange(n)):
                perm = rng.permutation(n)
            A = np.zeros((n, n))
            A[np.arange(n), perm] = 1.5 + rng.random(n)
        else:
            A = np.diag(2.5 + rng.random(n))
            for i in range(n):
                j = int(rng.integers(0, n))
                if j != i:
                    A[i, j] = 0.4 * rng.normal()
        pat = (A != 0)
        ys = rng.normal(size=n) * 2
        c = float(rng.choice([0.0, 0.1, 1.0]))
        k = float(rng.choice([0.0, 0.0, 0.5]))      # mildly non-smooth term k*|d|*d
        if structure == "perm":
            # non-linear terms follow the same permutation so that the equations stay decoupled
            def F(y, A=A, ys=ys, c=c, k=k, perm=perm):
                d = y - ys
                return A @ d + (c * d ** 3 + k * np.abs(d) * d)[perm]

            def J(y, A=A, ys=ys, c=c, k=k, perm=perm, n=n):
                d = y - ys
                M = A.copy()
                M[np.arange(n), perm] += (3 * c * d ** 2 + 2 * k * np.abs(d))[perm]
                return csc_array(M)

            def H(y, v, ys=ys, c=c, k=k, perm=perm, n=n):
                d = y - ys
                M = np.zeros((n, n))
                M[np.arange(n), perm] = ((6 * c * d + 2 * k * np.sign(d)) * v)[perm]
                return csc_array(M)
        else:
            def F(y, A=A, ys=ys, c=c, k=k):
                d = y - ys
                return A @ d + c * d ** 3 + k * np.abs(d) * d

            def J(y, A=A, ys=ys, c=c, k=k):
                d = y - ys
                return csc_array(A + np.diag(3 * c * d ** 2 + 2 * k * np.abs(d)))

            def H(y, v, ys=ys, c=c, k=k):
                d = y - ys
                return csc_array(np.diag((6 * c * d + 2 * k * np.sign(d)) * v))
        out.append(Prob(f"{structure} n={n} c={c} k={k}", F, J, H, ys, n))
    return out


def special():
    from scipy.sparse import csc_array
    P = []
    P.append(Prob("x^2+1 (no root)", lambda y: y ** 2 + 1.0, lambda y: csc_array(np.diag(2 * y)),
                  lambda y, v: csc_array(np.diag(2 * v)), None, 1))
    P.append(Prob("atan(x) (Newton diverges from far)", lambda y: np.arctan(y), lambda y: csc_array(np.diag(1 / (1 + y ** 2))),
                  lambda y, v: csc_array(np.diag(-2 * y / (1 + y ** 2) ** 2 * v)), np.array([0.0]), 1))
    P.append(Prob("ln(x)+x-1 (NaN for x<0)", lambda y: np.log(y) + y - 1.0, lambda y: csc_array(np.diag(1 / y + 1.0)),
                  lambda y, v: csc_array(np.diag(-1 / y ** 2 * v)), np.array([1.0]), 1))
    P.append(Prob("x^3-2x-4 coupled (LM stalls)",
                  lambda y: np.array([y[0] ** 3 - 2 * y[0] - 4 + 0.1 * (y[1] - 1), 2 * (y[1] - 1) + 0.1 * (y[0] - 2)]),
                  lambda y: csc_array(np.array([[3 * y[0] ** 2 - 2, 0.1], [0.1, 2.0]])),
                  lambda y, v: csc_array(np.array([[6 * y[0] * v[0], 0.0], [0.0, 0.0]])), np.array([2.0, 1.0]), 2))
    return P


def maxabs(v):
    v = np.asarray(v, dtype=float)
    m = np.max(np.abs(v))
    return m


def run(rep, tier, seed):
    rep.cov["trusted_base"] = BASE_TRUST + [
        "scripted-oracle runner harness/checks/c06.py; linear algebra (LU, minpack) is a parameter of the model, not modelled",
        "convergence from inside the Newton basin (third clause) is numerical analysis: sampled by the families, not proved"]
    failed = rep.add_proof(prove("C06"))
    rng = np.random.default_rng(seed)
    fails, diffs, broken = [], [], []
    # ---- scripted nr
    nscript = 200 if tier == "quick" else 3000
    lines, expect, scripts = [], [], []
    for _ in range(nscript):
        tol, max_it, rs = gen_script(rng)
        y_start = float(rng.choice([0.0, 65536.0, -4096.0]))     # large iterates: an absolute tolerance must stay absolute
        try:
            sol, kfin = run_script(tol, max_it, rs, y_start)
        except Exception as ex:  # noqa
            fails.append((dict(tol=tol, max_it=max_it, script=[str(r) for r in rs]), f"nr_method raised {type(ex).__name__}: {ex}"))
            continue
        st = sol.stats
        # independent property oracle on this run
        k_eff = kfin if kfin is not None else len(rs) - 1
        res_final = abs(rs[min(k_eff, len(rs) - 1)])
        truth = bool(res_final < tol)
        if bool(st.succeed) != truth:
            fails.append((dict(tol=tol, max_it=max_it, y_start=y_start, script=[repr(r) for r in rs]),
                          f"nr_method returned succeed={st.succeed} but max|F(y)| = {res_final!r} and tol = {tol!r}"))
        lines.append(f"c06 nr {f2h(tol)} {max_it} {len(rs)} " + " ".join(f2h(r) for r in rs))
        kshow = kfin if kfin is not None else "nan"
        expect.append(f"ok {kshow} {st.nstep} {st.nfeval} {st.ndecomp} {'true' if st.succeed else 'false'}")
        scripts.append(dict(tol=tol, max_it=max_it, y_start=y_start, script=[repr(r) for r in rs]))
    try:
        got = run_driver(lines)
        for s, e, g in zip(scripts, expect, got):
            if "nan" in e.split()[1]:
                # iterate is NaN: the model's index is the position of the NaN residual; compare the rest
                e2, g2 = e.split(), g.split()
                if e2[2:] != g2[2:]:
                    diffs.append(dict(script=s, implementation=e, model=g))
            elif e != g:
                diffs.append(dict(script=s, implementation=e, model=g))
    except LeanError as ex:
        broken.append(str(ex))
    # ---- families, four solvers
    from Solverz import nr_method, continuous_nr, lm, sicnm, Opt
    from Solverz.variable.variables import Vars
    from Solverz.utilities.address import Address
    solvers = dict(nr_method=nr_method, continuous_nr=continuous_nr, lm=lm, sicnm=sicnm)
    nfam = 6 if tier == "quick" else 60
    probs = special()
    for i in range(nfam):
        probs += family(rng, force={0: "perm", 1: "sparse"}.get(i))
    nruns = 0
    retained = []
    hist = dict(succeed_true=0, succeed_false=0, raised=0, nan_result=0, in_basin=0, far=0)
    for pr in probs:
        starts = []
        if pr.root is not None:
            starts.append(("in-basin", pr.root + 0.05 * rng.normal(size=pr.n)))
        starts.append(("far", (pr.root if pr.root is not None else np.zeros(pr.n)) + rng.choice([-1, 1]) * 50.0 * (1 + rng.random(pr.n))))
        if pr.name.startswith("x^3"):
            starts.append(("stall", np.array([-0.5, 3.0])))
        if pr.name.startswith("x^2+1"):
            starts.append(("stall", np.array([0.3])))
        if tier != "quick":
            starts.append(("very-far", 1e6 * (1 + rng.random(pr.n))))
        for sname, y0 in starts:
            for tol in ([1e-5, 1e-9] if tier == "quick" else [1e-4, 1e-6, 1e-8, 1e-11]):
                for solname, solver in solvers.items():
                    nruns += 1
                    hist["in_basin" if sname == "in-basin" else "far"] += 1
                    case = dict(problem=pr.name, start=sname, y0=[float(x) for x in y0], tol=tol, solver=solname)
                    # with a Vars start (layout clause) on every other run
                    kind = int(rng.integers(0, 8))          # start object: Vars (0-3), float64 ndarray (4, 5), float32 (6), int64 (7)
                    use_vars = kind < 4
                    int_start = False
                    if use_vars:
                        a = Address()
                        if pr.n >= 2:
                            a.add("u", 1); a.add("w", pr.n - 1)
                        else:
                            a.add("u", 1)
                        start = Vars(a, y0.copy())
                    else:
                        start = y0.copy()
                        # every fourth run: an ndarray start that is not float64 (float32 keeps the point to 1e-7, an
                        # integer start is a rounded point: only the flag / layout clauses are judged for it)
                        if kind == 6:
                            start = y0.astype(np.float32)
                        elif kind == 7:
                            start = np.rint(y0).astype(np.int64)
                            int_start = True
                    try:
                        sol = quiet(solver, pr.nae(), start, Opt(ite_tol=tol))
                    except Exception as ex:  # noqa
                        hist["raised"] += 1     # raising is not a lie about success
                        continue
                    y = sol.y
                    if use_vars:
                        if not isinstance(y, Vars) or y.a.object_list != a.object_list or list(y.a.length_array) != list(a.length_array):
                            fails.append((case, f"{solname}: result is not in the caller's variable layout"))
                            continue
                        yarr = np.asarray(y.array)
                        if not np.array_equal(y["u"], yarr[0:1], equal_nan=True):
                            fails.append((case, f"{solname}: named access of the result does not match the flat result"))
                    else:
                        yarr = np.asarray(y)
                    retained.append((sol, yarr, np.array(yarr, dtype=float, copy=True), solname, case))
                    with warnings.catch_warnings():
                        warnings.simplefilter("ignore")
                        r = maxabs(pr.F(np.asarray(yarr, dtype=float)))
                    truth = bool(r < tol)
                    hist["succeed_true" if sol.stats.succeed else "succeed_false"] += 1
                    if r != r:
                        hist["nan_result"] += 1
                    if bool(sol.stats.succeed) != truth:
                        fails.append((case, f"{solname}: succeed={sol.stats.succeed} but max|F(y)| = {r!r} at the returned point, tol = {tol!r}"))
                    if sname == "in-basin" and pr.root is not None and not int_start:
                        if not sol.stats.succeed:
                            fails.append((case, f"{solname}: did not converge from inside the basin (max|F| = {r!r})"))
                        else:
                            with warnings.catch_warnings():
                                warnings.simplefilter("ignore")
                                Jr = pr.J(pr.root).toarray()
                                bound = 10 * tol * np.linalg.norm(np.linalg.inv(Jr), np.inf)
                            if np.max(np.abs(yarr - pr.root)) > bound:
                                fails.append((case, f"{solname}: returned point is {np.max(np.abs(yarr - pr.root)):.3g} from the root, "
                                                    f"allowed tol*cond = {bound:.3g}"))
    # ---- third clause on inputs the random families do not reach
    from scipy.sparse import csc_array as _csc
    known_kink = []
    rng3 = np.random.default_rng([seed, 606])
    # (a) sicnm with the partial decomposition of its linear system (a non-default option): same roots as with the full one
    rootq = np.array([1.0, -0.5])
    quad = Prob("1.2 dx + 0.3 dz + 0.3 dx^2, -0.2 dx + 0.9 dz + 0.3 dz^2 (d = y - root)",
                lambda y: np.array([1.2 * (y[0] - 1.0) + 0.3 * (y[1] + 0.5) + 0.3 * (y[0] - 1.0) ** 2, -0.2 * (y[0] - 1.0) + 0.9 * (y[1] + 0.5) + 0.3 * (y[1] + 0.5) ** 2]),
                lambda y: _csc(np.array([[1.2 + 0.6 * (y[0] - 1.0), 0.3], [-0.2, 0.9 + 0.6 * (y[1] + 0.5)]])),
                lambda y, v: _csc(np.array([[0.6 * v[0], 0.0], [0.0, 0.6 * v[1]]])), rootq, 2)
    pool = [(quad, rootq + np.array([0.2, -0.15]))]
    for q in range(3 if tier == "quick" else 20):
        prq = family(rng3, force="dense")[0]
        if "k=0.0" in prq.name:                             # smooth members only
            pool.append((prq, prq.root + 0.2 * rng3.normal(size=prq.n) / np.sqrt(prq.n)))
    for pr, y0 in pool:
        for tol in (1e-8, 1e-11):
            nruns += 1
            case = dict(problem=pr.name, start="in-basin", y0=[float(x) for x in y0], tol=tol, solver="sicnm", option="partial_decompose=True")
            try:
                sol = quiet(sicnm, pr.nae(), y0.copy(), Opt(ite_tol=tol, partial_decompose=True))
            except Exception:  # noqa
                continue
            r = maxabs(pr.F(np.asarray(sol.y, dtype=float)))
            if bool(sol.stats.succeed) != bool(r < tol):
                fails.append((case, f"sicnm(partial_decompose): succeed={sol.stats.succeed} but max|F(y)| = {r!r}, tol = {tol!r}"))
            elif not sol.stats.succeed:
                fails.append((case, f"sicnm(partial_decompose): did not converge from inside the basin (max|F| = {r!r} after {sol.stats.nstep} steps); "
                                    f"with the full decomposition it does"))
            else:
                # the partial decomposition solves the same linear system: the same integration, up to rounding
                full = quiet(sicnm, pr.nae(), y0.copy(), Opt(ite_tol=tol))
                if full.stats.succeed and sol.stats.nstep > 3 * full.stats.nstep + 10:
                    fails.append((case, f"sicnm(partial_decompose) needs {sol.stats.nstep} steps where the full decomposition of the same linear "
                                        f"system needs {full.stats.nstep}: the factors it solves with are not those of the current step"))
    # (b) a regular root of large magnitude (1e4) and a loose tolerance: a test relative to |y| must not stand in for the residual test
    Ab = np.array([[2.0, 0.3], [-0.2, 1.5]]); rootb = np.array([1.0e4, -4.0e3])
    prb = Prob("linear+cubic, root of magnitude 1e4", lambda y: Ab @ (y - rootb) + 0.05 * (y - rootb) ** 3,
               lambda y: _csc(Ab + np.diag(0.15 * (y - rootb) ** 2)), lambda y, v: _csc(np.diag(0.3 * (y - rootb) * v)), rootb, 2)
    for tol in (1e-4, 1e-6):
        for solname, solver in solvers.items():
            nruns += 1
            y0 = rootb + np.array([0.3, -0.2])
            case = dict(problem=prb.name, start="in-basin", y0=[float(x) for x in y0], tol=tol, solver=solname)
            try:
                sol = quiet(solver, prb.nae(), y0.copy(), Opt(ite_tol=tol))
            except Exception:  # noqa
                continue
            yb = np.asarray(sol.y, dtype=float)
            r = maxabs(prb.F(yb))
            if bool(sol.stats.succeed) != bool(r < tol):
                fails.append((case, f"{solname}: succeed={sol.stats.succeed} but max|F(y)| = {r!r}, tol = {tol!r}"))
            elif not sol.stats.succeed:
                fails.append((case, f"{solname}: did not converge from inside the basin of a root of magnitude 1e4 (max|F| = {r!r}, "
                                    f"{np.max(np.abs(yb - rootb)):.3g} from the root)"))
    # (d) a generated model (literal coefficients: the generated code keeps the dtype of y) started at its root stored in single
    #     precision, and the same model with the dense Jacobian of made_numerical's default
    try:
        from Solverz import Model, Var, Eqn, made_numerical
        def gen(sparse):
            m = Model(); m.x = Var("x", 1.0); m.z = Var("z", 1.0)
            m.e1 = Eqn("e1", 3 * m.x + m.z - 3.63); m.e2 = Eqn("e2", m.x * m.z + 2 * m.z - 2.1384)
            eqs, y0 = quiet(m.create_instance)
            return quiet(made_numerical, eqs, y0, sparse=sparse, make_hvp=sparse)
        rootg = np.array([0.97, 0.72])
        for solname, solver in solvers.items():
            nruns += 1
            nd_g = gen(True)
            start32 = rootg.astype(np.float32)
            case = dict(problem="3x + z - 3.63, x z + 2 z - 2.1384 (generated code)", start="root stored as float32", tol=1e-10, solver=solname)
            try:
                sol = quiet(solver, nd_g, start32.copy(), Opt(ite_tol=1e-10))
            except Exception:  # noqa
                continue
            yg = np.asarray(sol.y, dtype=np.float64)
            r = maxabs(np.array([3 * yg[0] + yg[1] - 3.63, yg[0] * yg[1] + 2 * yg[1] - 2.1384]))
            if bool(sol.stats.succeed) != bool(r < 1e-10):
                fails.append((case, f"{solname}: succeed={sol.stats.succeed} but max|F(y)| = {r!r} (in double precision) at the returned point, tol = 1e-10"))
        for solname in ("nr_method", "continuous_nr", "lm"):
            nruns += 1
            case = dict(problem="the same model with a dense Jacobian (made_numerical default)", start="0.1 from the root", tol=1e-8, solver=solname)
            try:
                sol = quiet(solvers[solname], gen(False), rootg + 0.1, Opt(ite_tol=1e-8))
                yg = np.asarray(sol.y, dtype=np.float64)
                r = maxabs(np.array([3 * yg[0] + yg[1] - 3.63, yg[0] * yg[1] + 2 * yg[1] - 2.1384]))
                if not (sol.stats.succeed and r < 1e-8):
                    fails.append((case, f"{solname}: did not converge from inside the basin on a dense-Jacobian model (succeed={sol.stats.succeed}, max|F| = {r!r})"))
            except Exception as ex:  # noqa
                fails.append((case, f"{solname}: raised {type(ex).__name__} on a model with a dense Jacobian: {str(ex)[:80]}"))
        # a strongly non-symmetric Jacobian (far from its transpose, not diagonally dominant), dense (made_numerical's default) and sparse:
        # a solver that hands the matrix over in the wrong orientation still converges on symmetric or nearly symmetric systems
        from Solverz import sin as _ssin
        C3 = np.array([[1.0, 5.0, 4.0], [0.0, 2.0, -6.0], [0.5, 0.0, 3.0]])
        for trial in range(2 if tier == "quick" else 8):
            root3 = np.round(rng3.uniform(-0.8, 0.8, size=3), 3)
            b3 = C3 @ root3 + 0.3 * np.sin(root3)
            def gen3(sparse, b3=b3):
                m = Model(); m.u = Var("u", [0.0]); m.w = Var("w", [0.0, 0.0])
                m.e0 = Eqn("e0", 1.0 * m.u[0] + 5.0 * m.w[0] + 4.0 * m.w[1] + 0.3 * _ssin(m.u[0]) - float(b3[0]))
                m.e1 = Eqn("e1", 2.0 * m.w[0] - 6.0 * m.w[1] + 0.3 * _ssin(m.w[0]) - float(b3[1]))
                m.e2 = Eqn("e2", 0.5 * m.u[0] + 3.0 * m.w[1] + 0.3 * _ssin(m.w[1]) - float(b3[2]))
                eqs, y0 = quiet(m.create_instance)
                return quiet(made_numerical, eqs, y0, sparse=sparse, make_hvp=sparse)
            for sparse in (False, True):
                for solname in (("nr_method", "continuous_nr", "lm") if not sparse else tuple(solvers)):
                    nruns += 1
                    start3 = root3 + np.round(rng3.uniform(-0.05, 0.05, size=3), 3)
                    case = dict(problem="C y + 0.3 sin y = b with the non-symmetric C = [[1,5,4],[0,2,-6],[0.5,0,3]] (generated code)",
                                jacobian="dense" if not sparse else "sparse", root=[float(x) for x in root3], start=[float(x) for x in start3],
                                tol=1e-9, solver=solname)
                    try:
                        sol = quiet(solvers[solname], gen3(sparse), start3.copy(), Opt(ite_tol=1e-9))
                        yg = np.asarray(sol.y.array if hasattr(sol.y, "array") else sol.y, dtype=np.float64).reshape(-1)
                        r = maxabs(C3 @ yg + 0.3 * np.sin(yg) - b3)
                        if bool(sol.stats.succeed) != bool(r < 1e-9):
                            fails.append((case, f"{solname}: succeed={sol.stats.succeed} but max|F(y)| = {r!r} at the returned point, tol = 1e-9"))
                        elif not sol.stats.succeed:
                            fails.append((case, f"{solname}: did not converge from a start 0.05 from a regular root of a model with a non-symmetric "
                                                f"{'dense' if not sparse else 'sparse'} Jacobian (max|F| = {r!r}, {np.max(np.abs(yg - root3)):.3g} from the root)"))
                    except Exception as ex:  # noqa
                        fails.append((case, f"{solname}: raised {type(ex).__name__}: {str(ex)[:80]}"))
    except Exception as ex:  # noqa
        rep.notes.append(f"generated-model probe: {type(ex).__name__}: {str(ex)[:100]}")
    # (c) a kink of a Saturation between the start and the root (mildly non-smooth): recorded finding for sicnm
    sat = lambda v, lo, hi: np.minimum(np.maximum(v, lo), hi)
    dsat = lambda v, lo, hi: 1.0 if lo < v < hi else 0.0
    prk = Prob("x + 0.4 z + 0.5 Sat(x, +-0.05), -0.3 x + z + 0.3 Sat(z, -0.1, 0.2)",
               lambda y: np.array([y[0] + 0.4 * y[1] + 0.5 * sat(y[0], -0.05, 0.05), -0.3 * y[0] + y[1] + 0.3 * sat(y[1], -0.1, 0.2)]),
               lambda y: _csc(np.array([[1.0 + 0.5 * dsat(y[0], -0.05, 0.05), 0.4], [-0.3, 1.0 + 0.3 * dsat(y[1], -0.1, 0.2)]])),
               lambda y, v: _csc(np.zeros((2, 2))), np.array([0.0, 0.0]), 2)
    for solname, solver in solvers.items():
        nruns += 1
        y0 = np.array([0.3, 0.05])
        case = dict(problem=prk.name, start="in-basin, beyond a kink", y0=[0.3, 0.05], tol=1e-8, solver=solname)
        try:
            sol = quiet(solver, prk.nae(), y0.copy(), Opt(ite_tol=1e-8))
        except Exception:  # noqa
            continue
        r = maxabs(prk.F(np.asarray(sol.y, dtype=float)))
        if bool(sol.stats.succeed) != bool(r < 1e-8):
            fails.append((case, f"{solname}: succeed={sol.stats.succeed} but max|F(y)| = {r!r}, tol = 1e-08"))
        elif not sol.stats.succeed:
            (known_kink if solname == "sicnm" else fails).append((case, f"{solname}: did not converge across a Saturation kink (max|F| = {r!r})"))
    from harness.common import known_findings as _kf
    kfk = [e for e in _kf("C06") if e.get("id") == "D48"]
    if known_kink and kfk:
        rep.known("D48", kfk[0]["line"].split("property=C06 ", 1)[1] + f"; reproduced: {known_kink[0][1]}")
    else:
        fails += known_kink
    # a solution once returned stays what it was: later calls of any solver must not write into it
    for sol, yarr, snapshot, solname, case in retained:
        now = np.asarray(sol.y.array if hasattr(sol.y, "array") else sol.y, dtype=float)
        if now.shape != snapshot.shape or not np.array_equal(now, snapshot, equal_nan=True):
            fails.append((case, f"{solname}: the point returned by this call was changed by a later solver call: {snapshot[:4]} -> {now[:4]}"))
            break
    rep.cov["evaluations"] = len(lines) + nruns
    rep.cov["distinct_nontrivial"] = len({l for l in lines if len(l.split()) > 6}) + nruns
    rep.cov["rule"] = ("scripts: tolerance, max_it and a residual sequence over {tol, tol(1±2^-20), tol/2, tol/1024, 2tol, 1, 4, 256, 0, NaN, inf} "
                       "of length 1..max_it+3 realised as a table problem with J = I (dyadic data: iterates exact); families: coupled "
                       "cubic/|.| systems of size 1..8 with known root, no-root, divergent and NaN problems, starts in-basin/far/stall, "
                       "tolerances, four solvers, ndarray and Vars starts. distinct = distinct scripts with >= 2 residuals + solver runs")
    rep.cov["samples"] = [dict(line=l, answer=e) for l, e in list(zip(lines, expect))[:3]]
    rep.cov["family_runs"] = nruns
    rep.cov["family_histogram"] = hist
    rep.cov["disagreements"] = len(diffs)
    seen = set()
    for case, m in fails:
        key = m.split(":")[0]
        if key in seen or len(seen) >= 6:
            continue
        seen.add(key)
        rep.violation("C06 fails on the real code: " + m, dict(kind="run", case=case, message=m))
    if not fails:
        for f in failed:
            rep.violation(f"proof obligation no longer checks: {f}; no failing run found", dict(kind="proof", theorem=f), has_input=False)
        for b in broken:
            rep.violation("driver: " + b, dict(kind="driver", detail=b), has_input=False)
        for d in diffs[:5]:
            rep.violation("model and implementation disagree on the Newton controller (correspondence C06/nr script); the flag oracle found no lie",
                          dict(kind="correspondence", **d), has_input=False)


def replay(rep, payload):
    case = payload.get("case")
    print("replay:", payload.get("message"))
    if isinstance(case, dict) and "script" in case:
        rs = [float(x) for x in case["script"]]
        sol, k = run_script(case["tol"], case["max_it"], rs, case.get("y_start", 0.0))
        print("succeed", sol.stats.succeed, "final index", k, "nstep", sol.stats.nstep)
        keff = k if k is not None else len(rs) - 1
        if bool(sol.stats.succeed) != bool(abs(rs[keff]) < case["tol"]):
            rep.violation("replayed failure", payload)
    elif isinstance(case, dict) and "problem" in case:
        print("re-run the family case:", case)
