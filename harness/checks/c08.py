"""
C08 — adaptive integrators deliver tolerance-proportional accuracy.   (PARTIAL)

1. proof obligations: Properties/C08.lean — invariants of the Rodas step-size controller (accept iff
   err <= 1, bounded step-size change, proposals clamped into [hmin, hmax], failures reported).
   The global-error bound itself is numerical analysis: not a theorem here.
2. tie: the controller model is replayed on per-attempt traces of real runs (shared with C09); in addition
   every trace record is checked against the controller's defining relations.
3. search / sampling of the property itself: constructed families with reference solutions (linear systems
   via matrix exponential, scalar closed forms, Prothero-Robinson with smooth forcing, index-1 DAEs with
   closed forms, a time-series driven Model on inline and module backends); statistic = max over returned
   times of |error| / (atol + rtol |y|), flagged above a bound calibrated on the unchanged tree.
"""
from __future__ import annotations

import os
import sys
import shutil
import tempfile
import importlib
import numpy as np

from harness.common import run_driver, prove, BASE_TRUST, LeanError, known_findings
from harness import rodas_common as RC
from harness import models as MZ

# bounds on  max_t |error| / (atol + rtol |y|), calibrated on the unchanged tree (worst observed value x ~10)
BOUND_STEP = 120.0      # Rodas, 2-node tspan (worst observed 11.7)
BOUND_DENSE = 60.0      # Rodas, dense tspan, problems outside the recorded finding (worst observed 5.0)


def bound_for(sname, mode, rtol, problem=""):
    # the families forced by cos(5t) oscillate five times faster than the others: their constants are about twice as large
    # (worst observed on the unchanged tree: ode15s 105 / 2210, Rodas dense 72.8); a dropped time-derivative term gives > 1e4
    k = 6.0 if "cos(5" in problem else 1.0        # (ode15s 422 at rtol 1e-5 since its first step is chosen from y'')
    if sname == "ode15s":
        return k * (100.0 if rtol >= 1e-5 else 2000.0)       # worst observed 9.8 / 185
    return k * (BOUND_STEP if mode == "two" else BOUND_DENSE)


STIFF_FORCED = ("Prothero-Robinson", "dae x'=-x+z, 0=z-sin t", "dae x'=-x+z, 0=z+x-2cos(5t)", "dae x'=-x+z, 0=z-sin(2 pi t)")


def families():
    from scipy.sparse import csc_array
    from scipy.linalg import expm
    from Solverz.num_api.num_eqn import nDAE
    F = []
    # linear systems, stiffness ratios 1e2 .. 1e6
    for ratio in (1e2, 1e4, 1e6):
        Q = np.array([[1.0, 1.0], [1.0, -1.0]]) / np.sqrt(2)
        A = Q @ np.diag([-1.0, -ratio]) @ Q.T
        y0 = np.array([1.0, 0.3])
        F.append((f"linear ratio {ratio:g}", nDAE(csc_array(np.eye(2)), lambda t, y, p, A=A: A @ y, lambda t, y, p, A=A: csc_array(A), {}),
                  y0, lambda t, A=A, y0=y0: expm(A * t) @ y0, 0.0, 2.0))
    F.append(("y'=-y^2", nDAE(csc_array(np.eye(1)), lambda t, y, p: -y ** 2, lambda t, y, p: csc_array(np.diag(-2 * y)), {}),
              np.array([1.0]), lambda t: np.array([1 / (1 + t)]), 0.0, 5.0))
    F.append(("y'=cos(t) y", nDAE(csc_array(np.eye(1)), lambda t, y, p: np.cos(t) * y, lambda t, y, p: csc_array(np.array([[np.cos(t)]])), {}),
              np.array([1.0]), lambda t: np.array([np.exp(np.sin(t))]), 0.0, 6.0))
    for lam in (-1e3, -1e6):
        F.append((f"Prothero-Robinson lam={lam:g}",
                  nDAE(csc_array(np.eye(1)), lambda t, y, p, lam=lam: lam * (y - np.sin(t)) + np.cos(t),
                       lambda t, y, p, lam=lam: csc_array(np.array([[lam]])), {}),
                  np.array([0.0]), lambda t: np.array([np.sin(t)]), 0.0, 3.0))
    M = csc_array((np.array([1.0]), (np.array([0]), np.array([0]))), shape=(2, 2))
    F.append(("dae x'=-x+z, 0=z-sin t", nDAE(M, lambda t, y, p: np.array([-y[0] + y[1], y[1] - np.sin(t)]),
                                             lambda t, y, p: csc_array(np.array([[-1.0, 1.0], [0.0, 1.0]])), {}),
              np.array([1.0, 0.0]), lambda t: np.array([1.5 * np.exp(-t) + (np.sin(t) - np.cos(t)) / 2, np.sin(t)]), 0.0, 4.0))
    F.append(("dae x'=-xz, 0=z-x", nDAE(M, lambda t, y, p: np.array([-y[0] * y[1], y[1] - y[0]]),
                                        lambda t, y, p: csc_array(np.array([[-y[1], -y[0]], [-1.0, 1.0]])), {}),
              np.array([1.0, 1.0]), lambda t: np.array([1 / (1 + t), 1 / (1 + t)]), 0.0, 5.0))
    # forcing cos(w t) from t0 = 0: the explicit time derivative of the right-hand side vanishes at the start point (and the finite
    # difference the solvers take there is exactly zero), it does not vanish later
    for lam, w in ((1.0, 5.0), (50.0, 5.0)):
        F.append((f"y'=-{lam:g}y+cos({w:g}t)", nDAE(csc_array(np.eye(1)), lambda t, y, p, lam=lam, w=w: np.array([-lam * y[0] + np.cos(w * t)]),
                                                     lambda t, y, p, lam=lam: csc_array(np.array([[-lam]])), {}),
                  np.array([lam / (lam ** 2 + w ** 2)]),
                  lambda t, lam=lam, w=w: np.array([(lam * np.cos(w * t) + w * np.sin(w * t)) / (lam ** 2 + w ** 2)]), 0.0, 3.0))
    w = 5.0
    xw = lambda t, w=w: 2 * (2 * np.cos(w * t) + w * np.sin(w * t)) / (4 + w ** 2)
    F.append(("dae x'=-x+z, 0=z+x-2cos(5t)", nDAE(M, lambda t, y, p, w=w: np.array([-y[0] + y[1], y[1] + y[0] - 2 * np.cos(w * t)]),
                                                  lambda t, y, p: csc_array(np.array([[-1.0, 1.0], [1.0, 1.0]])), {}),
              np.array([xw(0.0), 2.0 - xw(0.0)]), lambda t, w=w: np.array([xw(t), 2 * np.cos(w * t) - xw(t)]), 0.0, 3.0))
    # the slope vanishes at the start and the forcing has a period that divides the span: y'(t0) = 0 says nothing about the scale of
    # the solution, and F(tend, y0) = F(t0, y0)
    w2 = 2 * np.pi
    xz = lambda t, w=w2: (w * np.exp(-t) + np.sin(w * t) - w * np.cos(w * t)) / (1 + w * w)
    F.append(("y'=-y+sin(2 pi t) from rest", nDAE(csc_array(np.eye(1)), lambda t, y, p, w=w2: -y + np.sin(w * t),
                                                  lambda t, y, p: csc_array(np.array([[-1.0]])), {}),
              np.array([0.0]), lambda t: np.array([xz(t)]), 0.0, 10.0))
    F.append(("dae x'=-x+z, 0=z-sin(2 pi t) from rest", nDAE(M, lambda t, y, p, w=w2: np.array([-y[0] + y[1], y[1] - np.sin(w * t)]),
                                                             lambda t, y, p: csc_array(np.array([[-1.0, 1.0], [0.0, 1.0]])), {}),
              np.array([0.0, 0.0]), lambda t, w=w2: np.array([xz(t), np.sin(w * t)]), 0.0, 10.0))
    # at rest with y'(t0) = 0 AND y''(t0) = 0: neither estimate of a first step says anything
    c2 = -0.5 + 0.5 / (1 + w2 * w2)
    ex_r2 = lambda t, w=w2: 0.5 - 0.5 * (np.cos(w * t) + w * np.sin(w * t)) / (1 + w * w) + c2 * np.exp(-t)
    F.append(("y'=-y+(1-cos(2 pi t))/2 from rest", nDAE(csc_array(np.eye(1)), lambda t, y, p, w=w2: -y + 0.5 * (1 - np.cos(w * t)),
                                                        lambda t, y, p: csc_array(np.array([[-1.0]])), {}),
              np.array([0.0]), lambda t: np.array([ex_r2(t)]), 0.0, 1.0))
    # autonomous, non-stiff index-1 DAE (the model of the library's own test_dae): x' = -x^3 + z^2/2, 0 = x^2 + z^2 - 2; reference from the
    # reduced ODE x' = -x^3 + 1 - x^2/2 integrated at 1e-13
    from scipy.integrate import solve_ivp
    ref = solve_ivp(lambda t, x: -x ** 3 + 1.0 - x ** 2 / 2, (0.0, 20.0), [1.0], rtol=1e-13, atol=1e-14, dense_output=True, method="DOP853")
    def ex_circ(t, ref=ref):
        x = float(ref.sol(t)[0])
        return np.array([x, np.sqrt(2.0 - x * x)])
    F.append((CIRCLE_DAE, nDAE(M, lambda t, y, p: np.array([-y[0] ** 3 + 0.5 * y[1] ** 2, y[0] ** 2 + y[1] ** 2 - 2.0]),
                               lambda t, y, p: csc_array(np.array([[-3 * y[0] ** 2, y[1]], [2 * y[0], 2 * y[1]]])), {}),
              np.array([1.0, 1.0]), ex_circ, 0.0, 20.0))
    return F


CIRCLE_DAE = "dae x'=-x^3+z^2/2, 0=x^2+z^2-2 (autonomous, non-stiff)"
ZERO_SLOPE_DAE = "dae x'=-x+z, 0=z-sin(2 pi t) from rest"


def ramp_model_backends(tmp):
    """x' = -x + u(t), u a TimeSeriesParam ramp 0 -> 2 on [0, 2]; exact x = (x0+1) e^-t + t - 1 on [0, 2]"""
    from Solverz import Model, Var, TimeSeriesParam, Ode, made_numerical, module_printer
    def build():
        m = Model()
        m.x = Var("x", 0.5)
        m.u = TimeSeriesParam("u", [0.0, 2.0, 2.0], [0.0, 2.0, 10.0])
        m.f = Ode("f", -m.x + m.u, m.x)
        return m
    out = []
    eqs, y0 = MZ.quiet(build().create_instance)
    out.append(("inline", MZ.quiet(made_numerical, eqs, y0, sparse=True), y0.array.copy()))
    eqs, y0 = MZ.quiet(build().create_instance)
    MZ.quiet(module_printer(eqs, y0, "c08_ramp", directory=tmp, jit=False).render)
    if tmp not in sys.path:
        sys.path.insert(0, tmp)
    mod = MZ.quiet(importlib.import_module, "c08_ramp")
    out.append(("module", mod.mdl, y0.array.copy()))
    exact = lambda t: np.array([1.5 * np.exp(-t) + t - 1])
    return out, exact


def ratio_of(sol, exact, rtol, atol):
    T = np.asarray(sol.T, dtype=float)
    Y = np.asarray(sol.Y.array if hasattr(sol.Y, "array") else sol.Y)
    worst = 0.0
    at = None
    for t, y in zip(T, Y):
        ex = exact(t)
        r = np.max(np.abs(y - ex) / (atol + rtol * np.abs(ex)))
        if r > worst:
            worst, at = float(r), float(t)
    return worst, at


def run(rep, tier, seed):
    from Solverz import Rodas, ode15s, Opt
    rep.cov["trusted_base"] = BASE_TRUST + [
        "PARTIAL: only controller invariants are theorems; tolerance-proportional accuracy is sampled on constructed families with "
        f"bounds calibrated on the unchanged tree (step values {BOUND_STEP}, dense values {BOUND_DENSE})",
        "reference solutions: matrix exponential (scipy.linalg.expm) and closed forms"]
    failed = rep.add_proof(prove("C08"))
    rng = np.random.default_rng(seed)
    fails, diffs, broken, known = [], [], [], []
    known32 = []
    known57 = []
    # ---- trace invariants + controller replay
    P = RC.problems()
    lines, expect, cases = [], [], []
    ntrace = 25 if tier == "quick" else 300
    nrec = 0
    for _ in range(ntrace):
        pname, tspan, optkw, _ = RC.gen_case(rng)
        dae, y0 = P[pname]
        sol, tr = RC.run_rodas(dae, y0, tspan, optkw)
        if isinstance(sol, Exception):
            continue
        case = dict(problem=pname, opt=optkw, tspan=[tspan[0], tspan[-1], len(tspan)])
        fac1, facmax0, fac2 = 0.2, optkw.get("facmax", 6), 6
        prev_rejected = False
        for k, r in enumerate(tr):
            nrec += 1
            accepted = r["err"] <= 1.0
            fac = r["dtnew"] / r["dt"] if r["dt"] else 1.0
            lo, hi = fac1 * (1 - 1e-12), r["facmax"] * (1 + 1e-12)
            if not (lo <= fac <= hi):
                fails.append((case, f"attempt {k}: step-size factor {fac!r} outside [fac1, facmax] = [{fac1}, {r['facmax']}]"))
            if prev_rejected and r["facmax"] != 1:
                fails.append((case, f"attempt {k} follows a rejection but facmax = {r['facmax']}"))
            if r["dt"] > r["hmax"] * (1 + 1e-12):
                fails.append((case, f"attempt {k}: step {r['dt']!r} exceeds hmax {r['hmax']!r}"))
            prev_rejected = not accepted
        if sol.stats.nstep != sum(1 for r in tr if r["err"] <= 1.0) or sol.stats.nreject != sum(1 for r in tr if r["err"] > 1.0):
            fails.append((case, "accepted/rejected counts do not match 'accept iff err <= 1' on the trace"))
        lines.append(RC.protocol_line(tspan, optkw, [], tr)); expect.append(RC.expected_answer(sol, tr)); cases.append(case)
    try:
        got = run_driver(lines)
        for c, e, g in zip(cases, expect, got):
            if e.split() != g.split()[:-1]:
                diffs.append(dict(case=c, implementation=e[:300], model=g[:300]))
    except LeanError as ex:
        broken.append(str(ex))
    # ---- accuracy families
    tols = [(1e-3, 1e-6), (1e-5, 1e-8)] if tier == "quick" else [(1e-3, 1e-6), (1e-5, 1e-8), (1e-7, 1e-10), (1e-9, 1e-12)]
    table = {}
    nruns = 0
    solvers = [("rodas4", lambda d, ts, y, o: Rodas(d, ts, y, Opt(scheme="rodas4", **o))),
               ("rodasp", lambda d, ts, y, o: Rodas(d, ts, y, Opt(scheme="rodasp", **o))),
               ("rodas5p", lambda d, ts, y, o: Rodas(d, ts, y, Opt(scheme="rodas5p", **o))),
               ("ode15s", lambda d, ts, y, o: ode15s(d, ts, y, Opt(**o)))]
    fam = families()
    if tier == "quick":
        fam = [f for i, f in enumerate(fam) if i in (0, 2, 4, 5, 7, 8, 10, 11, 12, 13, 14)]
    for name, dae, y0, exact, t0, tend in fam:
        for rtol, atol in tols:
            if name.endswith("from rest"):
                atol = rtol          # the solution oscillates through zero: an absolute tolerance on the scale of its amplitude (0.16)
            for mode in ("two", "dense"):
                tspan = [t0, tend] if mode == "two" else list(np.linspace(t0, tend, 41 if name != CIRCLE_DAE else 2001))
                for sname, solver in solvers:
                    case = dict(problem=name, solver=sname, rtol=rtol, atol=atol, tspan=mode)
                    nruns += 1
                    try:
                        sol = RC.quiet(solver, dae, tspan, y0.copy(), dict(rtol=rtol, atol=atol))
                    except Exception as ex:  # noqa
                        fails.append((case, f"{sname} raised {type(ex).__name__}: {str(ex)[:100]}")); continue
                    if getattr(sol.stats, "ret", None) == "failed":
                        continue
                    ratio, at = ratio_of(sol, exact, rtol, atol)
                    key = (sname, mode, rtol)
                    table[key] = max(table.get(key, 0.0), ratio)
                    bound = bound_for(sname, mode, rtol, name)
                    if not ratio <= bound:
                        in_recorded_class = mode == "dense" and sname != "ode15s" and name.startswith(STIFF_FORCED)
                        if in_recorded_class:
                            known.append((case, ratio))
                        elif sname == "ode15s" and name == ZERO_SLOPE_DAE:
                            known32.append((case, ratio))
                        elif mode == "dense" and sname in ("rodas4", "rodasp") and name == CIRCLE_DAE and rtol <= 1e-5:
                            known57.append((case, ratio))
                        else:
                            fails.append((case, f"{sname} on {name}: error / (atol + rtol|y|) = {ratio:.3g} at t = {at} exceeds {bound} "
                                                f"(rtol {rtol:g}, {mode}-node tspan)"))
    # ---- ode15s with a user hmax well below the tolerance-driven step (the step stays pinned while the order changes)
    for name, dae, y0, exact, t0, tend in fam:
        if name.startswith(STIFF_FORCED) or name.endswith("from rest"):
            continue
        for hm in ((0.05,) if tier == "quick" else (0.1, 0.05, 0.02)):
            for mode in ("two", "dense"):
                tspan = [t0, tend] if mode == "two" else list(np.linspace(t0, tend, 41))
                case = dict(problem=name, solver="ode15s", rtol=1e-3, atol=1e-6, hmax=hm, tspan=mode)
                nruns += 1
                try:
                    sol = RC.quiet(ode15s, dae, tspan, y0.copy(), Opt(rtol=1e-3, atol=1e-6, hmax=hm))
                except Exception as ex:  # noqa
                    fails.append((case, f"ode15s raised {type(ex).__name__}: {str(ex)[:100]}")); continue
                if getattr(sol.stats, "ret", None) == "failed":
                    continue
                ratio, at = ratio_of(sol, exact, 1e-3, 1e-6)
                table[("ode15s", "hmax-" + mode, 1e-3)] = max(table.get(("ode15s", "hmax-" + mode, 1e-3), 0.0), ratio)
                if not ratio <= bound_for("ode15s", mode, 1e-3, name):
                    fails.append((case, f"ode15s on {name} with hmax = {hm}: error / (atol + rtol|y|) = {ratio:.3g} at t = {at} exceeds "
                                        f"{bound_for('ode15s', mode, 1e-3, name)}"))
    # ---- (a) a tiny coupling coefficient on the diagonal of the iteration matrix (algebraic variable declared first): the linear
    #          algebra must pivot around it;  (b) a problem living on the scale 1e-13 with an absolute tolerance to match
    from scipy.sparse import csc_array as _csc
    from Solverz.num_api.num_eqn import nDAE as _nDAE
    eps_c = 1e-11
    Mc = _csc((np.array([1.0]), (np.array([0]), np.array([1]))), shape=(2, 2))                  # y = (z, x): row 0 is x' = ...
    tiny = _nDAE(Mc, lambda t, y, p: np.array([-y[1] + eps_c * y[0], y[0] - y[1] ** 2]),
                 lambda t, y, p: _csc(np.array([[eps_c, -1.0], [1.0, -2.0 * y[1]]])), {})
    x_ex = lambda t: 1.0 / ((1.0 - eps_c) * np.exp(t) + eps_c)                                   # Bernoulli, x(0) = 1
    ex_tiny = lambda t: np.array([x_ex(t) ** 2, x_ex(t)])
    S = 1e-13
    Ms = _csc((np.array([1.0, 1.0]), (np.array([0, 1]), np.array([0, 1]))), shape=(3, 3))
    scaled = _nDAE(Ms, lambda t, y, p: np.array([-y[0] + y[1], -50.0 * y[1], y[2] - (y[0] + 2.0 * y[1])]),
                   lambda t, y, p: _csc(np.array([[-1.0, 1.0, 0.0], [0.0, -50.0, 0.0], [-1.0, -2.0, 1.0]])), {})
    ex_scaled = lambda t: np.array([S * (50 / 49 * np.exp(-t) - np.exp(-50 * t) / 49), S * np.exp(-50 * t),
                                    S * (50 / 49 * np.exp(-t) - np.exp(-50 * t) / 49) + 2 * S * np.exp(-50 * t)])
    extra = [("dae x'=-x+1e-11 z, 0=z-x^2 (z first)", tiny, np.array([1.0, 1.0]), ex_tiny, [(1e-8, 1e-11)], 2000.0),
             ("linear index-1 DAE on the scale 1e-13", scaled, np.array([S, S, 3 * S]), ex_scaled, [(1e-4, 1e-20), (1e-6, 1e-22)], 100.0)]
    for name, dae, y0, exact, tl, bnd in extra:
        for rtol, atol in tl:
            for mode in ("two", "dense"):
                tspan = [0.0, 2.0] if mode == "two" else list(np.linspace(0.0, 2.0, 41))
                for sname, solver in solvers:
                    case = dict(problem=name, solver=sname, rtol=rtol, atol=atol, tspan=mode)
                    nruns += 1
                    try:
                        sol = RC.quiet(solver, dae, tspan, y0.copy(), dict(rtol=rtol, atol=atol))
                    except Exception as ex:  # noqa
                        fails.append((case, f"{sname} raised {type(ex).__name__}: {str(ex)[:100]}")); continue
                    if getattr(sol.stats, "ret", None) == "failed":
                        continue
                    ratio, at = ratio_of(sol, exact, rtol, atol)
                    table[(sname, "extra-" + mode, rtol)] = max(table.get((sname, "extra-" + mode, rtol), 0.0), ratio)
                    if not ratio <= bnd:
                        fails.append((case, f"{sname} on {name}: error / (atol + rtol|y|) = {ratio:.3g} at t = {at} exceeds {bnd} (rtol {rtol:g}, atol {atol:g}, "
                                            f"{mode}-node tspan)"))
    # ---- a fast but smooth nonlinear transition: the end point is swept across its onset (step cuts on the last step)
    from scipy.integrate import solve_ivp
    from scipy.sparse import csc_array
    from Solverz.num_api.num_eqn import nDAE
    import sys as _sys, importlib as _il
    _il.import_module("Solverz.solvers.daesolver.ode15s.ode15s")
    O15 = _sys.modules["Solverz.solvers.daesolver.ode15s.ode15s"]
    Mtr = csc_array((np.array([1.0]), (np.array([0]), np.array([0]))), shape=(2, 2))
    Ftr = lambda t, y, p: np.array([1 - 10 * y[1] ** 3, y[1] - np.tanh(20 * (y[0] - 0.5))])
    Jtr = lambda t, y, p: csc_array(np.array([[0.0, -30 * y[1] ** 2], [-20 / np.cosh(20 * (y[0] - 0.5)) ** 2, 1.0]]))
    dtr = nDAE(Mtr, Ftr, Jtr, {})
    y0tr = np.array([0.0, np.tanh(-10.0)])
    ref = solve_ivp(lambda t, y: [1 - 10 * np.tanh(20 * (y[0] - 0.5)) ** 3], [0, 0.05], [0.0], method="Radau", rtol=1e-12, atol=1e-14, dense_output=True)
    ex_tr = lambda t: np.array([ref.sol(t)[0], np.tanh(20 * (ref.sol(t)[0] - 0.5))])
    sweep = np.linspace(0.030, 0.042, 13 if tier == "quick" else 25)
    for tend in sweep:
        for rtol, atol in tols[:2]:
            for sname, solver in solvers:
                nruns += 1
                case = dict(problem="y'=1-10z^3, 0=z-tanh(20(y-0.5))", solver=sname, rtol=rtol, tend=float(tend))
                O15._verif_trace.clear()
                try:
                    sol = RC.quiet(solver, dtr, [0.0, float(tend)], y0tr.copy(), dict(rtol=rtol, atol=atol))
                except Exception as ex:  # noqa
                    fails.append((case, f"{sname} raised {type(ex).__name__}: {str(ex)[:100]}")); continue
                if getattr(sol.stats, "ret", None) == "failed":
                    continue
                ratio, at = ratio_of(sol, ex_tr, rtol, atol)
                table[(sname, "sweep", rtol)] = max(table.get((sname, "sweep", rtol), 0.0), ratio)
                if not ratio <= bound_for(sname, "two", rtol):
                    fails.append((case, f"{sname}: error / (atol + rtol|y|) = {ratio:.3g} at t = {at} exceeds {bound_for(sname, 'two', rtol)} (tend = {tend:.4f})"))
                if sname == "ode15s":
                    for r in O15._verif_trace:
                        if abs(abs(r["dt"]) - r["absh"]) > 1e-9 * max(r["absh"], 1e-300):
                            fails.append((case, f"ode15s accepted a step of length {r['dt']!r} computed with step size {r['absh']!r} "
                                                f"(t = {r['t']!r} -> {r['tnew']!r}): the state is labelled with the wrong time"))
                            break
    O15._verif_trace.clear()
    # ---- a Model driven by a time series, inline and module backends (non-autonomous term through the backends)
    tmp = tempfile.mkdtemp(prefix="c08_")
    try:
        bks, exact = ramp_model_backends(tmp)
        for label, nd, y0 in bks:
            for sname, solver in solvers:
                for rtol, atol in tols[:2]:
                    nruns += 1
                    case = dict(problem="x'=-x+u(t), u time series", backend=label, solver=sname, rtol=rtol)
                    try:
                        sol = RC.quiet(solver, nd, [0.0, 2.0], y0.copy(), dict(rtol=rtol, atol=atol))
                    except Exception as ex:  # noqa
                        fails.append((case, f"{sname}/{label} raised {type(ex).__name__}: {str(ex)[:100]}")); continue
                    ratio, at = ratio_of(sol, exact, rtol, atol)
                    table[(sname, "ts-" + label, rtol)] = max(table.get((sname, "ts-" + label, rtol), 0.0), ratio)
                    if not ratio <= bound_for(sname, "two", rtol):
                        fails.append((case, f"{sname} on the {label} backend: error / (atol + rtol|y|) = {ratio:.3g} at t = {at} exceeds {bound_for(sname, 'two', rtol)}"))
    finally:
        sys.modules.pop("c08_ramp", None)
        if tmp in sys.path:
            sys.path.remove(tmp)
        shutil.rmtree(tmp, ignore_errors=True)
    rep.cov["evaluations"] = nruns + len(lines)
    rep.cov["distinct_nontrivial"] = nruns
    rep.cov["rule"] = ("accuracy: problem family x (rtol, atol) x {2-node, 41-node tspan} x {rodas4, rodasp, rodas5p, ode15s}; statistic max over returned "
                       "times of error/(atol+rtol|y|); plus a time-series driven Model on inline and module backends. traces: random Rodas requests, "
                       "every attempt record checked against the controller relations and replayed on the Lean controller")
    rep.cov["samples"] = [dict(key=list(k), worst_ratio=round(v, 3)) for k, v in sorted(table.items(), key=lambda kv: -kv[1])[:12]]
    rep.cov["worst_ratio_table"] = {"/".join(map(str, k)): round(v, 3) for k, v in sorted(table.items())}
    rep.cov["trace_records_checked"] = nrec
    rep.cov["traces_validated_against_impl"] = len(lines) - len(diffs)
    kf_all = known_findings("C08")
    kf32 = [e for e in kf_all if e.get("id") == "D32"]
    kf57 = [e for e in kf_all if e.get("id") == "D57"]
    kf = [e for e in kf_all if e.get("id") not in ("D32", "D57")]
    if known57 and kf57:
        rep.known("D57", kf57[0]["line"].split("property=C08 ", 1)[1] + f"; {len(known57)} runs of this check fall in the recorded class, worst ratio "
                                                                       f"{max(r for _, r in known57):.3g}")
    else:
        for case, r in known57[:2]:
            fails.append((case, f"Rodas dense output of an algebraic variable at a tight tolerance: error/(atol+rtol|y|) = {r:.3g}"))
    if known32 and kf32:
        rep.known("D32", kf32[0]["line"].split("property=C08 ", 1)[1] + f"; {len(known32)} runs of this check fall in the recorded class, worst ratio "
                                                                       f"{max(r for _, r in known32):.3g}")
    else:
        for case, r in known32[:2]:
            fails.append((case, f"ode15s on an index-1 DAE started from rest with periodic forcing: error/(atol+rtol|y|) = {r:.3g}"))
    if known and kf:
        rep.known("dense-stiff-forced", kf[0]["line"].split("property=C08 ", 1)[1] + f"; worst ratio this run {max(r for _, r in known):.3g}")
    elif known:
        for case, r in known[:2]:
            fails.append((case, f"Rodas dense output on a stiff forced problem: error/(atol+rtol|y|) = {r:.3g}"))
    seen = set()
    for case, m in fails:
        key = m[:40]
        if key in seen or len(seen) >= 6:
            continue
        seen.add(key)
        rep.violation("C08 fails on the real code: " + m, dict(kind="run", case=case, message=m))
    if not fails:
        for f in failed:
            rep.violation(f"proof obligation no longer checks: {f}; no failing run found", dict(kind="proof", theorem=f), has_input=False)
        for b in broken:
            rep.violation("driver: " + b, dict(kind="driver", detail=b), has_input=False)
        for d in diffs[:5]:
            rep.violation("model and implementation disagree on the Rodas controller (correspondence C08/trace); accuracy families within bounds",
                          dict(kind="correspondence", **d), has_input=False)


def replay(rep, payload):
    print("replay:", payload.get("message")); print(payload.get("case"))
