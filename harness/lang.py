"""
lang.py — the modelling language as plain data: a random generator of models, and three consumers of one
and the same AST:  the real Solverz API (`build`), the Lean driver protocol (`tokens`), and a small numpy
evaluator written against the documentation (`np_eval`, used for kink margins and as the search oracle).

AST nodes (tuples):
  ("num", c) ("var", v, sel) ("par", q, sel) ("prev", v, sel)
  ("add"|"sub"|"mul"|"div", a, b) ("neg", a) ("powi", a, n)
  ("powr", a, b)     a ** b with a real exponent (number, parameter or expression) and a positive base; Lean: exp(b * ln a)
  ("sin"|"cos"|"exp"|"ln"|"abs"|"sign"|"heav", a)
  ("min", a, b) ("sat", v, lo, hi) ("awu", u, lo, hi, e)
sel: ("w",) | ("i", k) | ("s", a, b)
"""
from __future__ import annotations

import io
import contextlib
import warnings
import numpy as np

from harness.common import f2h


def quiet(f, *a, **k):
    with contextlib.redirect_stdout(io.StringIO()), contextlib.redirect_stderr(io.StringIO()), warnings.catch_warnings():
        warnings.simplefilter("ignore")
        return f(*a, **k)


# ---------------------------------------------------------------------------------------------- trigger functions
def trig_affine(x):
    return 0.5 * x + 1.0


def trig_square(x):
    return x * x + 0.25


TRIGGERS = {"trig_affine": trig_affine, "trig_square": trig_square}

VAR_NAMES = ["x", "z", "u", "w", "q", "ab", "Pm", "v1", "delta", "omega"]
PAR_NAMES = ["k", "c", "a0", "gain", "R", "b2", "mu"]


def sel_indices(n, sel):
    if sel[0] == "w":
        return list(range(n))
    if sel[0] == "i":
        k = sel[1]
        return [k if k >= 0 else k + n]
    if sel[0] == "t":                                   # strided slice (C18's extended grammar)
        return list(range(n))[sel[1]:sel[2]:sel[3]]
    if sel[0] in ("l", "lp"):                           # index list / index parameter
        ks = sel[-1]
        if any(k >= n or k < -n for k in ks):
            raise IndexError("index list out of range")
        return [k if k >= 0 else k + n for k in ks]
    return list(range(n))[sel[1]:sel[2]]


def sel_py(sel):
    if sel[0] == "i":
        return sel[1]
    if sel[0] == "t":
        return slice(sel[1], sel[2], sel[3])
    if sel[0] in ("l", "lp"):
        return list(sel[-1])
    return slice(sel[1], sel[2])


# ---------------------------------------------------------------------------------------------- model data
class GModel:
    """vars: [(name, values, init_ast|None)], pars: [(name, kind, data)], eqs: [(name, kind, ast, diffvar|None)]
    kind of the model: AE | DAE | FDAE.   pars kinds: plain | ts | ts_index | trigger"""

    def __init__(self, kind, vars_, pars, eqs):
        self.kind, self.vars, self.pars, self.eqs = kind, vars_, pars, eqs

    def var_sizes(self):
        return [len(v[1]) for v in self.vars]

    def par_sizes(self):
        return [len(self.par_base(q)) for q in range(len(self.pars))]

    def par_base(self, q):
        name, kind, data = self.pars[q]
        if kind == "matrix":                            # row-major
            return [x for row in data["value"] for x in row]
        return list(data["value"])

    def describe(self):
        return dict(kind=self.kind, vars=[(n, list(map(float, v))) for n, v, _ in self.vars],
                    pars=[(n, k, {kk: (vv if not callable(vv) else vv.__name__) for kk, vv in d.items()}) for n, k, d in self.pars],
                    eqs=[(n, k, repr(a), dv) for n, k, a, dv in self.eqs])


def ast_size(m: GModel, a):
    op = a[0]
    if op == "num":
        return 1
    if op in ("var", "prev"):
        return len(sel_indices(len(m.vars[a[1]][1]), a[2]))
    if op == "par":
        return len(sel_indices(len(m.par_base(a[1])), a[2]))
    if op in ("neg", "sin", "cos", "exp", "ln", "abs", "sign", "heav"):
        return ast_size(m, a[1])
    if op == "powi":
        return ast_size(m, a[1])
    if op == "matvec":
        cols = a[2]
        n, k = len(m.par_base(a[1])), ast_size(m, a[3])
        if cols == 0 or n % cols or k != cols:
            raise ValueError("shape")
        return n // cols
    sizes = [ast_size(m, x) for x in a[1:]]
    n = max(sizes)
    if any(s not in (1, n) for s in sizes):
        raise ValueError("shape")
    return n


# ---------------------------------------------------------------------------------------------- generator
class Gen:
    def __init__(self, rng, kind=None, extended=False):
        self.r = rng
        self.kind = kind or str(rng.choice(["AE", "DAE", "DAE", "FDAE"]))

    def model(self):
        r = self.r
        nv = int(r.integers(1, 5))
        names = [str(x) for x in r.permutation(VAR_NAMES)[:nv]]
        vars_ = [(n, [float(x) for x in np.round(r.uniform(0.3, 2.0, size=int(r.integers(1, 5))), 3)], None) for n in names]
        npar = int(r.integers(1, 4))
        pnames = [str(x) for x in r.permutation(PAR_NAMES)[:npar]]
        pars = []
        for pn in pnames:
            kind = str(r.choice(["plain", "plain", "plain", "ts", "ts_index", "trigger"]))
            if self.kind == "AE" and kind in ("ts", "ts_index"):
                kind = "plain"          # time only exists in DAE / FDAE models
            size = int(r.choice([1, 1] + [len(v[1]) for v in vars_]))
            value = [float(x) for x in np.round(r.uniform(0.5, 2.5, size=size), 3)]
            if kind == "plain":
                if r.random() < 0.25:
                    value = [0.0] * size      # a parameter that is zero when the code is generated (changed later)
                pars.append((pn, "plain", dict(value=value)))
            elif kind == "ts":
                nodes = sorted(set(float(x) for x in np.round(r.uniform(0.0, 4.0, size=int(r.integers(2, 5))), 2)))
                if len(nodes) < 2:
                    nodes = [0.0, 1.0]
                nodes[0] = 0.0
                vs = [float(x) for x in np.round(r.uniform(-1.0, 3.0, size=len(nodes)), 3)]
                pars.append((pn, "ts", dict(value=[vs[0]], times=nodes, series=vs)))
            elif kind == "ts_index":
                size = max(size, 2)
                value = [float(x) for x in np.round(r.uniform(0.5, 2.5, size=size), 3)]
                nodes = [0.0, float(np.round(r.uniform(0.5, 2.0), 2)), float(np.round(r.uniform(2.5, 4.0), 2))]
                vs = [float(x) for x in np.round(r.uniform(-1.0, 3.0, size=3), 3)]
                idx = int(r.integers(0, size))
                value[idx] = vs[0]
                pars.append((pn, "ts_index", dict(value=value, times=nodes, series=vs, index=[idx])))
            else:
                fn = str(r.choice(list(TRIGGERS)))
                plain = [i for i, pp in enumerate(pars) if pp[1] == "plain"]
                if plain and r.random() < 0.4:
                    # triggered by another *parameter*: must follow that entry of the mapping at call time
                    src = int(r.choice(plain))
                    base = np.array(pars[src][2]["value"])
                    pars.append((pn, "trigger_p", dict(value=[float(x) for x in TRIGGERS[fn](base)], trigger_par=src, fun=fn)))
                else:
                    tv = int(r.integers(0, nv))
                    base = np.array(vars_[tv][1])
                    pars.append((pn, "trigger", dict(value=[float(x) for x in TRIGGERS[fn](base)], trigger_var=tv, fun=fn)))
        m = GModel(self.kind, vars_, pars, [])
        # equations: total size should match total variable size where possible (square systems for the Jacobian)
        eqs = []
        if self.kind == "DAE":
            # one Ode per variable (whole or split into slices), then algebraic equations for a subset
            alg = set(int(i) for i in r.permutation(nv)[:int(r.integers(0, max(1, nv)))]) if nv > 1 else set()
            k = 0
            for vi, (vn, vv, _) in enumerate(vars_):
                n = len(vv)
                if vi in alg:
                    eqs.append((f"g{k}", "alg", self.expr(m, n, 3), None)); k += 1
                    continue
                form = str(r.choice(["whole", "whole", "split", "idx"])) if n > 1 else str(r.choice(["whole", "idx"]))
                if form == "whole":
                    eqs.append((f"f{k}", "ode", self.expr(m, int(r.choice([1, n])), 3), (vi, ("w",)))); k += 1
                elif form == "idx":
                    for j in range(n):
                        jj = j if (r.random() < 0.7 or j == n - 1) else j - n      # x[-1] as diff_var is refused by DAE.M (loudly)
                        eqs.append((f"f{k}", "ode", self.expr(m, 1, 3), (vi, ("i", jj)))); k += 1
                else:
                    cut = int(r.integers(1, n))
                    for sel in (("s", None if r.random() < 0.5 else 0, cut), ("s", cut, None if r.random() < 0.5 else n)):
                        ln = len(sel_indices(n, sel))
                        eqs.append((f"f{k}", "ode", self.expr(m, ln, 3), (vi, sel))); k += 1
            order = list(r.permutation(len(eqs)))
            eqs = [eqs[int(i)] for i in order]
        else:
            k = 0
            for vi, (vn, vv, _) in enumerate(vars_):
                n = len(vv)
                if n > 1 and r.random() < 0.3:
                    cut = int(r.integers(1, n))
                    for ln in (cut, n - cut):
                        eqs.append((f"e{k}", "alg", self.expr(m, ln, 3), None)); k += 1
                else:
                    eqs.append((f"e{k}", "alg", self.expr(m, n, 3), None)); k += 1
            order = list(r.permutation(len(eqs)))
            eqs = [eqs[int(i)] for i in order]
        m.eqs = eqs
        return m

    # expression of broadcast size n
    def leaf(self, m, n):
        r = self.r
        cands = []
        for vi, (vn, vv, _) in enumerate(m.vars):
            L = len(vv)
            if L == n:
                cands.append(("var", vi, ("w",)))
            if n == 1:
                j = int(r.integers(0, L))
                cands.append(("var", vi, ("i", j if r.random() < 0.7 else j - L)))
                cands.append(("var", vi, ("s", j, j + 1)))
            elif L > n:
                a = int(r.integers(0, L - n + 1))
                sel = ("s", a if (a or r.random() < 0.5) else None, a + n if (a + n < L or r.random() < 0.5) else None)
                cands.append(("var", vi, sel))
                if a + n == L and r.random() < 0.5:
                    cands.append(("var", vi, ("s", -n, None)))
        if m.kind == "FDAE":
            for vi, (vn, vv, _) in enumerate(m.vars):
                if len(vv) == n:
                    cands.append(("prev", vi, ("w",)))
                if n == 1:
                    cands.append(("prev", vi, ("i", int(r.integers(0, len(vv))))))
        for qi in range(len(m.pars)):
            L = len(m.par_base(qi))
            if L == n or L == 1:
                cands.append(("par", qi, ("w",)))
            if n == 1 and L > 1 and m.pars[qi][1] == "plain":
                cands.append(("par", qi, ("i", int(r.integers(0, L)))))
            if L > n > 1 and m.pars[qi][1] == "plain":
                cands.append(("par", qi, ("s", 0, n)))
        cands.append(("num", float(r.choice([1.0, 2.0, 0.5, -1.0, 3.0, 0.25]))))
        if r.random() < 0.15:
            import math as _m
            cands.append([("num", _m.pi, "pi"), ("num", _m.sqrt(2.0), "sqrt2"), ("num", _m.e, "E")][int(r.integers(0, 3))])
        if n > 1:
            # a scalar leaf that broadcasts
            cands.append(self.leaf(m, 1))
        return cands[int(r.integers(0, len(cands)))]

    def expr(self, m, n, depth):
        """an expression whose broadcast size is exactly n"""
        for _ in range(30):
            a = self._expr(m, n, depth)
            try:
                if ast_size(m, a) == n:
                    return a
            except ValueError:
                continue
        return self.sized_leaf(m, n)

    def sized_leaf(self, m, n):
        for _ in range(50):
            a = self.leaf(m, n)
            if ast_size(m, a) == n:
                return a
        return ("num", 1.0)

    def _expr(self, m, n, depth):
        r = self.r
        if depth == 0 or r.random() < 0.2:
            return self.leaf(m, n)
        op = str(r.choice(["add", "add", "sub", "mul", "mul", "div", "neg", "powi", "sin", "cos", "exp", "ln", "abs", "sign", "heav",
                           "min", "sat", "awu"]))
        sub = lambda: self.expr(m, n if r.random() < 0.75 else 1, depth - 1)
        if op in ("add", "sub", "mul"):
            a, b = sub(), sub()
            if a == b:
                # sympy simplifies x - x to the scalar 0 (changing the equation's size); not a meaningful model
                b = ("add", b, ("num", 0.75))
            # make sure the result has size n
            if ast_size(m, a) != n and ast_size(m, b) != n:
                a = self.expr(m, n, depth - 1)
            return (op, a, b)
        if op == "div":
            a = self.expr(m, n, depth - 1)
            return ("div", a, ("add", ("num", 2.0), ("powi", self.leaf(m, 1), 2)))        # denominator >= 2
        if op == "neg":
            return ("neg", self.expr(m, n, depth - 1))
        if op == "powi":
            return ("powi", self.expr(m, n, depth - 1), int(r.choice([2, 3, 2, -1])) if depth < 3 else 2)
        if op == "ln":
            return ("ln", ("add", ("num", 1.5), ("powi", self.expr(m, n, depth - 1), 2)))
        if op == "exp":
            return ("exp", ("mul", ("num", 0.25), self.leaf(m, n)))
        if op in ("sin", "cos", "abs", "sign", "heav"):
            return (op, self.expr(m, n, depth - 1))
        if op == "min":
            a, b = self.expr(m, n, depth - 1), sub()
            return ("min", a, b)
        if op == "sat":
            lo = self.leaf(m, 1) if r.random() < 0.5 else ("num", float(r.choice([-1.0, 0.5, 0.0])))
            hi = ("add", lo, ("num", float(r.choice([1.0, 2.5])))) if r.random() < 0.7 else self.leaf(m, int(r.choice([1, n])))
            return ("sat", self.expr(m, n, depth - 1), lo, hi)
        if op == "awu":
            return ("awu", self.expr(m, n, depth - 1), ("num", float(r.choice([0.0, 0.5]))), ("num", float(r.choice([1.5, 3.0]))), self.leaf(m, n))
        return self.leaf(m, n)


# ---------------------------------------------------------------------------------------------- consumers
def tokens(a):
    op = a[0]

    def sel(s):
        if s[0] == "w":
            return ["w"]
        if s[0] == "i":
            return ["i", str(s[1])]
        if s[0] == "t":
            return ["st", "none" if s[1] is None else str(s[1]), "none" if s[2] is None else str(s[2]), str(s[3])]
        if s[0] in ("l", "lp"):
            return ["pk", str(len(s[-1]))] + [str(k) for k in s[-1]]
        return ["s", "none" if s[1] is None else str(s[1]), "none" if s[2] is None else str(s[2])]
    if op == "num":
        return ["num", f2h(a[1])]
    if op in ("var", "par", "prev"):
        return [op, str(a[1])] + sel(a[2])
    if op == "powi":
        return ["powi"] + tokens(a[1]) + [str(a[2])]
    if op == "matvec":
        return ["matvec", str(a[1]), str(a[2])] + tokens(a[3])
    out = [op]
    for x in a[1:]:
        out += tokens(x)
    return out


def request(kindF, m: GModel, y, p, yprev):
    parts = ["c01", kindF, "vars", str(len(m.vars))] + [str(s) for s in m.var_sizes()]
    parts += ["pars", str(len(m.pars))] + [str(s) for s in m.par_sizes()]
    parts += ["eqs", str(len(m.eqs))]
    for _, kind, a, dv in m.eqs:
        target = len(sel_indices(len(m.vars[dv[0]][1]), dv[1])) if dv is not None else 0
        parts += ["sz", str(target)] + tokens(a)
    parts += ["y", str(len(y))] + [f2h(v) for v in y]
    parts += ["p", str(len(p))] + [f2h(v) for v in p]
    parts += ["y0", str(len(yprev))] + [f2h(v) for v in yprev]
    return " ".join(parts)


def np_eval(m: GModel, a, env, margins=None):
    """documented semantics in numpy; `margins` collects distances to the kinks of piecewise functions"""
    op = a[0]
    if op == "num":
        return np.array([a[1]])
    if op == "var":
        return env["y"][m_offset(m.var_sizes(), a[1]):][:len(m.vars[a[1]][1])][sel_py(a[2])].reshape(-1) if a[2][0] != "w" else \
            env["y"][m_offset(m.var_sizes(), a[1]):][:len(m.vars[a[1]][1])]
    if op == "prev":
        base = env["yprev"][m_offset(m.var_sizes(), a[1]):][:len(m.vars[a[1]][1])]
        return base if a[2][0] == "w" else np.atleast_1d(base[sel_py(a[2])])
    if op == "par":
        base = np.asarray(env["p"][a[1]])
        return base if a[2][0] == "w" else np.atleast_1d(base[sel_py(a[2])])
    ev = lambda x: np_eval(m, x, env, margins)
    if op == "matvec":
        return np.asarray(env["p"][a[1]], dtype=float).reshape(-1, a[2]) @ ev(a[3])

    def mark(d):
        if margins is not None:
            margins.append(float(np.min(np.abs(d))))
    if op == "add":
        return ev(a[1]) + ev(a[2])
    if op == "sub":
        return ev(a[1]) - ev(a[2])
    if op == "mul":
        return ev(a[1]) * ev(a[2])
    if op == "div":
        return ev(a[1]) / ev(a[2])
    if op == "neg":
        return -ev(a[1])
    if op == "powi":
        return ev(a[1]) ** a[2] if a[2] >= 0 else 1.0 / ev(a[1]) ** (-a[2])
    if op == "powr":
        return np.power(ev(a[1]), ev(a[2]))
    if op == "sin":
        return np.sin(ev(a[1]))
    if op == "cos":
        return np.cos(ev(a[1]))
    if op == "exp":
        return np.exp(ev(a[1]))
    if op == "ln":
        return np.log(ev(a[1]))
    if op == "abs":
        x = ev(a[1]); mark(x); return np.abs(x)
    if op == "sign":
        x = ev(a[1]); mark(x); return np.sign(x)
    if op == "heav":
        x = ev(a[1]); mark(x); return np.where(x >= 0, 1.0, 0.0)
    if op == "min":
        x, y = ev(a[1]), ev(a[2]); mark(x - y); return np.where(x <= y, x, y) + 0 * (x + y)
    if op == "sat":
        v, lo, hi = ev(a[1]), ev(a[2]), ev(a[3]); mark(v - lo); mark(v - hi); mark(hi - lo)
        return np.where(v > hi, hi, np.where(v < lo, lo, v)) + 0 * (v + lo + hi) if np.all(lo <= hi) else np.minimum(np.maximum(v, lo), hi)
    if op == "awu":
        u, lo, hi, e = ev(a[1]), ev(a[2]), ev(a[3]), ev(a[4]); mark(u - lo); mark(u - hi); mark(e)
        z = ((u >= hi) & (e >= 0)) | ((u <= lo) & (e <= 0))
        return np.where(z, 0.0, e) + 0 * (u + lo + hi + e)
    raise ValueError(op)


def m_offset(sizes, k):
    return int(sum(sizes[:k]))


def par_values(m: GModel, overrides, t, y):
    """documented parameter semantics at call time: the mapping's current value; time series interpolated
    linearly in t and held after the last node; triggerable parameters re-evaluated from their trigger variable"""
    out = []
    for q, (name, kind, data) in enumerate(m.pars):
        base = np.array(overrides.get(name, data["value"]), dtype=float).reshape(-1)
        if kind in ("ts", "ts_index") and t is not None:
            times, series = np.array(data["times"]), np.array(data["series"])
            v = series[-1] if t >= times[-1] else np.interp(t, times, series)
            if kind == "ts":
                base = np.array([v])
            else:
                base = base.copy(); base[data["index"]] = v
        elif kind == "trigger":
            tv = data["trigger_var"]
            off = m_offset(m.var_sizes(), tv)
            base = TRIGGERS[data["fun"]](np.asarray(y[off:off + len(m.vars[tv][1])]))
        elif kind == "trigger_p":
            src = m.pars[data["trigger_par"]]
            if src[1] in ("trigger", "trigger_p") and data["trigger_par"] < q:
                src_val = out[data["trigger_par"]]          # a chain: the source is itself re-evaluated at call time
            else:
                src_val = np.array(overrides.get(src[0], src[2]["value"]), dtype=float)
            base = TRIGGERS[data["fun"]](src_val)
        out.append(np.asarray(base, dtype=float))
    return out


def build(m: GModel):
    """real Solverz objects"""
    from Solverz import Model, Var, Param, IdxParam, TimeSeriesParam, Eqn, Ode, AliasVar, Mat_Mul, sin, cos, exp, ln, Abs, Sign, Min, Saturation, heaviside, AntiWindUp
    mdl = Model()
    IDX = {}
    V, P, PV = [], [], []
    for name, vals, _ in m.vars:
        v = Var(name, list(vals))
        setattr(mdl, name, v); V.append(v)
    if m.kind == "FDAE":
        for (name, vals, _), v in zip(m.vars, V):
            av = AliasVar(name, init=v)
            setattr(mdl, name + "_prev_", av); PV.append(av)
    for name, kind, data in m.pars:
        if kind == "plain":
            prm = Param(name, list(data["value"]))
        elif kind == "matrix":
            prm = Param(name, [list(row) for row in data["value"]], dim=2)
        elif kind == "ts":
            prm = TimeSeriesParam(name, v_series=list(data["series"]), time_series=list(data["times"]))
        elif kind == "ts_index":
            prm = TimeSeriesParam(name, v_series=list(data["series"]), time_series=list(data["times"]), index=list(data["index"]),
                                  value=list(data["value"]))
        elif kind == "trigger_p":
            prm = Param(name, list(data["value"]), triggerable=True, trigger_var=[m.pars[data["trigger_par"]][0]], trigger_fun=TRIGGERS[data["fun"]])
        else:
            prm = Param(name, list(data["value"]), triggerable=True, trigger_var=[m.vars[data["trigger_var"]][0]], trigger_fun=TRIGGERS[data["fun"]])
        setattr(mdl, name, prm); P.append(prm)
    F1 = dict(sin=sin, cos=cos, exp=exp, ln=ln, abs=Abs, sign=Sign, heav=heaviside)

    def pick(obj, sel):
        if sel[0] == "w":
            return obj
        if sel[0] == "i":
            return obj[sel[1]]
        if sel[0] == "t":
            return obj[sel[1]:sel[2]:sel[3]]
        if sel[0] == "l":
            return obj[list(sel[1])]
        if sel[0] == "lp":
            if sel[1] not in IDX:
                IDX[sel[1]] = IdxParam(sel[1], list(sel[2]))
                setattr(mdl, sel[1], IDX[sel[1]])
            return obj[IDX[sel[1]]]
        return obj[sel[1]:sel[2]]

    def conv(a):
        op = a[0]
        if op == "num":
            if len(a) > 2 and a[2] == "float":    # written as a float literal even when its value is integral (1e18, 100.0)
                return float(a[1])
            if len(a) > 2:                       # a symbolic constant: sympy keeps it as pi / sqrt(2) / E in the expression
                import sympy as _sp
                return {"pi": _sp.pi, "sqrt2": _sp.sqrt(2), "E": _sp.E}[a[2]]
            c = a[1]
            return int(c) if float(c).is_integer() else c
        if op == "var":
            return pick(V[a[1]], a[2])
        if op == "prev":
            return pick(PV[a[1]], a[2])
        if op == "par":
            return pick(P[a[1]], a[2])
        if op == "add":
            return conv(a[1]) + conv(a[2])
        if op == "sub":
            return conv(a[1]) - conv(a[2])
        if op == "mul":
            return conv(a[1]) * conv(a[2])
        if op == "div":
            return conv(a[1]) / conv(a[2])
        if op == "neg":
            return -conv(a[1])
        if op == "powi":
            return conv(a[1]) ** a[2]
        if op == "powr":
            return conv(a[1]) ** conv(a[2])
        if op in F1:
            return F1[op](conv(a[1]))
        if op == "matvec":
            return Mat_Mul(P[a[1]], conv(a[3]))
        if op == "min":
            return Min(conv(a[1]), conv(a[2]))
        if op == "sat":
            return Saturation(conv(a[1]), conv(a[2]), conv(a[3]))
        if op == "awu":
            return AntiWindUp(conv(a[1]), conv(a[2]), conv(a[3]), conv(a[4]))
        raise ValueError(op)
    for name, kind, a, dv in m.eqs:
        rhs = conv(a)
        if kind == "ode":
            setattr(mdl, name, Ode(name, rhs, pick(V[dv[0]], dv[1])))
        else:
            setattr(mdl, name, Eqn(name, rhs))
    return mdl


def corpus():
    """hand-written models that run first on every check: minimised past misses and the structures seeded changes need"""
    C = []
    # an index-1 DAE whose Odes are declared after the algebraic equation and in another order than their variables: the ones of
    # the mass matrix are off the diagonal (x, w states; z algebraic); small and large coefficients (1e-9, 1e12) in linear terms
    C.append(GModel("DAE", [("x", [0.8], None), ("w", [0.3], None), ("z", [0.24], None)], [("k", "plain", dict(value=[0.5]))],
                    [("g", "alg", ("sub", ("var", 2, ("w",)), ("mul", ("var", 0, ("w",)), ("var", 1, ("w",)))), None),
                     ("fw", "ode", ("add", ("neg", ("mul", ("par", 0, ("w",)), ("var", 1, ("w",)))), ("mul", ("num", 1e-9), ("var", 0, ("w",)))), (1, ("w",))),
                     ("fx", "ode", ("sub", ("var", 2, ("w",)), ("mul", ("num", 2.0), ("var", 0, ("w",)))), (0, ("w",)))]))
    C.append(GModel("AE", [("x", [0.7, 1.3], None), ("z", [0.4], None)], [],
                    [("e0", "alg", ("sub", ("add", ("mul", ("num", 1e-9), ("var", 0, ("w",))), ("mul", ("num", 6.674e-11), ("var", 1, ("w",)))), ("num", 1e-9)), None),
                     ("e1", "alg", ("sub", ("mul", ("num", 1e12), ("var", 1, ("w",))), ("mul", ("num", 3e-7), ("var", 0, ("i", 1)))), None)]))
    import math as _m
    # coefficients that are symbolic constants (pi, sqrt(2), E): their derivative blocks are constants without being Numbers
    C.append(GModel("AE", [("x", [0.7, 1.3], None), ("z", [0.4, 0.9], None)], [],
                    [("e0", "alg", ("sub", ("add", ("mul", ("num", _m.pi, "pi"), ("var", 0, ("w",))), ("mul", ("num", _m.sqrt(2.0), "sqrt2"), ("var", 1, ("w",)))),
                                    ("num", _m.e, "E")), None),
                     ("e1", "alg", ("sub", ("mul", ("num", _m.e, "E"), ("powi", ("var", 1, ("w",)), 2)), ("mul", ("num", _m.pi, "pi"), ("var", 0, ("i", 0)))), None)]))
    # a parameter that is 0 when the code is generated and multiplies a variable linearly (its Jacobian block is the parameter)
    C.append(GModel("AE", [("x", [0.7, 1.3], None), ("z", [0.4], None)],
                    [("k", "plain", dict(value=[0.0, 0.0])), ("g", "plain", dict(value=[0.0]))],
                    [("e0", "alg", ("sub", ("mul", ("par", 0, ("w",)), ("var", 0, ("w",))), ("add", ("var", 0, ("w",)), ("num", 1.0))), None),
                     ("e1", "alg", ("add", ("mul", ("par", 1, ("w",)), ("var", 1, ("w",))), ("powi", ("var", 0, ("i", 0)), 2)), None)]))
    C.append(GModel("DAE", [("x", [0.7, 1.3], None)],
                    [("u", "ts", dict(value=[0.0], times=[0.0, 1.0, 2.0], series=[0.0, 1.0, 3.0]))],
                    [("f0", "ode", ("sub", ("mul", ("par", 0, ("w",)), ("var", 0, ("w",))), ("powi", ("var", 0, ("w",)), 2)), (0, ("w",)))]))
    # triggerable parameter driven by another parameter
    C.append(GModel("AE", [("x", [1.0, 2.0], None)],
                    [("k", "plain", dict(value=[1.0, 2.0])), ("g", "trigger_p", dict(value=[1.5, 2.0], trigger_par=0, fun="trig_affine"))],
                    [("e0", "alg", ("sub", ("mul", ("par", 1, ("w",)), ("var", 0, ("w",))), ("par", 0, ("w",))), None)]))
    # negative integer indices and open slices in every position
    C.append(GModel("AE", [("u", [0.3, 0.8], None), ("x", [1.0, 2.0, 0.5], None)], [("c", "plain", dict(value=[2.0]))],
                    [("e0", "alg", ("add", ("mul", ("var", 1, ("i", -1)), ("var", 0, ("w",))), ("var", 1, ("s", None, -1))), None),
                     ("e1", "alg", ("sub", ("powi", ("var", 1, ("s", -2, None)), 2), ("mul", ("par", 0, ("w",)), ("var", 1, ("i", -2)))), None),
                     ("e2", "alg", ("add", ("var", 1, ("i", -3)), ("var", 0, ("i", -1))), None)]))
    # a size-one variable times a vector parameter plus its square (second derivative scalar, first derivative vector)
    C.append(GModel("AE", [("a", [0.7], None), ("x", [1.1, 0.4], None)], [("p", "plain", dict(value=[2.0, 3.0]))],
                    [("e0", "alg", ("add", ("add", ("powi", ("var", 0, ("w",)), 2), ("mul", ("var", 0, ("w",)), ("par", 0, ("w",)))),
                                    ("powi", ("var", 1, ("w",)), 2)), None),
                     ("e1", "alg", ("add", ("sub", ("var", 0, ("w",)), ("num", 1.0)), ("var", 1, ("i", 0))), None)]))
    # two equations with non-zero second derivatives, declared in an order that is not the alphabetical order of their names
    C.append(GModel("AE", [("x", [0.7, 1.3], None), ("s", [0.4], None)], [("c", "plain", dict(value=[1.5, 0.5]))],
                    [("q_balance", "alg", ("sub", ("mul", ("powi", ("var", 0, ("w",)), 2), ("var", 1, ("w",))), ("par", 0, ("w",))), None),
                     ("e_balance", "alg", ("sub", ("mul", ("powi", ("var", 1, ("w",)), 3), ("var", 0, ("i", 0))), ("num", 1.0)), None)]))
    # a time series written into one element of a vector parameter: the other elements are read from the mapping at every call
    C.append(GModel("DAE", [("x", [0.7, 1.3, 0.2], None)],
                    [("G", "ts_index", dict(value=[1.0, 0.5, 2.0], times=[0.0, 1.0, 2.0], series=[0.5, 1.5, 3.0], index=[1]))],
                    [("f0", "ode", ("sub", ("par", 0, ("w",)), ("mul", ("var", 0, ("w",)), ("par", 0, ("i", 0)))), (0, ("w",)))]))
    # chained triggerable parameters whose names sort against the dependence: zB = affine(x) is triggered by the variable, aA = square(zB)
    # by the parameter zB ('aA' < 'zB'); at call time aA has to follow the zB of that call, not the stored one
    xb = np.array([1.0, 2.0])
    C.append(GModel("AE", [("x", [1.0, 2.0], None)],
                    [("zB", "trigger", dict(value=[float(v) for v in trig_affine(xb)], trigger_var=0, fun="trig_affine")),
                     ("aA", "trigger_p", dict(value=[float(v) for v in trig_square(trig_affine(xb))], trigger_par=0, fun="trig_square"))],
                    [("e0", "alg", ("sub", ("mul", ("var", 0, ("w",)), ("par", 0, ("w",))), ("par", 1, ("w",))), None)]))
    # numeric constants that need all 17 significant digits (0.1 + 0.2, 1/3) as thresholds of piecewise functions, evaluated exactly on
    # the threshold and one ulp / the 15-digit rounding away from it: the generated code has to carry the constant the user wrote
    c17, c16 = 0.1 + 0.2, 1.0 / 3.0
    C.append(GModel("AE", [("x", [c17, 0.3, 0.30000000000000010], None), ("w", [c16, 0.333333333333333, 0.5], None)], [],
                    [("e0", "alg", ("add", ("heav", ("sub", ("var", 0, ("w",)), ("num", c17))), ("var", 1, ("w",))), None),
                     ("e1", "alg", ("add", ("sign", ("sub", ("var", 1, ("w",)), ("num", c16))), ("mul", ("num", 2.0), ("var", 0, ("w",)))), None)]))
    # powers with a real exponent: x ** 0.5 (printed as sqrt), x ** -0.5, a parameter as exponent, a variable as exponent (2 ** w),
    # base and exponent both depending on variables.  Points of their own (own_rng), bases stay positive.
    g = GModel("AE", [("x", [2.7, 3.3], None), ("z", [0.4], None)], [("p", "plain", dict(value=[0.5])), ("c", "plain", dict(value=[1.5, 2.5]))],
               [("e0", "alg", ("sub", ("add", ("powr", ("var", 0, ("w",)), ("num", 0.5)), ("var", 1, ("w",))), ("par", 1, ("w",))), None),
                ("e1", "alg", ("sub", ("powr", ("add", ("num", 1.5), ("powi", ("var", 1, ("w",)), 2)), ("par", 0, ("w",))), ("var", 0, ("i", 0))), None)])
    g.own_rng = True
    C.append(g)
    g = GModel("DAE", [("x", [1.8], None), ("w", [1.2, 0.6], None)], [("k", "plain", dict(value=[0.3]))],
               [("g", "alg", ("sub", ("powr", ("num", 2.0), ("var", 1, ("w",))), ("mul", ("powr", ("add", ("num", 1.5), ("powi", ("var", 0, ("w",)), 2)), ("var", 1, ("w",))),
                                                                                     ("powr", ("var", 0, ("w",)), ("num", -0.5)))), None),
                ("f", "ode", ("add", ("neg", ("powr", ("var", 0, ("w",)), ("num", 1.5))), ("par", 0, ("w",))), (0, ("w",)))])
    g.own_rng = True
    C.append(g)
    return C
