"""check runner: ./check <Cxx> quick|thorough | --replay <file>"""
import importlib
import json
import os
import sys
import traceback

from harness import common


def main(argv):
    if len(argv) < 2:
        print("usage: check <Cxx> quick|thorough | --replay <file>")
        return 2
    pid = argv[0].upper()
    seed = int(os.environ.get("VERIF_SEED", "0"))
    try:
        common.tie_to_repo()
        mod = importlib.import_module(f"harness.checks.{pid.lower()}")
    except Exception:
        traceback.print_exc()
        print(f"INTERNAL-ERROR property={pid} (no such check / harness cannot start)")
        return 2
    if argv[1] == "--replay":
        rep = common.Report(pid, "quick", seed)
        payload = json.loads(open(argv[2]).read())
        mod.replay(rep, payload.get("replay", payload))
        for what, _, _ in rep.violations:
            print(f"VIOLATION property={pid} replay={argv[2]}")
        return 1 if rep.violations else 0
    tier = argv[1]
    if tier not in ("quick", "thorough"):
        tier = os.environ.get("VERIF_TIER", "quick")
    rep = common.Report(pid, tier, seed)
    try:
        mod.run(rep, tier, seed)
    except Exception:
        traceback.print_exc()
        print(f"INTERNAL-ERROR property={pid}")
        return 2
    return rep.finish()


if __name__ == "__main__":
    sys.exit(main(sys.argv[1:]))
