"""
common.py — shared plumbing of the /verif checks.

  * ties every process to /repo's *working tree* (never the Solverz copy in site-packages)
  * lake build / axiom audit / source grep  (proof obligations)
  * line-protocol driver (`lake env lean --run Driver.lean`)
  * evidence files, replay files, known findings, VIOLATION / KNOWN-FINDING lines
"""
from __future__ import annotations

import fcntl
import json
import os
import re
import struct
import subprocess
import sys
import time
from pathlib import Path

VERIF = Path(__file__).resolve().parent.parent
LEAN = VERIF / "lean"
REPO = Path(os.environ.get("VERIF_REPO", "/repo"))
GUARD = "SOLVERZ_VERIF"
STD_AXIOMS = {"propext", "Classical.choice", "Quot.sound"}
FORBIDDEN = re.compile(r"\b(sorry|admit|native_decide|bv_decide|implemented_by|unsafe)\b|^axiom\s|maxHeartbeats\s+0\b")


def tie_to_repo():
    """Make `import Solverz` resolve to /repo's working tree and assert it did."""
    os.environ[GUARD] = "1"
    os.environ.setdefault("PYTHONHASHSEED", "0")
    sys.path.insert(0, str(REPO))
    os.environ["PYTHONPATH"] = str(REPO) + (os.pathsep + os.environ["PYTHONPATH"] if os.environ.get("PYTHONPATH") else "")
    import Solverz  # noqa
    f = os.path.realpath(Solverz.__file__)
    if not f.startswith(str(REPO.resolve()) + os.sep):
        raise SystemExit(f"harness error: Solverz imported from {f}, not from {REPO}")
    return Solverz


# ----------------------------------------------------------------------------- floats <-> wire

def f2h(x) -> str:
    x = float(x)
    if x != x:
        return "nan"
    return "%016x" % struct.unpack("<Q", struct.pack("<d", x))[0]


def h2f(s: str) -> float:
    if s == "nan":
        return float("nan")
    return struct.unpack("<d", struct.pack("<Q", int(s, 16)))[0]


def fl(xs) -> str:
    return " ".join(f2h(x) for x in xs)


# ----------------------------------------------------------------------------- lean

class LeanError(Exception):
    pass


def _lock():
    f = open(LEAN / ".build.lock", "w")
    fcntl.flock(f, fcntl.LOCK_EX)
    return f


def lake_build(targets, timeout=3000):
    """Build the given module targets. Returns (ok, log)."""
    lk = _lock()
    try:
        p = subprocess.run(["lake", "build", *targets], cwd=LEAN, capture_output=True, text=True, timeout=timeout)
    finally:
        lk.close()
    return p.returncode == 0, p.stdout + p.stderr


def theorem_names(prop_file: Path):
    names = []
    ns = []
    for line in prop_file.read_text().splitlines():
        m = re.match(r"\s*namespace\s+(\S+)", line)
        if m:
            ns.append(m.group(1))
            continue
        m = re.match(r"\s*end\s+(\S+)", line)
        if m and ns and ns[-1] == m.group(1):
            ns.pop()
            continue
        m = re.match(r"\s*(?:@\[[^\]]*\]\s*)?(?:private\s+|protected\s+)?theorem\s+(\S+)", line)
        if m:
            names.append(".".join(ns + [m.group(1)]))
    return names


def strip_comments(src: str) -> str:
    # remove nested /- -/ and -- comments
    out = []
    depth = 0
    i = 0
    while i < len(src):
        if src.startswith("/-", i):
            depth += 1
            i += 2
        elif src.startswith("-/", i) and depth:
            depth -= 1
            i += 2
        elif depth:
            i += 1
        elif src.startswith("--", i):
            j = src.find("\n", i)
            i = len(src) if j < 0 else j
        else:
            out.append(src[i])
            i += 1
    return "".join(out)


def grep_forbidden(files):
    hits = []
    for f in files:
        body = strip_comments(Path(f).read_text())
        for n, line in enumerate(body.splitlines(), 1):
            if FORBIDDEN.search(line):
                hits.append(f"{f}:{line.strip()[:120]}")
    return hits


def lean_sources():
    return sorted(p for p in (LEAN / "SolverzModel").rglob("*.lean")) + [LEAN / "Driver.lean"]


def prove(prop_id: str, extra_modules=(), extra_files=()):
    """Build Properties/<id>.lean, audit the axioms of every theorem declared there.

    Returns dict(obligations, discharged, failed=[...], log, names, axioms)."""
    mod = f"SolverzModel.Properties.{prop_id}"
    pfile = LEAN / "SolverzModel" / "Properties" / f"{prop_id}.lean"
    names = theorem_names(pfile)
    mods = [mod]
    for xf in extra_files:                       # further property files of the same property (e.g. the thorough-tier part)
        names += theorem_names(LEAN / "SolverzModel" / "Properties" / f"{xf}.lean")
        mods.append(f"SolverzModel.Properties.{xf}")
    res = dict(obligations=len(names), discharged=0, failed=[], names=names, log="", axioms={},
               checker_cmd=f"cd lean && lake build {mod} && lake env lean <generated #print axioms file>")
    ok, log = lake_build([*mods, *extra_modules])
    res["log"] = log[-6000:]
    if not ok:
        # which theorems failed?  (error lines mention the file; we conservatively fail all
        # theorems of the file when the module does not build, then try to be precise)
        failed = set()
        for m in re.finditer(r"error: [^\n]*Properties/%s\.lean:(\d+)" % prop_id, log):
            ln = int(m.group(1))
            lines = pfile.read_text().splitlines()
            for k in range(min(ln, len(lines)) - 1, -1, -1):
                mm = re.match(r"\s*(?:@\[[^\]]*\]\s*)?theorem\s+(\S+)", lines[k])
                if mm:
                    failed.add(mm.group(1))
                    break
        res["failed"] = sorted(failed) or ["<module does not build>"]
        return res
    hits = grep_forbidden(lean_sources())
    if hits:
        res["failed"] = ["forbidden construct: " + h for h in hits]
        return res
    audit = LEAN / ".lake" / f"Audit_{prop_id}.lean"
    audit.parent.mkdir(exist_ok=True)
    audit.write_text("".join(f"import {m}\n" for m in mods) + "".join(f"#print axioms {n}\n" for n in names))
    lk = _lock()
    try:
        p = subprocess.run(["lake", "env", "lean", str(audit)], cwd=LEAN, capture_output=True, text=True, timeout=1200)
    finally:
        lk.close()
    txt = p.stdout + p.stderr
    res["log"] += "\n" + txt[-3000:]
    # parse "'name' depends on axioms: [a, b]" / "'name' does not depend on any axioms"
    flat = re.sub(r"\s+", " ", txt)
    for n in names:
        short = n
        m = re.search(r"'%s' depends on axioms: \[([^\]]*)\]" % re.escape(short), flat)
        if m:
            ax = {a.strip() for a in m.group(1).split(",") if a.strip()}
        elif re.search(r"'%s' does not depend on any axioms" % re.escape(short), flat):
            ax = set()
        else:
            res["failed"].append(f"{n}: no axiom report")
            continue
        res["axioms"][n] = sorted(ax)
        if ax <= STD_AXIOMS:
            res["discharged"] += 1
        else:
            res["failed"].append(f"{n}: non-standard axioms {sorted(ax - STD_AXIOMS)}")
    return res


def leanchecker(modules, timeout=3000):
    lk = _lock()
    try:
        p = subprocess.run(["lake", "env", "leanchecker", *modules], cwd=LEAN, capture_output=True, text=True, timeout=timeout)
    finally:
        lk.close()
    return p.returncode == 0, (p.stdout + p.stderr)[-2000:]


def run_driver(lines, timeout=1200):
    """Send request lines to the Lean driver, return the list of answer lines."""
    ok, log = lake_build(["SolverzModel"])
    if not ok:
        raise LeanError("driver does not build:\n" + log[-3000:])
    data = "\n".join(lines) + "\n"
    p = subprocess.run(["lake", "env", "lean", "--run", "Driver.lean"], cwd=LEAN, input=data,
                       capture_output=True, text=True, timeout=timeout)
    if p.returncode != 0:
        raise LeanError("driver failed:\n" + (p.stderr or p.stdout)[-3000:])
    out = p.stdout.split("\n")
    if out and out[-1] == "":
        out.pop()
    if len(out) != len(lines):
        raise LeanError(f"driver returned {len(out)} lines for {len(lines)} requests")
    return out


# ----------------------------------------------------------------------------- findings / reporting

def known_findings(prop_id):
    f = VERIF / "known_findings.json"
    if not f.exists():
        return []
    data = json.loads(f.read_text())
    return [e for e in data.get("findings", []) if e.get("property") == prop_id and e.get("status") == "open"]


class Report:
    """Collects what one check run did; writes evidence; prints the verdict lines."""

    def __init__(self, prop_id, tier, seed):
        self.id = prop_id
        self.tier = tier
        self.seed = seed
        self.t0 = time.time()
        self.cov = dict(obligations=0, discharged=0, checker_cmd="", trusted_base=[], evaluations=0,
                        distinct_nontrivial=0, rule="", samples=[])
        self.assumptions = []
        self.violations = []      # (what, replay_payload, has_input)
        self.known_hits = {}      # finding key -> description
        self.notes = []

    # -- proof part
    def add_proof(self, pr):
        self.cov["obligations"] += pr["obligations"]
        self.cov["discharged"] += pr["discharged"]
        self.cov["checker_cmd"] = pr["checker_cmd"]
        self.cov.setdefault("theorems", []).extend(pr["names"])
        self.cov.setdefault("axioms_used", sorted({a for v in pr["axioms"].values() for a in v}))
        if self.tier == "thorough" and not pr["failed"]:
            # independent re-check of the compiled property module by the toolchain's kernel replayer
            mod = f"SolverzModel.Properties.{self.id}"
            try:
                ok, log = leanchecker([mod])
            except Exception as ex:  # noqa
                ok, log = False, f"{type(ex).__name__}: {ex}"
            self.cov["leanchecker"] = dict(module=mod, ok=bool(ok), tail=log[-300:])
            if not ok:
                return pr["failed"] + [f"leanchecker rejects {mod}: {log[-200:]}"]
        return pr["failed"]

    def violation(self, what, payload, has_input=True):
        self.violations.append((what, payload, has_input))

    def known(self, key, text):
        self.known_hits[key] = text

    def finish(self):
        ev_dir = VERIF / "evidence"
        ev_dir.mkdir(exist_ok=True)
        rc = 0
        lines = []
        for k, text in self.known_hits.items():
            lines.append(f"KNOWN-FINDING: property={self.id} {text}")
        for old in (VERIF / "replays").glob(f"{self.id}_{self.tier}_{self.seed}_*.json"):
            old.unlink()                          # replays of an earlier run with the same tier and seed would mislead
        for n, (what, payload, has_input) in enumerate(self.violations):
            rp = VERIF / "replays" / f"{self.id}_{self.tier}_{self.seed}_{n}.json"
            rp.parent.mkdir(exist_ok=True)
            rp.write_text(json.dumps(dict(property=self.id, what=what, has_failing_input=has_input, replay=payload),
                                     indent=1, default=str))
            tail = "" if has_input else " no-failing-input-found"
            lines.append(f"VIOLATION property={self.id} replay={rp}{tail}")
            rc = 1
        ev = dict(property_id=self.id, tier=self.tier, seed=int(self.seed), level="proof",
                  coverage=self.cov, assumptions=self.assumptions, wall_s=round(time.time() - self.t0, 2),
                  violations=len(self.violations))
        ev["coverage"]["known_findings_printed"] = sorted(self.known_hits)
        ev["coverage"]["notes"] = self.notes
        ev["coverage"]["violation_summaries"] = [w for w, _, _ in self.violations][:20]
        (ev_dir / f"{self.id}.json").write_text(json.dumps(ev, indent=1, default=str))
        for l in lines:
            print(l)
        if rc == 0:
            print(f"OK property={self.id} tier={self.tier} seed={self.seed} obligations={self.cov['obligations']} "
                  f"discharged={self.cov['discharged']} evaluations={self.cov['evaluations']} wall={ev['wall_s']}s")
        return rc


BASE_TRUST = [
    "Lean 4.33 kernel; axioms limited to propext, Classical.choice, Quot.sound (audited with #print axioms each run)",
    "theorems are about the Lean model; the tie to /repo is the translators / correspondence runs of this check",
]
