"""
rodas_common.py — running the real `Rodas` with the SOLVERZ_VERIF trace hook, scripted event functions of
time, and the protocol line that replays the run on the Lean controller (shared by C08, C09, C10).
"""
from __future__ import annotations

import io
import contextlib
import warnings
import numpy as np

from harness.common import f2h, h2f


def quiet(f, *a, **k):
    with contextlib.redirect_stdout(io.StringIO()), contextlib.redirect_stderr(io.StringIO()), warnings.catch_warnings():
        warnings.simplefilter("ignore")
        return f(*a, **k)


def problems():
    from scipy.sparse import csc_array
    from Solverz.num_api.num_eqn import nDAE
    P = {}
    P["decay"] = (nDAE(csc_array(np.array([[1.0]])), lambda t, y, p: -y, lambda t, y, p: csc_array(np.array([[-1.0]])), {}),
                  np.array([1.0]))
    P["ramp"] = (nDAE(csc_array(np.array([[1.0]])), lambda t, y, p: np.array([1.0]), lambda t, y, p: csc_array(np.array([[0.0]])), {}),
                 np.array([0.0]))
    # stiff-ish nonlinear index-1 DAE (Van der Pol in Lienard form with an algebraic output): produces rejections
    mu = 30.0
    M = csc_array((np.array([1.0, 1.0]), (np.array([0, 1]), np.array([0, 1]))), shape=(3, 3))
    F = lambda t, y, p: np.array([y[1], mu * (1 - y[0] ** 2) * y[1] - y[0], y[2] - y[0] * y[1]])
    J = lambda t, y, p: csc_array(np.array([[0.0, 1.0, 0.0], [-2 * mu * y[0] * y[1] - 1.0, mu * (1 - y[0] ** 2), 0.0], [-y[1], -y[0], 1.0]]))
    P["vdp"] = (nDAE(M, F, J, {}), np.array([2.0, 0.0, 0.0]))
    # forced oscillator
    M2 = csc_array(np.eye(2))
    F2 = lambda t, y, p: np.array([y[1], -4.0 * y[0] + np.sin(3 * t)])
    J2 = lambda t, y, p: csc_array(np.array([[0.0, 1.0], [-4.0, 0.0]]))
    P["osc"] = (nDAE(M2, F2, J2, {}), np.array([1.0, 0.0]))
    return P


def ev_value(c, t):
    """one event component at time t.  `c` is a number (g = t - c) or a tuple: ("q", a, b): (t - a)*(t - b);
    ("k", c, kappa): (t - c)*(1 + kappa*((t - c)*(t - c))) — the operations, in this order, are those of EvKind.eval in the Lean driver"""
    if isinstance(c, tuple):
        if c[0] == "q":
            return (t - c[1]) * (t - c[2])
        if c[0] == "k":
            return (t - c[1]) * (1.0 + c[2] * ((t - c[1]) * (t - c[1])))
        raise ValueError(c)
    return t - c


def make_events(specs, reuse_buffer=False):
    """specs: list of (c, direction, terminal) — event functions g_i(t, y) = t - c_i, or a nonlinear function of t (see ev_value).
    reuse_buffer: the function writes into one preallocated array and returns it on every call (legal user code, D77)"""
    if not specs:
        return None
    dirs = np.array([s[1] for s in specs], dtype=float)
    term = np.array([bool(s[2]) for s in specs])
    if not any(isinstance(s[0], tuple) for s in specs):
        cs = np.array([s[0] for s in specs], dtype=float)
        if reuse_buffer:
            buf = np.zeros(len(specs))

            def ev_buf(t, y):
                buf[:] = t - cs
                return buf, term, dirs
            return ev_buf

        def ev(t, y):
            return t - cs, term, dirs
        return ev
    kinds = [s[0] if isinstance(s[0], tuple) else float(s[0]) for s in specs]

    def ev_nl(t, y):
        tt = float(t)
        return np.array([ev_value(c, tt) for c in kinds], dtype=float), term, dirs
    return ev_nl


def run_rodas(dae, y0, tspan, optkw, specs=(), reuse_buffer=False):
    """returns (sol or exception, trace)"""
    from Solverz import Rodas, Opt
    import Solverz.solvers.daesolver.rodas.rodas as R
    assert R._VERIF, "SOLVERZ_VERIF hook is not active"
    R._verif_trace.clear()
    opt = Opt(event=make_events(list(specs), reuse_buffer=reuse_buffer), **optkw)
    try:
        sol = quiet(Rodas, dae, tspan, y0.copy(), opt)
    except Exception as ex:  # noqa
        tr = list(R._verif_trace)
        R._verif_trace.clear()
        return ex, tr
    tr = list(R._verif_trace)
    R._verif_trace.clear()
    return sol, tr


def protocol_line(tspan, optkw, specs, trace):
    o = dict(fac1=0.2, fac2=6, facmax=6, hinit=None, hmax=None, fix_h=False, event_duration=1e-8)
    o.update({k: v for k, v in optkw.items() if k in o})
    parts = ["c09 rodas t", str(len(tspan))] + [f2h(x) for x in tspan]
    parts += ["opt", f2h(o["fac1"]), f2h(o["fac2"]), f2h(o["facmax"]),
              "none" if o["hinit"] is None else f2h(o["hinit"]), "none" if o["hmax"] is None else f2h(o["hmax"]),
              "1" if o["fix_h"] else "0", f2h(o["event_duration"])]
    parts += ["ev", str(len(specs))]
    for c, d, tm in specs:
        ctok = (c[0] + ":" + f2h(c[1]) + ":" + f2h(c[2])) if isinstance(c, tuple) else f2h(c)
        parts += [ctok, str(int(d)), "1" if tm else "0"]
    parts += ["script", str(len(trace))]
    for r in trace:
        parts += [f2h(r["err"]), f2h(r["fac0"])]
    return " ".join(parts)


def expected_answer(sol, trace):
    T = np.asarray(sol.T, dtype=float)
    te = np.asarray(sol.te, dtype=float) if sol.te is not None else np.array([])
    ie = [int(x) for x in (sol.ie if sol.ie is not None else [])]
    st = sol.stats
    nrej = st.nreject
    failed = "true" if st.ret == "failed" else "false"
    return (f"T {len(T)} " + " ".join(f2h(x) for x in T) + f" te {len(te)} " + " ".join(f2h(x) for x in te) + " ie " +
            " ".join(str(i) for i in ie) + f" stat {st.nstep} {nrej} {failed} {len(trace)}")


def parse_answer(ans):
    """-> dict(T, te, ie, nstep, nreject, failed, attempts, done)"""
    w = ans.split()
    i = 0
    assert w[i] == "T"; n = int(w[i + 1]); T = [h2f(x) for x in w[i + 2:i + 2 + n]]; i += 2 + n
    assert w[i] == "te"; m = int(w[i + 1]); te = [h2f(x) for x in w[i + 2:i + 2 + m]]; i += 2 + m
    assert w[i] == "ie"; j = w.index("stat"); ie = [int(x) for x in w[i + 1:j]]
    return dict(T=T, te=te, ie=ie, nstep=int(w[j + 1]), nreject=int(w[j + 2]), failed=w[j + 3] == "true",
                attempts=int(w[j + 4]), done=(w[j + 5] == "true") if len(w) > j + 5 else None)


def gen_case(rng, with_events=False, multi=False):
    pname = str(rng.choice(["decay", "vdp", "osc", "ramp"]))
    t0 = float(rng.choice([0.0, 0.0, -1.5, 0.25, 10.0, -0.3]))
    span = float(rng.choice([1e-3, 0.5, 2.0, 7.3, 20.0]))
    tend = t0 + span
    shape = str(rng.choice(["two", "uniform", "nonuniform", "dense-fine", "coarse"]))
    if shape == "two":
        tspan = [t0, tend]
    elif shape == "uniform":
        tspan = list(np.linspace(t0, tend, int(rng.integers(3, 40))))
    elif shape == "nonuniform":
        k = int(rng.integers(1, 12))
        tspan = [t0] + sorted(t0 + span * rng.random(k)) + [tend]
        tspan = sorted(set(float(x) for x in tspan))
    elif shape == "dense-fine":
        tspan = list(np.linspace(t0, tend, int(rng.integers(200, 600))))
    else:
        tspan = [t0, t0 + span * 0.5, tend]
    optkw = dict(rtol=float(rng.choice([1e-3, 1e-5, 1e-7])), atol=float(rng.choice([1e-6, 1e-9])))
    if rng.random() < 0.4:
        optkw["hmax"] = float(span * rng.choice([0.01, 0.1, 0.3]))
    if rng.random() < 0.4:
        optkw["hinit"] = float(span * rng.choice([1e-4, 1e-2, 0.2, 2.0]))
    if rng.random() < 0.3:
        optkw["scheme"] = str(rng.choice(["rodasp", "rodas5p"]))
    if rng.random() < 0.15:
        optkw["facmax"] = float(rng.choice([2.0, 1.5]))
    specs = []
    if with_events:
        ne = int(rng.integers(1, 5)) if multi else 1
        for _ in range(ne):
            c = t0 + span * float(rng.choice([0.1, 0.37, 0.5, 0.9, 0.999, 1.5, 0.0, 1.0]))
            if rng.random() < 0.5:
                c = t0 + span * float(rng.random())
            specs.append((float(c), int(rng.choice([-1, 0, 0, 1])), bool(rng.random() < 0.3)))
    return pname, [float(x) for x in tspan], optkw, specs
