"""
T5 — effect summaries of the solver functions, by an `ast` walk over /repo's solver modules.

For every function reachable from the nine public solvers (inside Solverz/solvers) it lists
  * opt_writes    attribute stores / augmented stores on a parameter object (`opt.hmax = …`)
  * arg_stores    subscript stores, slice stores, augmented assignments and calls of mutating methods on a
                  parameter or on a local alias of a parameter (`y = y0`, `p = dae.p`, `y[idx] = …`, `y += …`)
  * global_state  `global` statements, stores into module-level names, memoising decorators
                  (`lru_cache`, `cache`), mutable default arguments that are mutated
Aliasing is tracked conservatively: a name bound by plain assignment from a parameter, from an alias, or
from an attribute of one (`y0.array`, `dae.p`) is an alias until it is rebound to a call result / expression.
"""
import ast
import re
from pathlib import Path

SOLVERS = {
    "Rodas": "Solverz/solvers/daesolver/rodas/rodas.py",
    "ode15s": "Solverz/solvers/daesolver/ode15s/ode15s.py",
    "sicnm": "Solverz/solvers/nlaesolver/sicnm.py",
    "nr_method": "Solverz/solvers/nlaesolver/nr.py",
    "continuous_nr": "Solverz/solvers/nlaesolver/cnr.py",
    "lm": "Solverz/solvers/nlaesolver/lm.py",
    "backward_euler": "Solverz/solvers/daesolver/beuler.py",
    "implicit_trapezoid": "Solverz/solvers/daesolver/trapezoidal.py",
    "fdae_solver": "Solverz/solvers/fdesolver.py",
}
HELPERS = {
    "DaeIc": "Solverz/solvers/daesolver/daeic.py", "getyp0": "Solverz/solvers/daesolver/daeic.py",
    "dfdt": "Solverz/solvers/daesolver/rodas/rodas.py",
    "ae_io_parser": "Solverz/solvers/parser.py", "dae_io_parser": "Solverz/solvers/parser.py", "fdae_io_parser": "Solverz/solvers/parser.py",
    "numjac": "Solverz/num_api/numjac.py", "ntrp15s": "Solverz/solvers/daesolver/ode15s/ntrp15s.py",
}
MUTATORS = {"append", "extend", "insert", "pop", "remove", "clear", "sort", "reverse", "update", "setdefault", "popitem",
            "fill", "resize", "put", "itemset", "__setitem__", "add", "discard"}
MEMO = {"lru_cache", "cache", "cached_property", "memoize"}


def _root(node):
    while isinstance(node, (ast.Attribute, ast.Subscript)):
        node = node.value
    return node.id if isinstance(node, ast.Name) else None


class FnEffects(ast.NodeVisitor):
    def __init__(self, fn, module_names, hook_ok=False):
        self.hook_ok = hook_ok
        self.hook_sites = 0
        self.params = {a.arg for a in fn.args.args + fn.args.kwonlyargs}
        if fn.args.vararg:
            self.params.add(fn.args.vararg.arg)
        self.alias = {p: p for p in self.params}       # local name -> parameter it may alias
        self.module_names = module_names
        self.opt_writes, self.arg_stores, self.global_state = [], [], []
        self.fn = fn
        for d in fn.decorator_list:
            n = d.func if isinstance(d, ast.Call) else d
            nm = n.attr if isinstance(n, ast.Attribute) else getattr(n, "id", "")
            if nm in MEMO:
                self.global_state.append(f"{fn.name}: memoising decorator @{nm}")
        for stmt in fn.body:
            self.visit(stmt)

    # nested function definitions (closures) read the enclosing names; analyse their bodies too
    def visit_FunctionDef(self, node):
        for stmt in node.body:
            self.visit(stmt)

    def visit_Lambda(self, node):
        self.visit(node.body)

    def visit_If(self, node):
        # the registered verification hook (MANIFEST.hooks): `if _VERIF:` bodies that only build the local record `_vr` and append to
        # `_verif_trace`, where
        # _VERIF is the SOLVERZ_VERIF=1 environment guard and _verif_trace is a write-only module-level log
        # (both facts are checked per file by `hook_is_write_only`).  With the guard off the branch is dead;
        # with it on the log is never read by the package, so it cannot carry state between calls.
        if (self.hook_ok and isinstance(node.test, ast.Name) and node.test.id == "_VERIF" and not node.orelse
                and all(_is_hook_stmt(st) for st in node.body)):
            self.hook_sites += 1
            for st in node.body:                      # the values recorded are still analysed (they must be pure reads)
                val = st.value
                if isinstance(val, ast.Call):
                    for a in val.args + [k.value for k in val.keywords]:
                        self.visit(a)
                else:
                    self.visit(val)
            return
        self.generic_visit(node)

    def visit_Global(self, node):
        self.global_state.append(f"{self.fn.name}: global {', '.join(node.names)}")

    def _store_target(self, t, why):
        if isinstance(t, ast.Attribute):
            r = _root(t)
            if r in self.alias:
                self.opt_writes.append(f"{self.fn.name}: {self.alias[r]}.{ast.unparse(t).split('.', 1)[1]} {why}")
            elif r in self.module_names and r not in self._locals():
                self.global_state.append(f"{self.fn.name}: store to module-level {ast.unparse(t)}")
        elif isinstance(t, ast.Subscript):
            r = _root(t)
            if r in self.alias:
                self.arg_stores.append(f"{self.fn.name}: {ast.unparse(t)} {why} (aliases parameter {self.alias[r]})")
            elif r in self.module_names and r not in self._locals():
                self.global_state.append(f"{self.fn.name}: store into module-level {ast.unparse(t)}")
        elif isinstance(t, (ast.Tuple, ast.List)):
            for e in t.elts:
                self._store_target(e, why)

    def _locals(self):
        return self._assigned

    _assigned = frozenset()

    def visit_Assign(self, node):
        self.generic_visit(node.value) if False else self.visit(node.value)
        for t in node.targets:
            self._store_target(t, "=")
            if isinstance(t, ast.Name):
                self._assigned = frozenset(self._assigned | {t.id})
                v = node.value
                src = None
                if isinstance(v, ast.Name) and v.id in self.alias:
                    src = self.alias[v.id]
                elif isinstance(v, ast.Attribute) and _root(v) in self.alias:
                    src = self.alias[_root(v)]
                elif isinstance(v, ast.Subscript) and _root(v) in self.alias and not isinstance(v.slice, ast.Tuple):
                    src = None      # indexing makes a copy or a view; views of parameters via basic slices:
                    if isinstance(v.slice, ast.Slice):
                        src = self.alias[_root(v)]
                if src is not None:
                    self.alias[t.id] = src
                else:
                    self.alias.pop(t.id, None) if t.id not in self.params or True else None
            elif isinstance(t, (ast.Tuple, ast.List)):
                for e in t.elts:
                    if isinstance(e, ast.Name):
                        self.alias.pop(e.id, None)

    def visit_AugAssign(self, node):
        self.visit(node.value)
        t = node.target
        if isinstance(t, ast.Name):
            if t.id in self.alias:
                self.arg_stores.append(f"{self.fn.name}: {t.id} {type(node.op).__name__}= … may act in place on parameter {self.alias[t.id]}")
        else:
            self._store_target(t, "op=")

    def visit_Call(self, node):
        f = node.func
        if isinstance(f, ast.Attribute) and f.attr in MUTATORS:
            r = _root(f.value)
            if r in self.alias:
                self.arg_stores.append(f"{self.fn.name}: {ast.unparse(f)}(…) mutates parameter {self.alias[r]}")
            elif r in self.module_names and r not in self._locals():
                self.global_state.append(f"{self.fn.name}: {ast.unparse(f)}(…) mutates module-level {r}")
        self.generic_visit(node)

    def visit_For(self, node):
        if isinstance(node.target, ast.Name):
            self.alias.pop(node.target.id, None)
        self.generic_visit(node)


def _is_trace_append(st):
    return (isinstance(st, ast.Expr) and isinstance(st.value, ast.Call) and isinstance(st.value.func, ast.Attribute)
            and st.value.func.attr == "append" and isinstance(st.value.func.value, ast.Name)
            and st.value.func.value.id == "_verif_trace")


def _is_record_stmt(st):
    """statements that only build the hook's local record `_vr`: `_vr = dict(...)`, `_vr[...] = ...`, `_vr.update(...)`,
    `_vr[...].append(...)`"""
    if isinstance(st, ast.Assign) and len(st.targets) == 1 and _root(st.targets[0]) == "_vr":
        return True
    if isinstance(st, ast.Expr) and isinstance(st.value, ast.Call) and isinstance(st.value.func, ast.Attribute) \
            and st.value.func.attr in ("update", "append") and _root(st.value.func.value) == "_vr":
        return True
    return False


def _is_hook_stmt(st):
    return _is_trace_append(st) or _is_record_stmt(st)


def _hook_bodies(tree):
    for n in ast.walk(tree):
        if isinstance(n, ast.If) and isinstance(n.test, ast.Name) and n.test.id == "_VERIF" and not n.orelse \
                and all(_is_hook_stmt(st) for st in n.body):
            yield n


def hook_is_write_only(tree) -> bool:
    """_VERIF is exactly `<os>.environ.get('SOLVERZ_VERIF') == '1'`, assigned once at module level; every occurrence of
    _verif_trace is its module-level `= []` or an `.append(...)` statement directly under `if _VERIF:`; the local record
    `_vr` occurs only inside such `if _VERIF:` bodies (so nothing outside the hook can read what the hook wrote)."""
    guard = [st for st in tree.body if isinstance(st, ast.Assign) and any(isinstance(t, ast.Name) and t.id == "_VERIF" for t in st.targets)]
    if len(guard) != 1:
        return False
    g = ast.unparse(guard[0].value).replace('"', "'")
    if not re.fullmatch(r"_?os\.environ\.get\('SOLVERZ_VERIF'\) == '1'", g):
        return False
    stores = [n for n in ast.walk(tree) if isinstance(n, ast.Name) and n.id == "_VERIF" and isinstance(n.ctx, ast.Store)]
    if len(stores) != 1:
        return False
    allowed = set()
    for st in tree.body:
        if isinstance(st, ast.Assign) and len(st.targets) == 1 and isinstance(st.targets[0], ast.Name) and st.targets[0].id == "_verif_trace":
            if not (isinstance(st.value, ast.List) and not st.value.elts):
                return False
            allowed.add(id(st.targets[0]))
    for n in _hook_bodies(tree):
        for st in n.body:
            for sub in ast.walk(st):
                if isinstance(sub, ast.Name) and sub.id in ("_verif_trace", "_vr"):
                    allowed.add(id(sub))
            if _is_trace_append(st) is False and any(isinstance(sub, ast.Name) and sub.id == "_verif_trace" for sub in ast.walk(st)):
                return False                      # the log is only appended to, never read
    for n in ast.walk(tree):
        if isinstance(n, ast.Name) and n.id in ("_verif_trace", "_vr") and id(n) not in allowed:
            return False
        if isinstance(n, ast.Global) and any(x in n.names for x in ("_verif_trace", "_VERIF", "_vr")):
            return False
    return True


def analyse(repo: Path):
    out = {}
    files = {}
    for name, rel in {**SOLVERS, **HELPERS}.items():
        path = repo / rel
        if rel not in files:
            tree = ast.parse(path.read_text())
            mod_names = set()
            for st in tree.body:
                if isinstance(st, ast.Assign):
                    for t in st.targets:
                        if isinstance(t, ast.Name):
                            mod_names.add(t.id)
            files[rel] = (tree, mod_names, hook_is_write_only(tree))
        tree, mod_names, hook_ok = files[rel]
        fn = None
        for st in ast.walk(tree):
            if isinstance(st, ast.FunctionDef) and st.name == name:
                fn = st
                break
        if fn is None:
            out[name] = dict(missing=True, opt_writes=[f"{name}: function not found in {rel}"], arg_stores=[], global_state=[])
            continue
        e = FnEffects(fn, mod_names, hook_ok)
        out[name] = dict(opt_writes=e.opt_writes, arg_stores=e.arg_stores, global_state=e.global_state, file=rel,
                         hook_sites=e.hook_sites)
        # other memoised / stateful helpers in the same file: every top-level function of the file is analysed for stores into
        # module-level state (a solver can reach them by a call)
        for st in tree.body:
            if isinstance(st, ast.FunctionDef) and st.name not in (name,):
                for d in st.decorator_list:
                    n = d.func if isinstance(d, ast.Call) else d
                    nm = n.attr if isinstance(n, ast.Attribute) else getattr(n, "id", "")
                    if nm in MEMO:
                        out[name]["global_state"].append(f"{rel}: helper {st.name} is memoised with @{nm}")
                if st.name not in SOLVERS and st.name not in HELPERS:
                    he = FnEffects(st, mod_names, hook_ok)
                    for g in he.global_state:
                        out[name]["global_state"].append(f"{rel}: helper {g}")
    return out


def q(s):
    return '"' + s.replace("\\", "\\\\").replace('"', '\\"') + '"'


def render(repo: Path):
    eff = analyse(repo)
    lines = ["/- GENERATED by harness/translate/effects.py from /repo's solver sources — do not edit -/",
             "import SolverzModel.Core.Effects", "namespace Solverz.Generated", "open Solverz", ""]
    for name in list(SOLVERS) + list(HELPERS):
        e = eff[name]
        lines.append(f"def eff_{name} : Effects where")
        lines.append(f"  name := {q(name)}")
        lines.append("  optWrites := [" + ", ".join(q(x) for x in e["opt_writes"]) + "]")
        lines.append("  argStores := [" + ", ".join(q(x) for x in e["arg_stores"]) + "]")
        lines.append("  globalState := [" + ", ".join(q(x) for x in e["global_state"]) + "]")
        lines.append("")
    lines.append("def solverEffects : List Effects := [" + ", ".join(f"eff_{n}" for n in SOLVERS) + "]")
    lines.append("def helperEffects : List Effects := [" + ", ".join(f"eff_{n}" for n in HELPERS) + "]")
    lines.append("end Solverz.Generated")
    return "\n".join(lines) + "\n", eff


def write(lean_dir: Path, repo: Path):
    txt, eff = render(repo)
    f = lean_dir / "SolverzModel" / "Generated" / "Effects.lean"
    changed = (not f.exists()) or f.read_text() != txt
    if changed:
        f.write_text(txt)
    return changed, eff
