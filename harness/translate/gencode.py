"""
T6 — generated numerical code -> purity IR (Core/IR.lean).

Input: the Python text of `F_`, `J_`, `Hvp_` as produced by `made_numerical(..., output_code=True)`, or the
`num_func.py` of a rendered module.  Output: one IR program per public function, with the module's
`inner_*` callees inlined.

Object numbering: arguments `y_` -> 0, `p_` -> 1, `v_` -> 2, previous-step vectors -> 3.., then protected
pseudo-arguments for every module-level object other than the scratch buffers (row, col, setting, ...);
`glob g` is emitted only for the scratch buffers _F_ (0), _data_ (1), _data_hvp (2).
A statement form the translator does not know stops the translation (TieBroken).
"""
import ast

SCRATCH = {"_F_": 0, "_data_": 1, "_data_hvp": 2}
PROTECTED_GLOBALS = ["row", "col", "row_hvp", "col_hvp", "data_hvp", "setting", "p_", "y", "auxiliary"]
MUTATING_METHODS = {"extend", "append", "insert", "fill", "sort", "resize", "put", "update", "pop", "clear", "remove", "itemset"}
ALIASING_CALLS = {"asarray", "asanyarray", "reshape", "ravel", "view", "squeeze", "atleast_1d", "ascontiguousarray", "array"}


class TieBroken(Exception):
    pass


def _root(n):
    while isinstance(n, (ast.Subscript, ast.Attribute)):
        n = n.value
    return n.id if isinstance(n, ast.Name) else None


class Translator:
    def __init__(self, module_funcs, wrapper_of=None):
        self.funcs = module_funcs          # name -> FunctionDef of callee candidates
        self.counter = 0

    def fresh_name(self, base="_tmp"):
        self.counter += 1
        return f"{base}{self.counter}"

    def arg_index(self, fn):
        idx = {}
        extra = 3
        for a in fn.args.args:
            n = a.arg
            if n == "t":
                continue
            if n == "y_":
                idx[n] = 0
            elif n == "p_":
                idx[n] = 1
            elif n == "v_":
                idx[n] = 2
            else:
                idx[n] = extra
                extra += 1
        return idx, extra

    def translate(self, fn):
        """IR for one public function (FunctionDef)."""
        argidx, nargs0 = self.arg_index(fn)
        prog = []
        bound = set()
        for n, k in argidx.items():
            prog.append(("arg", n, k)); bound.add(n)
        self.nargs_base = nargs0
        self.pseudo = {}
        self._body(fn.body, prog, bound, top=True)
        nargs = nargs0 + len(PROTECTED_GLOBALS)
        return prog, nargs

    def _global_ref(self, name, prog, bound):
        if name in bound:
            return
        if name in SCRATCH:
            prog.append(("glob", name, SCRATCH[name]))
        elif name in PROTECTED_GLOBALS:
            prog.append(("arg", name, self.nargs_base + PROTECTED_GLOBALS.index(name)))
        else:
            raise TieBroken(f"unknown free name {name}")
        bound.add(name)

    def _expr_value(self, v, prog, bound, target):
        """bind `target` to the object denoted by expression v"""
        if isinstance(v, ast.Name):
            self._global_ref(v.id, prog, bound)
            prog.append(("view", target, v.id))
        elif isinstance(v, ast.Subscript):
            r = _root(v)
            if r is None:
                raise TieBroken("subscript of a non-name: " + ast.unparse(v))
            self._global_ref(r, prog, bound)
            # y_[a:b], p_["k"], x[0] (numpy scalar: a copy, but treating it as a view is conservative)
            prog.append(("view", target, r))
        elif isinstance(v, ast.Call):
            f = v.func
            # p_["u"].get_v_t(t): may hand out the parameter's own storage
            if isinstance(f, ast.Attribute) and f.attr == "get_v_t":
                r = _root(f.value)
                self._global_ref(r, prog, bound)
                prog.append(("view", target, r))
            elif isinstance(f, ast.Attribute) and f.attr == "copy" and not v.args:
                prog.append(("fresh", target))
            elif isinstance(f, ast.Attribute) and f.attr in ALIASING_CALLS:
                r = _root(f.value)
                if r in ("np", "numpy") or r is None:
                    a0 = v.args[0] if v.args else None
                    r2 = _root(a0) if a0 is not None else None
                    if r2 is not None:
                        self._global_ref(r2, prog, bound) if r2 not in bound else None
                        prog.append(("view", target, r2))
                    else:
                        prog.append(("fresh", target))
                else:
                    self._global_ref(r, prog, bound) if r not in bound else None
                    prog.append(("view", target, r))
            elif isinstance(f, ast.Name) and f.id in self.funcs and f.id.startswith("inner_") and any(
                    isinstance(s, ast.Assign) and isinstance(s.targets[0], ast.Subscript) for s in self.funcs[f.id].body):
                # a filling callee: inline it
                res = self._inline(f.id, v.args, prog, bound)
                prog.append(("view", target, res))
            elif isinstance(f, ast.Name) and f.id in ALIASING_CALLS:
                a0 = v.args[0] if v.args else None
                r2 = _root(a0) if a0 is not None else None
                if r2 is not None:
                    self._global_ref(r2, prog, bound) if r2 not in bound else None
                    prog.append(("view", target, r2))
                else:
                    prog.append(("fresh", target))
            else:
                # arithmetic helper / constructor: a new object (np.zeros, coo_array(...).tocsc(), inner_F0(...), trigger functions)
                prog.append(("fresh", target))
        else:
            # BinOp, UnaryOp, List, Tuple, Constant, ...: evaluation allocates
            prog.append(("fresh", target))
        bound.add(target)

    def _inline(self, fname, args, prog, bound):
        callee = self.funcs[fname]
        params = [a.arg for a in callee.args.args]
        if len(params) != len(args):
            raise TieBroken(f"arity mismatch calling {fname}")
        ren = {}
        for p, a in zip(params, args):
            loc = self.fresh_name(f"_{fname}_{p}_")
            self._expr_value(a, prog, bound, loc)
            ren[p] = loc
        result = [None]
        self._body(callee.body, prog, bound, top=False, rename=ren, result=result)
        if result[0] is None:
            raise TieBroken(f"{fname} has no return")
        return result[0]

    def _body(self, body, prog, bound, top, rename=None, result=None):
        rn = (lambda n: rename.get(n, n)) if rename else (lambda n: n)
        for st in body:
            if isinstance(st, ast.Expr) and isinstance(st.value, ast.Constant):
                continue
            if isinstance(st, ast.Assign):
                if len(st.targets) != 1:
                    raise TieBroken("multiple assignment targets")
                t = st.targets[0]
                if isinstance(t, ast.Name):
                    v = st.value if not rename else _rename_expr(st.value, rename)
                    tgt = rn(t.id) if rename and t.id in rename else (t.id if not rename else self.fresh_name(f"_{t.id}_"))
                    if rename is not None and t.id not in rename:
                        rename[t.id] = tgt
                    self._expr_value(v, prog, bound, tgt)
                elif isinstance(t, ast.Subscript):
                    r = _root(t)
                    r = rn(r)
                    if r not in bound:
                        self._global_ref(r, prog, bound)
                    prog.append(("store", r))
                else:
                    raise TieBroken("assignment target " + ast.unparse(t))
            elif isinstance(st, ast.AugAssign):
                r = rn(_root(st.target))
                if r not in bound:
                    self._global_ref(r, prog, bound)
                prog.append(("store", r))
            elif isinstance(st, ast.Expr) and isinstance(st.value, ast.Call):
                f = st.value.func
                if isinstance(f, ast.Attribute) and f.attr in MUTATING_METHODS:
                    r = rn(_root(f.value))
                    if r not in bound:
                        self._global_ref(r, prog, bound)
                    prog.append(("store", r))
                else:
                    raise TieBroken("expression statement " + ast.unparse(st))
            elif isinstance(st, ast.Return):
                v = st.value if not rename else _rename_expr(st.value, rename)
                if top:
                    tmp = self.fresh_name("_ret")
                    self._expr_value(v, prog, bound, tmp)
                    prog.append(("ret", tmp))
                else:
                    tmp = self.fresh_name("_res")
                    self._expr_value(v, prog, bound, tmp)
                    result[0] = tmp
            else:
                raise TieBroken("statement " + type(st).__name__ + ": " + ast.unparse(st)[:80])


def _rename_expr(e, ren):
    class R(ast.NodeTransformer):
        def visit_Name(self, node):
            if node.id in ren:
                return ast.copy_location(ast.Name(id=ren[node.id], ctx=node.ctx), node)
            return node
    import copy
    return R().visit(copy.deepcopy(e))


def programs_from_text(text, public=("F_", "J_", "Hvp_")):
    """text: python source holding the public functions (and possibly inner_* helpers and the F_ wrapper)."""
    tree = ast.parse(text)
    funcs = {}
    order = []
    for st in tree.body:
        if isinstance(st, ast.FunctionDef):
            order.append(st)
    # the rendered module re-defines F_ as a copying wrapper around `_F_fill_ = F_`
    wrappers = {}
    defs = {}
    aliases = {}
    for st in tree.body:
        if isinstance(st, ast.FunctionDef):
            if st.name in defs and st.args.vararg is not None:
                wrappers[st.name] = st
            else:
                defs[st.name] = st
        elif isinstance(st, ast.Assign) and isinstance(st.value, ast.Name) and len(st.targets) == 1 and isinstance(st.targets[0], ast.Name):
            aliases[st.targets[0].id] = st.value.id
    out = {}
    for name in public:
        if name not in defs:
            continue
        tr = Translator(defs)
        prog, nargs = tr.translate(defs[name])
        if name in wrappers:
            w = wrappers[name]
            # expected form: return <alias>(*args).copy()
            ok = False
            if len(w.body) == 1 and isinstance(w.body[0], ast.Return):
                v = w.body[0].value
                if (isinstance(v, ast.Call) and isinstance(v.func, ast.Attribute) and v.func.attr == "copy"
                        and isinstance(v.func.value, ast.Call) and isinstance(v.func.value.func, ast.Name)
                        and aliases.get(v.func.value.func.id) == name):
                    ok = True
                    # the wrapped function's own `return` is consumed by `.copy()`
                    assert prog and prog[-1][0] == "ret"
                    prog = prog[:-1] + [("fresh", "_wrapped_copy"), ("ret", "_wrapped_copy")]
            if not ok:
                raise TieBroken(f"wrapper of {name} has an unknown form: {ast.unparse(w)[:200]}")
        out[name] = (prog, nargs)
    return out


def lean_prog(prog):
    def q(s):
        return '"' + s + '"'
    items = []
    for st in prog:
        if st[0] == "arg":
            items.append(f".arg {q(st[1])} {st[2]}")
        elif st[0] == "glob":
            items.append(f".glob {q(st[1])} {st[2]}")
        elif st[0] == "view":
            items.append(f".view {q(st[1])} {q(st[2])}")
        elif st[0] == "fresh":
            items.append(f".fresh {q(st[1])}")
        elif st[0] == "store":
            items.append(f".store {q(st[1])}")
        elif st[0] == "ret":
            items.append(f".ret {q(st[1])}")
    return "[" + ", ".join(items) + "]"
