"""C06 / f2: lm cannot solve a model whose Jacobian is dense, i.e. the model made_numerical returns by default.

made_numerical(eqs, y) has sparse=False as its default and then J_ returns a numpy.ndarray.  nr_method and
continuous_nr solve such a model (laesolver.solve dispatches on the matrix type); lm, whose docstring says that it
"uses only dense Jacobian", calls eqn.J(x, p).toarray() unconditionally and dies with AttributeError.
Model: 3*x + z - 3.63 = 0, x*z + 2*z - 2.1384 = 0, root (0.97, 0.72); start 0.1 away, ite_tol 1e-8.
"""
import os
import sys

ROOT = os.environ.get('SOLVERZ_ROOT', '/tmp/pw2_C06')
sys.path.insert(0, ROOT)
import io
import contextlib
import numpy as np
import Solverz

assert Solverz.__file__.startswith(ROOT), Solverz.__file__
from Solverz import Model, Var, Eqn, made_numerical, nr_method, continuous_nr, lm, Opt

m = Model()
m.x = Var('x', 0.97)
m.z = Var('z', 0.72)
m.e1 = Eqn('e1', 3 * m.x + m.z - 3.63)
m.e2 = Eqn('e2', m.x * m.z + 2 * m.z - 2.1384)
with contextlib.redirect_stdout(io.StringIO()):
    spf, y0 = m.create_instance()
    mdl = made_numerical(spf, y0)  # all defaults: dense Jacobian

ystar = np.array([0.97, 0.72])
tol = 1e-8
start = ystar + np.array([0.1, -0.1])
problems = []
for name, solver in (('nr_method', nr_method), ('continuous_nr', continuous_nr), ('lm', lm)):
    try:
        with contextlib.redirect_stdout(io.StringIO()):
            sol = solver(mdl, start.copy(), Opt(ite_tol=tol))
    except Exception as e:
        print(f'{name:14s} raised {e!r}')
        problems.append(f'{name}: expected the root {ystar} with succeed=True, got {e!r}')
        continue
    res = np.max(np.abs(mdl.F(sol.y, mdl.p)))
    err = np.max(np.abs(sol.y - ystar))
    print(f'{name:14s} succeed={sol.stats.succeed} max|F(y)|={res:.3e} |y-y*|={err:.3e}')
    if not (sol.stats.succeed and res < tol and err < 1e-6):
        problems.append(f'{name}: expected the root, got succeed={sol.stats.succeed}, max|F|={res:.3e}, err={err:.3e}')

assert not problems, 'C06 violated:\n  ' + '\n  '.join(problems)
print('ok')
