"""C06 / f1: a single-precision start makes nr_method and continuous_nr test the residual in single precision.

Model (literal coefficients only, so nothing promotes the arithmetic to double):
    e1:  3*x + z    - 3.63 = 0
    e2:  x*z + 2*z  - 2.1384 = 0          root  x = 0.97, z = 0.72   (J regular, cond ~ 3)
Start: the root itself, stored as float32 (e.g. a previous solution kept in single precision), ite_tol = 1e-10.
The start is ~1e-8 away from the root, far inside the Newton basin; the double-precision residual there is ~1e-7,
1000 times the tolerance.  Every solver must therefore either polish the point to |F| < 1e-10 or report failure.
"""
import os
import sys

ROOT = os.environ.get('SOLVERZ_ROOT', '/tmp/pw2_C06')
sys.path.insert(0, ROOT)
import io
import contextlib
import numpy as np
import Solverz

assert Solverz.__file__.startswith(ROOT), Solverz.__file__
from Solverz import Model, Var, Eqn, made_numerical, nr_method, continuous_nr, lm, sicnm, Opt

m = Model()
m.x = Var('x', 0.97)
m.z = Var('z', 0.72)
m.e1 = Eqn('e1', 3 * m.x + m.z - 3.63)
m.e2 = Eqn('e2', m.x * m.z + 2 * m.z - 2.1384)
with contextlib.redirect_stdout(io.StringIO()):
    spf, y0 = m.create_instance()
    mdl = made_numerical(spf, y0, sparse=True, make_hvp=True)

ystar = np.array([0.97, 0.72])
assert np.max(np.abs(mdl.F(ystar, mdl.p))) < 1e-15
condJ = np.linalg.cond(mdl.J(ystar, mdl.p).toarray())
tol = 1e-10
start = ystar.astype(np.float32)  # legal ndarray start, 1e-8 from the root

problems = []
for name, solver in (('nr_method', nr_method), ('continuous_nr', continuous_nr), ('lm', lm), ('sicnm', sicnm)):
    with contextlib.redirect_stdout(io.StringIO()):
        sol = solver(mdl, start.copy(), Opt(ite_tol=tol))
    y = np.asarray(sol.y, dtype=np.float64)  # the very same numbers, widened exactly
    res = np.max(np.abs(mdl.F(y, mdl.p)))
    err = np.max(np.abs(y - ystar))
    print(f'{name:14s} succeed={sol.stats.succeed!s:5s} nstep={sol.stats.nstep:3d} dtype={np.asarray(sol.y).dtype} '
          f'max|F(y)|={res:.3e} |y-y*|={err:.3e}')
    if sol.stats.succeed != bool(res < tol):
        problems.append(f'{name}: succeed={sol.stats.succeed} but max|F(y, p)| = {res:.3e} at the returned point '
                        f'(expected succeed == (max|F| < {tol:g}))')
    if sol.stats.succeed and err > 10 * tol * condJ:
        problems.append(f'{name}: start inside the Newton basin, returned point is {err:.3e} from the root, '
                        f'expected <= tol*cond(J) ~ {tol * condJ:.1e}')

assert not problems, 'C06 violated:\n  ' + '\n  '.join(problems)
print('ok')
