"""C09 / f2: a two-node Rodas run that needs more than 10000 steps.

Harmonic oscillator x' = v, v' = -x on [0, 200] with hmax = 0.015 (>= 13334 steps).  The property: the returned
times end at tend unless a terminal event or a REPORTED failure stops the run.  There is no event here, so either
T[-1] == 200 or the run must carry the failure flag every other Rodas failure carries (stats.ret == 'failed').
The same request is honoured by ode15s (which enlarges its buffers) and by Rodas itself as soon as a third node is
given (tspan = [0, 100, 200], same 13336 internal steps).
"""
import os
import sys
import warnings

ROOT = os.environ.get('SOLVERZ_ROOT', '/tmp/pw2_C09')
sys.path.insert(0, ROOT)
import numpy as np
import Solverz

assert Solverz.__file__.startswith(ROOT), Solverz.__file__
from Solverz import Model, Var, Ode, Opt, Rodas, ode15s, made_numerical

m = Model()
m.x = Var('x', 1.0)
m.v = Var('v', 0.0)
m.f1 = Ode('f1', m.v, m.x)
m.f2 = Ode('f2', -m.x, m.v)
sdae, y0 = m.create_instance()
ndae = made_numerical(sdae, y0, sparse=True)

tend = 200.0
hmax = 0.015
bad = []
shown = []
warnings.simplefilter('default')  # the interpreter's default action for a UserWarning: shown once per code location
warnings.showwarning = lambda message, *a, **k: shown.append(str(message)[:40])
for call in (1, 2):
    n0 = len(shown)
    sol = Rodas(ndae, [0, tend], y0, Opt(hmax=hmax))
    print(f'Rodas call {call}: {len(sol.T)} rows, T[-1] = {sol.T[-1]!r}, stats.ret = {sol.stats.ret!r}, '
          f'warnings shown during this call: {shown[n0:]}')
    if not (sol.T[-1] == tend or sol.stats.ret == 'failed'):
        bad.append(f'Rodas two-node call {call}: expected T[-1] == {tend} (or stats.ret == "failed"), '
                   f'got T[-1] = {sol.T[-1]!r} with stats.ret = {sol.stats.ret!r} '
                   f'and {len(shown) - n0} warning(s) shown')

sol3 = Rodas(ndae, [0, tend / 2, tend], y0, Opt(hmax=hmax))
print(f'Rodas, three nodes: T = {sol3.T}, {sol3.stats.nstep} steps')
solo = ode15s(ndae, [0, tend], y0, Opt(hmax=hmax))
print(f'ode15s, two nodes : {len(solo.T)} rows, T[-1] = {solo.T[-1]!r}')
assert sol3.T[-1] == tend and solo.T[-1] == tend

assert not bad, '; '.join(bad)
print('OK')
