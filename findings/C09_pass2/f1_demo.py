"""C09 / f1: two event functions that change sign inside ONE Rodas step.

Free fall h' = v, v' = -9.8 from h = 10.  Event 0: the body passes a sensor at h = 0.1 (t = 1.42141...),
event 1: it passes h = 0 (t = 1.42857...).  Neither event is terminal and nothing is re-initialised, so the
events must not change the trajectory: every returned row Y[k] has to be the state at the returned time T[k]
(h(t) = 10 - 4.9 t^2, v(t) = -9.8 t; Rodas integrates this polynomial problem to ~1e-13), in the two-node
mode (T = steps and event times) as well as at requested nodes (T = tspan).
"""
import os
import sys

ROOT = os.environ.get('SOLVERZ_ROOT', '/tmp/pw2_C09')
sys.path.insert(0, ROOT)
import numpy as np
import Solverz

assert Solverz.__file__.startswith(ROOT), Solverz.__file__
from Solverz import Model, Var, Ode, Opt, Rodas, made_numerical

m = Model()
m.h = Var('h', 10.0)
m.v = Var('v', 0.0)
m.f1 = Ode('f1', m.v, m.h)
m.f2 = Ode('f2', -9.8, m.v)
sdae, y0 = m.create_instance()
ndae = made_numerical(sdae, y0, sparse=True)


def events(t, y):
    value = np.array([y[0] - 0.1, y[0]])
    isterminal = np.array([0, 0])
    direction = np.array([0, 0])
    return value, isterminal, direction


def exact(T):
    T = np.asarray(T)
    return np.column_stack([10 - 4.9 * T ** 2, -9.8 * T])


te_exact = np.sqrt(np.array([9.9, 10.0]) / 4.9)
bad = []
exercised = 0
for scheme in ['rodas4', 'rodasp', 'rodas5p']:
    for hmax in [0.1, 0.07, 0.05]:
        ref = Rodas(ndae, [0, 2.0], y0, Opt(scheme=scheme, hmax=hmax))  # same run without events: T = the steps
        k = np.searchsorted(ref.T, te_exact[0])
        one_step = ref.T[k - 1] < te_exact[0] and te_exact[1] < ref.T[k]  # both crossings inside one step
        if not one_step:
            continue
        exercised += 1
        for tspan in ([0, 2.0], np.linspace(0, 2, 6)):
            sol = Rodas(ndae, tspan, y0, Opt(scheme=scheme, hmax=hmax, event=events))
            e_ev = np.abs(sol.Y.array - exact(sol.T)).max()
            e_te = np.abs(sol.te - te_exact).max() if sol.te.shape == (2,) else np.inf
            ok_grid = (sol.T[0] == tspan[0] and sol.T[-1] == tspan[-1] and np.all(np.diff(sol.T) > 0)
                       and sol.Y.array.shape[0] == sol.T.shape[0])
            if len(tspan) > 2:
                ok_grid = ok_grid and np.array_equal(sol.T, tspan)
            print(f'{scheme:8s} hmax={hmax} nodes={len(tspan)}: max|Y[k]-y(T[k])| = {e_ev:.1e} '
                  f'(without events {np.abs(ref.Y.array - exact(ref.T)).max():.1e}); te = {sol.te}; grid ok: {ok_grid}')
            if not ok_grid or e_ev > 1e-6 or e_te > 1e-6:
                bad.append(dict(scheme=scheme, hmax=hmax, nodes=len(tspan), max_state_error=float(e_ev), te=sol.te.tolist()))

assert exercised > 0, 'no configuration put both crossings into one step: the demo did not exercise anything'
assert not bad, ('rows of Y are not the states at the returned times once two events fall into one step: expected '
                 'max|Y[k]-y(T[k])| < 1e-6 and te = %s, got %s' % (te_exact.tolist(), bad))
print('OK')
