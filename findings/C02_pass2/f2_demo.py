"""
C02 counterexample 2: two overlapping Saturation terms with a large INTEGER gain,
F = k*Saturation(x, 0, 2) + k*Saturation(x, 1, 3) - 1,  k = 2000000000 (an int that fits in 32 bits).
dF/dx = k*In(x, 0, 2) + k*In(x, 1, 3) = 4e9 for 1 < x < 2.  The masks In(.) are int32 arrays, numpy keeps
int32 * (python int) in int32, and the sum wraps around: the generated J_ returns -294967296.
Checked for the inline dense, inline sparse and the rendered (non-jit) module backend.
Exits 0 if J equals dF/dx everywhere, non-zero otherwise.
"""
import os
import sys

ROOT = os.environ.get('SOLVERZ_ROOT', '/tmp/pw2_C02')
sys.path.insert(0, ROOT)
import contextlib
import importlib
import io
import shutil
import tempfile
import warnings
import numpy as np
import Solverz

assert Solverz.__file__.startswith(ROOT), f"Solverz imported from {Solverz.__file__}, not from {ROOT}"
from Solverz import Model, Var, Eqn, Saturation, made_numerical, module_printer

K = 2000000000


def build():
    m = Model()
    m.x = Var('x', [1.5, 0.5])
    m.f = Eqn('f', K * Saturation(m.x, 0, 2) + K * Saturation(m.x, 1, 3) - 1)
    return m.create_instance()


# x[0] = 1.5 is inside both bands (distance 0.5 from every kink), x[1] = 0.5 is inside the first band only
y = np.array([1.5, 0.5])
expected = np.diag([2.0 * K, 1.0 * K])

results = {}
with warnings.catch_warnings(), contextlib.redirect_stdout(io.StringIO()):
    warnings.simplefilter('ignore')
    for sparse in (False, True):
        eqs, y0 = build()
        mdl = made_numerical(eqs, y0, sparse=sparse)
        # the residual itself is right
        assert np.allclose(mdl.F(y, mdl.p), K * np.clip(y, 0, 2) + K * np.clip(y, 1, 3) - 1)
        J = mdl.J(y, mdl.p)
        results['inline sparse' if sparse else 'inline dense'] = J.toarray() if sparse else np.asarray(J)
        if not sparse:
            h = 1e-4
            fd = np.column_stack([(mdl.F(y + h * e, mdl.p) - mdl.F(y - h * e, mdl.p)) / (2 * h) for e in np.eye(2)])
            assert np.allclose(fd, expected, rtol=1e-6), "finite differences of F_ disagree with the expected Jacobian?!"
    d = tempfile.mkdtemp(prefix='pw2c02_f2_')
    try:
        eqs, y0 = build()
        name = f'f2mod_{os.getpid()}'
        module_printer(eqs, y0, name, directory=d, jit=False).render()
        sys.path.insert(0, d)
        mod = importlib.import_module(name)
        results['module (jit=False)'] = mod.mdl.J(y, mod.mdl.p).toarray()
    finally:
        if d in sys.path:
            sys.path.remove(d)
        shutil.rmtree(d, ignore_errors=True)

bad = {k: v for k, v in results.items() if v.shape != expected.shape or not np.allclose(v, expected, rtol=1e-12)}
assert not bad, (
        "J_ of k*Saturation(x,0,2) + k*Saturation(x,1,3) - 1, k=2000000000, at x=[1.5, 0.5] is not dF/dx:\n"
        f"expected\n{expected}\n" + "\n".join(f"actual, {k}:\n{v}" for k, v in bad.items()))
print("C02 holds on k*Saturation(x,0,2) + k*Saturation(x,1,3) - 1")
