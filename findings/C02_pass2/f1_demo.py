"""
C02 counterexample 1: F = c*x + A@x - b with a SCALAR parameter c and a matrix parameter A.
The dense generated Jacobian is A + c on EVERY entry instead of A + c*I.
Exits 0 if J equals dF/dx, non-zero otherwise.
"""
import os
import sys

ROOT = os.environ.get('SOLVERZ_ROOT', '/tmp/pw2_C02')
sys.path.insert(0, ROOT)
import warnings
import numpy as np
import Solverz

assert Solverz.__file__.startswith(ROOT), f"Solverz imported from {Solverz.__file__}, not from {ROOT}"
from Solverz import Model, Var, Param, Eqn, Mat_Mul, made_numerical

A = np.array([[1.0, 2.0, 0.5],
              [0.3, -1.0, 2.0],
              [1.5, 0.7, -0.4]])
c = 1.7

m = Model()
m.x = Var('x', [1.0, 2.0, 3.0])
m.A = Param('A', A, dim=2)
m.b = Param('b', [2.0, 3.0, 4.0])
m.c = Param('c', c)  # scalar parameter, broadcast against the vector x
m.f = Eqn('f', m.c * m.x + Mat_Mul(m.A, m.x) - m.b)
with warnings.catch_warnings():
    warnings.simplefilter('ignore')
    eqs, y0 = m.create_instance()
    mdl, code = made_numerical(eqs, y0, sparse=False, output_code=True)

y = np.array([0.4, -1.2, 2.2])
# the residual itself is right
F = mdl.F(y, mdl.p)
assert np.allclose(F, c * y + A @ y - np.array([2.0, 3.0, 4.0])), "F_ itself is wrong?!"

J = np.asarray(mdl.J(y, mdl.p))
expected = A + c * np.eye(3)

# independent check of `expected`: central differences of the generated F_
h = 1e-6
fd = np.column_stack([(mdl.F(y + h * e, mdl.p) - mdl.F(y - h * e, mdl.p)) / (2 * h) for e in np.eye(3)])
assert np.allclose(fd, expected, atol=1e-6), "finite differences disagree with A + c*I?!"

assert J.shape == expected.shape, f"shape {J.shape} != {expected.shape}"
assert np.allclose(J, expected, rtol=1e-12, atol=1e-12), (
    "dense J_ of c*x + A@x - b is not dF/dx:\n"
    f"generated code:\n{code['J']}\n"
    f"expected A + c*I =\n{expected}\nactual J =\n{J}\n"
    f"difference J - expected =\n{J - expected}")
print("C02 holds on c*x + A@x - b")
