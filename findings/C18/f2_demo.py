"""
C18 / finding 2: a variable named y_0 in an FDAE (a model with an AliasVar).

The generated FDAE functions have the signature F_(t, y_, p_, y_0): y_0 is the vector of the previous step, from
which the alias variables are sliced. The library rejects the other names it uses itself (y_, p_, F_, J_, row, ...
and t in DAE/FDAE), but not y_0 (y_1, ... for more steps). A model variable called y_0 is unpacked first
(`y_0 = y_[0:3]`) and shadows the argument, so the alias variable is then sliced from the *current* values
(`y_0_tag_0 = y_0[0:3]`).

Model:  y_0 - y_0(previous step) + 0.1*y_0 = 0   (an implicit Euler step of y' = -y)
Allowed outcomes: an exception at construction / code generation / first call, or F equal to
y - yprev + 0.1*y. The same model with the variable called u is the control.
"""
import os
import sys
import io
import contextlib
import warnings

ROOT = os.environ.get('SOLVERZ_ROOT', '/tmp/pw_C18')
sys.path.insert(0, ROOT)
import Solverz

assert os.path.abspath(Solverz.__file__).startswith(os.path.abspath(ROOT)), Solverz.__file__
import numpy as np
from Solverz import Model, Var, AliasVar, Eqn, made_numerical

y = np.array([1.0, 2.0, 3.0])
yprev = np.array([0.5, 0.7, 0.9])
Fref = y - yprev + 0.1 * y
Jref = 1.1 * np.eye(3)


def run(name, sparse):
    m = Model()
    setattr(m, name, Var(name, value=[2.0, 3.0, 4.0]))
    v = getattr(m, name)
    m.prev = AliasVar(name, init=v)
    m.e = Eqn('e', v - m.prev + 0.1 * v)
    with contextlib.redirect_stdout(io.StringIO()), warnings.catch_warnings():
        warnings.simplefilter('ignore')
        eqs, y0 = m.create_instance()
        mdl = made_numerical(eqs, y0, sparse=sparse)
    F = np.asarray(mdl.F(0.0, y.copy(), mdl.p, yprev.copy()))
    J = mdl.J(0.0, y.copy(), mdl.p, yprev.copy())
    J = J.toarray() if hasattr(J, 'toarray') else np.asarray(J)
    return F, J


bad = []
for name in ('u', 'y_0'):
    for sparse in (False, True):
        tag = f"variable {name!r}, {'sparse' if sparse else 'dense'}"
        try:
            F, J = run(name, sparse)
        except Exception as e:  # a loud failure is an allowed outcome
            print(f"{tag}: loud failure ({type(e).__name__}: {str(e)[:80]}) -- allowed")
            continue
        ok = np.allclose(F, Fref, rtol=1e-12, atol=1e-12) and np.allclose(J, Jref, rtol=1e-12, atol=1e-12)
        print(f"{tag}: F = {F}, expected {Fref}: {'ok' if ok else 'WRONG'}")
        if not ok:
            bad.append(f"{tag}: no error, F returned = {F}, F expected = {Fref}")

assert not bad, "C18 violated (silent wrong F):\n" + "\n".join(bad)
print("C18 holds on this input")
