"""
C18 / finding 1: Abs(.) of a non-leaf argument inside a mixed matrix-vector equation.

Model (3 unknowns x, matrix parameter A, vector parameter c):
    e1:  Mat_Mul(A, Abs(x - c)) = 0          dF/dx = A @ diag(sign(x - c))   (a full matrix)
    e2:  Abs(c*x) + Mat_Mul(A, x) = 0        dF/dx = diag(sign(c*x)*c) + A

Allowed outcomes per backend: an exception, or a J equal to the reference.
On the unchanged tree e1 returns, without any error, a *diagonal* J = diag(A @ sign(x - c)) in the dense AND in
the sparse backend (the sparse backend normally refuses matrix parameters, here it does not notice one),
and e2 returns A + (row vector sign(c*x) @ diag(c)) broadcast over all rows in the dense backend.
"""
import os
import sys
import io
import contextlib
import warnings

ROOT = os.environ.get('SOLVERZ_ROOT', '/tmp/pw_C18')
sys.path.insert(0, ROOT)
import Solverz

assert os.path.abspath(Solverz.__file__).startswith(os.path.abspath(ROOT)), Solverz.__file__
import numpy as np
from Solverz import Model, Var, Param, Eqn, Mat_Mul, Abs, made_numerical

A = np.array([[1., 2., 0.5], [0.3, 3., 4.], [5., -1., 6.]])
c = np.array([0.7, -1.2, 2.1])
x0 = np.array([1.0, -2.0, 3.0])


def build(which, sparse):
    m = Model()
    m.x = Var('x', x0)
    m.A = Param('A', A, dim=2)
    m.c = Param('c', c)
    if which == 'e1':
        m.e = Eqn('e', Mat_Mul(m.A, Abs(m.x - m.c)))
    else:
        m.e = Eqn('e', Abs(m.c * m.x) + Mat_Mul(m.A, m.x))
    with contextlib.redirect_stdout(io.StringIO()), warnings.catch_warnings():
        warnings.simplefilter('ignore')
        eqs, y0 = m.create_instance()
        mdl = made_numerical(eqs, y0, sparse=sparse)
    return mdl, y0


ref = {'e1': (lambda x: A @ np.abs(x - c), lambda x: A @ np.diag(np.sign(x - c))),
       'e2': (lambda x: np.abs(c * x) + A @ x, lambda x: np.diag(np.sign(c * x) * c) + A)}

bad = []
for which in ('e1', 'e2'):
    for sparse in (False, True):
        tag = f"{which} {'sparse' if sparse else 'dense'}"
        try:
            mdl, y0 = build(which, sparse)
            y = y0.array.copy()
            F = np.asarray(mdl.F(y, mdl.p))
            J = mdl.J(y, mdl.p)
            J = J.toarray() if hasattr(J, 'toarray') else np.asarray(J)
        except Exception as e:  # a loud failure is an allowed outcome
            print(f"{tag}: loud failure ({type(e).__name__}: {str(e)[:70]}) -- allowed")
            continue
        Fref, Jref = ref[which][0](y), ref[which][1](y)
        okF = F.shape == Fref.shape and np.allclose(F, Fref, rtol=1e-12, atol=1e-12)
        okJ = J.shape == Jref.shape and np.allclose(J, Jref, rtol=1e-12, atol=1e-12)
        print(f"{tag}: F ok={okF} J ok={okJ}")
        if not (okF and okJ):
            bad.append(f"{tag}: no error, but\nJ returned =\n{J}\nJ expected =\n{Jref}")

assert not bad, "C18 violated (silent wrong Jacobian):\n" + "\n".join(bad)
print("C18 holds on this input")
