"""C16 / F3: combination of two collections that share a name (directly, or after alias derivation).
The combined layout must either be refused (Address.add refuses a duplicate name) or be contiguous, disjoint and
covering with one slice per declared variable. Actually: accepted silently, slices no longer cover the flat array and
named access returns the wrong variable. Exits 0 iff the property holds."""
import os, sys
root = os.environ.get('SOLVERZ_ROOT', '/tmp/pw_C16')
sys.path.insert(0, root)
import Solverz
assert Solverz.__file__.startswith(root), Solverz.__file__
import numpy as np
from Solverz.utilities.address import Address
from Solverz.variable.variables import Vars, combine_Vars

problems = []


def check_layout(c, n_declared, label):
    """slices of c.a: one per declared variable, contiguous, disjoint, covering 0..total_size-1 in order"""
    total = int(c.total_size)
    covered = np.concatenate([c.a.v[n] for n in c.a.v]) if len(c.a.v) else np.array([], dtype=int)
    if len(c.a.v) != n_declared or covered.tolist() != list(range(total)):
        problems.append(f"{label}: declared {n_declared} variables {c.a.object_list}, flat size {total}; "
                        f"expected slices covering {list(range(total))}, actual names {list(c.a.v)} "
                        f"covering {covered.tolist()}")


a = Address()
a.add('x', 2); a.add('x0', 1)            # two perfectly legal names
v = Vars(a, [1., 2., 3.])
v0 = v.derive_alias('0')                 # names 'x0' (size 2) and 'x00' (size 1); alias derivation itself is injective
assert v0.a.object_list == ['x0', 'x00']

# (1) combination with the alias, the documented use of derive_alias + combine (see test_address / test_variable)
try:
    c = combine_Vars(v, v0)
except (KeyError, ValueError):
    c = None                              # refusal is fine
if c is not None:
    n0 = len(problems)
    check_layout(c, 4, "combine_Vars(v, v.derive_alias('0')) with names x, x0")
    if len(problems) > n0:
        # the alias of x (size 2, values [1, 2]) sits at flat positions 3:5, but two variables are called 'x0'
        problems.append(f"  named read c['x0'] = {c['x0'].tolist()} although flat[3:5] = {c.array[3:5].tolist()} "
                        f"is also declared as 'x0'; flat positions 3,4 unreachable by name")

# (2) combination of a collection with itself
try:
    c2 = combine_Vars(v, v)
except (KeyError, ValueError):
    c2 = None
if c2 is not None:
    n0 = len(problems)
    check_layout(c2, 4, "combine_Vars(v, v)")
    if len(problems) > n0:
        before = c2.array.copy()
        c2['x'] = [9., 9.]
        untouched = np.flatnonzero(before == c2.array).tolist()
        problems.append(f"  c2 repr {c2!r}: total_size 6 but only {c2.var_list} addressable; "
                        f"after c2['x']=[9,9] flat positions {untouched} unchanged")

assert not problems, "C16 violated:\n  " + "\n  ".join(problems)
print("ok")
