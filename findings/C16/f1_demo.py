"""C16 / F1: TimeVars row assignment by position.
 (a) tv[-1] = v and tv[len] = v return normally but write nothing
     (tv[-1] reads the last row, tv[len] read raises IndexError);
 (b) a Vars of the wrong length (total size 1) is not refused but broadcast over the whole row.
Exits 0 iff the property holds."""
import os, sys
root = os.environ.get('SOLVERZ_ROOT', '/tmp/pw_C16')
sys.path.insert(0, root)
import Solverz
assert Solverz.__file__.startswith(root), Solverz.__file__
import numpy as np
from Solverz.utilities.address import Address
from Solverz.variable.variables import Vars, TimeVars

a = Address()
a.add('x', 2); a.add('y', 1); a.add('z', 3)
v = Vars(a, np.arange(6.) + 1)
new = v * 10
problems = []

# (a1) negative position -1: get works, so set must write the same row
tv = TimeVars(v, 4)
before = tv.array.copy()
tv[-1] = new
got = tv[-1].array
if not np.array_equal(got, new.array):
    problems.append(f"tv[-1] = new; tv[-1] expected {new.array.tolist()} actual {got.tolist()} "
                    f"(array changed at all: {not np.array_equal(before, tv.array)})")
# control: -2 works
tv[-2] = new
assert np.array_equal(tv[-2].array, new.array)

# (a2) position == len: out of range, must be refused (reading tv[4] raises IndexError)
tv = TimeVars(v, 4)
try:
    tv[4] = new
    problems.append("tv[len] = new on a 4-row series: expected an exception, actual: returned silently, "
                    f"rows now {tv.array.tolist()}")
except (ValueError, IndexError):
    pass

# (b) wrong-length row: must be refused
b = Address(); b.add('q', 1)
w = Vars(b, [7.])
tv = TimeVars(v, 4)
try:
    tv[1] = w
    problems.append(f"tv[1] = <Vars of total size 1> on a 6-wide series: expected refusal, "
                    f"actual row 1 = {tv.array[1].tolist()}")
except (ValueError, TypeError):
    pass

assert not problems, "C16 violated:\n  " + "\n  ".join(problems)
print("ok")
