"""C16 / F2: arithmetic of a Vars with a scalar that is a numpy integer / float32 (or with a column array on the left).
 (a) v + np.int64(2), v - np.int64(2), v / np.int64(2) (also np.float32, np.int32 ...) silently return None
     instead of the element-wise result (v * np.int64(2) raises TypeError; np.float64 works because it subclasses float);
 (b) a column array (n,1) - what Solverz.Array(...) produces by default - on the LEFT gives an n x n matrix,
     while on the right it is treated element-wise.
Exits 0 iff the property holds."""
import os, sys
root = os.environ.get('SOLVERZ_ROOT', '/tmp/pw_C16')
sys.path.insert(0, root)
import Solverz
assert Solverz.__file__.startswith(root), Solverz.__file__
import numpy as np
from Solverz.utilities.address import Address
from Solverz.variable.variables import Vars
from Solverz.num_api.Array import Array

a = Address()
a.add('x', 2); a.add('y', 1); a.add('z', 3)
base = np.arange(6.) + 1
v = Vars(a, base.copy())
problems = []

ops = [('+', lambda p, q: p + q), ('-', lambda p, q: p - q), ('*', lambda p, q: p * q), ('/', lambda p, q: p / q)]

# (a) numpy scalar on the right; scalars taken the way users get them: an element of an integer array, a float32
for s in [np.arange(2, 4)[0], np.float32(2.0)]:
    for sym, op in ops:
        expected = op(base, float(s))
        try:
            r = op(v, s)
        except TypeError:
            continue  # loud refusal: not counted
        if not isinstance(r, Vars) or not np.array_equal(r.array, expected):
            problems.append(f"v {sym} {s!r}: expected Vars {expected.tolist()} actual {r!r}")
        assert np.array_equal(v.array, base), "operand modified"

# (b) column array on either side
col = Array([1., 2., 3., 4., 5., 6.])          # shape (6, 1), the library's own default array shape
for sym, op in [('+', ops[0][1]), ('-', ops[1][1]), ('/', ops[3][1])]:
    right = op(v, col) if sym != '+' else None   # v + col raises loudly (dim check); v - col and v / col are element-wise
    left = op(col, v)
    expected = op(col.reshape(-1), base)
    la = np.asarray(left.array if isinstance(left, Vars) else left)
    if la.size != 6 or not np.array_equal(la.reshape(-1), expected):
        problems.append(f"Array(6,1) {sym} v: expected 6 element-wise values {expected.tolist()} "
                        f"actual {type(left).__name__} of shape {la.shape}")

assert not problems, "C16 violated:\n  " + "\n  ".join(problems)
print("ok")
