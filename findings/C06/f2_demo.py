"""C06 / lm: from a start well inside the Newton basin of a regular, well-conditioned root every
solver must return the root with max|F| < ite_tol (and flag success).  Root of magnitude 1e4."""
import os, sys, io, contextlib, warnings
ROOT = os.environ.get('SOLVERZ_ROOT', '/tmp/pw_C06')
sys.path.insert(0, ROOT)
import Solverz
assert Solverz.__file__.startswith(ROOT), Solverz.__file__
import numpy as np
from Solverz import Model, Var, Eqn, made_numerical, Opt, nr_method, continuous_nr, lm, sicnm

root = np.array([1.0e4, -4.0e3])
m = Model()
m.x = Var('x', 0.0)
m.z = Var('z', 0.0)
dx = m.x - root[0]
dz = m.z - root[1]
m.e1 = Eqn('e1', 1.2 * dx + 0.3 * dz + 0.3 * dx * dx)
m.e2 = Eqn('e2', -0.2 * dx + 0.9 * dz + 0.3 * dz * dz)
with contextlib.redirect_stdout(io.StringIO()):
    g, y0 = m.create_instance()
    nae = made_numerical(g, y0, sparse=True, make_hvp=True)

J = nae.J(root, nae.p).toarray()
cond = np.linalg.cond(J)
start = root + np.array([0.3, -0.21])
tol = 1e-4
out = {}
with warnings.catch_warnings(), contextlib.redirect_stdout(io.StringIO()):
    warnings.simplefilter('ignore')
    for name, s in dict(nr=nr_method, cnr=continuous_nr, sicnm=sicnm, lm=lm).items():
        out[name] = s(nae, start.copy(), Opt(ite_tol=tol))
for name, s in out.items():
    r = np.max(np.abs(nae.F(s.y, nae.p)))
    print(f'{name:6s} succeed={s.stats.succeed} max|F|={r:.3e} |y-root|={np.max(np.abs(s.y - root)):.3e}')
    assert s.stats.succeed == bool(r < tol), f'{name}: flag {s.stats.succeed} but max|F|={r}'
for name in ('nr', 'cnr', 'sicnm'):
    assert out[name].stats.succeed, f'{name} fails: bad demo'
s = out['lm']
r = np.max(np.abs(nae.F(s.y, nae.p)))
err = np.max(np.abs(s.y - root))
assert s.stats.succeed and err <= tol * cond, (
    f'lm from inside the Newton basin (cond J = {cond:.2f}): expected succeed=True, max|F| < {tol} and '
    f'|y-root| <= tol*cond = {tol * cond:.2e}; got succeed={s.stats.succeed}, max|F|={r:.3e}, |y-root|={err:.3e}')
print('OK')
