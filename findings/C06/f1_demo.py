"""C06 / sicnm with Opt(partial_decompose=True): from a start well inside the Newton basin of a
regular root the solver must return that root (as it does with partial_decompose=False)."""
import os, sys, io, contextlib, warnings
ROOT = os.environ.get('SOLVERZ_ROOT', '/tmp/pw_C06')
sys.path.insert(0, ROOT)
import Solverz
assert Solverz.__file__.startswith(ROOT), Solverz.__file__
import numpy as np
from Solverz import Model, Var, Eqn, made_numerical, Opt, sicnm, nr_method

root = np.array([0.7, -0.4])
m = Model()
m.x = Var('x', 0.0)
m.z = Var('z', 0.0)
dx = m.x - root[0]
dz = m.z - root[1]
m.e1 = Eqn('e1', 1.2 * dx + 0.3 * dz + 0.3 * dx * dx)
m.e2 = Eqn('e2', -0.2 * dx + 0.9 * dz + 0.3 * dz * dz)
with contextlib.redirect_stdout(io.StringIO()):
    g, y0 = m.create_instance()
    nae = made_numerical(g, y0, sparse=True, make_hvp=True)

start = root + np.array([0.2, -0.15])
tol = 1e-11
res = {}
with warnings.catch_warnings(), contextlib.redirect_stdout(io.StringIO()):
    warnings.simplefilter('ignore')
    ref = nr_method(nae, start.copy(), Opt(ite_tol=tol))
    for pd in (False, True):
        res[pd] = sicnm(nae, start.copy(), Opt(ite_tol=tol, partial_decompose=pd))
assert ref.stats.succeed and np.max(np.abs(ref.y - root)) < 1e-10, 'Newton itself fails: bad demo'
for pd in (False, True):
    s = res[pd]
    r = np.max(np.abs(nae.F(s.y, nae.p)))
    print(f'partial_decompose={pd}: succeed={s.stats.succeed} max|F|={r:.3e} '
          f'|y-root|={np.max(np.abs(s.y - root)):.3e} nstep={s.stats.nstep} nreject={s.stats.nreject}')
assert res[False].stats.succeed, 'full decomposition fails: bad demo'
s = res[True]
assert s.stats.succeed and np.max(np.abs(s.y - root)) < 100 * tol, (
    f'sicnm(partial_decompose=True) from inside the Newton basin: expected succeed=True and the root '
    f'{root}, got succeed={s.stats.succeed}, y={s.y}, max|F|={np.max(np.abs(nae.F(s.y, nae.p))):.3e}, '
    f'nstep={s.stats.nstep} (full decomposition needs {res[False].stats.nstep} steps)')
assert s.stats.nstep <= 3 * res[False].stats.nstep + 10, (
    f'partial decomposition is algebraically the same linear solve as the full one, expected about '
    f'{res[False].stats.nstep} steps, got {s.stats.nstep}')
print('OK')
