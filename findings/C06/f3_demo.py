"""C06 / sicnm on a mildly non-smooth model (Saturation): from a start inside the Newton basin of the
regular root every solver must return that root.  The continuous Newton flow crosses the kink
x = 0.05 transversally (both one-sided flows point the same way), so there is nothing to get stuck on."""
import os, sys, io, contextlib, warnings
ROOT = os.environ.get('SOLVERZ_ROOT', '/tmp/pw_C06')
sys.path.insert(0, ROOT)
import Solverz
assert Solverz.__file__.startswith(ROOT), Solverz.__file__
import numpy as np
from Solverz import Model, Var, Eqn, made_numerical, Opt, Saturation, nr_method, continuous_nr, lm, sicnm

root = np.array([0.0, 0.0])
m = Model()
m.x = Var('x', 0.0)
m.z = Var('z', 0.0)
m.e1 = Eqn('e1', m.x + 0.4 * m.z + 0.5 * Saturation(m.x, -0.05, 0.05))
m.e2 = Eqn('e2', -0.3 * m.x + m.z + 0.3 * Saturation(m.z, -0.1, 0.2))
with contextlib.redirect_stdout(io.StringIO()):
    g, y0 = m.create_instance()
    nae = made_numerical(g, y0, sparse=True, make_hvp=True)

# both one-sided continuous-Newton directions at the kink x = 0.05 point towards smaller x
for side in (+1e-9, -1e-9):
    yk = np.array([0.05 + side, 0.0072])
    d = -np.linalg.solve(nae.J(yk, nae.p).toarray(), nae.F(yk, nae.p))
    assert d[0] < 0, 'flow does not cross the kink transversally: bad demo'

start = np.array([0.3, 0.05])
tol = 1e-8
out = {}
log = io.StringIO()
with warnings.catch_warnings(), contextlib.redirect_stdout(log):
    warnings.simplefilter('ignore')
    for name, s in dict(nr=nr_method, cnr=continuous_nr, lm=lm, sicnm=sicnm).items():
        out[name] = s(nae, start.copy(), Opt(ite_tol=tol))
for name, s in out.items():
    r = np.max(np.abs(nae.F(s.y, nae.p)))
    print(f'{name:6s} succeed={s.stats.succeed} y={s.y} max|F|={r:.3e} nstep={s.stats.nstep}')
    assert s.stats.succeed == bool(r < tol), f'{name}: flag {s.stats.succeed} but max|F|={r}'
for name in ('nr', 'cnr', 'lm'):
    assert out[name].stats.succeed and np.max(np.abs(out[name].y - root)) < 100 * tol, f'{name} fails: bad demo'
s = out['sicnm']
assert s.stats.succeed and np.max(np.abs(s.y - root)) < 100 * tol, (
    f'sicnm from a start inside the Newton basin (nr needs {out["nr"].stats.nstep} iterations): expected '
    f'succeed=True and y ~ {root}; got succeed={s.stats.succeed}, y={s.y} (stuck on the kink x=0.05), '
    f'max|F|={np.max(np.abs(nae.F(s.y, nae.p))):.3e}; solver output: {log.getvalue().strip()!r}')
print('OK')
