"""C16 / solver results and time-series append: collecting the results of two consecutive runs in an empty daesol
(the use daesol.append is written for: it tests self.T / self.Y / self.ye / self.stats.scheme for None) must leave the
results it collects unchanged: sol1.Y has one row per entry of sol1.T and sol1.Y[name] are the columns of the flat
result of the first run.

Exits 0 if that holds, non-zero (AssertionError) otherwise.
"""
import os
import sys

ROOT = os.environ.get('SOLVERZ_ROOT', '/tmp/pw2_C16')
sys.path.insert(0, ROOT)
import Solverz

assert Solverz.__file__.startswith(ROOT), Solverz.__file__
import numpy as np
from Solverz import Model, Var, Eqn, Ode, made_numerical, Rodas, Opt, TimeVars
from Solverz.solvers.solution import daesol

m = Model()
m.x = Var('x', [1.0, 2.0])
m.y = Var('y', [0.5])
m.f1 = Ode('f1', -m.x + m.y, m.x)
m.g1 = Eqn('g1', m.y - 0.5 * m.x[0])
dae, y0 = m.create_instance()
ndae = made_numerical(dae, y0, sparse=True)

opt = Opt(fix_h=True, hinit=0.25)
sol1 = Rodas(ndae, [0, 1], y0, opt)
sol2 = Rodas(ndae, [1, 2], sol1.Y[-1], opt)
assert isinstance(sol1.Y, TimeVars) and sol1.Y.len == sol1.T.shape[0] == 5

flat1 = sol1.Y.array.copy()  # flat result of the first run
x1 = sol1.Y['x'].copy()

acc = daesol()
acc.append(sol1)
acc.append(sol2)

# the accumulated series is right ...
assert acc.Y.len == acc.T.shape[0] == 10
assert np.array_equal(acc.Y['x'], np.concatenate([x1, sol2.Y['x']]))
# ... and the argument of the first append must not have changed
assert sol1.Y.len == sol1.T.shape[0], \
    (f"sol1 was changed by acc.append(sol2): expected sol1.Y to keep its {sol1.T.shape[0]} rows (one per entry of "
     f"sol1.T), got {sol1.Y.len} rows; acc.Y is sol1.Y -> {acc.Y is sol1.Y}")
assert np.array_equal(sol1.Y.array, flat1) and np.array_equal(sol1.Y['x'], x1)
print('ok')
