"""C16 / as_Vars: the collection built from a list of declared variables must have one slice per declared variable,
of the declared size and holding the declared value, whatever else happened in the session.

Exits 0 if that holds, non-zero (AssertionError) otherwise.
"""
import os
import sys
import warnings

ROOT = os.environ.get('SOLVERZ_ROOT', '/tmp/pw2_C16')
sys.path.insert(0, ROOT)
import Solverz

assert Solverz.__file__.startswith(ROOT), Solverz.__file__
import numpy as np
from Solverz.sym_algebra.symbols import iVar
from Solverz.variable.variables import as_Vars
from Solverz import Eqn, AE, made_numerical

problems = []


def layout(v):
    return {k: val.tolist() for k, val in v.a.v.items()}


# ---- part 1: a second declaration of the same name (e.g. for another model) -- completely silent
x = iVar('x', [1.0, 2.0])
y = iVar('y', [9.0])
ref = as_Vars([x, y])
assert layout(ref) == {'x': [0, 1], 'y': [2]} and ref.array.tolist() == [1.0, 2.0, 9.0]

x_of_another_model = iVar('x', [3.0, 4.0, 5.0])
with warnings.catch_warnings(record=True) as w1:
    warnings.simplefilter('always')
    got = as_Vars([x, y])
if layout(got) != layout(ref) or got.array.tolist() != ref.array.tolist():
    problems.append(f"after declaring another iVar named 'x': as_Vars([x, y]) expected layout {layout(ref)} "
                    f"array {ref.array.tolist()}, got layout {layout(got)} array {got.array.tolist()} "
                    f"(warnings: {[str(i.message) for i in w1]}; x is the other object: {x is x_of_another_model})")

# ---- part 2: the library's own code printer re-declares the names -- only a warning, the layout collapses
p = iVar('p', [1.0, 2.0])
q = iVar('q', [3.0])
ref2 = as_Vars([p, q])
eqs = AE([Eqn('f', p * p - 4), Eqn('g', q - p[0])])
made_numerical(eqs, ref2)
with warnings.catch_warnings(record=True) as w2:
    warnings.simplefilter('always')
    got2 = as_Vars([p, q])
if layout(got2) != layout(ref2) or got2.array.tolist() != ref2.array.tolist():
    problems.append(f"after made_numerical(eqs, y0): as_Vars([p, q]) expected layout {layout(ref2)} "
                    f"array {ref2.array.tolist()}, got layout {layout(got2)} array {got2.array.tolist()} "
                    f"(warnings: {[str(i.message) for i in w2]})")

assert not problems, '\n'.join(problems)
print('ok')
