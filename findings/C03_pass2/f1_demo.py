"""
C03 finding 1: a parameter declared with a narrow dtype (Param(..., dtype=np.int32) or dtype=np.float32) makes the
numba-rendered module a different model from the inline models and from the module rendered without numba.

exit 0: the four backends agree;  exit != 0: they do not (unchanged tree).
"""
import contextlib
import io
import os
import pickle
import shutil
import subprocess
import sys
import tempfile

ROOT = os.environ.get('SOLVERZ_ROOT', '/tmp/pw2_C03')
sys.path.insert(0, ROOT)

import numpy as np
import Solverz

assert Solverz.__file__.startswith(ROOT), f'wrong Solverz imported: {Solverz.__file__}'
from Solverz import Model, Var, Param, Eqn, heaviside, made_numerical, module_printer


def build():
    m = Model()
    m.x = Var('x', [1.0, 2.0])
    # a count stored as int32 and a measured quantity stored in single precision
    m.n = Param('n', [50000, 3], dtype=np.int32)
    m.a = Param('a', [0.1, 0.7], dtype=np.float32)
    # n**2 = 2.5e9 and 60000*n = 3e9 do not fit int32; 0.1 - float32(0.1) is 0 in float32 and -1.49e-9 in float64
    m.f1 = Eqn('f1', m.x * m.n ** 2 - 60000 * m.n + m.x ** 2 * heaviside(0.1 - m.a))
    return m.create_instance()


CHILD = r'''
import os, sys, pickle
sys.path.insert(0, {root!r})
import Solverz
assert Solverz.__file__.startswith({root!r}), Solverz.__file__
sys.path.insert(0, {d!r})
import numpy as np
import {name} as M
yv = np.array(M.y.array)
pickle.dump((M.mdl.F(yv, M.mdl.p), M.mdl.J(yv, M.mdl.p).toarray()), open({out!r}, 'wb'))
'''

tmp = tempfile.mkdtemp(prefix='c03_f1_')
try:
    res = {}
    for sparse in (True, False):
        eqs, y = build()
        with contextlib.redirect_stdout(io.StringIO()):
            mdl = made_numerical(eqs, y, sparse=sparse)
        yv = np.array(y.array)
        J = mdl.J(yv, mdl.p)
        res['inline sparse' if sparse else 'inline dense'] = (mdl.F(yv, mdl.p), J.toarray() if sparse else J)
    for jit in (False, True):
        name = 'f1_mod_numba' if jit else 'f1_mod_python'
        eqs, y = build()
        with contextlib.redirect_stdout(io.StringIO()):
            module_printer(eqs, y, name, directory=tmp, jit=jit).render()
        out = os.path.join(tmp, name + '.out')
        r = subprocess.run([sys.executable, '-c', CHILD.format(root=ROOT, d=tmp, name=name, out=out)],
                           capture_output=True, text=True, cwd='/')
        assert r.returncode == 0, f'import of {name} failed:\n{r.stderr[-2000:]}'
        res['module numba' if jit else 'module python'] = pickle.load(open(out, 'rb'))
finally:
    shutil.rmtree(tmp, ignore_errors=True)

ref_name = 'inline sparse'
F0, J0 = res[ref_name]
bad = []
for k, (F, J) in res.items():
    print(f'{k:14s} F = {F}   diag(J) = {np.diag(J)}')
    if not (np.array_equal(F, F0) and np.array_equal(J, J0)):
        bad.append(k)
assert not bad, (f'backends disagree on one model at its own initial vector: expected every backend to give '
                 f'F = {F0}, diag(J) = {np.diag(J0)} (as {ref_name}), but {bad} give '
                 f'{[(res[k][0], np.diag(res[k][1])) for k in bad]}')
print('all backends agree')
