"""
C03 finding 2: re-rendering a module under the same name does not replace the earlier model when the earlier module
has been imported once (its byte code is cached in <name>/__pycache__) and the new num_func.py has the same length and
is written within the same second: a fresh interpreter then loads the byte code of the OLD equations.

History: render (x - 2.0) -> import -> re-render (x - 3.0) -> import in a fresh interpreter -> F(0) must be -3.

Python writes byte code by default; this demo switches byte-code writing on explicitly because the verification
environment exports PYTHONDONTWRITEBYTECODE=1, which hides the defect.

exit 0: the fresh interpreter sees the re-rendered model;  exit != 0: it sees the earlier one (unchanged tree).
"""
import contextlib
import importlib
import io
import os
import shutil
import subprocess
import sys
import tempfile
import time

ROOT = os.environ.get('SOLVERZ_ROOT', '/tmp/pw2_C03')
sys.path.insert(0, ROOT)
sys.dont_write_bytecode = False  # the Python default

import numpy as np
import Solverz

assert Solverz.__file__.startswith(ROOT), f'wrong Solverz imported: {Solverz.__file__}'
from Solverz import Model, Var, Eqn, module_printer


def render(c, directory, name):
    m = Model()
    m.x = Var('x', 1.0)
    m.f = Eqn('f', m.x - c)
    eqs, y = m.create_instance()
    with contextlib.redirect_stdout(io.StringIO()):
        module_printer(eqs, y, name, directory=directory, jit=False).render()


CHILD = r'''
import sys
sys.path.insert(0, {root!r})
import Solverz
assert Solverz.__file__.startswith({root!r}), Solverz.__file__
sys.path.insert(0, {d!r})
import numpy as np
import {name} as M
print('RESULT', repr(float(M.mdl.F(np.array([0.0]), M.mdl.p)[0])))
'''

tmp = tempfile.mkdtemp(prefix='c03_f2_')
sys.path.insert(0, tmp)
env = {k: v for k, v in os.environ.items() if k != 'PYTHONDONTWRITEBYTECODE'}
try:
    # warm up everything that is slow the first time
    render(1.0, tmp, 'f2_warmup')
    for attempt in range(50):
        name = f'f2_mod{attempt}'
        while time.time() % 1 > 0.2:  # start early in a second
            time.sleep(0.005)
        render(2.0, tmp, name)
        src = os.path.join(tmp, name, 'num_func.py')
        st1 = os.stat(src)
        with contextlib.redirect_stdout(io.StringIO()):
            first = importlib.import_module(name)  # the user looks at the first model
        F_first = float(first.mdl.F(np.array([0.0]), first.mdl.p)[0])
        assert F_first == -2.0, F_first
        render(3.0, tmp, name)  # the user changes the equation and renders again under the same name
        st2 = os.stat(src)
        if int(st1.st_mtime) == int(st2.st_mtime) and st1.st_size == st2.st_size:
            break
    else:
        raise SystemExit('could not render twice within one second, nothing checked')
    assert 'x - 3.0' in open(src).read(), 'num_func.py on disk is not the re-rendered one'
    r = subprocess.run([sys.executable, '-c', CHILD.format(root=ROOT, d=tmp, name=name)],
                       capture_output=True, text=True, cwd='/', env=env)
    assert r.returncode == 0, r.stderr[-2000:]
    F_second = float([ln for ln in r.stdout.splitlines() if ln.startswith('RESULT')][0].split()[1])
finally:
    shutil.rmtree(tmp, ignore_errors=True)

print(f'first render: F(0) = {F_first}; after re-rendering x - 3.0 a fresh interpreter gives F(0) = {F_second}')
assert F_second == -3.0, (f'the re-rendered module {name} is still the earlier model in a fresh interpreter: '
                          f'expected F(0) = -3.0 (num_func.py on disk says x - 3.0), got F(0) = {F_second}')
print('re-rendering replaced the earlier model')
