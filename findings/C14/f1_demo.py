"""
C14 / finding 1: nr_method and continuous_nr hand the caller's own initial-value array back as the result
when the start already satisfies the tolerance; the result of run 1 then changes when the caller re-fills
its start buffer for run 2 (and editing the result edits the caller's initial values).
Exit 0 if the property holds, non-zero otherwise.
"""
import os
import sys

ROOT = os.environ.get('SOLVERZ_ROOT', '/tmp/pw_C14')
sys.path.insert(0, ROOT)
import Solverz

assert Solverz.__file__.startswith(ROOT), f'wrong Solverz imported: {Solverz.__file__}'

import numpy as np
from Solverz import Model, Var, Param, Eqn, Opt, made_numerical, nr_method, continuous_nr

m = Model()
m.x = Var('x', [1.0, 1.0])
m.b = Param('b', 2.0)
m.e1 = Eqn('e1', m.x[0] ** 2 + m.x[1] ** 2 - m.b)
m.e2 = Eqn('e2', m.x[0] - m.x[1])
ae, y0 = m.create_instance()
mdl = made_numerical(ae, y0, sparse=True)

problems = []
for solver in (nr_method, continuous_nr):
    opt = Opt(ite_tol=1e-8)
    start = np.array([1.0, 1.0])  # a root of the model: x0^2 + x1^2 = 2, x0 = x1
    sol1 = solver(mdl, start, opt)
    res1 = sol1.y.copy()
    assert sol1.stats.succeed and np.allclose(res1, [1.0, 1.0])

    # the caller re-uses ITS OWN start buffer for the next run (another guess, towards the root (-1, -1))
    start[:] = [-3.0, -2.0]
    sol2 = solver(mdl, start, opt)
    assert np.allclose(sol2.y, [-1.0, -1.0], atol=1e-6)

    if not np.array_equal(sol1.y, res1):
        problems.append(f'{solver.__name__}: result of run 1 changed after the caller re-filled its start buffer for '
                        f'run 2: expected {res1}, actual {sol1.y} (sol1.y is the caller\'s array: {sol1.y is start})')

    # the other direction: post-processing the result must not edit the caller's initial values
    start3 = np.array([1.0, 1.0])
    sol3 = solver(mdl, start3, opt)
    sol3.y *= 100.0
    if not np.array_equal(start3, [1.0, 1.0]):
        problems.append(f'{solver.__name__}: scaling the returned result modified the caller\'s initial values: '
                        f'expected [1. 1.], actual {start3}')

assert not problems, '\n' + '\n'.join(problems)
print('ok')
