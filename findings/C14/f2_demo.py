"""
C14 / finding 2: ode15s gives a different trajectory for equal initial values when they are handed over as an
integer-typed array ([1, 3] instead of [1., 3.]): the initial slope is stored in an integer array and truncated.
Exit 0 if the property holds, non-zero otherwise.
"""
import os
import sys

ROOT = os.environ.get('SOLVERZ_ROOT', '/tmp/pw_C14')
sys.path.insert(0, ROOT)
import Solverz

assert Solverz.__file__.startswith(ROOT), f'wrong Solverz imported: {Solverz.__file__}'

import numpy as np
from Solverz import Model, Var, Param, Ode, Opt, made_numerical, ode15s
from Solverz.solvers.daesolver.daeic import getyp0

m = Model()
m.x = Var('x', [1.0, 3.0])
m.a = Param('a', 2.0)
m.f = Ode('f', -m.a * m.x * m.x + 0.5, m.x)
dae, y0 = m.create_instance()
mdl = made_numerical(dae, y0, sparse=True)

y_float = np.array([1.0, 3.0])
y_int = np.array([1, 3])
assert np.array_equal(y_float, y_int)  # equal initial values

# the cause, seen directly: x' = -2 x^2 + 0.5 = [-1.5, -17.5]
yp_f = getyp0(mdl, y_float, 0)
yp_i = getyp0(mdl, y_int, 0)
print('initial slope, float start:', yp_f, ' integer start:', yp_i)

opt = Opt()
s_f = ode15s(mdl, [0, 1], y_float, opt)
s_i = ode15s(mdl, [0, 1], y_int, opt)
print('float start  :', s_f.stats.nstep, 'steps, first step', s_f.T[1], ', y(1) =', s_f.Y[-1])
print('integer start:', s_i.stats.nstep, 'steps, first step', s_i.T[1], ', y(1) =', s_i.Y[-1])

same = s_f.T.shape == s_i.T.shape and np.array_equal(s_f.T, s_i.T) and np.array_equal(s_f.Y, s_i.Y)
assert same, (f'ode15s: equal model, span, options and initial values [1, 3], different results: '
              f'expected (float start) {s_f.stats.nstep} steps, y(1) = {s_f.Y[-1]!r}; '
              f'actual (integer start) {s_i.stats.nstep} steps, y(1) = {s_i.Y[-1]!r}; '
              f'initial slope expected {yp_f}, actual {yp_i}')
print('ok')
