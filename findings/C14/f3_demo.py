"""
C14 / finding 3: Rodas (and ode15s) derive the minimum step from np.spacing(tspan[0]) in the dtype of the caller's
time span. Equal time spans [1, 2] of dtype float64 / float32 / int16 / int8 give different minimum steps
(3.6e-15, 1.9e-6, 1.9e-6, 1.6e-2), hence a different first step and a different trajectory.
Exit 0 if the property holds, non-zero otherwise.
"""
import os
import sys

ROOT = os.environ.get('SOLVERZ_ROOT', '/tmp/pw_C14')
sys.path.insert(0, ROOT)
import Solverz

assert Solverz.__file__.startswith(ROOT), f'wrong Solverz imported: {Solverz.__file__}'

import numpy as np
from Solverz import Model, Var, Param, Ode, Opt, made_numerical, Rodas, ode15s

m = Model()
m.x = Var('x', [1.0])
m.a = Param('a', 2.0)
m.f = Ode('f', -m.a * m.x * m.x, m.x)
dae, y0 = m.create_instance()
mdl = made_numerical(dae, y0, sparse=True)

opt = Opt()
problems = []
for solver, dtypes in ((Rodas, (np.float32, np.int16, np.int8)), (ode15s, (np.int8,))):
    ref = solver(mdl, np.array([1.0, 2.0]), y0.array.copy(), opt)
    ref_list = solver(mdl, [1, 2], y0.array.copy(), opt)
    assert np.array_equal(ref.T, ref_list.T) and np.array_equal(ref.Y, ref_list.Y)
    for dt_ in dtypes:
        ts = np.array([1, 2], dtype=dt_)
        assert np.array_equal(ts, np.array([1.0, 2.0]))  # equal time span
        s = solver(mdl, ts, y0.array.copy(), opt)
        same = s.T.shape == ref.T.shape and np.array_equal(s.T, ref.T) and np.array_equal(s.Y, ref.Y)
        print(f'{solver.__name__:7s} tspan dtype {np.dtype(dt_).name:8s} steps {s.stats.nstep:3d} first step '
              f'{s.T[1] - s.T[0]:.3e} y(2) = {s.Y[-1, 0]!r}   (float64: {ref.stats.nstep} steps, first step '
              f'{ref.T[1] - ref.T[0]:.3e}, y(2) = {ref.Y[-1, 0]!r})')
        if not same:
            problems.append(f'{solver.__name__}: tspan [1, 2] as {np.dtype(dt_).name}: expected first step '
                            f'{ref.T[1] - ref.T[0]:.3e} and y(2) = {ref.Y[-1, 0]!r} (float64 span), actual first step '
                            f'{s.T[1] - s.T[0]:.3e} and y(2) = {s.Y[-1, 0]!r}')

assert not problems, '\n' + '\n'.join(problems)
print('ok')
