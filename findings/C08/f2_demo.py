"""C08 finding 2: Rodas dense output (rodas4 / rodasp) on an autonomous, non-stiff index-1 DAE is not
tolerance-proportional in the algebraic variable (no forcing, no explicit time dependence).

Model (the one of tests/test_dae.py):  x' = -x^3 + 0.5 z^2,  0 = x^2 + z^2 - 2,  x(0) = z(0) = 1,  t in [0, 20]
Reference: reduced ODE x' = -x^3 + 0.5 (2 - x^2) integrated at 1e-12 (Radau), z = sqrt(2 - x^2).
The same runs with a 2-node tspan (all steps returned) are within 0.2 (atol + rtol |y|).
"""
import os
import sys

ROOT = os.environ.get('SOLVERZ_ROOT', '/tmp/pw_C08')
sys.path.insert(0, ROOT)
import Solverz

assert Solverz.__file__.startswith(ROOT), Solverz.__file__
import numpy as np
from scipy.integrate import solve_ivp
from Solverz import Model, Var, Ode, Eqn, made_numerical, Rodas, Opt

m = Model()
m.x = Var('x', 1)
m.y = Var('y', 1)
m.f = Ode(name='f', f=-m.x ** 3 + 0.5 * m.y ** 2, diff_var=m.x)
m.g = Eqn(name='g', eqn=m.x ** 2 + m.y ** 2 - 2)
dae, y0 = m.create_instance()
ndae = made_numerical(dae, y0, sparse=True)

T = 20.0
ref = solve_ivp(lambda t, x: [-x[0] ** 3 + 0.5 * (2 - x[0] ** 2)], [0, T], [1.0], method='Radau', rtol=1e-12,
                atol=1e-14, dense_output=True)


def exact(ts):
    x = ref.sol(ts)[0]
    return np.column_stack([x, np.sqrt(2 - x ** 2)])


CONST = 50.0  # "moderate constant"; sup |y| = 1.0 for both components on [0, 20] (x, z stay within [0.9, 1.1])
bad = []
for scheme in ['rodas4', 'rodasp', 'rodas5p']:
    for rtol in [1e-3, 1e-6, 1e-9]:
        atol = rtol
        row = []
        for name, tspan in [('2-node', [0, T]), ('dense-2001', np.linspace(0, T, 2001))]:
            sol = Rodas(ndae, tspan, y0.array.copy(), Opt(rtol=rtol, atol=atol, scheme=scheme))
            ex = exact(sol.T)
            ratio = np.max(np.abs(sol.Y - ex) / (atol + rtol * np.abs(ex)), axis=0)  # per variable (x, z)
            row.append(f'{name}: x {ratio[0]:.3g} z {ratio[1]:.3g}')
            if ratio.max() > CONST:
                bad.append((scheme, rtol, name, ratio.max()))
        print(f'{scheme} rtol={rtol:g}  err/(atol+rtol|y|)  ' + ' | '.join(row))

assert not bad, ('Rodas dense output is not tolerance-proportional on the autonomous index-1 DAE: '
                 + '; '.join(f'{s} rtol={r:g} {n}: err/(atol+rtol|y|) = {q:.3g} > {CONST:g}' for s, r, n, q in bad))
print('OK')
