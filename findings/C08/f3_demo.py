"""C08 finding 3 (weaker, about the failure signal rather than about accuracy): Rodas hands back an incomplete
solution (it never reaches tspan[-1], requested nodes are missing) with no failure flag, so the value a caller reads as
y(tend) is off by many orders of magnitude more than the tolerance and disagrees with ode15s.

(i)  y' = y, y(0) = 1, [0, 10], Opt(hinit=4): M - dt*gamma*J = 1 - 4*0.25*1 = 0 exactly, the factorisation raises
     RuntimeError, Rodas swallows it (`except RuntimeError: break`) and returns T = [0], Y = [1]: no message, stats.ret None.
(ii) y' = -1000 (y - sin(t+1)) + cos(t+1), y(0) = sin(1), [0, 20], rtol = atol = 1e-9, rodas4, 2-node tspan: the run
     stops after 10000 accepted steps at t < 20 with a UserWarning only (printed once per process), stats.ret None.
The property holds if every run either reaches tspan[-1] or reports the failure in stats.ret.
"""
import os
import sys
import warnings

ROOT = os.environ.get('SOLVERZ_ROOT', '/tmp/pw_C08')
sys.path.insert(0, ROOT)
import Solverz

assert Solverz.__file__.startswith(ROOT), Solverz.__file__
import numpy as np
from scipy.sparse import csc_array
from Solverz import Rodas, ode15s, Opt
from Solverz.num_api.num_eqn import nDAE

bad = []

# (i)
M = csc_array(np.array([[1.0]]))
growth = lambda: nDAE(M, lambda t, y, p: np.array([y[0]]), lambda t, y, p: csc_array(np.array([[1.0]])), {})
for scheme in ['rodas4', 'rodasp']:
    for name, tspan in [('2-node', [0, 10]), ('dense-11', np.linspace(0, 10, 11))]:
        sol = Rodas(growth(), tspan, np.array([1.0]), Opt(hinit=4.0, scheme=scheme))
        ref = ode15s(growth(), tspan, np.array([1.0]), Opt(hinit=4.0))
        print(f'(i) {scheme} {name}: Rodas T={sol.T} Y[-1]={sol.Y[-1]} stats.ret={sol.stats.ret!r}; '
              f'ode15s reaches T[-1]={ref.T[-1]} with Y[-1]={ref.Y[-1]} (exact {np.exp(10):.6g})')
        if sol.T[-1] != tspan[-1] and sol.stats.ret != 'failed':
            bad.append(f'(i) {scheme} {name}: expected T[-1] = 10 (or stats.ret == "failed"), got T = {sol.T}, '
                       f'stats.ret = {sol.stats.ret!r}')

# (ii)
lam = -1000.0
pr = lambda: nDAE(M, lambda t, y, p: np.array([lam * (y[0] - np.sin(t + 1)) + np.cos(t + 1)]),
                  lambda t, y, p: csc_array(np.array([[lam]])), {})
with warnings.catch_warnings():
    warnings.simplefilter('ignore')
    sol = Rodas(pr(), [0, 20], np.array([np.sin(1.0)]), Opt(rtol=1e-9, atol=1e-9, scheme='rodas4'))
print(f'(ii) rodas4 2-node: {len(sol.T)} points, T[-1]={sol.T[-1]}, stats.ret={sol.stats.ret!r}')
if sol.T[-1] != 20 and sol.stats.ret != 'failed':
    bad.append(f'(ii) rodas4: expected T[-1] = 20 (or stats.ret == "failed"), got T[-1] = {sol.T[-1]}, '
               f'stats.ret = {sol.stats.ret!r}')

assert not bad, 'Rodas returned an incomplete solution without a failure flag:\n' + '\n'.join(bad)
print('OK')
