"""C08 finding 1: ode15s takes the whole interval as its first step when y'(t0) = 0 and reports a wrong solution.

System at rest, sinusoidal forcing switched on at t0, integration over a whole number of periods:
    y' = -y + sin(2*pi*t),  y(0) = 0,  t in [0, 10]
exact: y(t) = (sin(w t) - w cos(w t) + w exp(-t)) / (1 + w^2), w = 2*pi  (|y| up to 0.25, y(10) = -0.1552...)
"""
import os
import sys

ROOT = os.environ.get('SOLVERZ_ROOT', '/tmp/pw_C08')
sys.path.insert(0, ROOT)
import Solverz

assert Solverz.__file__.startswith(ROOT), Solverz.__file__
import numpy as np
from scipy.sparse import csc_array
from Solverz import ode15s, Rodas, Opt
from Solverz.num_api.num_eqn import nDAE

w = 2 * np.pi
M = csc_array(np.array([[1.0]]))
F = lambda t, y, p: np.array([-y[0] + np.sin(w * t)])
J = lambda t, y, p: csc_array(np.array([[-1.0]]))
exact = lambda t: (np.sin(w * t) - w * np.cos(w * t) + w * np.exp(-t)) / (1 + w * w)

CONST = 100.0  # "moderate constant"
bad = []
for rtol in [1e-3, 1e-6, 1e-9]:
    atol = rtol
    for name, tspan in [('2-node', [0, 10]), ('dense-101', np.linspace(0, 10, 101))]:
        ref = Rodas(nDAE(M, F, J, {}), tspan, np.array([0.0]), Opt(rtol=rtol, atol=atol, scheme='rodas5p'))
        sol = ode15s(nDAE(M, F, J, {}), tspan, np.array([0.0]), Opt(rtol=rtol, atol=atol))
        err = np.max(np.abs(sol.Y[:, 0] - exact(sol.T)))
        bound = CONST * (atol + rtol * 0.25)  # sup |y| over [0, 10] is 0.25
        err_ref = np.max(np.abs(ref.Y[:, 0] - exact(ref.T)))
        print(f'rtol={rtol:g} {name}: ode15s steps={sol.stats.nstep} max err={err:.3e} '
              f'(allowed {bound:.3e}); y(10): ode15s {sol.Y[-1, 0]:.6e} exact {exact(10.0):.6e}; Rodas max err={err_ref:.1e}')
        if not err <= bound:
            bad.append((rtol, name, err, bound, sol.stats.nstep))

assert not bad, ('ode15s is not tolerance-proportional on y\' = -y + sin(2 pi t), y(0) = 0, [0, 10]: '
                 + '; '.join(f'rtol={r:g} {n}: max err {e:.3e} > {b:.3e} ({k} step(s))' for r, n, e, b, k in bad))
print('OK')
