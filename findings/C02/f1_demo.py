"""
C02 finding 1: Abs(.) of anything but a bare variable inside a Mat_Mul equation gives a silently wrong dense Jacobian.

Model (AE, dense inline backend, the only backend that accepts matrix parameters):

    e1 = A @ Abs(x - v)          A a 3x3 matrix parameter, v a vector parameter, x a vector variable
    e2 = Abs(x - y) + B @ y      B a 3x3 matrix parameter, y a vector variable

True derivatives, away from the kinks x = v and x = y:
    d e1 / dx = A @ diag(Sign(x - v))
    d e2 / dx = diag(Sign(x - y)),      d e2 / dy = B - diag(Sign(x - y))
The generated J_ has  diag(A @ Sign(x - v))  and  B - Sign(x - y) (a vector subtracted from every row of B).

Exit code 0 iff the generated Jacobian equals the derivative of the generated residual.
"""
import os
import sys
import io
import contextlib
import warnings

ROOT = os.environ.get('SOLVERZ_ROOT', '/tmp/pw_C02')
sys.path.insert(0, ROOT)
import numpy as np
import Solverz

assert Solverz.__file__.startswith(ROOT), f"Solverz imported from {Solverz.__file__}, expected {ROOT}"
from Solverz import Model, Var, Param, Eqn, Abs, Mat_Mul, made_numerical

warnings.simplefilter('ignore')
np.set_printoptions(linewidth=200, precision=6, suppress=True)

A0 = np.array([[1., 2., 3.], [4., 5., 6.], [7., 8., 10.]])
B0 = np.array([[0.5, -1., 2.], [1.5, 0.3, -0.7], [2., 1., -1.]])
v0 = np.array([0.2, -0.5, 4.0])

m = Model()
m.x = Var('x', [1.0, -2.0, 3.0])
m.y = Var('y', [0.5, 1.5, -2.5])
m.A = Param('A', A0, dim=2)
m.B = Param('B', B0, dim=2)
m.v = Param('v', v0)
m.e1 = Eqn('e1', Mat_Mul(m.A, Abs(m.x - m.v)))
m.e2 = Eqn('e2', Abs(m.x - m.y) + Mat_Mul(m.B, m.y))

with contextlib.redirect_stdout(io.StringIO()):
    eqs, y0 = m.create_instance()
    mdl, code = made_numerical(eqs, y0, sparse=False, output_code=True)

# a point at distance >= 0.5 from every kink (x_i = v_i, x_i = y_i)
yy = np.array([1.0, -2.0, 3.0, 0.5, 1.5, -2.5])
x, y = yy[0:3], yy[3:6]
assert np.min(np.abs(x - v0)) > 0.4 and np.min(np.abs(x - y)) > 0.4

J = np.asarray(mdl.J(yy, mdl.p))

# analytic derivative of the residual
J_true = np.zeros((6, 6))
J_true[0:3, 0:3] = A0 @ np.diag(np.sign(x - v0))
J_true[3:6, 0:3] = np.diag(np.sign(x - y))
J_true[3:6, 3:6] = B0 - np.diag(np.sign(x - y))


# and, independently, central differences of the generated F_ (F is piecewise linear here, so they are exact to rounding)
def fd(F, z, h=1e-6):
    out = np.zeros((F(z).shape[0], z.shape[0]))
    for j in range(z.shape[0]):
        zp, zm = z.copy(), z.copy()
        zp[j] += h
        zm[j] -= h
        out[:, j] = (F(zp) - F(zm)) / (2 * h)
    return out


J_fd = fd(lambda z: mdl.F(z, mdl.p), yy)
assert np.allclose(J_fd, J_true, atol=1e-6), "analytic reference and finite differences of F_ disagree (demo broken)"

assert J.shape == J_true.shape, f"shape of J_ {J.shape}, expected {J_true.shape}"
err = np.max(np.abs(J - J_true))
assert err < 1e-8, (f"\ngenerated J_ differs from dF/dy by {err:.3g}\n"
                    f"generated code:\n{code['J']}\n"
                    f"expected (= finite differences of the generated F_):\n{J_true}\nactual J_:\n{J}")
print("C02 holds on this input")
