"""
C02 finding 3 (borderline, see f3_note.txt): Saturation(v, vmin, vmax) with limits that are variables, at a point where the
limits have crossed (vmin > vmax). The generated residual is F = min(max(v, vmin), vmax), which equals vmax for every v in that
region, so dF/dv = 0, dF/dvmin = 0, dF/dvmax = 1 on an open set, far from every kink. The generated Jacobian uses the masks
    dF/dvmin = (v < vmin),   dF/dvmax = (v > vmax)
which describe the ordered case only.

Model (AE):  e1 = Saturation(x, a, b) - w   (x of size 3, a and b scalar variables),  e2 = a - 1.2,  e3 = b - 0.2
Point: x = (0.5, -1.0, 2.0), a = 1.2, b = 0.2   (all of |x_i - a|, |x_i - b|, |a - b| >= 0.3)

Exit code 0 iff J_ (dense and sparse) equals the derivative of the generated F_.
"""
import os
import sys
import io
import contextlib
import warnings

ROOT = os.environ.get('SOLVERZ_ROOT', '/tmp/pw_C02')
sys.path.insert(0, ROOT)
import numpy as np
import Solverz

assert Solverz.__file__.startswith(ROOT), f"Solverz imported from {Solverz.__file__}, expected {ROOT}"
from Solverz import Model, Var, Param, Eqn, Saturation, made_numerical

warnings.simplefilter('ignore')
np.set_printoptions(linewidth=200, precision=6, suppress=True)


def build(sparse):
    m = Model()
    m.x = Var('x', [0.5, -1.0, 2.0])
    m.a = Var('a', 1.2)
    m.b = Var('b', 0.2)
    m.w = Param('w', [0.1, 0.2, 0.3])
    m.e1 = Eqn('e1', Saturation(m.x, m.a, m.b) - m.w)
    m.e2 = Eqn('e2', m.a - 1.2)
    m.e3 = Eqn('e3', m.b - 0.2)
    with contextlib.redirect_stdout(io.StringIO()):
        eqs, y0 = m.create_instance()
        mdl = made_numerical(eqs, y0, sparse=sparse)
    return mdl, y0.array.copy()


def fd(F, z, h=1e-6):
    out = np.zeros((F(z).shape[0], z.shape[0]))
    for j in range(z.shape[0]):
        zp, zm = z.copy(), z.copy()
        zp[j] += h
        zm[j] -= h
        out[:, j] = (F(zp) - F(zm)) / (2 * h)
    return out


failures = []
for sparse in (False, True):
    mdl, yy = build(sparse)
    F0 = mdl.F(yy, mdl.p)
    # the residual is b - w in the whole neighbourhood
    assert np.allclose(F0[0:3], 0.2 - np.array([0.1, 0.2, 0.3])), F0
    J = mdl.J(yy, mdl.p)
    J = J.toarray() if sparse else np.asarray(J)
    J_true = np.zeros((5, 5))
    J_true[0:3, 4] = 1.0  # dF/db
    J_true[3, 3] = 1.0
    J_true[4, 4] = 1.0
    J_fd = fd(lambda z: mdl.F(z, mdl.p), yy)
    assert np.allclose(J_fd, J_true, atol=1e-8), "reference and finite differences of F_ disagree (demo broken)"
    if np.max(np.abs(J - J_true)) > 1e-12:
        failures.append(f"{'sparse' if sparse else 'dense'} J_ at x=(0.5,-1,2), a=1.2, b=0.2:\nexpected (= finite differences of F_)\n"
                        f"{J_true}\nactual\n{J}")
assert not failures, "\n" + "\n".join(failures)
print("C02 holds on this input")
