"""
C03 / finding 1: a trigger function that uses a Python builtin which `from numpy import *` shadows
(max, min, sum, any, all, abs, round, pow, bool, divmod) means something else in the rendered module
than in the in-process model: the module silently returns another F.

exit 0  <=> in-process model and rendered module (fresh interpreter, other cwd) give the same F
"""
import os
import shutil
import subprocess
import sys
import tempfile

ROOT = os.environ.get('SOLVERZ_ROOT', '/tmp/pw_C03')
sys.path.insert(0, ROOT)
import Solverz

assert Solverz.__file__.startswith(ROOT), f'wrong Solverz imported: {Solverz.__file__}'

import numpy as np
from Solverz import Eqn, Var, Param, Model, made_numerical, module_printer


def floor_at_zero(x):
    # x is a size-one variable; the parameter is x limited from below by 0
    return max(x, 0)


def any_above_one(w):
    # 1 if any entry of w exceeds 1, else 0
    if any(v > 1 for v in w):
        return np.array([1.0])
    return np.array([0.0])


def build():
    m = Model()
    m.x = Var('x', [0.5])
    m.w = Var('w', [0.2, 0.3])
    m.G = Param('G', triggerable=True, trigger_var='x', trigger_fun=floor_at_zero)
    m.H = Param('H', triggerable=True, trigger_var='w', trigger_fun=any_above_one)
    m.e1 = Eqn('e1', m.x - m.G + 1)
    m.e2 = Eqn('e2', m.w - m.H * m.x)
    return m.create_instance()


POINT = [-2.0, 0.2, 0.3]  # x < 0: G must be 0;  no entry of w above 1: H must be 0

eqs, y0 = build()
inline = made_numerical(eqs, y0, sparse=True)
F_inline = np.asarray(inline.F(np.array(POINT), inline.p), dtype=float)
expected = np.array([-2.0 - 0.0 + 1, 0.2 - 0.0 * -2.0, 0.3 - 0.0 * -2.0])
assert np.array_equal(F_inline, expected), f'in-process model itself is off: {F_inline} vs {expected}'

work = tempfile.mkdtemp(prefix='c03_f1_')
other_cwd = tempfile.mkdtemp(prefix='c03_f1_cwd_')
try:
    eqs, y0 = build()
    module_printer(eqs, y0, 'c03_f1_mod', directory=work, jit=False).render()
    code = (
        "import sys\n"
        f"sys.path.insert(0, {ROOT!r}); sys.path.insert(1, {work!r})\n"
        "import Solverz\n"
        f"assert Solverz.__file__.startswith({ROOT!r}), Solverz.__file__\n"
        "import numpy as np\n"
        "from c03_f1_mod import mdl\n"
        f"print('RESULT', repr(np.asarray(mdl.F(np.array({POINT!r}), mdl.p), dtype=float).tolist()))\n"
    )
    cp = subprocess.run([sys.executable, '-c', code], cwd=other_cwd, capture_output=True, text=True,
                        env=dict(os.environ, PYTHONPATH=ROOT, SOLVERZ_ROOT=ROOT))
    assert cp.returncode == 0, f'import / evaluation of the rendered module failed:\n{cp.stderr[-1500:]}'
    line = [l for l in cp.stdout.splitlines() if l.startswith('RESULT')][0]
    F_module = np.array(eval(line[len('RESULT '):]), dtype=float)
finally:
    shutil.rmtree(work, ignore_errors=True)
    shutil.rmtree(other_cwd, ignore_errors=True)

print('F in-process      :', F_inline)
print('F rendered module :', F_module)
assert np.array_equal(F_inline, F_module), (
    f'C03 violated: at y={POINT} the in-process model gives F={F_inline.tolist()} (expected), '
    f'the rendered python module gives F={F_module.tolist()}')
print('OK')
