"""
C03 / finding 3: made_numerical(..., sparse=False, make_hvp=True) returns a model whose HVP cannot be called at all:
the dense Hvp_ allocates its result under the name `Hvp_`, but the block statements (shared with the dense J_) add into
`J_`, which does not exist in Hvp_  ->  NameError on every call, for every model.
The inline sparse model and the rendered module of the same symbolic model deliver the Hessian-vector product.

exit 0  <=> the dense in-process HVP can be called and equals the sparse in-process HVP and the rendered module's HVP
"""
import os
import shutil
import subprocess
import sys
import tempfile

ROOT = os.environ.get('SOLVERZ_ROOT', '/tmp/pw_C03')
sys.path.insert(0, ROOT)
import Solverz

assert Solverz.__file__.startswith(ROOT), f'wrong Solverz imported: {Solverz.__file__}'

import numpy as np
from Solverz import Eqn, Var, Param, Model, made_numerical, module_printer, sin


def build():
    m = Model()
    m.x = Var('x', [1.0, 2.0, 3.0])
    m.z = Var('z', 0.5)
    m.a = Param('a', [1.0, 2.0, 3.0])
    m.e1 = Eqn('e1', m.a * m.x ** 2 + m.z * sin(m.x) - 2)
    m.e2 = Eqn('e2', m.z ** 3 * m.x[0] + m.x[2] * m.x[1])
    return m.create_instance()


Y = [0.3, -1.2, 2.0, 0.7]
V = [1.0, -2.0, 0.5, 3.0]

eqs, y0 = build()
sparse_mdl = made_numerical(eqs, y0, sparse=True, make_hvp=True)
H_sparse = sparse_mdl.HVP(np.array(Y), sparse_mdl.p, np.array(V)).toarray()

work = tempfile.mkdtemp(prefix='c03_f3_')
other_cwd = tempfile.mkdtemp(prefix='c03_f3_cwd_')
try:
    eqs, y0 = build()
    module_printer(eqs, y0, 'c03_f3_mod', directory=work, jit=False, make_hvp=True).render()
    code = (
        "import sys\n"
        f"sys.path.insert(0, {ROOT!r}); sys.path.insert(1, {work!r})\n"
        "import Solverz\n"
        f"assert Solverz.__file__.startswith({ROOT!r}), Solverz.__file__\n"
        "import numpy as np\n"
        "from c03_f3_mod import mdl\n"
        f"print('RESULT', repr(mdl.HVP(np.array({Y!r}), mdl.p, np.array({V!r})).toarray().tolist()))\n"
    )
    cp = subprocess.run([sys.executable, '-c', code], cwd=other_cwd, capture_output=True, text=True,
                        env=dict(os.environ, PYTHONPATH=ROOT, SOLVERZ_ROOT=ROOT))
    assert cp.returncode == 0, cp.stderr[-1500:]
    line = [l for l in cp.stdout.splitlines() if l.startswith('RESULT')][0]
    H_module = np.array(eval(line[len('RESULT '):]), dtype=float)
finally:
    shutil.rmtree(work, ignore_errors=True)
    shutil.rmtree(other_cwd, ignore_errors=True)
assert np.array_equal(H_sparse, H_module), f'sparse in-process and module HVP differ:\n{H_sparse}\n{H_module}'

eqs, y0 = build()
dense_mdl = made_numerical(eqs, y0, sparse=False, make_hvp=True)
assert hasattr(dense_mdl, 'HVP'), 'dense model has no HVP although make_hvp=True'
# F and J of the dense model are fine
assert np.array_equal(np.asarray(dense_mdl.J(np.array(Y), dense_mdl.p)),
                      sparse_mdl.J(np.array(Y), sparse_mdl.p).toarray())
try:
    H_dense = np.asarray(dense_mdl.HVP(np.array(Y), dense_mdl.p, np.array(V)))
except Exception as e:
    raise AssertionError(
        'C03 violated: inline dense model with make_hvp=True, expected HVP(y, p, v) =\n'
        f'{H_sparse}\n(the value of the inline sparse model and of the rendered module), actual: the call raises '
        f'{e!r}') from e
assert np.array_equal(H_dense, H_sparse), f'C03 violated: dense HVP\n{H_dense}\n differs from sparse/module HVP\n{H_sparse}'
print('OK')
