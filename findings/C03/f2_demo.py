"""
C03 / finding 2: module_printer.render() finishes without any complaint, but the rendered module cannot be imported
 (a) when the trigger function's name also occurs as a piece of other text of its source (e.g. a function called `f`:
     the `f` of `def` is renamed as well), and
 (b) when the trigger function is defined in an indented block (inside a function, a class, an `if`).
The in-process model of the same symbolic model works in both cases.

exit 0  <=> both rendered modules import in a fresh interpreter (other cwd) and give the in-process F
"""
import os
import shutil
import subprocess
import sys
import tempfile

ROOT = os.environ.get('SOLVERZ_ROOT', '/tmp/pw_C03')
sys.path.insert(0, ROOT)
import Solverz

assert Solverz.__file__.startswith(ROOT), f'wrong Solverz imported: {Solverz.__file__}'

import numpy as np
from Solverz import Eqn, Var, Param, Model, made_numerical, module_printer


def f(x):
    return 2.0 * x


def make_nested():
    def gain(x):
        return 3.0 * x

    return gain


def build(fun):
    m = Model()
    m.x = Var('x', [0.5, 1.5])
    m.G = Param('G', triggerable=True, trigger_var='x', trigger_fun=fun)
    m.e1 = Eqn('e1', m.x ** 2 - m.G + 1)
    return m.create_instance()


POINT = [0.25, -1.0]
failures = []
work = tempfile.mkdtemp(prefix='c03_f2_')
other_cwd = tempfile.mkdtemp(prefix='c03_f2_cwd_')
try:
    for label, fun, name in [('trigger function named f', f, 'c03_f2_mod_a'),
                             ('trigger function defined inside a function', make_nested(), 'c03_f2_mod_b')]:
        eqs, y0 = build(fun)
        inline = made_numerical(eqs, y0, sparse=True)
        F_inline = np.asarray(inline.F(np.array(POINT), inline.p), dtype=float)
        eqs, y0 = build(fun)
        module_printer(eqs, y0, name, directory=work, jit=False).render()  # no error, no warning
        code = (
            "import sys\n"
            f"sys.path.insert(0, {ROOT!r}); sys.path.insert(1, {work!r})\n"
            "import Solverz\n"
            f"assert Solverz.__file__.startswith({ROOT!r}), Solverz.__file__\n"
            "import numpy as np\n"
            f"from {name} import mdl\n"
            f"print('RESULT', repr(np.asarray(mdl.F(np.array({POINT!r}), mdl.p), dtype=float).tolist()))\n"
        )
        cp = subprocess.run([sys.executable, '-c', code], cwd=other_cwd, capture_output=True, text=True,
                            env=dict(os.environ, PYTHONPATH=ROOT, SOLVERZ_ROOT=ROOT))
        if cp.returncode != 0:
            last = [l for l in cp.stderr.strip().splitlines() if l.strip()][-4:]
            failures.append(f'{label}: in-process F={F_inline.tolist()}, expected the rendered module to import and give '
                            f'the same, actual: import fails with\n      ' + '\n      '.join(last))
            continue
        line = [l for l in cp.stdout.splitlines() if l.startswith('RESULT')][0]
        F_module = np.array(eval(line[len('RESULT '):]), dtype=float)
        if not np.array_equal(F_inline, F_module):
            failures.append(f'{label}: in-process F={F_inline.tolist()}, module F={F_module.tolist()}')
        else:
            print(f'{label}: module imports, F={F_module.tolist()} as in-process')
finally:
    shutil.rmtree(work, ignore_errors=True)
    shutil.rmtree(other_cwd, ignore_errors=True)

assert not failures, 'C03 violated (a rendered module can be imported):\n  - ' + '\n  - '.join(failures)
print('OK')
