"""D76 (C03): a rendered module whose trigger function's NAME occurs inside its own body (e.g. `def sq(x): return np.sqrt(...)`)
cannot be imported: module_generator renames the function with str.replace, which also rewrites `np.sqrt` -> `np.<new name>rt`.
Exit 0 = property holds (module imports and agrees with the in-process model), 1 = violated."""
import Solverz, os, sys, tempfile, subprocess, textwrap
import numpy as np
root = os.environ.get("SOLVERZ_ROOT", "/repo")
assert Solverz.__file__.startswith(root), Solverz.__file__
from Solverz import Model, Var, Param, Eqn, made_numerical, module_printer


def sq(x):
    return np.sqrt(x * x + 1.0)


m = Model()
m.x = Var("x", [0.5, 1.5])
m.k = Param("k", sq(np.array([0.5, 1.5])), triggerable=True, trigger_var=["x"], trigger_fun=sq)
m.e = Eqn("e", m.k * m.x - 1)
eqs, y0 = m.create_instance()
nd = made_numerical(eqs, y0, sparse=True)
F0 = np.asarray(nd.F(y0, nd.p))
tmp = tempfile.mkdtemp()
module_printer(eqs, y0, "d76mod", directory=tmp, jit=False).render()
code = textwrap.dedent(f"""
    import sys; sys.path.insert(0, {root!r}); sys.path.insert(0, {tmp!r})
    import numpy as np
    from d76mod import mdl, y
    print(repr(list(np.asarray(mdl.F(y, mdl.p)))))
""")
r = subprocess.run([sys.executable, "-c", code], capture_output=True, text=True, cwd="/")
import shutil; shutil.rmtree(tmp, ignore_errors=True)
if r.returncode != 0:
    print("rendered module failed to import / evaluate:", r.stderr.strip().splitlines()[-1]); sys.exit(1)
Fm = np.array(eval(r.stdout.strip().splitlines()[-1], {"np": np}))
if not np.allclose(Fm, F0):
    print("module F", Fm, "in-process F", F0); sys.exit(1)
print("ok")
