"""C08 / DaeIc (called by Rodas and ode15s): a start whose algebraic residual is below the fixed 1e-6 counts as
consistent whatever rtol / atol are.

    x' = -x + z,  0 = z - cos(x),  x(0) = 0.3,  t in [0, 2],  Opt(rtol=1e-9, atol=1e-12)

The algebraic start value is a guess: the true z(0) is cos(0.3).  Three guesses are tried:
  z0 = cos(0.3)           exact
  z0 = 0                  rough guess (DaeIc projects it: fine)
  z0 = cos(0.3) + 5e-7    e.g. a value taken from an algebraic solve at 1e-6 (|g| = 5e-7 <= 1e-6: kept as it is)
Expected for each: every returned row within C*(atol + rtol*|y|) of the true solution, C = 100, for all Rodas
schemes and ode15s.  Exit code 0 if that holds, non-zero otherwise.
"""
import os
import sys

ROOT = os.environ.get('SOLVERZ_ROOT', '/tmp/pw2_C08')
sys.path.insert(0, ROOT)
import Solverz

assert Solverz.__file__.startswith(ROOT), Solverz.__file__

import numpy as np
from scipy.integrate import solve_ivp
from Solverz import Model, Var, Eqn, Ode, cos, made_numerical, Rodas, ode15s, Opt

m = Model()
m.x = Var('x', 0.3)
m.z = Var('z', np.cos(0.3))
m.f = Ode('f', -m.x + m.z, diff_var=m.x)
m.g = Eqn('g', m.z - cos(m.x))
sdae, y0 = m.create_instance()
ndae = made_numerical(sdae, y0, sparse=True)

r = solve_ivp(lambda t, x: -x + np.cos(x), [0, 2], [0.3], method='Radau', rtol=1e-13, atol=1e-15, dense_output=True)
exact = lambda t: np.array([r.sol(t)[0], np.cos(r.sol(t)[0])])

rtol, atol, C = 1e-9, 1e-12, 100.0
bad = []
for label, z0 in [('exact      ', np.cos(0.3)), ('rough guess', 0.0), ('off by 5e-7', np.cos(0.3) + 5e-7)]:
    for solver, scheme in [('Rodas', 'rodas4'), ('Rodas', 'rodasp'), ('Rodas', 'rodas5p'), ('ode15s', None)]:
        start = np.array([0.3, z0])
        try:
            if solver == 'Rodas':
                sol = Rodas(ndae, [0, 2], start, Opt(rtol=rtol, atol=atol, scheme=scheme))
            else:
                sol = ode15s(ndae, [0, 2], start, Opt(rtol=rtol, atol=atol))
        except Exception as e:
            print(f'z0 {label} {scheme or solver:8s}: raised {type(e).__name__}: {e}')
            bad.append(f'{label.strip()}/{scheme or solver}: {type(e).__name__}')
            continue
        T = np.asarray(sol.T)
        Y = np.asarray(sol.Y)
        R = np.array([exact(t) for t in T])
        ratio = np.abs(Y - R) / (atol + rtol * np.abs(R))
        k = np.argmax(ratio.max(axis=1))
        print(f'z0 {label} {scheme or solver:8s}: rows={len(T)}, max err/(atol+rtol|y|) = {ratio.max():.3g} at t = {T[k]:.3g}, '
              f'|g(Y[0])| = {abs(Y[0, 1] - np.cos(Y[0, 0])):.1e}')
        if ratio.max() > C:
            bad.append(f'{label.strip()}/{scheme or solver}: {ratio.max():.3g}')

assert not bad, ('expected every returned row within %g*(atol + rtol*|y|) of the true solution for every start; '
                 'actual: %s' % (C, bad))
print('OK')
