"""C08 / ode15s: a first-order lag at rest driven by a smooth pulse, default tolerances.

    y' = -y + u(t),  y(0) = 0,  t in [0, 1]
    (a) u(t) = 0.5*(1 - cos(2*pi*t))   raised-cosine pulse, Opt() defaults (rtol 1e-3, atol 1e-6)
    (b) u(t) = sin(2*pi*t)**3          rtol 1e-9, atol 1e-12

In both cases y'(0) = 0, y''(0) = u'(0) = 0 and u(1) = 0.  The true solution rises to 0.35 / 0.18.
The property wants |error| <= C*(atol + rtol*|y|) at every returned time (here the weaker norm-wise
bound C*(atol + rtol*max|y|), C = 100, is tested) and agreement with Rodas.
Exit code 0 if that holds, non-zero otherwise.
"""
import os
import sys

ROOT = os.environ.get('SOLVERZ_ROOT', '/tmp/pw2_C08')
sys.path.insert(0, ROOT)
import Solverz

assert Solverz.__file__.startswith(ROOT), Solverz.__file__

import numpy as np
from scipy.sparse import csc_array
from scipy.integrate import solve_ivp
from Solverz import ode15s, Rodas, Opt
from Solverz.num_api.num_eqn import nDAE

w = 2 * np.pi
cases = [('raised cosine', lambda t: 0.5 * (1 - np.cos(w * t)), Opt()),
         ('sin^3        ', lambda t: np.sin(w * t) ** 3, Opt(rtol=1e-9, atol=1e-12))]
C = 100.0
bad = []
for name, u, opt in cases:
    dae = nDAE(csc_array(np.eye(1)),
               lambda t, y, p, u=u: np.array([-y[0] + u(t)]),
               lambda t, y, p: csc_array(np.array([[-1.0]])),
               {})
    r = solve_ivp(lambda t, y: -y + u(t), [0, 1], [0.0], method='Radau', rtol=1e-13, atol=1e-15, dense_output=True)
    exact = lambda t: r.sol(t)[0]
    for tspan_name, tspan in [('dense ', np.linspace(0, 1, 11)), ('2-node', [0, 1])]:
        sol = ode15s(dae, tspan, np.array([0.0]), opt)
        T = np.asarray(sol.T)
        Y = np.asarray(sol.Y)[:, 0]
        ref = exact(T)
        ymax = np.max(np.abs(exact(np.linspace(0, 1, 201))))
        ratio = np.max(np.abs(Y - ref)) / (opt.atol + opt.rtol * ymax)
        yr_end = np.asarray(Rodas(dae, tspan, np.array([0.0]), opt).Y)[-1, 0]
        print(f'{name} {tspan_name} rtol={opt.rtol:g} atol={opt.atol:g}: ode15s nstep={sol.stats.nstep}, rows={len(T)}, '
              f'max|Y|={np.max(np.abs(Y)):.3e} (true max|y| {ymax:.3e}); '
              f'y(1): ode15s {Y[-1]:.6f} Rodas {yr_end:.6f} exact {exact(1.0):.6f}; '
              f'max err/(atol+rtol*max|y|) = {ratio:.3g}')
        if ratio > C:
            bad.append(f'{name.strip()}/{tspan_name.strip()}: {ratio:.3g}')

assert not bad, ('ode15s error is not tolerance-proportional: expected max err <= %g*(atol + rtol*max|y|), '
                 'actual ratios %s' % (C, bad))
print('OK')
