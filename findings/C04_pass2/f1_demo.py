"""C04 / history dependence in the Model glue: after `main.add(sub)` and `main.create_instance()`, the DAE instantiated
from the *sub* model carries the Odes of `main` in its mass matrix.  Exit 0 if the property holds."""
import os, sys, io, contextlib, warnings
ROOT = os.environ.get('SOLVERZ_ROOT', '/tmp/pw2_C04')
sys.path.insert(0, ROOT)
import Solverz
assert Solverz.__file__.startswith(ROOT), Solverz.__file__
import numpy as np
from Solverz import Model, Var, Eqn, Ode, made_numerical

warnings.simplefilter('error')  # the failure below is completely silent: not even a warning


def instantiate(m):
    with contextlib.redirect_stdout(io.StringIO()):
        eqs, y0 = m.create_instance()
        mdl = made_numerical(eqs, y0, sparse=True)
    return eqs, y0, mdl


def declared_M(decl, eqs, y0):
    # decl: {ode name: (variable name, element indices)}; everything else is algebraic
    M = np.zeros((int(eqs.eqn_size), int(y0.total_size)))
    for name, (var, ind) in decl.items():
        M[eqs.a.v[name], y0.a.v[var][ind]] = 1
    return M


# the component: one state x with dx/dt = -x
sub = Model()
sub.x = Var('x', [1.0])
sub.fx = Ode('fx', -sub.x, sub.x)
sub_decl = {'fx': ('x', [0])}

eqs, y0, mdl = instantiate(sub)
M_before = mdl.M.toarray()
assert np.array_equal(M_before, declared_M(sub_decl, eqs, y0))

# a larger model that includes the component (documented composition via Model.add)
main = Model()
main.y = Var('y', [2.0])
main.z = Var('z', [2.0])
main.fy = Ode('fy', -main.y, main.y)
main.gz = Eqn('gz', main.z - main.y)
main.add(sub)
eqs_main, y0_main, mdl_main = instantiate(main)
assert np.array_equal(mdl_main.M.toarray(),
                      declared_M({'fx': ('x', [0]), 'fy': ('y', [0])}, eqs_main, y0_main))

# `sub` itself was not touched: it still declares exactly one Ode on one variable
assert [k for k, v in vars(sub).items() if isinstance(v, (Eqn, Var))] == ['x', 'fx']
eqs, y0, mdl = instantiate(sub)
M_after = mdl.M.toarray()
names = list(eqs.EQNs)
assert names == ['fx'] and M_after.shape == (1, 1) and np.array_equal(M_after, M_before), (
    "mass matrix of the unchanged component model depends on the history:\n"
    f"  expected equations ['fx'], variables ['x'], M = {M_before.tolist()}\n"
    f"  actual   equations {names}, variables {y0.var_list}, M = {M_after.tolist()}")
print('ok')
