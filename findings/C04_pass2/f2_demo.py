"""C04 / declaration order: on the symbolic DAE object the rows of DAE.M follow the declaration order of the equations
(the equation addresses DAE.a, as F_/J_ of both backends do), but DAE.F(t, y) always returns [all Odes, all Eqns].
With an Eqn declared before an Ode, M*dy/dt = F(t, y) is therefore not the declared system.  Exit 0 if it is."""
import os, sys, io, contextlib, warnings
ROOT = os.environ.get('SOLVERZ_ROOT', '/tmp/pw2_C04')
sys.path.insert(0, ROOT)
import Solverz
assert Solverz.__file__.startswith(ROOT), Solverz.__file__
import numpy as np
from Solverz import Model, Var, Eqn, Ode, made_numerical

warnings.simplefilter('error')

m = Model()
m.x = Var('x', [1.0, 2.0])
m.z = Var('z', [5.0])
m.g = Eqn('g', m.z - 3 * m.x[0] - m.x[1])   # algebraic equation declared first; consistent: 5 - 3 - 2 = 0
m.f = Ode('f', -10 * m.x, m.x)              # dx/dt = -10 x

with contextlib.redirect_stdout(io.StringIO()):
    eqs, y0 = m.create_instance()
    mdl = made_numerical(eqs, y0, sparse=True)

M = eqs.M.toarray()
# the declared system at y0: residual of g is 0, dx/dt = [-10, -20]
F_declared = np.zeros(3)
F_declared[eqs.a.v['g']] = 0.0
F_declared[eqs.a.v['f']] = [-10.0, -20.0]
M_declared = np.zeros((3, 3))
M_declared[eqs.a.v['f'], y0.a.v['x']] = 1

assert np.array_equal(M, M_declared), (M, M_declared)
F_backend = mdl.F(0.0, y0.array, mdl.p)
assert np.array_equal(F_backend, F_declared), (F_backend, F_declared)   # the generated code agrees with M

F_sym = eqs.F(0.0, y0)
assert np.array_equal(F_sym, F_declared), (
    "DAE.F(t, y) and DAE.M of one and the same object use different row orders:\n"
    f"  equation addresses {dict((k, v.tolist()) for k, v in eqs.a.v.items())}\n"
    f"  M =\n{M}\n"
    f"  expected F (rows as in M) = {F_declared}\n"
    f"  actual   DAE.F(0, y0)     = {F_sym}\n"
    "  row 0 of M is all zero (algebraic) but F[0] = -10 is the right-hand side of dx[0]/dt;\n"
    "  row 2 of M says dx[1]/dt = F[2] = 0 although dx[1]/dt = -20 was declared")
print('ok')
