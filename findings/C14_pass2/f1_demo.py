"""
C14, first clause: equal model / time span / initial values / options must give identical results.

np.array([1000, 1001], dtype=np.float32) and [1000.0, 1001.0] are the same time span (np.array_equal is True,
every entry is exactly representable in both types).  backward_euler, implicit_trapezoid and fdae_solver keep
the dtype of the span, so the running time `tt = tt + dt` is accumulated in single precision (NumPy 2: a Python
float is "weak" next to a np.float32 scalar).  At t = 1000 one float32 ulp is 6.1e-5, so every `tt + 0.001`
is rounded to tt + 0.0009765625: the run silently takes 1024 steps instead of 1000, each of them a
backward-Euler step of size 0.001, and reports the state after 1.024 time units as the state at t = 1001.
Rodas and ode15s already convert the span to double (commit 65263da); the fixed-step integrators do not.
"""
import os
import sys

ROOT = os.environ.get('SOLVERZ_ROOT', '/tmp/pw2_C14')
sys.path.insert(0, ROOT)
import numpy as np
import Solverz

assert Solverz.__file__.startswith(ROOT), Solverz.__file__
from Solverz import Model, Var, Param, Eqn, Ode, Opt, AliasVar, made_numerical
from Solverz import backward_euler, implicit_trapezoid, fdae_solver

m = Model()
m.x = Var('x', [1.0])
m.f = Ode('f', -m.x, m.x)  # x' = -x
ode, y0 = m.create_instance()
node = made_numerical(ode, y0, sparse=True)

span64 = np.array([1000.0, 1001.0])
span32 = np.array([1000.0, 1001.0], dtype=np.float32)
assert np.array_equal(span64, span32)  # the same time span

fails = []
for solver in (backward_euler, implicit_trapezoid):
    opt = Opt(step_size=1e-3)  # one shared option object
    a = solver(node, span64, y0, opt)
    b = solver(node, span32, y0, opt)
    c = solver(node, [1000, 1001], y0, opt)  # a list of ints is handled correctly
    assert len(a.T) == len(c.T) and np.array_equal(a.T, c.T) and np.array_equal(a.Y.array, c.Y.array)
    print(f'{solver.__name__}: float64 span {len(a.T) - 1} steps, x(end) = {a.Y.array[-1, 0]:.6f}, T[1] - T[0] = {a.T[1] - a.T[0]:.10f}')
    print(f'{solver.__name__}: float32 span {len(b.T) - 1} steps, x(end) = {b.Y.array[-1, 0]:.6f}, T[1] - T[0] = {b.T[1] - b.T[0]:.10f}'
          f'   (exp(-1) = {np.exp(-1):.6f})')
    if len(a.T) != len(b.T) or not np.allclose(a.Y.array[-1], b.Y.array[-1], rtol=1e-9, atol=0):
        fails.append(f'{solver.__name__}: equal spans, expected {len(a.T) - 1} steps and x(end) = {a.Y.array[-1, 0]:.9f}, '
                     f'got {len(b.T) - 1} steps and x(end) = {b.Y.array[-1, 0]:.9f} for the float32 span')

# fdae_solver: the grid t0 + k*h is formed in float32 as well, so the reported times (and the times handed to F)
# are rounded to single precision
mf = Model()
mf.x = Var('x', [1.0])
mf.x0 = AliasVar('x', init=mf.x)
mf.h = Param('h', 1e-3)
mf.e = Eqn('e', mf.x - mf.x0 + mf.h * mf.x)
fd, u0 = mf.create_instance()
nfd = made_numerical(fd, u0, sparse=True)
a = fdae_solver(nfd, span64, u0, Opt(step_size=1e-3))
b = fdae_solver(nfd, span32, u0, Opt(step_size=1e-3))
err = np.abs(a.T - b.T).max() if len(a.T) == len(b.T) else np.inf
print(f'fdae_solver: max |T64 - T32| = {err:.3e}')
if not err < 1e-10:
    fails.append(f'fdae_solver: equal spans, expected the grid 1000 + k*0.001, got times off by up to {err:.3e}')

assert not fails, '\n' + '\n'.join(fails)
print('OK')
