"""C09 / f1: Rodas silently returns a one-row result (no failure flag, no message) when the sparse LU of
M - dt*gamma*J is exactly singular for the step size it happens to try.

Input: the well-posed scalar ODE y' = 8*y, y(0) = 1, tspan = [0, 1], Opt(hinit=0.5)  (gamma = 0.25 for all
three schemes, so 1 - 0.5*0.25*8 == 0 exactly).  Also the dense form tspan = linspace(0, 1, 11).
Property: the returned times end at tend unless a terminal event or a REPORTED failure stops the run.
"""
import os, sys
ROOT = os.environ.get('SOLVERZ_ROOT', '/tmp/pw_C09')
sys.path.insert(0, ROOT)
import numpy as np
import Solverz
assert Solverz.__file__.startswith(ROOT), Solverz.__file__
from scipy.sparse import csc_array
from Solverz import Rodas, Opt
from Solverz.num_api.num_eqn import nDAE

lam = 8.0
dae = nDAE(csc_array(np.array([[1.0]])),
           lambda t, y, p: lam * y,
           lambda t, y, p: csc_array(np.array([[lam]])),
           {})
bad = []
for scheme in ('rodas4', 'rodasp', 'rodas5p'):
    for tspan in ([0, 1], np.linspace(0, 1, 11)):
        sol = Rodas(dae, tspan, np.array([1.0]), Opt(scheme=scheme, hinit=0.5))
        tend = float(tspan[-1])
        reached = sol.T[-1] == tend and (len(tspan) == 2 or np.array_equal(sol.T, np.asarray(tspan, float)))
        reported = sol.stats.ret == 'failed'
        if not (reached or reported):
            bad.append(f"{scheme}, {len(tspan)} nodes: expected T[-1] == {tend} (or stats.ret == 'failed'); "
                       f"actual T = {sol.T}, rows = {sol.Y.shape[0]}, stats.ret = {sol.stats.ret!r}")
        if reached:
            err = abs(sol.Y[-1, 0] - np.exp(lam * tend)) / np.exp(lam * tend)
            assert err < 1e-1, f'{scheme}: inaccurate end value, rel. err {err}'
assert not bad, "run stopped before tend without any reported failure:\n  " + "\n  ".join(bad)
print('ok')
