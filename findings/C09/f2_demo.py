"""C09 / f2: Rodas stops before tend (and drops the last requested node) when a NON-terminal event is located
within 2.2e-16 (an absolute, not a relative, distance) of tend -- visible on very short spans.

Input: y' = -y, y(0) = 1, tspan = linspace(0, 1e-9, 11) (and the two-node form [0, 1e-9]), default tolerances,
a non-terminal event g(t, y) = t - (tend - 1e-16), i.e. a crossing 1e-7 span lengths before tend
(np.spacing(1e-9) is 2e-25, so this is 5e8 ulp away from tend, not a rounding-level distance).
Property: times end at tend unless a TERMINAL event or a reported failure stops the run; with more than two
nodes the returned times are exactly the nodes, the last one included.
"""
import os, sys
ROOT = os.environ.get('SOLVERZ_ROOT', '/tmp/pw_C09')
sys.path.insert(0, ROOT)
import numpy as np
import Solverz
assert Solverz.__file__.startswith(ROOT), Solverz.__file__
from scipy.sparse import csc_array
from Solverz import Rodas, Opt
from Solverz.num_api.num_eqn import nDAE

dae = nDAE(csc_array(np.array([[1.0]])),
           lambda t, y, p: -y,
           lambda t, y, p: csc_array(np.array([[-1.0]])),
           {})
tend = 1e-9
tc = tend - 1e-16


def event(t, y):
    return np.array([t - tc]), np.array([0]), np.array([0])  # value, isterminal (no), direction (any)


bad = []
for scheme in ('rodas4', 'rodasp', 'rodas5p'):
    for tspan in (np.linspace(0, tend, 11), [0, tend]):
        sol = Rodas(dae, tspan, np.array([1.0]), Opt(scheme=scheme, event=event))
        if sol.stats.ret == 'failed':
            continue
        nodes = np.asarray(tspan, float)
        ok = sol.T[-1] == tend and sol.Y.shape[0] == sol.T.shape[0] and np.all(np.diff(sol.T) > 0)
        if len(nodes) > 2:
            ok = ok and np.array_equal(sol.T, nodes)
        if not ok:
            bad.append(f"{scheme}, {len(nodes)} nodes: expected T[-1] == {tend!r}" +
                       (f" and {len(nodes)} rows" if len(nodes) > 2 else "") +
                       f"; actual T[-1] = {sol.T[-1]!r}, rows = {len(sol.T)}, te = {sol.te}, stats.ret = {sol.stats.ret!r}")
assert not bad, "a non-terminal event ended the run before tend:\n  " + "\n  ".join(bad)
print('ok')
