"""C09 / f3: ode15s called with an event function in the options returns None -- no time grid, no state rows,
no exception, no message (for a Vars start value the parser then fails with an unrelated AttributeError).

Input: y' = -y, y(0) = 1, tspan = [0, 1] and linspace(0, 1, 11), Opt(event=g) with the non-terminal event
g = y - 0.5 (the same Opt object gives a correct result with Rodas).
Property (quantified over ode15s x with/without events): the call returns times from t0 to tend (or to a
terminal event) with one state row per time.  A loud refusal would be acceptable; a silent None is not.
"""
import os, sys
ROOT = os.environ.get('SOLVERZ_ROOT', '/tmp/pw_C09')
sys.path.insert(0, ROOT)
import numpy as np
import Solverz
assert Solverz.__file__.startswith(ROOT), Solverz.__file__
from scipy.sparse import csc_array
from Solverz import ode15s, Rodas, Opt
from Solverz.num_api.num_eqn import nDAE

dae = nDAE(csc_array(np.array([[1.0]])),
           lambda t, y, p: -y,
           lambda t, y, p: csc_array(np.array([[-1.0]])),
           {})


def event(t, y):
    return np.array([y[0] - 0.5]), np.array([0]), np.array([0])


opt = Opt(event=event)
ref = Rodas(dae, [0, 1], np.array([1.0]), opt)
assert ref.T[0] == 0 and ref.T[-1] == 1 and abs(ref.te[0] - np.log(2)) < 1e-3  # the options are legal

bad = []
for tspan in ([0, 1], np.linspace(0, 1, 11)):
    try:
        sol = ode15s(dae, tspan, np.array([1.0]), opt)
    except (NotImplementedError, ValueError, TypeError) as e:
        print(f'loud refusal ({type(e).__name__}: {e}) -- acceptable')
        continue
    if sol is None:
        bad.append(f"{len(tspan)} nodes: expected a daesol with T[0] == 0, T[-1] == 1 and one row per time "
                   f"(or a loud refusal); actual return value: {sol!r}")
        continue
    nodes = np.asarray(tspan, float)
    ok = sol.T[0] == 0 and sol.T[-1] == 1 and np.all(np.diff(sol.T) > 0) and sol.Y.shape[0] == len(sol.T)
    if len(nodes) > 2:
        ok = ok and np.array_equal(sol.T, nodes)
    if not ok:
        bad.append(f"{len(tspan)} nodes: wrong grid {sol.T}")
assert not bad, "ode15s with Opt(event=...):\n  " + "\n  ".join(bad)
print('ok')
