"""C07 finding 1: at late start times the fixed-step Rodas schemes converge with order 1, not 4.

Problem (smooth, non-autonomous, non-stiff scalar ODE with known solution y = sin(w t), w = 20):
    y' = -(y - sin(w t)) * (1 + y**2) + w cos(w t)
integrated over [t0, t0 + 1] with fixed steps h = 1/n.  Started at t0 = 10 the ladder shows the declared order 4;
started at t0 = 1e4 (the same equation, 2.8 hours into a simulation counted in seconds) the error decreases like h**1.
"""
import os
import sys

root = os.environ.get('SOLVERZ_ROOT', '/tmp/pw2_C07')
sys.path.insert(0, root)
import Solverz

assert Solverz.__file__.startswith(root), Solverz.__file__

import numpy as np
from scipy.sparse import csc_array
from Solverz import Rodas, Opt
from Solverz.num_api.num_eqn import nDAE

w = 20.0
phi = lambda t: np.sin(w * t)
F = lambda t, y, p: np.array([-(y[0] - phi(t)) * (1 + y[0] ** 2) + w * np.cos(w * t)])
J = lambda t, y, p: csc_array(np.array([[-(1 + y[0] ** 2) - (y[0] - phi(t)) * 2 * y[0]]]))
dae = nDAE(csc_array(np.array([[1.0]])), F, J, {})


def ladder(t0, scheme, ns):
    errs = []
    for n in ns:
        sol = Rodas(dae, [t0, t0 + 1.0], np.array([phi(t0)]), Opt(fix_h=True, hinit=1.0 / n, scheme=scheme))
        assert sol.T[-1] == t0 + 1.0
        errs.append(abs(sol.Y[-1, 0] - phi(sol.T[-1])))
    errs = np.array(errs)
    slope = np.polyfit(np.log(1.0 / np.array(ns)), np.log(errs), 1)[0]
    return errs, slope


bad = []
for scheme, p, ns in (('rodasp', 4, (50, 100, 200, 400)), ('rodas4', 4, (50, 100, 200))):
    for t0 in (10.0, 1.0e3, 1.0e4):
        errs, slope = ladder(t0, scheme, ns)
        print(f'{scheme:8s} t0={t0:8.0f}  errors ' + ' '.join(f'{e:.2e}' for e in errs) + f'   fitted order {slope:.2f}')
        if slope < p - 0.5:
            bad.append(f'{scheme} started at t0={t0:g}: expected order {p} (fitted >= {p - 0.5}), '
                       f'actual fitted order {slope:.2f}, errors {errs}')

assert not bad, 'declared order not observed:\n  ' + '\n  '.join(bad)
print('ok')
