"""
C05 finding 2: made_numerical(eqs, y, make_hvp=True) with its default sparse=False (the inline dense backend)
attaches an HVP to the numerical model, but the generated Hvp_ accumulates its blocks into the undefined name J_
instead of into Hvp_, so every call raises NameError as soon as the model has one nonlinear term.

exit 0  : the dense inline HVP(y, p, v) equals d(J(y, p) v)/dy
exit !=0: otherwise
"""
import os
import sys
import io
import contextlib
import warnings

ROOT = os.environ.get('SOLVERZ_ROOT', '/tmp/pw_C05')
sys.path.insert(0, ROOT)
import numpy as np
import Solverz

assert os.path.abspath(Solverz.__file__).startswith(os.path.abspath(ROOT)), Solverz.__file__
from Solverz import Model, Var, Param, Eqn, made_numerical, ln

warnings.simplefilter('ignore')

m = Model()
m.x = Var('x', [1., 2., 3.])
m.y = Var('y', [2.])          # size-one variable
m.p = Param('p', [1., 2., 3.])
m.f1 = Eqn('f1', m.x ** 3 * m.y * m.p - m.y ** 2 / m.x + m.p * m.y + m.y ** 3)
m.f2 = Eqn('f2', m.y ** 3 - m.x[0] * m.x[2] * ln(m.y))
eqs, y0 = m.create_instance()
with contextlib.redirect_stdout(io.StringIO()):
    mdl, code = made_numerical(eqs, y0, make_hvp=True, output_code=True)  # default options: sparse=False

assert hasattr(mdl, 'HVP'), "the dense inline backend does not offer an HVP"
y = y0.array.copy()
v = np.array([1., -2., 3., 0.5])
n = y.size
expected = np.zeros((n, n))
for j in range(n):
    e = np.zeros(n)
    e[j] = 1e-6
    expected[:, j] = ((mdl.J(y + e, mdl.p) - mdl.J(y - e, mdl.p)) @ v) / 2e-6

try:
    actual = np.asarray(mdl.HVP(y, mdl.p, v))
except Exception as e:
    raise AssertionError("C05 violated on the inline dense backend: expected HVP(y, p, v) =\n"
                         f"{expected}\nactual: {type(e).__name__}: {e}\ngenerated code:\n{code['HVP']}")
assert np.allclose(actual, expected, rtol=1e-5, atol=1e-6), \
    f"C05 violated on the inline dense backend: expected\n{expected}\nactual\n{actual}"
print("C05 holds on the inline dense backend")
