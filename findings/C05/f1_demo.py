"""
C05 finding 1: a model that indexes a variable with a stepped slice (x[0:4:2], x[::2], x[::-1] ...).
F and the sparse J of such a model are generated and are correct, but the generated Hvp_ multiplies the
derivative by the wrong part of v (v_[0:3] instead of v_[0:4:2]) and cannot be evaluated.

exit 0  : HVP(y, p, v) == d(J(y, p) v)/dy on the inline sparse and the module (python) backend
exit !=0: otherwise
"""
import os
import sys
import shutil
import tempfile
import importlib
import io
import contextlib
import warnings

ROOT = os.environ.get('SOLVERZ_ROOT', '/tmp/pw_C05')
sys.path.insert(0, ROOT)
import numpy as np
import Solverz

assert os.path.abspath(Solverz.__file__).startswith(os.path.abspath(ROOT)), Solverz.__file__
from Solverz import Model, Var, Eqn, made_numerical, module_printer

warnings.simplefilter('ignore')


def build():
    m = Model()
    m.x = Var('x', [1., 2., 3., 4.])
    m.f1 = Eqn('f1', m.x[0:4:2] ** 2 - m.x[1:4:2])  # rows 0,1: x0^2 - x1, x2^2 - x3
    m.f2 = Eqn('f2', m.x[0:2] * m.x[2:4] - 1)       # rows 2,3
    return m.create_instance()


y = np.array([1., 2., 3., 4.])
v = np.array([0.3, -1.1, 0.7, 2.0])
# d(J v)/dy by hand: row0 = x0^2 - x1 -> (J v)_0 = 2 x0 v0 - v1 -> d/dx0 = 2 v0
#                    row1 = x2^2 - x3 -> d/dx2 = 2 v2
#                    row2 = x0 x2 - 1 -> (J v)_2 = x2 v0 + x0 v2 -> d/dx0 = v2, d/dx2 = v0
#                    row3 = x1 x3 - 1 -> d/dx1 = v3, d/dx3 = v1
expected = np.zeros((4, 4))
expected[0, 0] = 2 * v[0]
expected[1, 2] = 2 * v[2]
expected[2, 0] = v[2]
expected[2, 2] = v[0]
expected[3, 1] = v[3]
expected[3, 3] = v[1]


def fd_reference(mdl):
    n = y.size
    R = np.zeros((n, n))
    for j in range(n):
        e = np.zeros(n)
        e[j] = 1e-6
        R[:, j] = ((mdl.J(y + e, mdl.p) - mdl.J(y - e, mdl.p)) @ v) / 2e-6
    return R


failures = []
tmp = tempfile.mkdtemp(prefix='c05_f1_')
try:
    for backend in ('inline sparse', 'module python'):
        try:
            eqs, y0 = build()
            with contextlib.redirect_stdout(io.StringIO()):
                if backend == 'inline sparse':
                    mdl = made_numerical(eqs, y0, sparse=True, make_hvp=True)
                else:
                    module_printer(eqs, y0, 'c05_f1_mod', directory=tmp, jit=False, make_hvp=True).render()
                    sys.path.insert(0, tmp)
                    mdl = importlib.import_module('c05_f1_mod').mdl
            # the model is legal: its J is the derivative of its F, and d(Jv)/dy is what we computed by hand
            R = fd_reference(mdl)
            assert np.allclose(R, expected, atol=1e-6), f"reference check failed\n{R}\n{expected}"
            H = mdl.HVP(y, mdl.p, v).toarray()
            if not np.allclose(H, expected, atol=1e-9):
                failures.append(f"[{backend}] HVP differs from d(Jv)/dy:\nexpected\n{expected}\nactual\n{H}")
        except Exception as e:
            failures.append(f"[{backend}] expected HVP =\n{expected}\nactual: {type(e).__name__}: {e}")
finally:
    shutil.rmtree(tmp, ignore_errors=True)

assert not failures, "C05 violated for a stepped-slice model:\n" + "\n".join(failures)
print("C05 holds on the stepped-slice model")
