"""
C05 finding 3 (numba module backend only): an integer literal coefficient whose first-derivative coefficient still
fits into int64 but whose second-derivative coefficient does not.  F = 1 - 2*10**18 * x**3 gives
J = -6*10**18 * x**2 (fine) and Hvp = -12*10**18 * v * x; the module printer writes the coefficient as the Python
integer literal -12000000000000000000, which numba refuses ("Int value is too large"), so the rendered package
cannot even be imported when make_hvp=True (with make_hvp=False, and on the inline / plain python backends, the
same model works).

exit 0  : the numba module with make_hvp=True can be imported and its HVP equals d(J v)/dy
exit !=0: otherwise
"""
import os
import sys
import shutil
import tempfile
import importlib
import io
import contextlib
import warnings

ROOT = os.environ.get('SOLVERZ_ROOT', '/tmp/pw_C05')
sys.path.insert(0, ROOT)
import numpy as np
import Solverz

assert os.path.abspath(Solverz.__file__).startswith(os.path.abspath(ROOT)), Solverz.__file__
from Solverz import Model, Var, Eqn, made_numerical, module_printer

warnings.simplefilter('ignore')


def build():
    m = Model()
    m.x = Var('x', [1., 2., 3.])
    m.f1 = Eqn('f1', 1 - 2 * 10 ** 18 * m.x ** 3)
    return m.create_instance()


y = np.array([1., 2., 3.])
v = np.array([0.5, -1.5, 2.0])
expected = np.diag(-12e18 * v * y)

tmp = tempfile.mkdtemp(prefix='c05_f3_')
sys.path.insert(0, tmp)
try:
    # reference backends: the model is fine there
    eqs, y0 = build()
    with contextlib.redirect_stdout(io.StringIO()):
        ref = made_numerical(eqs, y0, sparse=True, make_hvp=True)
    assert np.allclose(ref.HVP(y, ref.p, v).toarray(), expected, rtol=1e-12)

    # numba module without HVP: F and J compile
    eqs, y0 = build()
    with contextlib.redirect_stdout(io.StringIO()):
        module_printer(eqs, y0, 'c05_f3_nohvp', directory=tmp, jit=True, make_hvp=False).render()
        mdl0 = importlib.import_module('c05_f3_nohvp').mdl
    assert np.allclose(mdl0.J(y, mdl0.p).toarray(), np.diag(-6e18 * y ** 2), rtol=1e-12)

    # numba module with HVP
    eqs, y0 = build()
    try:
        with contextlib.redirect_stdout(io.StringIO()):
            module_printer(eqs, y0, 'c05_f3_hvp', directory=tmp, jit=True, make_hvp=True).render()
            mdl = importlib.import_module('c05_f3_hvp').mdl
        actual = mdl.HVP(y, mdl.p, v).toarray()
    except Exception as e:
        msg = str(e).strip().splitlines()
        raise AssertionError("C05 violated on the numba module backend: expected HVP =\n"
                             f"{expected}\nactual: {type(e).__name__}: {' | '.join(msg[:3])}") from None
    assert np.allclose(actual, expected, rtol=1e-12), f"expected\n{expected}\nactual\n{actual}"
finally:
    shutil.rmtree(tmp, ignore_errors=True)
print("C05 holds on the numba module for the big-integer-coefficient model")
