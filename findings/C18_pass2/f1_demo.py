"""
C18, finding 1: b - (c*x + Mat_Mul(A, x)) with a length-one parameter c.

The residual of the linear system (c*I + A) x = b written as "right-hand side minus left-hand side". The repaired case
679bcc8 (c*x + Mat_Mul(A, x), Diag(c) + A at the top level of the derivative) is correct now, but as soon as the same sum
sits under a factor (a minus sign, a number, a vector coefficient, Abs, another Mat_Mul) the derivative is
-(Diag(c) + A): one Mul term, np.diagflat(c) is 1 x 1 and numpy adds c to EVERY entry of A.

Exit 0: the library raised somewhere (loud) or returned the right Jacobian.  Exit 1: silently wrong Jacobian.
"""
import os
import sys

ROOT = os.environ.get('SOLVERZ_ROOT', '/tmp/pw2_C18')
sys.path.insert(0, ROOT)
import numpy as np
import Solverz

assert Solverz.__file__.startswith(ROOT), f'wrong Solverz imported: {Solverz.__file__}'
from Solverz import Model, Var, Param, Eqn, Mat_Mul, Abs, made_numerical

A = np.array([[1., 2., 3.], [4., 5., 6.5], [7., 8.5, 10.]])
c = 1.7
b = np.array([0.6, -1.1, 2.2])
x0 = np.array([0.5, 1.0, 1.5])
I3 = np.eye(3)

cases = {
    'b - (c*x + A@x)': (lambda m: m.b - (m.c * m.x + Mat_Mul(m.A, m.x)),
                        lambda x: b - (c * x + A @ x),
                        lambda x: -(c * I3 + A)),
    '2*(c*x + A@x) - b': (lambda m: 2 * (m.c * m.x + Mat_Mul(m.A, m.x)) - m.b,
                          lambda x: 2 * (c * x + A @ x) - b,
                          lambda x: 2 * (c * I3 + A)),
    'b*(c*x + A@x)': (lambda m: m.b * (m.c * m.x + Mat_Mul(m.A, m.x)),
                      lambda x: b * (c * x + A @ x),
                      lambda x: np.diag(b) @ (c * I3 + A)),
    'A@(c*x + A@x) - b': (lambda m: Mat_Mul(m.A, m.c * m.x + Mat_Mul(m.A, m.x)) - m.b,
                          lambda x: A @ (c * x + A @ x) - b,
                          lambda x: A @ (c * I3 + A)),
    'A@(c*x + b*x) - b': (lambda m: Mat_Mul(m.A, m.c * m.x + m.b * m.x) - m.b,
                          lambda x: A @ (c * x + b * x) - b,
                          lambda x: A @ (c * I3 + np.diag(b))),
    'Abs(c*x + A@x) - b': (lambda m: Abs(m.c * m.x + Mat_Mul(m.A, m.x)) - m.b,
                           lambda x: np.abs(c * x + A @ x) - b,
                           lambda x: np.diag(np.sign(c * x + A @ x)) @ (c * I3 + A)),
}

bad = []
for name, (expr, Fref, Jref) in cases.items():
    try:
        m = Model()
        m.x = Var('x', x0)
        m.A = Param('A', A, dim=2)
        m.c = Param('c', c)
        m.b = Param('b', b)
        m.e = Eqn('e', expr(m))
        eqs, y0 = m.create_instance()
        n = made_numerical(eqs, y0, sparse=False)
        F = np.asarray(n.F(x0, n.p))
        J = n.J(x0, n.p)
        J = J.toarray() if hasattr(J, 'toarray') else np.asarray(J)
    except Exception as ex:
        print(f'{name}: loud {type(ex).__name__}: {ex}  -> allowed by C18')
        continue
    okF = np.allclose(F, Fref(x0), rtol=1e-12, atol=1e-12)
    okJ = J.shape == (3, 3) and np.allclose(J, Jref(x0), rtol=1e-12, atol=1e-12)
    print(f'{name}: F correct = {okF}, J correct = {okJ}')
    if not (okF and okJ):
        bad.append(f'{name}:\n  expected J =\n{Jref(x0)}\n  actual J =\n{J}\n  (actual - expected) =\n{J - Jref(x0)}')

assert not bad, ('C18 violated: the dense J_ of a model was returned without any error and differs from the '
                 'derivative of what the user wrote:\n' + '\n'.join(bad))
print('C18 holds on these inputs')
