"""
C18, finding 2: an index parameter with a non-integral value is silently truncated.

x - d[i] with the index parameter i = [0.29*100, 3].  0.29*100 is 28.999999999999996 in double precision; the user
means entry 29, numpy itself refuses a float subscript (IndexError), a fractional subscript such as d[1.5] has no
meaning at all.  Solverz stores i through Array(value, dtype=int), i.e. astype(int): i becomes [28, 3] (and 1.5
becomes 1) and F_ is evaluated with d[28] without any message.

Exit 0: the library raised somewhere (loud) or F used d[29].  Exit 1: F silently used another entry.
"""
import os
import sys

ROOT = os.environ.get('SOLVERZ_ROOT', '/tmp/pw2_C18')
sys.path.insert(0, ROOT)
import numpy as np
import Solverz

assert Solverz.__file__.startswith(ROOT), f'wrong Solverz imported: {Solverz.__file__}'
from Solverz import Model, Var, Param, IdxParam, Eqn, made_numerical

d = np.arange(10., 50.)   # d[k] = 10 + k
x0 = np.array([1.0, 2.0])
bad = []
for label, ival, meant in [('i = [0.29*100, 3]', [0.29 * 100, 3], [29, 3]),
                           ('i = [1.5, 3]', [1.5, 3], None)]:
    for sparse in (False, True):
        try:
            m = Model()
            m.x = Var('x', x0)
            m.d = Param('d', d)
            m.i = IdxParam('i', ival)
            m.e = Eqn('e', m.x - m.d[m.i])
            eqs, y0 = m.create_instance()
            n = made_numerical(eqs, y0, sparse=sparse)
            F = np.asarray(n.F(x0, n.p))
        except Exception as ex:
            print(f'{label} sparse={sparse}: loud {type(ex).__name__}: {ex}  -> allowed by C18')
            continue
        used = x0 - F - 10      # the subscripts F actually read
        if meant is None:
            bad.append(f'{label} sparse={sparse}: d[1.5] has no meaning, expected an error, '
                       f'actual: F = {F} computed silently with subscripts {used}')
        elif not np.allclose(F, x0 - d[meant]):
            bad.append(f'{label} sparse={sparse}: expected F = {x0 - d[meant]} (subscripts {meant}) or an error, '
                       f'actual F = {F} (subscripts {used})')
        else:
            print(f'{label} sparse={sparse}: F correct')

assert not bad, 'C18 violated: unsupported subscript values evaluated silently:\n' + '\n'.join(bad)
print('C18 holds on these inputs')
