"""
C13 probe, finding 1: the numba (jit=True) module backend returns a different F / J for an integer-typed state vector
than for the equal float-typed state vector (isolated negative integer powers are evaluated in integer arithmetic:
2**-2 == 0), silently. Exits 0 if F and J agree for equal arguments (or the integer-typed call fails loudly).
"""
import os
import sys

ROOT = os.environ.get('SOLVERZ_ROOT', '/tmp/pw_C13')
sys.path.insert(0, ROOT)
import Solverz

assert Solverz.__file__.startswith(ROOT), f'wrong Solverz imported: {Solverz.__file__}'

import contextlib
import importlib
import io
import shutil
import tempfile
import warnings

import numpy as np
from Solverz import Model, Var, Param, Eqn, module_printer

warnings.simplefilter('ignore')

m = Model()
m.x = Var('x', [2.0])
m.z = Var('z', [1.0])
m.f1 = Eqn('f1', m.x ** -2 + m.z - 1)  # F carries the isolated power x**(-2)
m.f2 = Eqn('f2', m.z - 1 / m.x)  # dF/dx = x**(-2)
eqs, y0 = m.create_instance()

tmp = tempfile.mkdtemp(prefix='c13_f1_')
sys.path.insert(0, tmp)
try:
    with contextlib.redirect_stdout(io.StringIO()):
        module_printer(eqs, y0, 'c13_f1_mod', directory=tmp, jit=True).render()
        mod = importlib.import_module('c13_f1_mod')
    mdl = mod.mdl

    y_float = np.array([2.0, 1.0])
    y_int = np.array([2, 1])  # the same point, integer-typed
    assert np.array_equal(y_float, y_int)

    F_ref = mdl.F(y_float, mdl.p)
    J_ref = mdl.J(y_float, mdl.p).toarray()
    np.testing.assert_allclose(F_ref, [0.25, 0.5], rtol=1e-14)
    np.testing.assert_allclose(J_ref, [[-0.25, 1.0], [0.25, 1.0]], rtol=1e-14)

    try:
        F_int = mdl.F(y_int, mdl.p)
        J_int = mdl.J(y_int, mdl.p).toarray()
    except (TypeError, ValueError) as e:
        # a loud refusal of the integer-typed point is no silent violation
        print(f'integer-typed state refused loudly: {type(e).__name__}: {e}')
        sys.exit(0)

    # interleave once more: the float-typed answer must not have moved either
    assert np.array_equal(mdl.F(y_float, mdl.p), F_ref)

    assert np.allclose(F_int, F_ref, rtol=1e-12, atol=0), \
        f'F differs for equal arguments: expected {F_ref} (float-typed y), got {F_int} (integer-typed y)'
    assert np.allclose(J_int, J_ref, rtol=1e-12, atol=0), \
        f'J differs for equal arguments: expected\n{J_ref}\n(float-typed y), got\n{J_int}\n(integer-typed y)'
    print('F and J agree for the integer-typed and the float-typed state')
finally:
    sys.path.remove(tmp)
    shutil.rmtree(tmp, ignore_errors=True)
