"""C12: a Newton iteration that did not converge is accepted as a step by backward_euler, implicit_trapezoid and
fdae_solver; the returned pair violates the step equation by 0.1 - 0.2 although ite_tol = 1e-8.

Model: rate-limited relaxation  x' = -Saturation(100 x, -1, 1), x(0) = 0.95, h = 0.1 (Lipschitz, piecewise linear,
unique smooth-in-pieces solution; every implicit step equation is strictly monotone and has exactly one root).

Exits 0 if the property holds (every returned pair satisfies its step equation within ite_tol; a run that is cut short
must at least not be flagged as succeeded), non-zero otherwise.
"""
import contextlib
import io
import os
import sys

ROOT = os.environ.get('SOLVERZ_ROOT', '/tmp/pw_C12')
sys.path.insert(0, ROOT)
import numpy as np
import Solverz
assert os.path.abspath(Solverz.__file__).startswith(os.path.abspath(ROOT)), Solverz.__file__
from Solverz import (Model, Var, AliasVar, Param, Eqn, Ode, Saturation, made_numerical, fdae_solver, backward_euler,
                     implicit_trapezoid, Opt)

h, tol, t0, tend, x0 = 0.1, 1e-8, 0.0, 2.0, 0.95


def quiet(f, *a, **k):
    buf = io.StringIO()
    with contextlib.redirect_stdout(buf):
        r = f(*a, **k)
    return r, buf.getvalue()


m = Model()
m.x = Var('x', x0)
m.f = Ode('f', f=-Saturation(100 * m.x, -1, 1), diff_var=m.x)
dae, y0 = m.create_instance()
(ndae, _) = quiet(made_numerical, dae, y0, sparse=True)

m = Model()
m.u = Var('u', x0)
m.u0 = AliasVar('u', init=m.u)
m.dt = Param('dt', h)
m.e = Eqn('e', m.u - m.u0 + m.dt * Saturation(100 * m.u, -1, 1))
fdae, u0 = m.create_instance()
(nfdae, _) = quiet(made_numerical, fdae, u0, sparse=True)


def residuals(name, sol):
    T = sol.T
    Y = sol.Y.array
    r = []
    for k in range(len(T) - 1):
        if name == 'backward_euler':
            r.append(ndae.M @ Y[k + 1] - ndae.M @ Y[k] - h * ndae.F(T[k] + h, Y[k + 1], ndae.p))
        elif name == 'implicit_trapezoid':
            r.append(ndae.M @ Y[k + 1] - ndae.M @ Y[k]
                     - h / 2 * (ndae.F(T[k] + h, Y[k + 1], ndae.p) + ndae.F(T[k], Y[k], ndae.p)))
        else:
            r.append(nfdae.F(T[k] + h, Y[k + 1], nfdae.p, Y[k]))
    return np.abs(np.array(r)).max() if r else 0.0


failures = []
for name, run in [('backward_euler', lambda: backward_euler(ndae, [t0, tend], y0, Opt(step_size=h, ite_tol=tol))),
                  ('implicit_trapezoid', lambda: implicit_trapezoid(ndae, [t0, tend], y0, Opt(step_size=h, ite_tol=tol))),
                  ('fdae_solver', lambda: fdae_solver(nfdae, [t0, tend], u0, Opt(step_size=h, ite_tol=tol)))]:
    try:
        sol, out = quiet(run)
    except Exception as e:  # a loud failure is not a violation of the step-equation clause
        print(f"{name}: raised {type(e).__name__}: {e}")
        continue
    worst = residuals(name, sol)
    complete = abs(sol.T[-1] - tend) < 1e-9
    print(f"{name}: {len(sol.T) - 1} steps, T[-1]={sol.T[-1]:.3f}, worst step residual {worst:.3e} (ite_tol {tol}), "
          f"stats.succeed={sol.stats.succeed}, x = {np.round(sol.Y.array[-4:, 0], 4)}")
    if worst > 1.001 * tol:
        failures.append(f"{name}: returned pair violates the step equation: residual {worst:.3e} > ite_tol {tol}")
    if not complete and sol.stats.succeed:
        failures.append(f"{name}: run stopped at {sol.T[-1]} < tend but is flagged as succeeded")

assert not failures, "\n".join(failures)
print("OK")
