"""C12: with the default Newton tolerance the fixed-step integrators freeze a slowly varying state, and the global error
grows like 1/h instead of shrinking like h (backward Euler) or h^2 (trapezoidal rule).

x' = -x, x(0) = 1 on [0, 10].  Every returned pair satisfies its step equation within ite_tol = 1e-5 (the default), yet
x(10) comes out as about 1e-5 / h instead of exp(-10) = 4.5e-5: as soon as h * |x| <= ite_tol the start value x_n already
"solves" the step equation, nr_method does no iteration at all and x_{n+1} == x_n exactly.

Exits 0 if the global error at tend is below a generous C * h^p (C = 1, p = 1 / 2) and does not grow when h shrinks;
non-zero otherwise.
"""
import contextlib
import io
import os
import sys

ROOT = os.environ.get('SOLVERZ_ROOT', '/tmp/pw_C12')
sys.path.insert(0, ROOT)
import numpy as np
import Solverz
assert os.path.abspath(Solverz.__file__).startswith(os.path.abspath(ROOT)), Solverz.__file__
from Solverz import Model, Var, Ode, made_numerical, backward_euler, implicit_trapezoid, Opt

m = Model()
m.x = Var('x', 1.0)
m.f = Ode('f', f=-m.x, diff_var=m.x)
dae, y0 = m.create_instance()
with contextlib.redirect_stdout(io.StringIO()):
    ndae = made_numerical(dae, y0, sparse=True)

t0, tend = 0.0, 10.0
exact = np.exp(-tend)
failures = []
for method, order in [(backward_euler, 1), (implicit_trapezoid, 2)]:
    errs = []
    for h in [1e-2, 1e-3]:  # 1e-3 is the default step_size; ite_tol is left at its default (1e-5)
        sol = method(ndae, [t0, tend], y0, Opt(step_size=h))
        X = sol.Y.array[:, 0]
        T = sol.T
        # premise of the property: the step equations hold within the Newton tolerance
        if order == 1:
            res = np.abs(X[1:] - X[:-1] + h * X[1:]).max()
        else:
            res = np.abs(X[1:] - X[:-1] + h / 2 * (X[1:] + X[:-1])).max()
        assert res <= 1e-5 * 1.001, res
        err = abs(X[-1] - exact)
        frozen = int(np.sum(np.diff(X) == 0.0))
        bound = 1.0 * h ** order
        errs.append(err)
        print(f"{method.__name__} h={h}: x(10)={X[-1]:.6e} (exact {exact:.6e}), error {err:.3e}, allowed {bound:.1e}, "
              f"max step residual {res:.2e}, steps with x_(n+1) == x_n exactly: {frozen} of {len(X) - 1}")
        if err > bound:
            failures.append(f"{method.__name__} h={h}: global error {err:.3e} > {bound:.1e} (= 1 * h^{order})")
    if errs[1] > errs[0]:
        failures.append(f"{method.__name__}: error grows when h shrinks: {errs[0]:.3e} (h=1e-2) -> {errs[1]:.3e} (h=1e-3)")

assert not failures, "\n".join(failures)
print("OK")
