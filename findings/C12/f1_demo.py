"""C12 / fdae_solver: an integral number of steps is followed by a spurious, (almost) zero-length extra step.

Exits 0 if the property holds, non-zero (AssertionError) if it is violated.
"""
import contextlib
import io
import os
import sys

ROOT = os.environ.get('SOLVERZ_ROOT', '/tmp/pw_C12')
sys.path.insert(0, ROOT)
import numpy as np
import Solverz
assert os.path.abspath(Solverz.__file__).startswith(os.path.abspath(ROOT)), Solverz.__file__
from Solverz import Model, Var, AliasVar, Param, Eqn, made_numerical, fdae_solver, Opt


def model(h):
    """implicit Euler for u' = -u written as an FDAE:  u - u0 + dt*u = 0  (dt is the model's own parameter)"""
    m = Model()
    m.u = Var('u', 1.0)
    m.u0 = AliasVar('u', init=m.u)
    m.dt = Param('dt', h)
    m.e = Eqn('e', m.u - m.u0 + m.dt * m.u)
    fdae, u0 = m.create_instance()
    with contextlib.redirect_stdout(io.StringIO()):
        nf = made_numerical(fdae, u0, sparse=True)
    return nf, u0


failures = []
for t0, tend, h in [(10.0, 12.0, 1e-3), (1000.0, 1001.0, 1e-3), (-1000.0, -999.0, 1e-3), (10000.0, 10005.0, 0.05)]:
    N = int(round((tend - t0) / h))
    assert abs((tend - t0) / h - N) < 1e-6  # the ratio is integral
    nf, u0 = model(h)
    sol = fdae_solver(nf, [t0, tend], u0, Opt(step_size=h, ite_tol=1e-13))
    T = sol.T
    U = sol.Y.array[:, 0]
    steps = np.diff(T)
    expected_end = (1 + h) ** (-N)
    ok = (len(T) - 1 == N) and steps.min() > 0.999 * h and abs(U[-1] - expected_end) < 1e-9 and T[-1] == tend
    print(f"[{t0}, {tend}] h={h}: steps {len(T) - 1} (expected {N}), shortest step {steps.min():.3e} "
          f"(expected {h}), u(tend) {U[-1]:.12f} (expected {expected_end:.12f})")
    if not ok:
        failures.append((t0, tend, h, len(T) - 1, N, steps.min(), U[-1], expected_end))

assert not failures, ("fdae_solver appended a spurious near-zero step after an integral number of steps "
                      "(t0, tend, h, steps, expected steps, shortest step, u_end, expected u_end): "
                      f"{failures}")
print("OK")
