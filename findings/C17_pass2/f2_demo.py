"""
C17 finding 2 (loud): Min, Saturation, AntiWindUp and the helpers In / LessThan / GreaterThan refuse a vector argument
that is a strided view, e.g. every second entry of a variable, x[0:4:2]. Abs, Sign and heaviside accept it.
The numerical implementations call np.asarray(x).reshape((-1,)) inside @njit, and numba's reshape supports contiguous
arrays only, so the call raises a TypingError instead of returning the documented piecewise value. A model whose
equation contains Min(x[0:4:2], c) cannot even be instantiated.
"""
import os
import sys
import warnings

root = os.environ.get('SOLVERZ_ROOT', '/tmp/pw2_C17')
sys.path.insert(0, root)
import Solverz

assert Solverz.__file__.startswith(root), Solverz.__file__

import numpy as np
import Solverz.num_api.custom_function as SolCF
from Solverz import Model, Var, Eqn, made_numerical, Saturation, Min, AntiWindUp

y = np.array([-2.0, 0.3, 2.0, 0.5])
xs = y[0:4:2]  # [-2., 2.], a non-contiguous view
assert not xs.flags['C_CONTIGUOUS']

failures = []


def expect(name, fun, args, expected):
    try:
        got = np.asarray(fun(*args), dtype=float)
    except Exception as e:  # the property says the call returns the piecewise value
        failures.append(f"{name}{tuple(args)}: expected {expected}, got {type(e).__name__}: {str(e).splitlines()[0]}")
        return
    if got.shape != np.shape(expected) or not np.array_equal(got, expected):
        failures.append(f"{name}{tuple(args)}: expected {expected}, got {got}")


expect('Saturation', SolCF.Saturation, (xs, -1.0, 1.0), np.array([-1.0, 1.0]))
expect('In', SolCF.In, (xs, -2.0, 1.0), np.array([1.0, 0.0]))
expect('LessThan', SolCF.LessThan, (xs, 0.0), np.array([1.0, 0.0]))
expect('GreaterThan', SolCF.GreaterThan, (xs, 0.0), np.array([0.0, 1.0]))

# the same through a model: Min / Saturation / AntiWindUp of every second entry of x
try:
    m = Model()
    m.x = Var('x', y)
    m.a = Eqn('a', Min(m.x[0:4:2], 0.4) + Saturation(m.x[1:4:2], -1, 0.4))
    m.b = Eqn('b', AntiWindUp(m.x[0:4:2], -1, 1, m.x[1:4:2]))
    with warnings.catch_warnings():
        warnings.simplefilter('ignore')
        sae, y0 = m.create_instance()
        ae = made_numerical(sae, y0, sparse=True)
    F = ae.F(y, ae.p)
    # a: min(-2, .4) + sat(.3) = -1.7 ; min(2, .4) + sat(.5) = 0.8 ; b: u=-2<=umin, e=.3>0 -> e ; u=2>=umax, e=.5>=0 -> 0
    F_expected = np.array([-1.7, 0.8, 0.3, 0.0])
    if not np.allclose(F, F_expected, rtol=1e-14, atol=0):
        failures.append(f"model F: expected {F_expected}, got {F}")
    J = ae.J(y, ae.p).toarray().astype(float)
    J_expected = np.array([[1., 1., 0., 0.],
                           [0., 0., 0., 0.],
                           [0., 1., 0., 0.],
                           [0., 0., 0., 0.]])
    if not np.array_equal(J, J_expected):
        failures.append(f"model J: expected\n{J_expected}\ngot\n{J}")
except Exception as e:
    failures.append(f"model with Min(x[0:4:2], 0.4): expected F = [-1.7, 0.8, 0.3, 0.0], "
                    f"got {type(e).__name__}: {str(e).strip().splitlines()[0]}")

assert not failures, "\n" + "\n".join(failures)
print('ok')
