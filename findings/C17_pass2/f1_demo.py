"""
C17 finding 1: the comparison helpers return int32 masks, so in the interpreted (numpy) evaluation a derivative that is a
sum of mask terms with integer coefficients is accumulated in int32 and wraps around silently.

    g(x) = 1500000000*Saturation(x, 0, 4) + 1500000000*Min(x, 1.5)
    dg/dx = 1500000000*In(x, 0, 4) + 1500000000*LessThan(x, 1.5)        (correct symbolic rule)

at x = 1.0 both pieces are open and active, so dg/dx = 3.0e9. The interpreted J_ returns -1294967296.
(The numba-compiled module promotes int64*int32 to int64 and returns 3000000000.)
"""
import os
import sys
import warnings

root = os.environ.get('SOLVERZ_ROOT', '/tmp/pw2_C17')
sys.path.insert(0, root)
import Solverz

assert Solverz.__file__.startswith(root), Solverz.__file__

import numpy as np
from Solverz import Model, Var, Eqn, made_numerical, Saturation, Min

K = 1500000000  # an integer literal, e.g. a gain or a unit conversion written without a decimal point

m = Model()
m.x = Var('x', [1.0, 2.0])
m.g = Eqn('g', K * Saturation(m.x, 0, 4) + K * Min(m.x, 1.5))
with warnings.catch_warnings():
    warnings.simplefilter('ignore')
    sae, y0 = m.create_instance()
    ae = made_numerical(sae, y0, sparse=True)

y = np.array([1.0, 2.0])


def g_ref(x):
    return K * np.clip(x, 0.0, 4.0) + K * np.where(x <= 1.5, x, 1.5)


F = ae.F(y, ae.p)
assert np.allclose(F, g_ref(y), rtol=1e-14), f"F: expected {g_ref(y)}, got {F}"

# x = [1, 2]: Saturation is on its middle piece for both entries, Min on its first piece for x=1, on its second for x=2
J_expected = np.diag([2.0 * K, 1.0 * K])
h = 1e-3  # g is piecewise linear, the central difference is exact away from the kinks
J_fd = np.diag((g_ref(y + h) - g_ref(y - h)) / (2 * h))
assert np.allclose(J_fd, J_expected, rtol=1e-9)

J = ae.J(y, ae.p).toarray().astype(float)
assert np.allclose(J, J_expected, rtol=1e-12), \
    f"dg/dx at x={y}: expected diag {np.diag(J_expected)}, got diag {np.diag(J)}"
print('ok')
