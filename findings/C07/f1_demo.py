"""C07 / finding 1: fixed-step Rodas loses its declared order on a smooth NON-AUTONOMOUS problem
that starts at t0 = 0 (observed order 2, 2, 3 instead of 4, 4, 5).

Problem (scalar ODE, smooth, non-stiff):  y' = -(y - 10 - sin t) + cos t,  y(0) = 10,  exact y = 10 + sin t.
Exit 0 if every documented scheme shows (about) its declared order on the ladder, non-zero otherwise.
"""
import os
import sys

root = os.environ.get('SOLVERZ_ROOT', '/tmp/pw_C07')
sys.path.insert(0, root)
import Solverz

assert Solverz.__file__.startswith(root), Solverz.__file__
import numpy as np
from Solverz import Rodas, Opt
from Solverz.num_api.num_eqn import nDAE

c = 10.0


def F(t, y, p):
    return np.array([-(y[0] - c - np.sin(t)) + np.cos(t)])


def J(t, y, p):
    return np.array([[-1.0]])


def exact(t):
    return c + np.sin(t)


dae = nDAE(np.eye(1), F, J, {})
hs = [2.0 ** -k for k in range(3, 7)]  # dyadic steps: t0 + n*h hits tend exactly
declared = {'rodas4': 4, 'rodasp': 4, 'rodas5p': 5}


def observed_order(t0, scheme):
    errs = []
    for h in hs:
        sol = Rodas(dae, [t0, t0 + 2.0], np.array([exact(t0)]), Opt(fix_h=True, hinit=h, scheme=scheme))
        assert sol.T[-1] == t0 + 2.0, sol.T[-1]
        errs.append(abs(sol.Y[-1, 0] - exact(sol.T[-1])))
    errs = np.array(errs)
    # least-squares slope of log(err) against log(h)
    return np.polyfit(np.log(hs), np.log(errs), 1)[0], errs


bad = []
for t0 in (1.0, 0.0):  # t0 = 1 is the control: same problem, same steps, only the start time differs
    for scheme, p in declared.items():
        q, errs = observed_order(t0, scheme)
        print(f't0={t0} {scheme}: declared order {p}, observed {q:.2f}, errors', ' '.join(f'{e:.2e}' for e in errs))
        if q < p - 0.5:
            bad.append(f't0={t0} {scheme}: expected order >= {p - 0.5}, actual {q:.2f}')

assert not bad, 'global error does not decrease like h**p:\n  ' + '\n  '.join(bad)
print('OK')
