"""C07 / finding 2: a fixed-step run (Opt(fix_h=True, hinit=h)) does not end at tend when t0 + n*h misses tend
by one rounding error, so the ordinary ladder h = 0.1, 0.05, 0.025 cannot be evaluated at tend:
  (a) tspan = [0, 2], h = 0.1: the run goes on for 10000 steps and returns T[-1] = 1000 (Y[-1] is NOT y(tend));
  (b) tspan = linspace(0, 1, 11), h = 0.1: the run stops, but the requested node tend = 1.0 is silently missing.
Exit 0 if the fixed-step solution is delivered at tend (and shows order 4 there), non-zero otherwise.
"""
import os
import sys
import warnings

root = os.environ.get('SOLVERZ_ROOT', '/tmp/pw_C07')
sys.path.insert(0, root)
import Solverz

assert Solverz.__file__.startswith(root), Solverz.__file__
import numpy as np
from Solverz import Rodas, Opt
from Solverz.num_api.num_eqn import nDAE


def F(t, y, p):
    return np.array([y[1], -y[0]])


def J(t, y, p):
    return np.array([[0.0, 1.0], [-1.0, 0.0]])


dae = nDAE(np.eye(2), F, J, {})
y0 = np.array([0.0, 1.0])  # y = (sin t, cos t)
bad = []

# (a) two-point tspan, h = 0.1, 0.05, 0.025 on [0, 2]
errs = []
for h in (0.1, 0.05, 0.025):
    with warnings.catch_warnings(record=True) as w:
        warnings.simplefilter('always')
        sol = Rodas(dae, [0, 2.0], y0.copy(), Opt(fix_h=True, hinit=h, scheme='rodas4'))
    nstep = len(sol.T) - 1
    print(f'(a) h={h}: steps taken {nstep} (expected {round(2.0 / h)}), T[-1] = {sol.T[-1]!r} (expected 2.0),'
          f' warnings: {[str(x.message) for x in w]}')
    if abs(sol.T[-1] - 2.0) > 1e-9:
        bad.append(f'(a) h={h}: expected T[-1] = 2.0 after {round(2.0 / h)} steps, actual T[-1] = {sol.T[-1]!r} after {nstep} steps')
    errs.append(abs(sol.Y[-1, 0] - np.sin(2.0)))
q = np.polyfit(np.log([0.1, 0.05, 0.025]), np.log(errs), 1)[0]
print(f'(a) error of Y[-1] against y(tend): {errs}, slope {q:.2f} (declared order 4)')
if q < 3.5:
    bad.append(f'(a) error of Y[-1] against y(tend) should fall like h**4, observed slope {q:.2f}')

# (b) output nodes requested, h = 0.1 on [0, 1]
tspan = np.linspace(0, 1, 11)
try:
    sol = Rodas(dae, tspan, y0.copy(), Opt(fix_h=True, hinit=0.1, scheme='rodas4'))
    print(f'(b) requested {len(tspan)} nodes up to {tspan[-1]}, returned {len(sol.T)} nodes up to {sol.T[-1]!r}')
    if len(sol.T) != len(tspan) or sol.T[-1] != tspan[-1]:
        bad.append(f'(b) expected T == tspan (11 nodes, last 1.0), actual {len(sol.T)} nodes, last {sol.T[-1]!r}')
except Exception as e:  # noqa
    bad.append(f'(b) raised {type(e).__name__}: {e}')

assert not bad, 'fixed-step run is not delivered at tend:\n  ' + '\n  '.join(bad)
print('OK')
