"""
C15 (renaming invariance): in an FDAE the previous-step value of a variable x is bound to the derived name
`x_tag_0` (AliasVar('x')). A parameter or a second variable that the user happens to call `x_tag_0` is not
refused; it is silently merged with that alias:
  * parameter named x_tag_0: create_instance overwrites its value with the initial value of x, and the generated
    F_/J_ read p_["x_tag_0"] where the equation means the previous-step value of x; fdae_solver reports success
    and returns a wrong trajectory;
  * variable named x_tag_0: `x_tag_0 = y_[1:2]` is overwritten by `x_tag_0 = y_0[0:1]` in the generated F_/J_.

Exits 0 if renaming w -> x_tag_0 leaves residual and trajectory of every named variable unchanged (or if the
library refuses the name loudly); exits non-zero on a silent change.
"""
import os
import sys
import io
import contextlib
import warnings

ROOT = os.environ.get('SOLVERZ_ROOT', '/tmp/pw2_C15')
sys.path.insert(0, ROOT)
import numpy as np
import Solverz

assert Solverz.__file__.startswith(ROOT), f"wrong Solverz imported: {Solverz.__file__}"
from Solverz import Model, Var, AliasVar, Param, Eqn, made_numerical, fdae_solver, Opt

warnings.simplefilter('ignore')


def run(xn, wn, kind):
    """
    implicit Euler for x' = -x*w:   x - x_prev + dt*x*w = 0
    kind == 'param': w is a parameter, w = 1.5
    kind == 'var'  : w is a second variable with  w - 1 - x/2 = 0
    """
    m = Model()
    setattr(m, xn, Var(xn, 1.0))
    setattr(m, wn, Param(wn, 1.5) if kind == 'param' else Var(wn, 1.5))
    x, w = getattr(m, xn), getattr(m, wn)
    m.xprev = AliasVar(xn, init=x)  # the library names it  xn + '_tag_0'
    m.dt = Param('dt', 0.1)
    m.e1 = Eqn('e1', x - m.xprev + m.dt * x * w)
    if kind == 'var':
        m.e2 = Eqn('e2', w - 1 - 0.5 * x)
    with contextlib.redirect_stdout(io.StringIO()):
        fdae, y0 = m.create_instance()
        nf, code = made_numerical(fdae, y0, sparse=True, output_code=True)
        F0 = np.array(nf.F(0.1, y0.array, nf.p, y0.array))
        sol = fdae_solver(nf, [0, 1], y0, Opt(step_size=0.1))
    wval = float(np.ravel(nf.p[wn])[0]) if kind == 'param' else None
    return F0, sol.Y[xn][:, 0], bool(sol.stats.succeed), wval, code['F']


msgs = []
for kind in ('param', 'var'):
    F_ref, x_ref, ok_ref, w_ref, _ = run('x', 'w', kind)
    assert ok_ref and x_ref.size == 11, "reference run failed?"
    if kind == 'param':  # x_{k+1} = x_k / (1 + dt*w)
        assert np.allclose(x_ref, 1.15 ** -np.arange(11), rtol=1e-9), "reference trajectory is wrong?"
    try:
        F_new, x_new, ok_new, w_new, codeF = run('x', 'x_tag_0', kind)
    except Exception as exc:  # a loud refusal of the name is acceptable
        print(f"ok ({kind}): the name x_tag_0 is refused loudly: {exc!r}")
        continue
    here = []
    if kind == 'param' and w_new != w_ref:
        here.append(f"value of the parameter in p: expected {w_ref!r}, got {w_new!r}")
    if not np.allclose(F_new, F_ref, rtol=1e-12, atol=1e-14):
        here.append(f"F_(t, y0, p, y0): expected {F_ref.tolist()}, got {F_new.tolist()}")
    if x_new.shape != x_ref.shape or not np.allclose(x_new, x_ref, rtol=1e-9, atol=1e-12):
        here.append(f"fdae_solver (succeed={ok_new}): x on the grid: expected {np.round(x_ref, 6).tolist()}, "
                    f"got {np.round(x_new, 6).tolist()}")
    if here:
        msgs += [f"[{kind} renamed w -> x_tag_0] " + s for s in here]
        print(f"generated F_ of the renamed model ({kind}):\n{codeF}")

if msgs:
    print("C15 violated: renaming w -> x_tag_0 changes the FDAE silently")
    for s in msgs:
        print("  " + s)
    raise AssertionError(msgs[0])
print("ok: the name x_tag_0 is refused or leaves the model unchanged")
