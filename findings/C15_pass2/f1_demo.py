"""
C15 (renaming invariance): a variable or parameter named `pi` or `e` silently replaces the constant pi / E
of the same equation, in the interpreted evaluation (Eqn.NUM_EQN, AE.g) and in the generated F_ / J_ alike.

Exits 0 if the models that differ only in the name of one variable give the same residual, Jacobian and
Newton solution; exits non-zero otherwise.
"""
import os
import sys
import io
import contextlib
import warnings

ROOT = os.environ.get('SOLVERZ_ROOT', '/tmp/pw2_C15')
sys.path.insert(0, ROOT)
import numpy as np
import sympy as sp
import Solverz

assert Solverz.__file__.startswith(ROOT), f"wrong Solverz imported: {Solverz.__file__}"
from Solverz import Model, Var, Param, Eqn, sin, made_numerical, nr_method, Opt

warnings.simplefilter('ignore')


def run(vname, const, sparse):
    """0 = sin(c*v) - 0.5*k   with c the sympy constant `const`, one variable v, one parameter k = 1"""
    m = Model()
    setattr(m, vname, Var(vname, 0.1))
    m.k = Param('k', 1.0)
    v = getattr(m, vname)
    m.eq = Eqn('eq', sin(const * v) - 0.5 * m.k)
    with contextlib.redirect_stdout(io.StringIO()):
        ae, y0 = m.create_instance()
        g0 = np.array(ae.g(y0)).reshape(-1)                    # interpreted residual
        nae = made_numerical(ae, y0, sparse=sparse)
        F0 = np.array(nae.F(y0.array, nae.p)).reshape(-1)      # generated residual
        J0 = nae.J(y0.array, nae.p)
        J0 = (J0.toarray() if hasattr(J0, 'toarray') else np.asarray(J0)).reshape(-1)
        sol = nr_method(nae, y0, Opt(ite_tol=1e-12))
    return float(g0[0]), float(F0[0]), float(J0[0]), float(sol.y[vname][0])


failures = []
for const, cname, bad_name in [(sp.pi, 'pi', 'pi'), (sp.E, 'E', 'e')]:
    for sparse in (True, False):
        ref = run('u', const, sparse)          # ordinary name
        got = run(bad_name, const, sparse)     # the same model, the variable renamed
        exact = (float(sp.sin(const * 0.1) - 0.5), float(const * sp.cos(const * 0.1)))
        assert abs(ref[0] - exact[0]) < 1e-14 and abs(ref[2] - exact[1]) < 1e-14, "reference model itself is wrong?"
        labels = ('interpreted g(y0)', 'generated F_(y0)', 'generated J_(y0)', 'nr_method solution')
        for lab, r, g in zip(labels, ref, got):
            if not abs(r - g) <= 1e-12 * max(1.0, abs(r)):
                failures.append(f"constant {cname}, variable renamed u -> {bad_name}, sparse={sparse}: {lab}: "
                                f"expected {r!r}, got {g!r}")

if failures:
    print("C15 violated: renaming one variable changes the model silently")
    for f in failures:
        print("  " + f)
    raise AssertionError(f"{len(failures)} quantities differ after renaming, first: {failures[0]}")
print("ok: renaming the variable to pi / e leaves residual, Jacobian and solution unchanged")
