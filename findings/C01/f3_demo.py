"""
C01 finding 3: in a finite-difference model (FDAE) a variable named `y_0` silently replaces the previous-step vector.

The generated residual has the signature F_(t, y_, p_, y_0), where y_0 is the previous-step vector. The variable
declarations inside F_ start with `y_0 = y_[0:2]`, which rebinds the ARGUMENT y_0, and the alias (previous-step)
values are then sliced from the current vector: `y_0_tag_0 = y_0[0:2]`.

Model (implicit Euler for dy/dt = -y with a variable that happens to be called y_0):
        0 = y_0 - y_0(previous) + dt*y_0
The same model with the variable called `w` is evaluated correctly; the demo checks both.

Exit code 0 when the property holds, non-zero (AssertionError) when it is violated.
"""
import os
import sys
import io
import contextlib
import warnings
import shutil
import tempfile
import importlib

ROOT = os.environ.get('SOLVERZ_ROOT', '/tmp/pw_C01')
sys.path.insert(0, ROOT)
import Solverz

assert os.path.abspath(Solverz.__file__).startswith(os.path.abspath(ROOT)), Solverz.__file__
import numpy as np
from Solverz import Model, Var, AliasVar, Param, Eqn, made_numerical, module_printer

warnings.simplefilter('ignore')


def build(vname):
    m = Model()
    setattr(m, vname, Var(vname, [1.0, 2.0]))
    v = getattr(m, vname)
    setattr(m, vname + '_prev', AliasVar(vname, init=v))
    v_prev = getattr(m, vname + '_prev')
    m.dt = Param('dt', 0.1)
    m.e1 = Eqn('e1', v - v_prev + m.dt * v)
    return m.create_instance()


tmp = tempfile.mkdtemp(prefix='c01_f3_')
sys.path.insert(0, tmp)
failures = []
refused = False
try:
    for vname in ('w', 'y_0'):
        try:
            with contextlib.redirect_stdout(io.StringIO()):
                eqs, y0 = build(vname)
                backends = {'inline sparse': made_numerical(eqs, y0, sparse=True),
                            'inline dense': made_numerical(eqs, y0, sparse=False)}
                for label, jit in (('module', False), ('module+numba', True)):
                    name = f'c01_f3_mod_{os.getpid()}_{vname}{int(jit)}'
                    module_printer(eqs, y0, name, directory=tmp, jit=jit).render()
                    backends[label] = importlib.import_module(name).mdl
        except ValueError as e:
            # a loud refusal of the reserved name is fine: the property only forbids the silent wrong value
            print(f'variable name {vname} refused loudly: {e}')
            refused = True
            continue

        y = np.array([1.1, 2.2])
        y_prev = np.array([0.7, 0.8])
        expected = y - y_prev + 0.1 * y
        for label, mdl in backends.items():
            got = mdl.F(0.0, y, mdl.p, y_prev)
            print(f'variable {vname:4s} {label:14s} F={got}  expected {expected}')
            if not np.allclose(got, expected, rtol=1e-14, atol=0):
                failures.append(f'variable {vname}: {label}: F={got}, expected {expected} '
                                f'(y={y}, previous step={y_prev})')
finally:
    shutil.rmtree(tmp, ignore_errors=True)

assert not failures, ("C01 violated, the residual of the FDAE ignores the previous-step vector when a variable is "
                      "called y_0:\n  " + "\n  ".join(failures))
print('ok' + (' (name refused)' if refused else ''))
