"""
C01 finding 1: Min(a, b) returns nan when the argument that is NOT selected overflows / is infinite.

Model:  0 = Min(exp(x), L) - y      x = 800 (exp(800) overflows to inf in double), L = 10
        mathematical value of Min(exp(800), 10) is 10, so F = 10 - y = 9 for y = 1.
Also:   0 = Min(y, U) - y           with the parameter U = inf ("no upper limit"): Min(y, inf) = y, so F = 0.

Exit code 0 when the property holds, non-zero (AssertionError) when it is violated.
"""
import os
import sys
import io
import contextlib
import warnings
import shutil
import tempfile
import importlib

ROOT = os.environ.get('SOLVERZ_ROOT', '/tmp/pw_C01')
sys.path.insert(0, ROOT)
import Solverz

assert os.path.abspath(Solverz.__file__).startswith(os.path.abspath(ROOT)), Solverz.__file__
import numpy as np
from Solverz import Model, Var, Param, Eqn, Min, exp, made_numerical, module_printer

warnings.simplefilter('ignore')


def build():
    m = Model()
    m.x = Var('x', [1.0])
    m.y = Var('y', [1.0])
    m.L = Param('L', [10.0])
    m.U = Param('U', [100.0])
    m.e1 = Eqn('e1', Min(exp(m.x), m.L) - m.y)
    m.e2 = Eqn('e2', Min(m.y, m.U) - m.y)
    return m.create_instance()


tmp = tempfile.mkdtemp(prefix='c01_f1_')
sys.path.insert(0, tmp)
failures = []
try:
    with contextlib.redirect_stdout(io.StringIO()):
        eqs, y0 = build()
        backends = {'inline sparse': made_numerical(eqs, y0, sparse=True),
                    'inline dense': made_numerical(eqs, y0, sparse=False)}
        for label, jit in (('module', False), ('module+numba', True)):
            name = f'c01_f1_mod_{os.getpid()}_{int(jit)}'
            module_printer(eqs, y0, name, directory=tmp, jit=jit).render()
            backends[label] = importlib.import_module(name).mdl

    y = np.array([800.0, 1.0])
    expected = np.array([10.0 - 1.0, 0.0])
    for label, mdl in backends.items():
        p = mdl.p
        p['U'] = np.array([np.inf])  # read at call time
        with np.errstate(all='ignore'):
            got = mdl.F(y, p)
        print(f'{label:14s} F = {got}   expected {expected}')
        if not np.array_equal(got, expected):
            failures.append(f'{label}: F={got}, expected {expected}')
finally:
    shutil.rmtree(tmp, ignore_errors=True)

assert not failures, ("C01 violated, Min(.) is nan although the mathematical value is finite "
                      "(Min(exp(800), 10) = 10, Min(1, inf) = 1):\n  " + "\n  ".join(failures))
print('ok')
