"""
C01 finding 2: a triggerable parameter whose trigger variable is another triggerable parameter is evaluated with the
STALE value of that parameter (taken from the mapping p), whenever its name sorts before the name of the parameter it
depends on.

Model:  B = 2*x + 1          (triggerable, trigger_var='x')
        A = 10*B             (triggerable, trigger_var='B')
        0 = x*B - A
so at every point F(x) = x*(2x+1) - 10*(2x+1).
The same model with the two parameter names exchanged (P = 2x+1, Q = 10*P) is evaluated correctly; the demo checks both.

Exit code 0 when the property holds, non-zero (AssertionError) when it is violated.
"""
import os
import sys
import io
import contextlib
import warnings
import shutil
import tempfile
import importlib

ROOT = os.environ.get('SOLVERZ_ROOT', '/tmp/pw_C01')
sys.path.insert(0, ROOT)
import Solverz

assert os.path.abspath(Solverz.__file__).startswith(os.path.abspath(ROOT)), Solverz.__file__
import numpy as np
from Solverz import Model, Var, Param, Eqn, made_numerical, module_printer

warnings.simplefilter('ignore')


def inner_fun(x):
    return 2.0 * x + 1.0


def outer_fun(B):
    return 10.0 * B


def build(inner, outer):
    """`inner` = 2x+1 is triggered by x, `outer` = 10*inner is triggered by `inner`."""
    m = Model()
    m.x = Var('x', [1.0, 2.0])
    setattr(m, inner, Param(inner, triggerable=True, trigger_var='x', trigger_fun=inner_fun))
    setattr(m, outer, Param(outer, triggerable=True, trigger_var=inner, trigger_fun=outer_fun))
    m.e1 = Eqn('e1', m.x * getattr(m, inner) - getattr(m, outer))
    return m.create_instance()


tmp = tempfile.mkdtemp(prefix='c01_f2_')
sys.path.insert(0, tmp)
failures = []
try:
    for inner, outer in (('P', 'Q'), ('B', 'A')):
        with contextlib.redirect_stdout(io.StringIO()):
            eqs, y0 = build(inner, outer)
            backends = {'inline sparse': made_numerical(eqs, y0, sparse=True),
                        'inline dense': made_numerical(eqs, y0, sparse=False)}
            for label, jit in (('module', False), ('module+numba', True)):
                name = f'c01_f2_mod_{os.getpid()}_{inner}{int(jit)}'
                module_printer(eqs, y0, name, directory=tmp, jit=jit).render()
                backends[label] = importlib.import_module(name).mdl

        for y in (np.array([1.0, 2.0]), np.array([3.0, 5.0])):
            expected = y * (2 * y + 1) - 10 * (2 * y + 1)
            for label, mdl in backends.items():
                got = mdl.F(y, mdl.p)
                print(f'{outer}=10*{inner}, {inner}=2x+1  {label:14s} x={y}  F={got}  expected {expected}')
                if not np.allclose(got, expected, rtol=1e-14, atol=0):
                    failures.append(f'{outer}=10*{inner}: {label}: x={y} F={got}, expected {expected}')
finally:
    shutil.rmtree(tmp, ignore_errors=True)

assert not failures, ("C01 violated, the residual uses a stale value of a triggered parameter "
                      "(the result depends on the alphabetical order of the parameter names):\n  "
                      + "\n  ".join(failures))
print('ok')
