"""
C01 / finding 1: Min(a, b) returns NaN whenever the argument that is NOT the minimum is infinite in floating point.

Model (AE):   0 = Min(exp(x), cap) - z           x, z variables, cap a parameter
  * at x = 800, cap = 10      exp(x) ~ 2.7e347 > 10, so Min(exp(x), cap) = 10 exactly (np.exp(800.) is inf in doubles)
  * at x = 1,   cap = np.inf  "no cap": Min(exp(1), inf) = e
Both values are finite and representable, np.minimum gives them, the generated F_ gives nan on every backend.

exit 0: property holds,  exit != 0: violated
"""
import contextlib
import importlib
import io
import os
import shutil
import sys
import tempfile
import warnings

ROOT = os.environ.get('SOLVERZ_ROOT', '/tmp/pw2_C01')
sys.path.insert(0, ROOT)
warnings.filterwarnings('ignore')

import numpy as np
import Solverz

assert Solverz.__file__.startswith(ROOT), f"Solverz imported from {Solverz.__file__}, not from {ROOT}"
from Solverz import Model, Var, Param, Eqn, Min, exp, made_numerical, module_printer


def quiet(f, *args, **kwargs):
    with contextlib.redirect_stdout(io.StringIO()):
        return f(*args, **kwargs)


m = Model()
m.x = Var('x', 1.0)
m.z = Var('z', 0.5)
m.cap = Param('cap', 10.0)
m.e1 = Eqn('e1', Min(exp(m.x), m.cap) - m.z)
m.e2 = Eqn('e2', m.z - 0.5)
eqs, y0 = quiet(m.create_instance)

backends = {'inline sparse': quiet(made_numerical, eqs, y0, sparse=True),
            'inline dense': quiet(made_numerical, eqs, y0, sparse=False)}
tmp = tempfile.mkdtemp(prefix='c01_f1_')
try:
    for name, jit in (('f1_mod_plain', False), ('f1_mod_numba', True)):
        quiet(module_printer(eqs, y0, name, directory=tmp, jit=jit).render)
    sys.path.insert(0, tmp)
    backends['module'] = quiet(importlib.import_module, 'f1_mod_plain').mdl
    backends['module numba'] = quiet(importlib.import_module, 'f1_mod_numba').mdl
finally:
    sys.path.remove(tmp) if tmp in sys.path else None

off = eqs.a['e1']  # offset the symbolic model reports for e1


def reference(y, cap):
    with np.errstate(over='ignore'):
        return np.minimum(np.exp(y[0:1]), cap) - y[1:2]


cases = [('sanity      x=1,   cap=10 ', np.array([1.0, 0.5]), np.array([10.0])),
         ('overflow    x=800, cap=10 ', np.array([800.0, 0.5]), np.array([10.0])),
         ('no cap      x=1,   cap=inf', np.array([1.0, 0.5]), np.array([np.inf]))]

failures = []
try:
    for label, y, cap in cases:
        want = reference(y, cap)
        for bname, mdl in backends.items():
            p = dict(mdl.p)
            p['cap'] = cap
            with np.errstate(all='ignore'):
                got = np.asarray(mdl.F(y, p))[off]
            ok = np.array_equal(got, want)
            print(f'{label} | {bname:13s} | expected {want} | F_ returned {got} | {"ok" if ok else "WRONG"}')
            if not ok:
                failures.append(f'{label.strip()} on {bname}: expected {want}, F_ returned {got}')
finally:
    shutil.rmtree(tmp, ignore_errors=True)

assert not failures, "Min(a, b) is not the minimum of its arguments:\n  " + "\n  ".join(failures)
print('property holds on this input')
