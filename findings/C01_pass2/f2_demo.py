"""
C01 / finding 2: the initial vector returned by Model.create_instance() depends on the history of the Model object.

A variable declared with an init expression, x = Var('x', init=2*q), gets the value of the expression the FIRST time the model
is instantiated; that number is written into the Var object, and from then on the Var counts as "declared with a value".
When the parameter is declared anew (q: 1 -> 5) and the model is instantiated again, the returned pair (eqs, y0) is
inconsistent: eqs carries q = 5, y0 still carries x = 2*1.

exit 0: property holds,  exit != 0: violated
"""
import contextlib
import io
import os
import sys
import warnings

ROOT = os.environ.get('SOLVERZ_ROOT', '/tmp/pw2_C01')
sys.path.insert(0, ROOT)
warnings.filterwarnings('ignore')

import numpy as np
import Solverz

assert Solverz.__file__.startswith(ROOT), f"Solverz imported from {Solverz.__file__}, not from {ROOT}"
from Solverz import Model, Var, Param, Eqn, made_numerical


def quiet(f, *args, **kwargs):
    with contextlib.redirect_stdout(io.StringIO()):
        return f(*args, **kwargs)


def declare(m, q):
    m.q = Param('q', q)


m = Model()
declare(m, 1.0)
m.x = Var('x', init=2 * m.q)          # x0 = 2*q
m.w = Var('w', init=m.x + m.q)        # w0 = x0 + q, an init expression in terms of another init expression
m.e1 = Eqn('e1', m.x - 2 * m.q)       # the init expressions solve the equations: F(y0) = 0 whatever q is
m.e2 = Eqn('e2', m.w - m.x - m.q)

failures = []
for q in (1.0, 5.0):
    declare(m, q)                      # m.q = Param('q', q): the parameter is declared anew before each instantiation
    eqs, y0 = quiet(m.create_instance)
    mdl = quiet(made_numerical, eqs, y0, sparse=True)
    want = np.zeros(y0.total_size)
    want[y0.a['x']] = 2 * q
    want[y0.a['w']] = 2 * q + q
    got = np.asarray(y0.array)
    F0 = mdl.F(y0.array, mdl.p)
    ok = np.array_equal(got, want)
    print(f"q declared as {q}: eqs carries q = {mdl.p['q']}, init expressions give y0 = {want}, "
          f"create_instance returned y0 = {got}, F(y0) = {F0}  -> {'ok' if ok else 'WRONG'}")
    if not ok:
        failures.append(f"q = {q}: expected y0 = {want} (x = 2*q, w = x + q), create_instance returned {got}; "
                        f"the residual at the returned initial point is {F0} instead of 0")

# a Model that never saw q = 1 gives the right vector for q = 5: the result above depends on the earlier call only
m2 = Model()
declare(m2, 5.0)
m2.x = Var('x', init=2 * m2.q)
m2.w = Var('w', init=m2.x + m2.q)
m2.e1 = Eqn('e1', m2.x - 2 * m2.q)
m2.e2 = Eqn('e2', m2.w - m2.x - m2.q)
_, y0_fresh = quiet(m2.create_instance)
print(f"fresh Model with q = 5.0: y0 = {np.asarray(y0_fresh.array)}")

assert not failures, "initial vector does not hold the init-expression values:\n  " + "\n  ".join(failures)
print('property holds on this input')
