"""
C05 finding 1: Hvp generation / evaluation fails for a variable indexed with a stepped (or reversed) slice,
although F and the sparse J of the very same model are generated and are correct.

Exits 0 if HVP(y, p, v) == d/dy [J(y, p) v] on inline sparse, module python and module numba; non-zero otherwise.
"""
import os
import sys
import shutil
import importlib
import tempfile

ROOT = os.environ.get('SOLVERZ_ROOT', '/tmp/pw2_C05')
sys.path.insert(0, ROOT)
import Solverz

assert Solverz.__file__.startswith(ROOT), Solverz.__file__
import numpy as np
from Solverz import Model, Var, Eqn, made_numerical, module_printer


def build(kind):
    m = Model()
    m.x = Var('x', [1.0, 2.0, 3.0, 4.0])
    m.y = Var('y', [0.5, 0.7])
    if kind == 'stepped':
        m.f1 = Eqn('f1', m.x[0:4:2] ** 2 * m.y - 1)  # elements 0 and 2 of x
    else:
        m.f1 = Eqn('f1', m.x[1::-1] ** 2 * m.y - 1)  # elements 1 and 0 of x
    m.f2 = Eqn('f2', m.x ** 2 - 1)
    return m.create_instance()


def exact(kind, y, v):
    # d/dy (J v) by hand. f1_i = x_{s(i)}^2 * y_i - 1, f2_j = x_j^2 - 1
    s = [0, 2] if kind == 'stepped' else [1, 0]
    H = np.zeros((6, 6))
    x, yy = y[0:4], y[4:6]
    for i in range(2):
        k = s[i]
        # (Jv)_i = 2 x_k y_i v_k + x_k^2 v_{4+i}
        H[i, k] += 2 * yy[i] * v[k] + 2 * x[k] * v[4 + i]
        H[i, 4 + i] += 2 * x[k] * v[k]
    for j in range(4):
        H[2 + j, j] += 2 * v[j]
    return H


y = np.array([1.3, -0.4, 2.2, 0.9, 0.6, -1.1])
v = np.array([0.7, -1.2, 0.4, 2.0, -0.3, 1.5])
failures = []
tmp = tempfile.mkdtemp(prefix='c05_f1_')
sys.path.insert(0, tmp)
try:
    for kind in ('stepped', 'reversed'):
        # the sparse Jacobian of the model is generated and is right: the model is inside the language
        eqs, y0 = build(kind)
        mdl = made_numerical(eqs, y0, sparse=True)
        J = mdl.J(y, mdl.p).toarray()
        eps = 1e-6
        for k in range(6):
            e = np.zeros(6)
            e[k] = eps
            np.testing.assert_allclose((mdl.F(y + e, mdl.p) - mdl.F(y - e, mdl.p)) / (2 * eps), J[:, k], atol=1e-6)

        for backend in ('inline sparse', 'module python', 'module numba'):
            tag = f'{kind} / {backend}'
            try:
                eqs, y0 = build(kind)
                if backend == 'inline sparse':
                    mdl = made_numerical(eqs, y0, sparse=True, make_hvp=True)
                else:
                    name = f'c05f1_{kind}_{backend.split()[1]}'
                    module_printer(eqs, y0, name, directory=tmp, jit=(backend == 'module numba'),
                                   make_hvp=True).render()
                    mdl = importlib.import_module(name).mdl
                H = mdl.HVP(y, mdl.p, v).toarray()
            except Exception as ex:
                failures.append(f'{tag}: expected an HVP equal to d(Jv)/dy, actual: {type(ex).__name__}: {ex}')
                continue
            err = np.max(np.abs(H - exact(kind, y, v)))
            if err > 1e-10:
                failures.append(f'{tag}: expected\n{exact(kind, y, v)}\nactual\n{H}')
finally:
    shutil.rmtree(tmp, ignore_errors=True)

assert not failures, 'C05 violated (generation must succeed for indexed variables):\n' + '\n'.join(failures)
print('ok')
