"""
C05 finding 2: at an exact zero of u the Hessian-vector product of an equation containing Abs(u)**2 loses the term
2*v, although the J*v the library computes is smooth there (J = 2*Abs(u)*Sign(u) = 2*u for every u, 0 included).

Exits 0 if HVP(y, p, v) == d/dy [J(y, p) v] on inline sparse, module python and module numba; non-zero otherwise.
"""
import os
import sys
import shutil
import importlib
import tempfile

ROOT = os.environ.get('SOLVERZ_ROOT', '/tmp/pw2_C05')
sys.path.insert(0, ROOT)
import Solverz

assert Solverz.__file__.startswith(ROOT), Solverz.__file__
import numpy as np
from Solverz import Model, Var, Eqn, Abs, made_numerical, module_printer


def build():
    m = Model()
    m.x = Var('x', [1.0, 2.0])
    m.y = Var('y', 0.5)
    m.f1 = Eqn('f1', Abs(m.x) ** 2 * m.y - 1)
    m.f2 = Eqn('f2', m.y ** 2 - m.x[0])
    return m.create_instance()


# a flat start: the first entry of x is exactly zero
y = np.array([0.0, 2.0, 0.5])
v = np.array([1.0, 1.0, 1.0])

# f1_i = x_i^2 * y - 1 -> (Jv)_i = 2 x_i y v_i + x_i^2 v_y ; f2 = y^2 - x_0 -> (Jv) = 2 y v_y - v_0
x, yy = y[0:2], y[2]
expected = np.zeros((3, 3))
for i in range(2):
    expected[i, i] = 2 * yy * v[i] + 2 * x[i] * v[2]
    expected[i, 2] = 2 * x[i] * v[i]
expected[2, 2] = 2 * v[2]

failures = []
tmp = tempfile.mkdtemp(prefix='c05_f2_')
sys.path.insert(0, tmp)
try:
    for backend in ('inline sparse', 'module python', 'module numba'):
        eqs, y0 = build()
        if backend == 'inline sparse':
            mdl = made_numerical(eqs, y0, sparse=True, make_hvp=True)
        else:
            name = f'c05f2_{backend.split()[1]}'
            module_printer(eqs, y0, name, directory=tmp, jit=(backend == 'module numba'), make_hvp=True).render()
            mdl = importlib.import_module(name).mdl

        # the library's own J*v is smooth at x_0 = 0: its central difference quotient (exact for this bilinear J*v up
        # to rounding) agrees with the hand-made Hessian-vector product
        eps = 1e-4
        fd = np.zeros((3, 3))
        for k in range(3):
            e = np.zeros(3)
            e[k] = eps
            fd[:, k] = ((mdl.J(y + e, mdl.p) - mdl.J(y - e, mdl.p)) @ v) / (2 * eps)
        np.testing.assert_allclose(fd, expected, atol=1e-9)

        H = mdl.HVP(y, mdl.p, v).toarray()
        if np.max(np.abs(H - expected)) > 1e-12:
            failures.append(f'{backend}: expected d(Jv)/dy =\n{expected}\nactual HVP =\n{H}')
finally:
    shutil.rmtree(tmp, ignore_errors=True)

assert not failures, 'C05 violated at an exact zero of the argument of Abs:\n' + '\n'.join(failures)
print('ok')
