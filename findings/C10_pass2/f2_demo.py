"""C10 / 'every event is paired with the state of that same time' + 'no dependence on history':
collecting the legs of a bouncing-ball run (terminal event, restart) with daesol.append must not change the
solutions Rodas returned.  Exit 0 if the first leg is still what Rodas reported after the second leg has been
appended to the collector, non-zero otherwise."""
import os
import sys

ROOT = os.environ.get('SOLVERZ_ROOT', '/tmp/pw2_C10')
sys.path.insert(0, ROOT)
import numpy as np
import Solverz

assert Solverz.__file__.startswith(ROOT), Solverz.__file__
from Solverz import Ode, Var, Opt, Rodas, made_numerical, Model
from Solverz.solvers.solution import daesol

m = Model()
m.x = Var('x', [0, 20])
m.f1 = Ode('f1', m.x[1], m.x[0])
m.f2 = Ode('f2', -9.8, m.x[1])
bball, y0 = m.create_instance()
nbball = made_numerical(bball, y0, sparse=True)


def events(t, y):
    return np.array([y[0]]), np.array([1]), np.array([-1])  # ground contact, terminal, falling


opt = Opt(event=events)
leg1 = Rodas(nbball, [0, 30], y0, opt)            # ends at the first impact, t = 40/9.8
T1, Y1 = leg1.T.copy(), leg1.Y.array.copy()
te1, ye1 = leg1.te.copy(), leg1.ye.array.copy()
assert len(te1) == 1 and ye1.shape[0] == 1 and T1[-1] == te1[-1]

y0['x'][0] = 0
y0['x'][1] = -0.9 * leg1.Y[-1]['x'][1]
leg2 = Rodas(nbball, [leg1.T[-1], 30], y0, opt)   # second flight

run = daesol()
run.append(leg1)
run.append(leg2)

# the collector itself is right ...
assert len(run.T) == run.Y.array.shape[0] == len(T1) + len(leg2.T)
assert len(run.te) == run.ye.array.shape[0] == 2
# ... but the first leg must still be the solution Rodas returned
problems = []
if leg1.Y.array.shape != Y1.shape or not np.array_equal(leg1.Y.array, Y1):
    problems.append(f'leg1.Y had {Y1.shape[0]} rows for its {len(leg1.T)} times, now it has {leg1.Y.array.shape[0]} rows')
if leg1.ye.array.shape != ye1.shape or not np.array_equal(leg1.ye.array, ye1):
    problems.append(f'leg1 reported {len(leg1.te)} event (te = {leg1.te}) with {ye1.shape[0]} state row; '
                    f'now leg1.ye has {leg1.ye.array.shape[0]} rows: {leg1.ye.array.tolist()}')
if not np.array_equal(leg1.T, T1) or not np.array_equal(leg1.te, te1):
    problems.append('leg1.T / leg1.te changed')
assert not problems, 'daesol.append modified the solution it was given:\n  ' + '\n  '.join(problems)
print('ok: appending leaves the appended solutions untouched')
