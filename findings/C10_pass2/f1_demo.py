"""C10 / completeness: a sign change of an event component between two consecutive accepted steps of Rodas
must be reported.  Ballistic flight y'' = -9.8, y(0) = 0, y'(0) = 20 on [0, 4] with two non-terminal events:
    g0 = y'      (apex, direction -1)            -> t = 20/9.8          = 2.0408...
    g1 = y - 20  (height band, direction 0)      -> t = (20 -+ sqrt(8))/9.8 = 1.7522..., 2.3294...
Exit 0 if every sign change of g1 that is visible in the returned rows (T, Y) has its event, non-zero otherwise."""
import os
import sys

ROOT = os.environ.get('SOLVERZ_ROOT', '/tmp/pw2_C10')
sys.path.insert(0, ROOT)
import numpy as np
import Solverz

assert Solverz.__file__.startswith(ROOT), Solverz.__file__
from scipy.sparse import csc_array
from Solverz import Rodas, Opt
from Solverz.num_api.num_eqn import nDAE

g = 9.8
dae = nDAE(csc_array(np.eye(2)),
           lambda t, y, p: np.array([y[1], -g]),
           lambda t, y, p: csc_array(np.array([[0., 1.], [0., 0.]])),
           {})


def events(t, y):
    value = np.array([y[1], y[0] - 20.0])
    isterminal = np.array([0, 0])
    direction = np.array([-1, 0])
    return value, isterminal, direction


expected = [(float((20 - np.sqrt(8)) / g), 1), (20 / g, 0), (float((20 + np.sqrt(8)) / g), 1)]
problems = []
for scheme in ['rodas4', 'rodasp', 'rodas5p']:
    sol = Rodas(dae, [0, 4], np.array([0., 20.]), Opt(event=events, scheme=scheme))
    te, ie = sol.te, sol.ie.astype(int)
    # (a) literal clause: the rows the solver returned are its accepted steps; g1 evaluated on them
    g1 = sol.Y[:, 0] - 20.0
    for k in range(len(sol.T) - 1):
        if np.sign(g1[k]) * np.sign(g1[k + 1]) < 0:
            hit = [t for t, i in zip(te, ie) if i == 1 and sol.T[k] <= t <= sol.T[k + 1]]
            if not hit:
                problems.append(f'{scheme}: g1 = y-20 goes {g1[k]:+.3f} -> {g1[k + 1]:+.3f} between the accepted steps '
                                f'T[{k}]={sol.T[k]:.6f} and T[{k + 1}]={sol.T[k + 1]:.6f}, no event with ie=1 reported there')
    # (b) against the analytic crossing times
    got = [(round(float(t), 6), int(i)) for t, i in zip(te, ie)]
    ok = len(got) == len(expected) and all(i == ix and abs(t - tx) < 1e-3 for (t, i), (tx, ix) in zip(got, expected))
    if not ok:
        problems.append(f'{scheme}: expected events (te, ie) = {[(round(t, 6), i) for t, i in expected]}, got {got}')
    if np.any(np.diff(te) < 0):
        problems.append(f'{scheme}: te not ascending: {te}')

assert not problems, 'C10 violated:\n  ' + '\n  '.join(problems)
print('ok: all sign changes of both components reported in ascending order')
