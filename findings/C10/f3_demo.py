"""C10 / "events lie within the integrated span" + "detecting events never perturbs the trajectory":
with the fixed-step option (Opt(fix_h=True, hinit=h)) ONE located non-terminal event makes Rodas run past tend.

Without an event function the run on tspan=[0, 4], h=0.125 ends at T[-1] = 4.0 after 32 steps.  With a non-terminal
event the step is cut at the event time, the fixed grid is shifted by a non-multiple of h, `abs(tend - t) < uround`
is never true again and (fix_h forces last_step = False) the integration continues far beyond tend: until the
10000-step limit for a 2-node tspan (T[-1] ~ 1250, events reported up to t ~ 1250 for tspan [0, 4]) and until an
IndexError for a dense tspan.

exit 0 = property holds, non-zero = violated.
"""
import os, sys, io, contextlib, warnings
ROOT = os.environ.get('SOLVERZ_ROOT', '/tmp/pw_C10')
sys.path.insert(0, ROOT)
import numpy as np
import Solverz
assert Solverz.__file__.startswith(ROOT), Solverz.__file__
from Solverz import Ode, Var, Opt, Rodas, made_numerical, Model

with contextlib.redirect_stdout(io.StringIO()):
    m = Model()
    m.x = Var('x', [0.0])
    m.v = Var('v', [1.0])
    m.f1 = Ode('f1', m.v, m.x)                  # x = sin t, v = cos t
    m.f2 = Ode('f2', -m.x, m.v)
    s, y0 = m.create_instance()
    nd = made_numerical(s, y0, sparse=True)


def ev(t, y):                                   # x = 0, falling, NOT terminal: exactly one event (t = pi) in [0, 4]
    return np.array([y[0]]), np.array([0]), np.array([-1])


tend, h = 4.0, 0.125
bad = []
warnings.simplefilter('ignore')

# reference: no event function
ref = Rodas(nd, [0, tend], y0, Opt(fix_h=True, hinit=h))
assert ref.T[-1] == tend and len(ref.T) == 33, (ref.T[-1], len(ref.T))
print(f'no event function: T[-1]={ref.T[-1]}, {len(ref.T) - 1} steps')

# 2-node tspan
sol = Rodas(nd, [0, tend], y0, Opt(fix_h=True, hinit=h, event=ev))
te = np.asarray(sol.te)
ok = te.size == 1 and abs(te[0] - np.pi) < 1e-3 and sol.T[-1] <= tend and np.all(te <= tend)
print(f"{'ok ' if ok else 'BAD'} 2-node: expected te=[pi], all T <= {tend} ; actual {te.size} events, "
      f"te[:3]={te[:3]}, te[-1]={te[-1] if te.size else None}, T[-1]={sol.T[-1]}, len(T)={len(sol.T)}")
if not ok:
    bad.append('2-node tspan')
# the states before the event are the same as without the event function
n = int(np.sum(sol.T < np.pi - h))
Yev = np.asarray(sol.Y.array if hasattr(sol.Y, 'array') else sol.Y)
Yref = np.asarray(ref.Y.array if hasattr(ref.Y, 'array') else ref.Y)
assert np.array_equal(Yev[:n], Yref[:n])

# dense tspan
try:
    sol = Rodas(nd, np.linspace(0, tend, 9), y0, Opt(fix_h=True, hinit=h, event=ev))
    te = np.asarray(sol.te)
    ok = te.size == 1 and abs(te[0] - np.pi) < 1e-3 and sol.T[-1] == tend and len(sol.T) == 9
    print(f"{'ok ' if ok else 'BAD'} dense: expected te=[pi], T = the 9 nodes ; actual te={te[:3]}..., T[-1]={sol.T[-1]}, len(T)={len(sol.T)}")
except Exception as e:
    ok = False
    print(f'BAD dense: expected te=[pi], T = the 9 nodes ; actual {type(e).__name__}: {e}')
if not ok:
    bad.append('dense tspan')

assert not bad, (f"C10 violated with fix_h=True: after one non-terminal event the run does not stop at tend={tend} "
                 f"(events / times far beyond the span, or IndexError) in {bad}")
print('property holds on these inputs')
