"""D77 (C10): an event function that returns a preallocated buffer it re-uses (legal: the values at the time of the call are right)
makes Rodas report a spurious event: `value_save = value` aliases the buffer, so the values of the step end are overwritten by the
bisection's evaluations.  Exit 0 = every reported event is a zero of the event function, 1 = violated."""
import Solverz, os, sys
import numpy as np
assert Solverz.__file__.startswith(os.environ.get("SOLVERZ_ROOT", "/repo")), Solverz.__file__
from scipy.sparse import csc_array
from Solverz.num_api.num_eqn import nDAE
from Solverz import Rodas, Opt

osc = nDAE(csc_array(np.eye(2)), lambda t, y, p: np.array([y[1], -y[0]]), lambda t, y, p: csc_array(np.array([[0.0, 1.0], [-1.0, 0.0]])), {})
bad = []
for scheme in ("rodas4", "rodasp", "rodas5p"):
    buf = np.zeros(1)
    def ev_buf(t, y):
        buf[0] = y[0] - 0.5
        return buf, np.array([False]), np.array([0.0])
    def ev_fresh(t, y):
        return np.array([y[0] - 0.5]), np.array([False]), np.array([0.0])
    res = {}
    for name, ev in (("buffer", ev_buf), ("fresh", ev_fresh)):
        sol = Rodas(osc, [0.0, 10.0], np.array([0.0, 1.0]), Opt(rtol=1e-6, atol=1e-8, scheme=scheme, event=ev))
        res[name] = np.asarray(sol.te, dtype=float)
    for te in res["buffer"]:
        if abs(np.sin(te) - 0.5) > 1e-4:
            bad.append(f"{scheme}: event reported at t = {te!r} where x = sin t = {np.sin(te):.4f}, the event function x - 0.5 is not zero there "
                       f"(te with a fresh array per call: {list(np.round(res['fresh'], 4))})")
    if len(res["buffer"]) != len(res["fresh"]):
        bad.append(f"{scheme}: {len(res['buffer'])} events with the re-used buffer, {len(res['fresh'])} with a fresh array per call")
for b in bad:
    print(b)
sys.exit(1 if bad else 0)
