"""C10 / location accuracy: an event function with small values (|v1 - v0| <= 2.2e-16 over the step) is not located
at all: Rodas reports the END OF THE STEP as the event time (error = a large part of the step, here 0.6 time units).

exit 0 = property holds, non-zero = violated.
"""
import os, sys, io, contextlib
ROOT = os.environ.get('SOLVERZ_ROOT', '/tmp/pw_C10')
sys.path.insert(0, ROOT)
import numpy as np
import Solverz
assert Solverz.__file__.startswith(ROOT), Solverz.__file__
from Solverz import Ode, Var, Opt, Rodas, made_numerical, Model


def decay(y_start):
    with contextlib.redirect_stdout(io.StringIO()):
        m = Model()
        m.y = Var('y', [y_start])
        m.f = Ode('f', -m.y, m.y)              # y' = -y
        s, y0 = m.create_instance()
        return made_numerical(s, y0, sparse=True), y0


t_exact = np.log(2.0)                          # y(t) = y(0) exp(-t) reaches y(0)/2 at ln 2
bad = []

# (a) a state of natural magnitude 1e-18 (e.g. a charge in coulomb), atol chosen accordingly; terminal event at half value
nd, y0 = decay(1e-18)
def ev_a(t, y):
    return np.array([y[0] - 0.5e-18]), np.array([1]), np.array([-1])
for tspan, label in (([0, 2], '2-node'), (np.linspace(0, 2, 201), 'dense')):
    sol = Rodas(nd, tspan, y0, Opt(event=ev_a, rtol=1e-3, atol=1e-26))
    te = np.asarray(sol.te)
    ye = np.asarray(sol.ye.array if hasattr(sol.ye, 'array') else sol.ye)
    ok = te.size == 1 and abs(te[0] - t_exact) < 5e-3 and abs(ye[0, 0] / 0.5e-18 - 1) < 5e-3
    print(f"{'ok ' if ok else 'BAD'} (a) {label}: expected te=ln2={t_exact:.6f}, ye=5e-19 ; actual te={te}, ye={ye.ravel()}, T[-1]={sol.T[-1]}")
    if not ok:
        bad.append(f'(a) {label}')

# (b) the same O(1) problem, the event function only scaled: the reported time must not depend on the scale
nd, y0 = decay(1.0)
ref = None
for scale in (1.0, 1e-10, 1e-16, 1e-20):
    def ev_b(t, y, scale=scale):
        return np.array([scale * (y[0] - 0.5)]), np.array([0]), np.array([0])
    sol = Rodas(nd, [0, 2], y0, Opt(event=ev_b))
    te = np.asarray(sol.te)
    ok = te.size == 1 and abs(te[0] - t_exact) < 5e-3
    print(f"{'ok ' if ok else 'BAD'} (b) scale={scale:g}: expected te~{t_exact:.6f} ; actual te={te} (error {te - t_exact})")
    if not ok:
        bad.append(f'(b) scale={scale:g}')

assert not bad, (f"C10 violated: event not located to integration accuracy (rtol=1e-3) -- reported at the step end, "
                 f"about 0.6 after the sign change at ln 2 -- in cases {bad}")
print('property holds on these inputs')
