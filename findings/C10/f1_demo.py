"""C10 / completeness + terminality: an event whose value is EXACTLY zero at an accepted step end is never reported.

Rodas detects events with `value * valueold < 0`.  If the event function is exactly 0.0 at the end of an accepted
step, the product is 0 on that step (-1 * 0) and 0 on the next one (0 * +1): the sign change -1 -> 0 -> +1 is
never seen, a terminal event does not stop the run.

exit 0 = property holds, non-zero = violated.
"""
import os, sys, io, contextlib
ROOT = os.environ.get('SOLVERZ_ROOT', '/tmp/pw_C10')
sys.path.insert(0, ROOT)
import numpy as np
import Solverz
assert Solverz.__file__.startswith(ROOT), Solverz.__file__
from Solverz import Ode, Var, Opt, Rodas, made_numerical, Model

with contextlib.redirect_stdout(io.StringIO()):
    m = Model()
    m.y = Var('y', [0.0])
    m.f = Ode('f', 1 + 0 * m.y, m.y)          # y' = 1, y(0) = 0  ->  y(t) = t
    s, y0 = m.create_instance()
    nd = made_numerical(s, y0, sparse=True)


def time_event(t, y):                          # changes sign (- -> +) at t = 0.5, terminal
    return np.array([t - 0.5]), np.array([1]), np.array([0])


def state_event(t, y):                         # y - 0.5 changes sign (- -> +) at t = 0.5, terminal, rising only
    return np.array([y[0] - 0.5]), np.array([1]), np.array([1])


cases = [
    ('time event, 2-node tspan, hinit=0.5 (first accepted step ends exactly at 0.5)',
     time_event, [0, 1], dict(hinit=0.5)),
    ('time event, dense tspan, hinit=0.5',
     time_event, np.linspace(0, 1, 11), dict(hinit=0.5)),
    ('time event, fixed step 0.125',
     time_event, [0, 1], dict(hinit=0.125, fix_h=True)),
    ('state event y-0.5 for y(t)=t, scheme rodasp, hinit=0.5 (y(0.5) is exactly 0.5)',
     state_event, [0, 1], dict(hinit=0.5, scheme='rodasp')),
    ('state event y-0.5 for y(t)=t, scheme rodas5p, fixed step 0.125',
     state_event, [0, 1], dict(hinit=0.125, fix_h=True, scheme='rodas5p')),
]

bad = []
for name, ev, tspan, kw in cases:
    sol = Rodas(nd, tspan, y0, Opt(event=ev, **kw))
    te = np.asarray(sol.te)
    ok = te.size == 1 and abs(te[0] - 0.5) < 1e-9 and abs(sol.T[-1] - 0.5) < 1e-9
    print(f"{'ok ' if ok else 'BAD'} {name}: expected te=[0.5], T[-1]=0.5 ; actual te={te}, T[-1]={sol.T[-1]}")
    if not ok:
        bad.append(name)

assert not bad, (f"C10 violated: terminal sign change at t=0.5 (event value exactly 0 at a step end) "
                 f"not reported / run not stopped in {len(bad)} of {len(cases)} cases: {bad}")
print('property holds on these inputs')
