"""D11 (C10, open; second witness, single detected component): after an accepted step is cut at a located event, the values the next step compares with are those of the
DISCARDED step end, not those at the event time.  A second component that changes sign between the two (and back) is never
reported although it changes sign across both returned steps.  Exit 0 = property holds, 1 = violated (current behaviour)."""
import Solverz, os, sys
import numpy as np
assert Solverz.__file__.startswith(os.environ.get("SOLVERZ_ROOT", "/repo")), Solverz.__file__
from scipy.sparse import csc_array
from Solverz.num_api.num_eqn import nDAE
from Solverz import Rodas, Opt

ramp = nDAE(csc_array(np.eye(1)), lambda t, y, p: np.array([1.0]), lambda t, y, p: csc_array(np.array([[0.0]])), {})
g = lambda t: np.array([t - 1.0, (t - 0.99999) * (t - 1.00001)])
ev = lambda t, y: (g(t), np.array([False, False]), np.array([0.0, 0.0]))
sol = Rodas(ramp, [0.0, 2.0], np.array([0.0]), Opt(rtol=1e-6, atol=1e-8, event=ev))
T = np.asarray(sol.T, dtype=float); te = np.asarray(sol.te, dtype=float); ie = [int(i) for i in sol.ie]
missed = []
for a, b in zip(T[:-1], T[1:]):
    if g(a)[1] * g(b)[1] < 0 and not any(i == 1 and a <= t_e <= b for t_e, i in zip(te, ie)):
        missed.append((float(a), float(b)))
print("te", list(te), "ie", ie)
if missed:
    print("component 1 changes sign across the returned steps", missed, "and no event of component 1 is reported there"); sys.exit(1)
