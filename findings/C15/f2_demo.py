"""
C15 / finding 2: renaming a variable of an FDAE to `y_0` (a legal identifier, not in Solverz' list of built-in names)
silently changes the results of fdae_solver. Exits 0 if the renamed model gives the same values.
"""
import contextlib
import io
import os
import sys
import warnings

ROOT = os.environ.get('SOLVERZ_ROOT', '/tmp/pw_C15')
sys.path.insert(0, ROOT)
import Solverz

assert Solverz.__file__.startswith(ROOT), f'wrong Solverz imported: {Solverz.__file__}'

import numpy as np
from Solverz import Model, Var, Param, Eqn, AliasVar, made_numerical, fdae_solver, Opt

warnings.simplefilter('ignore')


def run(name_x, name_u):
    """backward Euler of x' = -x written as an FDAE, u = 2 x;  x_k = x_{k-1} / 1.1"""
    m = Model()
    setattr(m, name_x, Var(name_x, 1.0))
    setattr(m, name_u, Var(name_u, 2.0))
    x, u = getattr(m, name_x), getattr(m, name_u)
    x_prev = AliasVar(name_x, step=1)
    setattr(m, x_prev.name, x_prev)
    m.dt = Param('dt', 0.1)
    m.e1 = Eqn('e1', x - x_prev + m.dt * x)
    m.e2 = Eqn('e2', u - 2 * x)
    with contextlib.redirect_stdout(io.StringIO()):
        fdae, y0 = m.create_instance()
        nfdae, code = made_numerical(fdae, y0, sparse=True, output_code=True)
        sol = fdae_solver(nfdae, [0, 0.5], y0, Opt(step_size=0.1))
    return sol.Y[name_x][:, 0], sol.Y[name_u][:, 0], code['F']


expected = 1.1 ** -np.arange(6)
x_ref, u_ref, _ = run('x', 'u')
assert np.allclose(x_ref, expected, rtol=1e-10), x_ref
try:
    x_ren, u_ren, code = run('y_0', 'u')
except ValueError as e:
    # a loud rejection of the name (like for y_, p_, row, ...) is acceptable: nothing is computed silently
    print('renamed model rejected loudly:', e)
    sys.exit(0)
print(code)
assert np.allclose(x_ren, x_ref, rtol=1e-10, atol=0) and np.allclose(u_ren, u_ref, rtol=1e-10, atol=0), \
    (f"renaming variable x -> y_0 changed the FDAE solution:\n expected x_k = {x_ref}\n got      x_k = {x_ren}\n"
     f" expected u_k = {u_ref}\n got      u_k = {u_ren}")
print('OK: renamed model gives the same values')
