"""
C15 / finding 3: a triggerable parameter whose trigger variable is another triggerable parameter. The generated
F_ evaluates the trigger functions in the lexicographic order of the parameter NAMES, so a consistent renaming of the
two parameters changes the residual. Exits 0 if both namings give the same residual.
"""
import contextlib
import io
import os
import sys
import warnings

ROOT = os.environ.get('SOLVERZ_ROOT', '/tmp/pw_C15')
sys.path.insert(0, ROOT)
import Solverz

assert Solverz.__file__.startswith(ROOT), f'wrong Solverz imported: {Solverz.__file__}'

import numpy as np
from Solverz import Model, Var, Param, Eqn, made_numerical, nr_method, Opt

warnings.simplefilter('ignore')


def gain(x):  # first parameter: follows the variable x
    return 2 * x


def offset(g):  # second parameter: follows the first parameter
    return g + 1


def residual(name_gain, name_offset, inline_sparse):
    """0 = x^2 - 2 x + gain - offset  with gain = 2 x, offset = gain + 1, i.e. F(x) = x^2 - 2 x - 1"""
    m = Model()
    m.x = Var('x', 3.0)
    # same declaration order in both namings: the parameter that is depended upon comes first
    setattr(m, name_gain, Param(name_gain, triggerable=True, trigger_var='x', trigger_fun=gain))
    setattr(m, name_offset, Param(name_offset, triggerable=True, trigger_var=name_gain, trigger_fun=offset))
    m.eq = Eqn('eq', m.x * m.x - 2 * m.x + getattr(m, name_gain) - getattr(m, name_offset))
    with contextlib.redirect_stdout(io.StringIO()):
        ae, y0 = m.create_instance()
        nae, code = made_numerical(ae, y0, sparse=inline_sparse, output_code=True)
        sol = nr_method(nae, y0, Opt(ite_tol=1e-10))
    return float(nae.F(np.array([4.0]), nae.p)[0]), code['F'], float(sol.y['x'][0])


exact = 4.0 ** 2 - 2 * 4.0 - 1  # 7
for sparse in (False, True):
    F1, code1, x1 = residual('A', 'B', sparse)  # the dependent parameter sorts after the one it depends on
    F2, code2, x2 = residual('B', 'A', sparse)  # renamed consistently: A <-> B
    print(code1)
    print(code2)
    print(f'F(x=4): names (gain=A, offset=B) -> {F1};  names (gain=B, offset=A) -> {F2};  exact {exact}')
    assert abs(F1 - F2) <= 1e-12, \
        (f"renaming the two parameters changed the residual at x = 4: {F1} with (gain=A, offset=B), {F2} with "
         f"(gain=B, offset=A); expected {exact} in both cases")
    assert abs(F1 - exact) <= 1e-12, f"residual {F1} != exact {exact}"
    assert abs(x1 - x2) <= 1e-8, f"nr_method: x = {x1} with (gain=A, offset=B) but x = {x2} with (gain=B, offset=A)"
print('OK: residual independent of the parameter names')
