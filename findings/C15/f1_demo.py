"""
C15 / finding 1: swapping the declaration order of two Ode equations changes what ode15s returns
(x(1) = 500 in one order, about 0 in the other). Exits 0 if the two orders agree to tolerance.
"""
import contextlib
import io
import os
import sys
import warnings

ROOT = os.environ.get('SOLVERZ_ROOT', '/tmp/pw_C15')
sys.path.insert(0, ROOT)
import Solverz

assert Solverz.__file__.startswith(ROOT), f'wrong Solverz imported: {Solverz.__file__}'

import numpy as np
from Solverz import Model, Var, Ode, TimeSeriesParam, made_numerical, ode15s, Opt
from Solverz.solvers.daesolver.daeic import getyp0

warnings.simplefilter('ignore')

RTOL, ATOL = 1e-3, 1e-6


def build(eqn_order):
    """x' = u(t), u ramps linearly from 1000 (t=0) to 0 (t=1): x(1) = 500.  z' = -1e-12 z, z(0) = 1e6."""
    m = Model()
    m.x = Var('x', 0.0)
    m.z = Var('z', 1e6)
    m.u = TimeSeriesParam('u', v_series=[1000.0, 0.0, 0.0], time_series=[0.0, 1.0, 100.0])
    eqs = {'fx': lambda: Ode('fx', m.u, diff_var=m.x),
           'fz': lambda: Ode('fz', -1e-12 * m.z, diff_var=m.z)}
    for name in eqn_order:  # the ONLY difference between the two models: order of these two assignments
        setattr(m, name, eqs[name]())
    with contextlib.redirect_stdout(io.StringIO()):
        sdae, y0 = m.create_instance()
        ndae = made_numerical(sdae, y0, sparse=True)
    return y0, ndae


res = {}
for order in (('fx', 'fz'), ('fz', 'fx')):
    y0, ndae = build(order)
    yp0 = getyp0(ndae, y0.array, 0.0)
    sol = ode15s(ndae, [0, 1.0], y0, Opt(rtol=RTOL, atol=ATOL))
    res[order] = dict(xp0=float(yp0[y0.a['x']][0]), zp0=float(yp0[y0.a['z']][0]),
                      nstep=len(sol.T) - 1, x=float(sol.Y['x'][-1, 0]), z=float(sol.Y['z'][-1, 0]))
    print('equations declared', order, '->', res[order])

a, b = res[('fx', 'fz')], res[('fz', 'fx')]
tol_x = 10 * (ATOL + RTOL * 500.0)  # ten times the requested tolerance, exact x(1) = 500
assert abs(a['x'] - b['x']) <= tol_x, \
    (f"ode15s result depends on the declaration order of the equations: x(1) = {a['x']} with (fx, fz) but "
     f"x(1) = {b['x']} with (fz, fx); exact 500, allowed difference {tol_x}. "
     f"Initial slopes used: x'(0)={a['xp0']}, z'(0)={a['zp0']} vs x'(0)={b['xp0']}, z'(0)={b['zp0']} (true: 1000, -1e-06)")
# initial slope used by ode15s, per named variable (x'(0) = u(0) = 1000, z'(0) = -1e-6)
assert abs(a['xp0'] - b['xp0']) <= 1e-9 * 1000 and abs(a['zp0'] - b['zp0']) <= 1e-12, \
    (f"initial slopes of ode15s depend on the declaration order: expected x'(0)=1000, z'(0)=-1e-06 in both orders, "
     f"got x'(0)={a['xp0']}, z'(0)={a['zp0']} for (fx, fz) but x'(0)={b['xp0']}, z'(0)={b['zp0']} for (fz, fx)")
print('OK: ode15s agrees for both declaration orders')
