"""C11 finding 2: a single-precision start array is "projected" and checked in single precision.

DaeIc keeps the dtype of y0 (ynew = y.copy()), and the generated F_ then evaluates parameter-free terms such as
w*w - x in float32.  The residual test (<= 1e-5*rtol, and the <= 1e-6 test for "already consistent" starts) is
therefore done on float32-rounded residuals, which are exactly 0.0 as soon as w*w rounds to x in float32.  The
first row that the solver returns (a float64 row holding exactly those float32 values) has a true residual of
order eps32 * |x| ~ 1e-4 ... 1e-3, far above 1e-6, and no error or warning is raised.

Exit 0: property holds on this input.  Non-zero: violated.
"""
import os
import sys
import warnings

ROOT = os.environ.get('SOLVERZ_ROOT', '/tmp/pw_C11')
sys.path.insert(0, ROOT)
import Solverz

assert Solverz.__file__.startswith(ROOT), f'wrong Solverz imported: {Solverz.__file__}'

import numpy as np
from Solverz import Model, Var, Eqn, Ode, made_numerical, Opt
from Solverz import Rodas, ode15s, backward_euler, implicit_trapezoid

warnings.simplefilter('ignore')

# x' = -x ,  0 = w^2 - x  (index 1 for w > 0), algebraic variable listed first
m = Model()
m.w = Var('w', 100.0)
m.x = Var('x', 10000.0)
m.f = Ode('f', -m.x, diff_var=m.x)
m.h = Eqn('h', m.w * m.w - m.x)
sdae, y0 = m.create_instance()
dae = made_numerical(sdae, y0, sparse=True)

THRESH = 1e-6
t0 = 0.0
failures = []
n_ok = n_raise = 0
for x in (2665.901183341087, 63401.45778890434, 3621.9703414932615, 45234.482221710736, 37813.60241714049):
    for label, w_start in (('perturbed by 30%', np.sqrt(x) * 1.3),      # Newton branch of DaeIc
                           ('float32-consistent', None)):                  # early-return branch of DaeIc
        for name, solver in (('Rodas', Rodas), ('ode15s', ode15s),
                             ('backward_euler', backward_euler), ('implicit_trapezoid', implicit_trapezoid)):
            if w_start is None:
                # the float32 value the Newton branch ends at: w*w == x in float32 arithmetic
                w32 = np.float32(np.sqrt(np.float64(np.float32(x))))
                start = np.array([w32, x], dtype=np.float32)
            else:
                start = np.array([w_start, x], dtype=np.float32)
            x_val = float(start[1])  # float32 -> float64 is exact
            try:
                sol = solver(dae, [t0, t0 + 1e-3], start, Opt(step_size=1e-3))
            except Exception as e:  # a loud refusal is allowed by the property
                n_raise += 1
                continue
            row0 = np.asarray(sol.Y[0], dtype=np.float64)
            res = abs(dae.F(t0, row0, dae.p)[1])  # residual of the returned first row, in double precision
            same_state = row0[1] == x_val
            if res <= THRESH and same_state:
                n_ok += 1
            else:
                failures.append((name, label, x, row0, res))
                print(f'VIOLATION {name:20s} x={x!r} start {label}: first row {row0!r}, |h(first row)| = {res:.3e}, '
                      f'state unchanged: {same_state}')

print(f'ok: {n_ok}, raised (allowed): {n_raise}, silent violations: {len(failures)}')
assert not failures, ('C11 violated: expected |h(first row)| <= 1e-6 (or an error) for float32 starts; '
                      f'{len(failures)} runs returned silently with residuals up to {max(f[4] for f in failures):.3e}')
print('property holds on this input')
