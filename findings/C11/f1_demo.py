"""C11 finding 1: the consistency threshold of the initial projection grows with opt.rtol.

DaeIc accepts a Newton iterate as soon as ||g|| <= 1e-5 * rtol.  For rtol > 0.1 this is looser than the
fixed 1e-6 used for "already consistent" starts, so with a legal (if coarse) rtol every DAE solver silently
starts from / returns as first row a point whose algebraic residual is above 1e-6.

Exit 0: property holds on this input.  Non-zero: violated.
"""
import os
import sys
import warnings

ROOT = os.environ.get('SOLVERZ_ROOT', '/tmp/pw_C11')
sys.path.insert(0, ROOT)
import Solverz

assert Solverz.__file__.startswith(ROOT), f'wrong Solverz imported: {Solverz.__file__}'

import numpy as np
from Solverz import Model, Var, Eqn, Ode, made_numerical, Opt
from Solverz import Rodas, ode15s, backward_euler, implicit_trapezoid

warnings.simplefilter('ignore')

# x' = -x ,  0 = z^2 - x   (index 1 near z = 1: dg/dz = 2z), algebraic variable listed first
m = Model()
m.z = Var('z', 1.0)
m.x = Var('x', 1.0)
m.f = Ode('f', -m.x, diff_var=m.x)
m.g = Eqn('g', m.z * m.z - m.x)
sdae, y0 = m.create_instance()
dae = made_numerical(sdae, y0, sparse=True)

THRESH = 1e-6
t0 = 0.0
pert = 2.2e-3  # one Newton step leaves a residual ~ pert**2 ~ 4.8e-6
start = np.array([1.0 + pert, 1.0])
x_bits = start[1:2].tobytes()

failures = []
for rtol in (1e-3, 1.0, 10.0):
    for name, solver in (('Rodas', Rodas), ('ode15s', ode15s),
                         ('backward_euler', backward_euler), ('implicit_trapezoid', implicit_trapezoid)):
        y_in = start.copy()
        try:
            sol = solver(dae, [t0, t0 + 1e-2], y_in, Opt(rtol=rtol, step_size=5e-3))
        except Exception as e:  # a loud refusal is allowed by the property
            print(f'{name:20s} rtol={rtol:g}: raised {type(e).__name__}: {e} (allowed)')
            continue
        row0 = np.asarray(sol.Y[0], dtype=float)
        res = abs(dae.F(t0, row0, dae.p)[1])
        same_state = row0[1:2].tobytes() == x_bits
        ok = res <= THRESH and same_state
        print(f'{name:20s} rtol={rtol:g}: first row {row0!r}, |g(first row)| = {res:.3e}, state bit-identical: {same_state}'
              f'  -> {"ok" if ok else "VIOLATION"}')
        if not ok:
            failures.append((name, rtol, res))

assert not failures, ('C11 violated: expected |g(first row)| <= 1e-6 (or an error) for every solver and rtol; got silently '
                      + ', '.join(f'{n}(rtol={r:g}): {v:.3e}' for n, r, v in failures))
print('property holds on this input')
