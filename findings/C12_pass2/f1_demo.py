"""C12 / finding 1: backward_euler and implicit_trapezoid do not reach tend when (tend - t0)/h is not integral.

They stop short of tend (remainder <= h/10, in the extreme with no step at all and succeed=True) or run past
tend by up to 0.9 h (remainder > h/10). fdae_solver, on the same inputs, ends exactly at tend.
Exits 0 if the property holds, non-zero otherwise.
"""
import os
import sys

ROOT = os.environ.get('SOLVERZ_ROOT', '/tmp/pw2_C12')
sys.path.insert(0, ROOT)
import Solverz

assert Solverz.__file__.startswith(ROOT), f"wrong Solverz imported: {Solverz.__file__}"

import numpy as np
from Solverz import Model, Var, Ode, Opt, made_numerical, backward_euler, implicit_trapezoid

m = Model()
m.x = Var('x', 1.0)
m.f = Ode('f', f=-m.x, diff_var=m.x)
dae, y0 = m.create_instance()
ndae = made_numerical(dae, y0, sparse=True)

cases = [(0.0, 1.0, 0.3),  # remainder 0.1 = h/3   -> observed end 1.2 (past tend)
         (0.0, 1.005, 0.1),  # remainder 0.005 = h/20 -> observed end 1.0 (short of tend)
         (0.0, 0.005, 0.1),  # span = h/20            -> observed: no step at all, succeed=True
         (2.0, 2.05, 0.1)]  # span = h/2             -> observed end 2.1 (past tend)

bad = []
for solver in (backward_euler, implicit_trapezoid):
    for t0, tend, h in cases:
        sol = solver(ndae, [t0, tend], y0, Opt(step_size=h))
        T = sol.T
        n_expected = int(np.ceil((tend - t0) / h - 1e-9))  # full steps plus one shortened last step
        eps = 16 * np.spacing(max(abs(t0), abs(tend)))
        ok = (sol.stats.succeed
              and abs(T[0] - t0) <= eps
              and abs(T[-1] - tend) <= eps
              and len(T) - 1 == n_expected
              and np.all(np.abs(np.diff(T)[:-1] - h) <= eps))
        if not ok:
            bad.append(f"{solver.__name__}: [t0, tend] = [{t0}, {tend}], h = {h}: expected {n_expected} steps ending at "
                       f"{tend}; got {len(T) - 1} steps ending at {float(T[-1])!r} (succeed = {sol.stats.succeed})")

assert not bad, "the grid does not reach tend:\n  " + "\n  ".join(bad)
print("ok")
