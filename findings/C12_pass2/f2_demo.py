"""C12 / finding 2: backward_euler and implicit_trapezoid accumulate the time as tt = tt + h.

At large |t0| every addition rounds the same way (h is not a multiple of ulp(t0)), the rounding is systematic and
the grid drifts: with t0 = 1.7e9 (a unix time stamp), h = 1e-4 every step is 419 ulp = 9.9897e-5 long, a span of 1
takes 10011 steps instead of 10000, ends at t0 + 1.00007, and the state at the end is that of t = 1.0011.
(With a span of 10 the 100 spare rows of the buffer are used up: IndexError.)
fdae_solver, whose grid is t0 + k*h since the earlier repair, takes exactly 10000 steps on the same input.
Exits 0 if the property holds, non-zero otherwise.
"""
import os
import sys

ROOT = os.environ.get('SOLVERZ_ROOT', '/tmp/pw2_C12')
sys.path.insert(0, ROOT)
import Solverz

assert Solverz.__file__.startswith(ROOT), f"wrong Solverz imported: {Solverz.__file__}"

import numpy as np
from Solverz import Model, Var, Ode, Opt, made_numerical, backward_euler, implicit_trapezoid

m = Model()
m.x = Var('x', 1.0)
m.f = Ode('f', f=-m.x, diff_var=m.x)
dae, y0 = m.create_instance()
ndae = made_numerical(dae, y0, sparse=True)

t0 = 1.7e9
tend = t0 + 1.0
h = 1e-4
n_expected = 10000
exact = np.exp(-1.0)

bad = []
for solver, err_bound in ((backward_euler, 1e-4),  # h/2 * exp(-1) = 1.8e-5 is the error of the method
                          (implicit_trapezoid, 1e-7)):  # h^2/12 * exp(-1) = 3e-10
    sol = solver(ndae, [t0, tend], y0, Opt(step_size=h, ite_tol=1e-12))
    T = sol.T
    x_end = sol.Y.array[-1, 0]
    ulp = np.spacing(tend)
    k = np.arange(len(T))
    drift = np.max(np.abs(T - (t0 + k * h)))  # a correctly rounded grid is within ulp/2 of t0 + k*h
    ok = (len(T) - 1 == n_expected
          and abs(T[-1] - tend) <= 4 * ulp
          and drift <= 4 * ulp
          and abs(x_end - exact) <= err_bound)
    if not ok:
        bad.append(f"{solver.__name__}: expected {n_expected} steps ending at t0 + 1 with max |T[k] - (t0 + k h)| <= "
                   f"{4 * ulp:.2e} and |x_end - exp(-1)| <= {err_bound:.0e}; got {len(T) - 1} steps ending at "
                   f"t0 + {float(T[-1] - t0)!r}, grid drift {drift:.3e} (= {drift / h:.1f} steps), "
                   f"|x_end - exp(-1)| = {abs(x_end - exact):.2e}")

assert not bad, "the time grid drifts:\n  " + "\n  ".join(bad)
print("ok")
