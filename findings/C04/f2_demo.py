"""
C04 / finding 2: the symbolic DAE object's own M and F do not describe the declared system when an
Eqn is declared before an Ode (or when an Ode has a scalar right hand side and a vector diff_var).

Declared system (x has 3 elements, c one element), declaration order g, f, h:
    g : 0          = x[0] - 1
    f : d x[1:3]/dt = -2 * x[1:3]
    h : 0          = c - 4
DAE.M puts the equations in declaration order (rows g, f[0], f[1], h), as the generated F_ of both
backends does.  DAE.F(t, y) returns [all Odes, then all Eqns], so M @ dy/dt = DAE.F(t, y) pairs
the 1-rows of M with the wrong residuals.
Exit 0 if the property holds, non-zero otherwise.
"""
import os
import sys
import io
import contextlib
import warnings

ROOT = os.path.abspath(os.environ.get('SOLVERZ_ROOT', '/tmp/pw_C04'))
sys.path.insert(0, ROOT)
import Solverz  # noqa: E402

assert os.path.abspath(Solverz.__file__).startswith(ROOT), \
    f"Solverz imported from {Solverz.__file__}, expected below {ROOT}"
import numpy as np  # noqa: E402
from Solverz import Model, Var, Eqn, Ode, made_numerical  # noqa: E402

warnings.simplefilter('ignore')

# ---- case A: interleaved declaration ---------------------------------------------------------
m = Model()
m.x = Var('x', [1., 2., 3.])
m.c = Var('c', 5.)
m.g = Eqn('g', m.x[0] - 1)
m.f = Ode('f', -2 * m.x[1:3], diff_var=m.x[1:3])
m.h = Eqn('h', m.c - 4)
with contextlib.redirect_stdout(io.StringIO()):
    eqs, y0 = m.create_instance()
    dae = made_numerical(eqs, y0, sparse=True)

M = eqs.M.toarray()
expected_M = np.zeros((4, 4))
expected_M[1, 1] = 1
expected_M[2, 2] = 1
assert np.array_equal(M, expected_M), f"M: expected\n{expected_M}\nactual\n{M}"

# the declared system at y0 = (1, 2, 3, 5): rows in the order of M
expected_F = np.array([0., -4., -6., 1.])
F_generated = dae.F(0.0, y0.array.copy(), dae.p)
assert np.allclose(F_generated, expected_F), f"generated F_: expected {expected_F}, actual {F_generated}"

F_symbolic = eqs.F(0.0, y0)
assert F_symbolic.shape == expected_F.shape and np.allclose(F_symbolic, expected_F), (
    "DAE.F(t, y) is not in the row order of DAE.M of the same object: "
    f"expected {expected_F} (rows g, f[0], f[1], h as in M), actual {F_symbolic}; "
    f"e.g. row 0 of M is all-zero (algebraic) but DAE.F[0] = {F_symbolic[0]} is the Ode value -2*x[1]")

# ---- case B: scalar right hand side, vector diff_var -------------------------------------------
m = Model()
m.v = Var('v', [1., 2., 3.])
m.f = Ode('f', -9.8, diff_var=m.v)
with contextlib.redirect_stdout(io.StringIO()):
    eqs, y0 = m.create_instance()
    dae = made_numerical(eqs, y0, sparse=True)
assert np.array_equal(eqs.M.toarray(), np.eye(3))
expected_F = np.array([-9.8, -9.8, -9.8])
assert np.allclose(dae.F(0.0, y0.array.copy(), dae.p), expected_F)
F_symbolic = eqs.F(0.0, y0)
assert F_symbolic.shape == (3,) and np.allclose(F_symbolic, expected_F), (
    f"DAE.M is 3x3 but DAE.F(t, y) has shape {F_symbolic.shape}: expected {expected_F}, actual {F_symbolic}")
print("f2: property holds on this input")
