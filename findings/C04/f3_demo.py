"""
C04 / finding 3: an Ode whose differentiated variable is indexed by an index parameter, x[i].

Declared system (x has 3 elements, z has 2, i = IdxParam [2, 0]), declaration order f, g, h:
    f : d x[i] / dt = -z               i.e. dx[2]/dt = -z[0], dx[0]/dt = -z[1]
    g : 0 = x[1] - 2
    h : 0 = z - 5
Expected mass matrix (rows f[0], f[1], g, h[0], h[1]; columns x[0], x[1], x[2], z[0], z[1]):
    row 0 -> column 2, row 1 -> column 0, all other rows zero.
F_ and J_ are generated without complaint; only DAE.M refuses (its branch for such an index tests
`isinstance(var_idx, str)`, but diff_var.index is the idx symbol, so the branch is never taken).
Exit 0 if the property holds, non-zero otherwise.
"""
import os
import sys
import io
import contextlib
import warnings

ROOT = os.path.abspath(os.environ.get('SOLVERZ_ROOT', '/tmp/pw_C04'))
sys.path.insert(0, ROOT)
import Solverz  # noqa: E402

assert os.path.abspath(Solverz.__file__).startswith(ROOT), \
    f"Solverz imported from {Solverz.__file__}, expected below {ROOT}"
import numpy as np  # noqa: E402
from Solverz import Model, Var, Eqn, Ode, IdxParam, made_numerical  # noqa: E402

warnings.simplefilter('ignore')

m = Model()
m.x = Var('x', [1., 2., 3.])
m.z = Var('z', [5., 6.])
m.i = IdxParam('i', [2, 0])
m.f = Ode('f', -m.z, diff_var=m.x[m.i])
m.g = Eqn('g', m.x[1] - 2)
m.h = Eqn('h', m.z - 5)

expected_M = np.zeros((5, 5))
expected_M[0, 2] = 1
expected_M[1, 0] = 1
expected_F = np.array([-5., -6., 0., 0., 1.])

try:
    with contextlib.redirect_stdout(io.StringIO()):
        eqs, y0 = m.create_instance()
        dae = made_numerical(eqs, y0, sparse=True)
    res = (dae.M.toarray(), dae.F(0.0, y0.array.copy(), dae.p))
except Exception as e:
    res = e

assert not isinstance(res, Exception), (
    f"diff_var=x[i], i=IdxParam([2, 0]): expected mass matrix\n{expected_M}\n"
    f"actual: {type(res).__name__}: {res}")
M, F = res
assert np.array_equal(M, expected_M), f"expected M\n{expected_M}\nactual M\n{M}"
assert np.allclose(F, expected_F), f"expected F {expected_F}, actual F {F}"
print("f3: property holds on this input")
