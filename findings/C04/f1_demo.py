"""
C04 / finding 1: an Ode whose differentiated variable is the integer-indexed element x[-1].

Declared system (x has 3 elements):
    f : d x[-1] / dt = -x[-1]          (the same element as x[2])
    g : 0 = x[0:2] - 1
Expected mass matrix (rows f, g[0], g[1]; columns x[0], x[1], x[2]):
    [[0, 0, 1],
     [0, 0, 0],
     [0, 0, 0]]
x[-2] and x[-1:] are accepted and give the right matrix, x[-1] is refused.
Exit 0 if the property holds, non-zero otherwise.
"""
import os
import sys
import io
import contextlib
import warnings

ROOT = os.path.abspath(os.environ.get('SOLVERZ_ROOT', '/tmp/pw_C04'))
sys.path.insert(0, ROOT)
import Solverz  # noqa: E402

assert os.path.abspath(Solverz.__file__).startswith(ROOT), \
    f"Solverz imported from {Solverz.__file__}, expected below {ROOT}"
import numpy as np  # noqa: E402
from Solverz import Model, Var, Eqn, Ode, made_numerical  # noqa: E402

warnings.simplefilter('ignore')


def mass_matrix(index):
    m = Model()
    m.x = Var('x', [1., 2., 3.])
    m.f = Ode('f', -m.x[index], diff_var=m.x[index])
    m.g = Eqn('g', m.x[0:2] - 1)
    with contextlib.redirect_stdout(io.StringIO()):
        eqs, y0 = m.create_instance()
        dae = made_numerical(eqs, y0, sparse=True)
    return dae.M.toarray(), dae.F(0.0, y0.array.copy(), dae.p)


expected_M = np.array([[0., 0., 1.], [0., 0., 0.], [0., 0., 0.]])
expected_F = np.array([-3., 0., 1.])

results = {}
for label, index in [('x[2]', 2), ('x[-1:]', slice(-1, None)), ('x[-1]', -1)]:
    try:
        results[label] = mass_matrix(index)
    except Exception as e:  # a refusal of a legal integer index is the violation shown here
        results[label] = e

for label, res in results.items():
    assert not isinstance(res, Exception), (
        f"diff_var={label}: expected mass matrix\n{expected_M}\nactual: "
        f"{type(res).__name__}: {res}\n(the same element written as x[2] / x[-1:] gives "
        f"{[k for k, v in results.items() if not isinstance(v, Exception)]} without error)")
    M, F = res
    assert np.array_equal(M, expected_M), f"diff_var={label}: expected M\n{expected_M}\nactual M\n{M}"
    assert np.allclose(F, expected_F), f"diff_var={label}: expected F {expected_F}, actual F {F}"
print("f1: property holds on this input")
