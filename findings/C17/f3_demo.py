"""
C17 / finding 3: Saturation with crossed limits (vmin > vmax, e.g. limits that are variables / time series and cross).
For a value below both limits, v < vmax < vmin, exactly one documented case applies (v < vmin), so the documented
value is vmin, and the symbolic derivative rules agree with that (d/dvmin = 1, d/dvmax = 0, d/dv = 0). The numerical
implementation min(max(v, vmin), vmax) returns vmax instead. Value and Jacobian of the same equation therefore
contradict each other: J says the residual moves 1:1 with vmin and not with vmax, F does the opposite.
Exits 0 if value and derivatives follow the documented cases, non-zero otherwise.
"""
import os
import sys

ROOT = os.environ.get('SOLVERZ_ROOT', '/tmp/pw_C17')
sys.path.insert(0, ROOT)
import Solverz

assert Solverz.__file__.startswith(ROOT), f"Solverz imported from {Solverz.__file__}, not from {ROOT}"

import io
import contextlib
import warnings

warnings.simplefilter("ignore")
import numpy as np
from Solverz import Model, Var, Eqn, Saturation, made_numerical
import Solverz.num_api.custom_function as SolCF

failures = []

# the numerical implementation itself, compiled and interpreted
v = np.array([0.0, 0.5, 1.0, 3.0])
vmin, vmax = 2.0, 1.0
#   v = 0, 0.5, 1.0 : only "v < vmin" applies                     -> vmin
#   v = 3.0         : only "v > vmax" applies                     -> vmax
#   (values with vmax < v < vmin satisfy two cases and are left out)
want = np.array([2.0, 2.0, 2.0, 1.0])
for label, f in (('numba', SolCF.Saturation), ('python', SolCF.Saturation.py_func)):
    got = f(v, vmin, vmax)
    if not np.array_equal(got, want):
        failures.append(f"SolCF.Saturation[{label}](v={v.tolist()}, vmin={vmin}, vmax={vmax}): "
                        f"expected {want.tolist()}, actual {got.tolist()}")

# a model: value against the documented cases, Jacobian against the difference quotient of the same F_
m = Model()
m.v = Var('v', [0.0, 0.5])
m.lo = Var('lo', [2.0])
m.hi = Var('hi', [1.0])
m.z = Var('z', [0.0, 0.0])
m.E = Eqn('E', Saturation(m.v, m.lo, m.hi) - m.z)
m.Ev = Eqn('Ev', m.v * 1.0)
m.Elo = Eqn('Elo', m.lo * 1.0)
m.Ehi = Eqn('Ehi', m.hi * 1.0)
with contextlib.redirect_stdout(io.StringIO()):
    eqs, y0 = m.create_instance()
    mdl = made_numerical(eqs, y0, sparse=False)
y = y0.array.copy()
rows = eqs.a['E']
F = mdl.F(y, mdl.p)[rows]
if not np.array_equal(F, np.array([2.0, 2.0])):
    failures.append(f"F_: Saturation(v=[0, 0.5], vmin=2, vmax=1): expected [2.0, 2.0] (vmin), actual {F.tolist()}")
J = np.asarray(mdl.J(y, mdl.p))[rows, :]
h = 1e-6
Jfd = np.zeros_like(J)
for j in range(y.size):
    d = np.zeros(y.size)
    d[j] = h
    Jfd[:, j] = (mdl.F(y + d, mdl.p)[rows] - mdl.F(y - d, mdl.p)[rows]) / (2 * h)
for name in ('v', 'lo', 'hi'):
    cols = y0.a[name]
    if not np.allclose(J[:, cols], Jfd[:, cols], atol=1e-6):
        failures.append(f"J_ block dE/d{name} = {J[:, cols].tolist()} but the difference quotient of F_ is "
                        f"{np.round(Jfd[:, cols], 6).tolist()} (v < vmax < vmin, inside an open piece)")

assert not failures, "Saturation with vmin > vmax:\n" + "\n".join(failures)
print('ok')
