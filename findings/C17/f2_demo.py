"""
C17 / finding 2: numeric literal arguments of the piecewise functions still lose digits on two paths that the
round-trip printing of 53-bit Floats (SolverzCodePrinter._print_Float) does not cover. In both cases the threshold that
the piecewise function compares against is not the number that was passed in, and arguments next to it silently get
the value / derivative of the wrong piece.

  (a) generated F_/J_ code (inline, module and numba alike): a literal that is not a 53-bit float -- np.float32,
      np.float16, a sympy Float of lower precision -- is printed with its own few digits.
      np.float32(0.1) is the real number 0.10000000149011612; the generated code compares against 0.1.
  (b) interpreted evaluation Eqn.NUM_EQN (sympy.lambdify in Solverz/equation/eqn.py), which is behind
      Var(..., init=expr) of Model, AE.g(y), DAE.f/g(y), Equations.eval and Eqn.eval: every Float is still printed with
      15 digits, 0.1 + 0.2 = 0.30000000000000004 becomes 0.3.

Exits 0 if all values follow the documented piecewise definitions, non-zero otherwise.
"""
import os
import sys

ROOT = os.environ.get('SOLVERZ_ROOT', '/tmp/pw_C17')
sys.path.insert(0, ROOT)
import Solverz

assert Solverz.__file__.startswith(ROOT), f"Solverz imported from {Solverz.__file__}, not from {ROOT}"

import io
import contextlib
import warnings

warnings.simplefilter("ignore")
import numpy as np
from Solverz import Model, Var, Vars, Eqn, heaviside, Min, Saturation, made_numerical

failures = []

# ---------------------------------------------------------------- (a) float32 literal in the generated code
c32 = np.float32(0.1)
c = float(c32)  # 0.10000000149011612, exactly the value of the float32 number
assert c > 0.1

m = Model()
m.x = Var('x', [0.0])
m.z = Var('z', [0.0, 0.0, 0.0])
m.E1 = Eqn('E1', heaviside(m.x - c32) - m.z[0])
m.E2 = Eqn('E2', Min(m.x, c32) - m.z[1])
m.E3 = Eqn('E3', Saturation(m.x, c32, 1) - m.z[2])
m.E4 = Eqn('E4', m.x * 1.0)
with contextlib.redirect_stdout(io.StringIO()):
    eqs, y0 = m.create_instance()
    mdl, code = made_numerical(eqs, y0, sparse=True, output_code=True)
print(code['F'])


def F_at(x):
    y = np.zeros(4)
    y[y0.a['x']] = x
    F = mdl.F(y, mdl.p)
    return F[eqs.a['E1']][0], F[eqs.a['E2']][0], F[eqs.a['E3']][0]


def J_at(x):
    y = np.zeros(4)
    y[y0.a['x']] = x
    J = mdl.J(y, mdl.p).toarray()
    col = y0.a['x'].start
    return J[eqs.a['E1'].start, col], J[eqs.a['E2'].start, col], J[eqs.a['E3'].start, col]


x = 0.100000001  # strictly between 0.1 and c: x < c
assert 0.1 < x < c
h, mn, sat = F_at(x)
dh, dmn, dsat = J_at(x)
for name, got, want in [('heaviside(x - c)', h, 0.0),  # x - c < 0
                        ('Min(x, c)', mn, x),  # x < c: x
                        ('Saturation(x, c, 1)', sat, c),  # x < c: the lower limit
                        ('dMin(x, c)/dx', dmn, 1.0),  # open piece x < c
                        ('dSaturation(x, c, 1)/dx', dsat, 0.0)]:  # open piece x < c
    if got != want:
        failures.append(f"(a) generated code, c=np.float32(0.1)={c!r}: {name} at x={x!r}: "
                        f"expected {want!r}, actual {float(got)!r}")

# ---------------------------------------------------------------- (b) any float literal in the interpreted path
c = 0.1 + 0.2  # 0.30000000000000004
x0 = 0.3  # x0 < c
assert x0 < c

m = Model()
m.x = Var('x', [x0])
# initial values through init= are evaluated by Model.init_var with Eqn.NUM_EQN
m.h = Var('h', init=heaviside(m.x - c))  # x - c < 0  -> 0
m.s = Var('s', init=Saturation(m.x, c, 1))  # x < c      -> c
m.E1 = Eqn('E1', heaviside(m.x - c) - m.h)
m.E2 = Eqn('E2', Saturation(m.x, c, 1) - m.s)
m.E3 = Eqn('E3', m.x - x0)
with contextlib.redirect_stdout(io.StringIO()):
    eqs, y0 = m.create_instance()
    mdl = made_numerical(eqs, y0, sparse=True)

if y0['h'][0] != 0.0:
    failures.append(f"(b) Var h, init=heaviside(x - c) at x={x0!r}, c={c!r}: expected 0.0, actual {float(y0['h'][0])!r}")
if y0['s'][0] != c:
    failures.append(f"(b) Var s, init=Saturation(x, c, 1) at x={x0!r}, c={c!r}: expected {c!r}, "
                    f"actual {float(y0['s'][0])!r}")

# interpreted residual AE.g(y) at the point that satisfies the definitions (h = 0, s = c): must be zero, as the
# generated F_ of the same model is
y = Vars(y0.a, y0.array.copy())
y['h'] = np.array([0.0])
y['s'] = np.array([c])
g = eqs.g(y)
F = mdl.F(y.array, mdl.p)
if not np.all(F == 0):
    failures.append(f"(b) generated F_ at the consistent point: expected zeros, actual {F.tolist()}")
if not np.all(g == 0):
    failures.append(f"(b) interpreted AE.g(y) at x={x0!r}, h=0, s=c={c!r}: expected zeros (generated F_ gives "
                    f"{F.tolist()}), actual {g.tolist()}")

vc = Eqn('e', Min(m.x, c)).eval(np.array([c]))
if vc[0] != c:
    failures.append(f"(b) Eqn.eval of Min(x, c) at x=c={c!r}: expected {c!r}, actual {float(vc[0])!r}")

assert not failures, "numeric literal thresholds of piecewise functions moved:\n" + "\n".join(failures)
print('ok')
