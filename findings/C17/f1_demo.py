"""
C17 / finding 1: the derivative rule of Abs inside a matrix-vector equation (Mat_Mul present) loses the Diag around
Sign(.) as soon as the argument of Abs is not a bare symbol (x - c, c*x, -x, x + 1, ...). The Jacobian that comes out is
silently wrong (a full matrix A@diag(sign(x - c)) is replaced by the *vector* A@sign(x - c) put on the diagonal).
Exits 0 if J equals the derivative of the piecewise definition of Abs, non-zero otherwise.
"""
import os
import sys

ROOT = os.environ.get('SOLVERZ_ROOT', '/tmp/pw_C17')
sys.path.insert(0, ROOT)
import Solverz

assert Solverz.__file__.startswith(ROOT), f"Solverz imported from {Solverz.__file__}, not from {ROOT}"

import io
import warnings
warnings.simplefilter("ignore")
import contextlib
import numpy as np
from Solverz import Model, Var, Param, Eqn, Abs, Mat_Mul, made_numerical

A0 = np.array([[1.0, -2.0, 0.5],
               [0.3, 0.7, -1.1],
               [-0.4, 0.2, 0.9]])
c0 = np.array([0.5, -1.5, 2.0])


def jac(make_rhs, y, sparse):
    m = Model()
    m.x = Var('x', [0.7, -0.3, 0.4])
    m.A = Param('A', A0, dim=2)
    m.c = Param('c', c0)
    m.E = Eqn('E', make_rhs(m))
    with contextlib.redirect_stdout(io.StringIO()):
        eqs, y0 = m.create_instance()
        mdl = made_numerical(eqs, y0, sparse=sparse)
    J = mdl.J(y, mdl.p)
    J = J.toarray() if hasattr(J, 'toarray') else np.asarray(J)
    return J, str(eqs.EQNs['E'].derivatives['x'].RHS)


y = np.array([0.7, -0.3, 0.4])  # x - c = [0.2, 1.2, -1.6]: every component is inside an open piece of Abs
failures = []

# E = A @ Abs(x - c)         dE/dx = A @ diag(sign(x - c))
expected = A0 @ np.diag(np.sign(y - c0))
for sparse in (False, True):
    try:
        J, sym = jac(lambda m: Mat_Mul(m.A, Abs(m.x - m.c)), y, sparse)
    except NotImplementedError as e:
        # the correct derivative is a matrix block, which the sparse inline printer refuses loudly: fine
        print(f"[sparse={sparse}] A@Abs(x-c): loud refusal ({e})")
        continue
    print(f"[sparse={sparse}] A@Abs(x-c): symbolic derivative = {sym}")
    if not np.allclose(J, expected, rtol=0, atol=1e-14):
        failures.append(f"A@Abs(x-c), sparse={sparse}: symbolic derivative {sym}\nexpected J =\n{expected}\nactual J =\n{J}")

# E = A @ x + Abs(c * x)     dE/dx = A + diag(c * sign(c * x))
expected2 = A0 + np.diag(c0 * np.sign(c0 * y))
J2, sym2 = jac(lambda m: Mat_Mul(m.A, m.x) + Abs(m.c * m.x), y, False)
print(f"A@x+Abs(c*x): symbolic derivative = {sym2}")
if not np.allclose(J2, expected2, rtol=0, atol=1e-14):
    failures.append(f"A@x+Abs(c*x): symbolic derivative {sym2}\nexpected J =\n{expected2}\nactual J =\n{J2}")

# control: the bare-symbol case is right
J3, sym3 = jac(lambda m: Mat_Mul(m.A, Abs(m.x)), y, False)
assert np.allclose(J3, A0 @ np.diag(np.sign(y))), "control case A@Abs(x) is wrong as well"

assert not failures, "Abs derivative rule violated in a matrix-vector equation:\n" + "\n\n".join(failures)
print("ok")
