/-
  Driver.lean — line-protocol driver.  `lake env lean --run Driver.lean < requests`
  One request per line (first word selects the model family), one answer per line.
-/
import SolverzModel.Driver.C16
import SolverzModel.Driver.C04
import SolverzModel.Driver.C07
import SolverzModel.Driver.C06
import SolverzModel.Driver.C12
import SolverzModel.Driver.C11
import SolverzModel.Driver.C09
import SolverzModel.Driver.Ode15s
import SolverzModel.Driver.C01
open Solverz Solverz.Drv

structure DState where
  c16 : C16.H := {}

def stepLine (st : DState) (line : String) : DState × String :=
  match words line with
  | "c16" :: ws => let (h, o) := C16.step st.c16 ws; ({ st with c16 := h }, o)
  | "c04" :: ws => (st, C04.step ws)
  | "c07" :: ws => (st, C07.step ws)
  | "c06" :: ws => (st, C06.step ws)
  | "c12" :: ws => (st, C12.step ws)
  | "c11" :: ws => (st, C11.step ws)
  | "c09" :: ws => (st, C09.step ws)
  | "o15" :: ws => (st, Ode15s.step ws)
  | "c01" :: ws => (st, C01.step ws)
  | [] => (st, "")
  | _ => (st, "bad-op")

partial def loop (h : IO.FS.Stream) (st : DState) : IO Unit := do
  let line ← h.getLine
  if line.isEmpty then return ()
  let (st', o) := stepLine st line
  IO.println o
  loop h st'

def main : IO Unit := do loop (← IO.getStdin) {}
