/-
  Core/Mass.lean — model of `DAE.assign_eqn_var_address` (equation sizing / addresses) and of the
  `DAE.M` property (Solverz/equation/equations.py): the COO triplets handed to `csc_array`.

  A declaration is the list of variable sizes (declaration order = `Address` order) and the list
  of equations in declaration order.  Every equation gets the address range
  `[base, base+size)` in *declaration order* (`Equations.add_eqn` appends to `self.a`; the
  f-then-g sizing pass only fills in the lengths).  For an `Ode` the size is
  `max(rhs_size, lhs_size)` with `lhs_size` the number of selected elements of `diff_var`.
-/
import SolverzModel.Core.Vars
namespace Solverz

/-- the `diff_var` of an `Ode` -/
inductive DiffVar where
  | whole (v : Nat)                                   -- `x`
  | idx (v : Nat) (i : Int)                           -- `x[i]`
  | slice (v : Nat) (start stop : Option Int)         -- `x[a:b]`, open ends allowed
  | strided (v : Nat) (start stop : Option Int) (step : Int)   -- `x[a:b:s]`, any step (a zero step is a ValueError)
  | pick (v : Nat) (ks : List Int)                    -- `x[[k₁, k₂, …]]` (numpy fancy indexing of the address array)
deriving Repr, DecidableEq, Inhabited

structure EqDecl where
  /-- `none`: algebraic `Eqn`; `some dv`: `Ode` with that `diff_var` -/
  dv : Option DiffVar
  /-- size of the evaluated right-hand side (1 for a scalar expression) -/
  rhs : Nat
deriving Repr, DecidableEq, Inhabited

structure DaeDecl where
  vars : List Nat
  eqs  : List EqDecl
deriving Repr, Inhabited

/-- start offset of variable `v` in the flat vector -/
def varStart (vars : List Nat) (v : Nat) : Nat := (vars.take v).sum

/-- addresses selected by a `diff_var`: numpy indexing of `var_address.v[name]` (an `arange`).
    * whole: the full range
    * `x[i]`: `v[i : i+1]` — a *slice*, so `i = -1` gives `v[-1:0]`, which is empty
    * `x[a:b]`: the Python slice of the range -/
def DiffVar.cols (vars : List Nat) : DiffVar → Except Err (List Nat)
  | .whole v => match vars[v]? with
      | none => .error .key
      | some n => .ok ((List.range n).map (varStart vars v + ·))
  | .idx v i => match vars[v]? with
      | none => .error .key
      | some n =>
        let se := Heap.sliceBounds n i (i + 1)
        .ok ((List.range (se.2 - se.1)).map (varStart vars v + se.1 + ·))
  | .slice v a b => match vars[v]? with
      | none => .error .key
      | some n =>
        let se := Heap.sliceBounds n (a.getD 0) (b.getD (n : Int))
        .ok ((List.range (se.2 - se.1)).map (varStart vars v + se.1 + ·))
  | .strided v a b step => match vars[v]? with
      | none => .error .key
      | some n =>
        if step = 0 then .error .value
        else
          let sc := stridedBounds n a b step
          .ok ((List.range sc.2).map fun (j : Nat) => varStart vars v + (sc.1 + (j : Int) * step).toNat)
  | .pick v ks => match vars[v]? with
      | none => .error .key
      | some n => do
        let js ← ks.mapM (Heap.normIdx n)
        .ok (js.map (varStart vars v + ·))

/-- an equation after sizing: its size and, for an `Ode`, the column addresses -/
structure REq where
  size : Nat
  cols : Option (List Nat)
deriving Repr, DecidableEq, Inhabited

def EqDecl.resolve (vars : List Nat) (e : EqDecl) : Except Err REq :=
  match e.dv with
  | none => .ok ⟨e.rhs, none⟩
  | some dv => do
    let cols ← dv.cols vars
    .ok ⟨max e.rhs cols.length, some cols⟩

/-- triplets of one `Ode`: rows `base, base+1, …` paired with the columns -/
def odeTriplets : Nat → List Nat → List (Nat × Nat)
  | _, [] => []
  | base, c :: cs => (base, c) :: odeTriplets (base + 1) cs

/-- `row.extend(eqn_address_list); col.extend(var_address_list)` over `f_list`, with the
    length test that raises `ValueError` -/
def assemble : List REq → Nat → Except Err (List (Nat × Nat))
  | [], _ => .ok []
  | e :: es, base => do
    let rest ← assemble es (base + e.size)
    match e.cols with
    | none => .ok rest
    | some cols => if cols.length ≠ e.size then .error .value else .ok (odeTriplets base cols ++ rest)

/-- the `assemble` loop walks `f_list` first to last; the error of the *first* failing Ode in
    declaration order is the one Python raises.  `assemble` above recurses to the tail first;
    both orders give the same result because the only error kind is `value`. -/
def DaeDecl.resolved (d : DaeDecl) : Except Err (List REq) := d.eqs.mapM (EqDecl.resolve d.vars)

def DaeDecl.eqnTotal (rs : List REq) : Nat := (rs.map (·.size)).sum

/-- `DAE.M` as sorted, duplicate-summed COO triplets with the matrix shape -/
def DaeDecl.mass (d : DaeDecl) : Except Err (List (Nat × Nat) × Nat × Nat) := do
  let rs ← d.resolved
  if (rs.filter (·.cols.isSome)).isEmpty then .error .value     -- "No ODE found" / state_num == 0
  else
    let t ← assemble rs 0
    .ok (t, DaeDecl.eqnTotal rs, d.vars.sum)

end Solverz
