/-
  Core/Rosenbrock.lean — Rosenbrock–Wanner schemes as Solverz's `Rodas` uses them.

  A `Scheme` holds the tables in the orientation of the *stage loop* of
  `Solverz/solvers/daesolver/rodas/rodas.py` (row `j` = coefficients of stage `j`):
      alpha[j][l]   = rparam.alpha[l, j]         (the code stores the transpose)
      gt[j][l]      = rparam.gammatilde[l, j]    = Γ_jl / γ  for l < j
      a, g, b, bd, c, d, e, gamma, s, pord as in `Rodas_param`.
  The stage loop
      K_0 = lu⁻¹(F(t, y0) + g_0·dfdt0)
      K_j = lu⁻¹(F(t + a_j·dt, y0 + dt·Σ_l α_jl K_l) + M·Σ_l γ̃_jl K_l + g_j·dfdt0) − Σ_l γ̃_jl K_l
      ynew = y0 + dt·Σ_j b_j K_j ,   lu = M − dt·γ·J
  is the Rosenbrock method with Γ_jl = γ·γ̃_jl (l < j), Γ_jj = γ and β = α + Γ.

  Everything is over an arbitrary field-like type with the operations passed in `Fld`, so the
  same definitions run in `Rat` (theorems, by kernel evaluation) and `Float` (driver).
-/
import SolverzModel.Core.Basic
namespace Solverz

structure Fld (α : Type) where
  add : α → α → α
  sub : α → α → α
  mul : α → α → α
  div : α → α → α
  zero : α
  one : α
  ofNat : Nat → α

def ratFld : Fld Rat := ⟨(· + ·), (· - ·), (· * ·), (· / ·), 0, 1, fun n => (n : Rat)⟩
def floatFld : Fld Float := ⟨(· + ·), (· - ·), (· * ·), (· / ·), 0.0, 1.0, fun n => n.toFloat⟩

structure Scheme (α : Type) where
  s : Nat
  pord : Nat
  gamma : α
  alpha : List (List α)
  gt : List (List α)
  a : List α
  g : List α
  b : List α
  bd : List α
  c : List α
  d : List α
  e : List α

namespace Fld
variable {α : Type} (F : Fld α)

def sum (xs : List α) : α := xs.foldl F.add F.zero
def dot (xs ys : List α) : α := F.sum (List.zipWith F.mul xs ys)
def matVec (m : List (List α)) (v : List α) : List α := m.map (F.dot · v)
def vmul (xs ys : List α) : List α := List.zipWith F.mul xs ys
def scale (k : α) (xs : List α) : List α := xs.map (F.mul k)
def vadd (xs ys : List α) : List α := List.zipWith F.add xs ys
def vsub (xs ys : List α) : List α := List.zipWith F.sub xs ys

end Fld

/-- rooted trees, encoded as the list of the root's children (first child / remaining siblings):
    `nil` is the single-vertex tree, `cons c r` adds the child `c` to the tree `r`. -/
inductive Tree where
  | nil : Tree
  | cons (child : Tree) (rest : Tree) : Tree
deriving Repr, Inhabited, DecidableEq

namespace Tree

/-- the tree whose root has the given children -/
def node (cs : List Tree) : Tree := cs.foldr Tree.cons Tree.nil

def children : Tree → List Tree
  | .nil => []
  | .cons c r => c :: children r

/-- number of vertices -/
def order : Tree → Nat
  | .nil => 1
  | .cons c r => order c + order r

/-- product of the densities of the children -/
def densKids : Tree → Nat
  | .nil => 1
  | .cons c r => (order c * densKids c) * densKids r

/-- density γ(t) = ρ(t)·Π γ(children) -/
def dens (t : Tree) : Nat := order t * densKids t

def leaf : Tree := .nil

end Tree

namespace Scheme
variable {α : Type} (F : Fld α) (S : Scheme α)

/-- Γ including the diagonal: Γ_jl = γ·γ̃_jl for l < j, Γ_jj = γ, 0 above -/
def Gamma : List (List α) :=
  (List.range S.s).map fun j => (List.range S.s).map fun l =>
    if l < j then F.mul S.gamma ((S.gt.getD j []).getD l F.zero)
    else if l = j then S.gamma else F.zero

/-- β = α + Γ (diagonal included) -/
def beta : List (List α) :=
  List.zipWith (fun ra rg => List.zipWith F.add ra rg) (S.alpha.map (fun r => (List.range S.s).map fun l => r.getD l F.zero)) (S.Gamma F)

def alphaFull : List (List α) := S.alpha.map (fun r => (List.range S.s).map fun l => r.getD l F.zero)

-- elementary weight vector Φ(t) over the stages (Rosenbrock rule: a vertex with exactly one
-- child uses β, a vertex with ≥ 2 children uses α for each child)
mutual
  def phi : Tree → List α
    | .nil => List.replicate S.s F.one
    | .cons c .nil => F.matVec (S.beta F) (phi c)
    | .cons c (.cons c' r) => F.vmul (F.matVec (S.alphaFull F) (phi c)) (phiProd (.cons c' r))
  def phiProd : Tree → List α
    | .nil => List.replicate S.s F.one
    | .cons c r => F.vmul (F.matVec (S.alphaFull F) (phi c)) (phiProd r)
end

/-- Σ_j w_j Φ_j(t) -/
def weight (w : List α) (t : Tree) : α := F.dot w (S.phi F t)

/-- coefficient of τ^k (k = 1..4) in the dense-output weight
    b_j(τ) = τ·(b_j + (τ−1)(c_j + τ(d_j + τ e_j))) -/
def denseCoeff (k : Nat) : List α :=
  match k with
  | 1 => F.vsub S.b S.c
  | 2 => F.vsub S.c S.d
  | 3 => F.vsub S.d S.e
  | 4 => S.e
  | _ => List.replicate S.s F.zero

/-- dense-output weights evaluated at τ, exactly as the code evaluates them -/
def denseW (tau : α) : List α :=
  let inner := F.vadd S.d (F.scale tau S.e)
  let mid := F.vadd S.c (F.scale tau inner)
  F.scale tau (F.vadd S.b (F.scale (F.sub tau F.one) mid))

/-- one step of the stage loop on the scalar linear autonomous problem `m·y' = lam·y`
    (`m ∈ {0,1}`; `dfdt0 = 0`).  Returns the stage values `K` and `ynew`. -/
def stepLinear (m lam dt y0 : α) : List α × α :=
  let lu := F.sub m (F.mul (F.mul dt S.gamma) lam)
  let K := (List.range S.s).foldl (fun (K : List α) j =>
      let sum1 := F.dot (S.alpha.getD j []) K
      let sum2 := F.dot (S.gt.getD j []) K
      let y1 := F.add y0 (F.mul dt sum1)
      let rhs := F.add (F.mul lam y1) (F.mul m sum2)
      K ++ [F.sub (F.div rhs lu) sum2]) []
  (K, F.add y0 (F.dot K (F.scale dt S.b)))

/-- dense output inside the step -/
def denseLinear (K : List α) (dt y0 tau : α) : α :=
  F.add y0 (F.mul (F.mul tau dt) (F.dot K (
    F.vadd S.b (F.scale (F.sub tau F.one) (F.vadd S.c (F.scale tau (F.vadd S.d (F.scale tau S.e))))))))

end Scheme

/-- all rooted trees of each order ≤ 5 (1, 1, 2, 4, 9 trees), as multisets of children -/
def treesOfOrder : Nat → List Tree
  | 1 => [Tree.nil]
  | 2 => [Tree.node [Tree.nil]]
  | 3 => [Tree.node [Tree.nil, Tree.nil], Tree.node [Tree.node [Tree.nil]]]
  | 4 => [ Tree.node [Tree.nil, Tree.nil, Tree.nil],
           Tree.node [Tree.nil, Tree.node [Tree.nil]],
           Tree.node [Tree.node [Tree.nil, Tree.nil]],
           Tree.node [Tree.node [Tree.node [Tree.nil]]] ]
  | 5 => [ Tree.node [Tree.nil, Tree.nil, Tree.nil, Tree.nil],
           Tree.node [Tree.nil, Tree.nil, Tree.node [Tree.nil]],
           Tree.node [Tree.nil, Tree.node [Tree.nil, Tree.nil]],
           Tree.node [Tree.nil, Tree.node [Tree.node [Tree.nil]]],
           Tree.node [Tree.node [Tree.nil], Tree.node [Tree.nil]],
           Tree.node [Tree.node [Tree.nil, Tree.nil, Tree.nil]],
           Tree.node [Tree.node [Tree.nil, Tree.node [Tree.nil]]],
           Tree.node [Tree.node [Tree.node [Tree.nil, Tree.nil]]],
           Tree.node [Tree.node [Tree.node [Tree.node [Tree.nil]]]] ]
  | _ => []

/-- all pairs `cons c r` -/
def consAll (cs rs : List Tree) : List Tree := cs.flatMap fun c => rs.map fun r => Tree.cons c r

/-- *every* tree (as an ordered list of children) with 1 … 5 vertices; children orders that
differ only by a permutation appear separately, which is harmless for the order conditions -/
def plane1 : List Tree := [Tree.nil]
def plane2 : List Tree := consAll plane1 plane1
def plane3 : List Tree := consAll plane1 plane2 ++ consAll plane2 plane1
def plane4 : List Tree := consAll plane1 plane3 ++ consAll plane2 plane2 ++ consAll plane3 plane1
def plane5 : List Tree := consAll plane1 plane4 ++ consAll plane2 plane3 ++ consAll plane3 plane2 ++ consAll plane4 plane1

def planeOfOrder : Nat → List Tree
  | 1 => plane1 | 2 => plane2 | 3 => plane3 | 4 => plane4 | 5 => plane5 | _ => []

def planeUpTo (p : Nat) : List Tree := (List.range (p + 1)).flatMap planeOfOrder

def treesUpTo (p : Nat) : List Tree := (List.range (p + 1)).flatMap treesOfOrder

def ratAbs (x : Rat) : Rat := if x < 0 then -x else x

/-- residual of the order condition for weights `w` on tree `t`: |Σ w_j Φ_j(t) − 1/γ(t)| -/
def Scheme.residual (S : Scheme Rat) (w : List Rat) (t : Tree) : Rat :=
  ratAbs (S.weight ratFld w t - 1 / (t.dens : Rat))

end Solverz
