/-
  Core/DaeTrees.lean — rooted trees of the order theory of index-1 DAEs  y' = f(y, z), 0 = g(y, z)
  (Hairer–Wanner II, VI.3 / VI.4, Roche 1988): vertices are *meagre* (derivatives of y) or *fat* (derivatives of z);
  a tree's order ρ is the number of its meagre vertices; a fat vertex has at least one child and never a single fat
  child.  For a Rosenbrock method with coefficients α, β = α + Γ (diagonal γ included) and ω = β⁻¹:

    Φ(τ_y) = 1
    Φ([t]_y)            = β Φ(t)                      (one child, meagre or fat)
    Φ([t₁ … t_m]_y)     = Π_k (α Φ(t_k))              (m ≥ 2)
    Φ([t]_z)            = Φ(t)                        (one child, necessarily meagre: ω β = I)
    Φ([t₁ … t_m]_z)     = ω Π_k (α Φ(t_k))            (m ≥ 2)
    γ(τ_y) = 1,  γ([…]_y) = ρ · Π γ(children),  γ([…]_z) = Π γ(children)

  and the conditions  Σ_j b_j Φ_j(t) = 1/γ(t)  for every tree of order ≤ p (y-trees: order of the differential
  component; z-trees: order of the algebraic component).
-/
import SolverzModel.Core.Rosenbrock
namespace Solverz

/-- a forest of coloured trees: `cons fat kids rest` is a tree with root colour `fat` and children `kids`, followed by
its siblings `rest`.  A single tree is a forest of length one. -/
inductive DF where
  | nil : DF
  | cons (fat : Bool) (kids : DF) (rest : DF) : DF
deriving Repr, Inhabited, DecidableEq

namespace DF

def tree (fat : Bool) (kids : DF) : DF := .cons fat kids .nil

def append : DF → DF → DF
  | .nil, g => g
  | .cons f k r, g => .cons f k (append r g)

def length : DF → Nat
  | .nil => 0
  | .cons _ _ r => length r + 1

/-- (ρ, γ) of a vertex from the (ρ, γ) of its children -/
def nodeInfo (fat : Bool) (ks : List (Nat × Nat)) : Nat × Nat :=
  let r := (if fat then 0 else 1) + (ks.map (·.1)).sum
  let g := (ks.map (·.2)).foldl (· * ·) 1
  (r, if fat then g else r * g)

/-- (ρ, γ) of every tree of the forest -/
def info : DF → List (Nat × Nat)
  | .nil => []
  | .cons fat kids rest => nodeInfo fat (info kids) :: info rest

/-- total order of the forest -/
def rho (f : DF) : Nat := ((info f).map (·.1)).sum

/-- structural admissibility: every fat vertex has a child, and never a single fat child -/
def admissible : DF → Bool
  | .nil => true
  | .cons fat kids rest =>
    admissible kids && admissible rest &&
      (if fat then (match kids with
                    | .nil => false
                    | .cons f _ .nil => !f
                    | _ => true) else true)

end DF

namespace Scheme
variable {α : Type} (F : Fld α) (S : Scheme α)

/-- solve `β x = v` for the lower-triangular β with diagonal γ (this is `ω v`) by forward substitution -/
def solveBeta (v : List α) : List α :=
  let beta := S.beta F
  (List.range S.s).foldl (fun (xs : List α) i =>
    let row := beta.getD i []
    let acc := (List.range i).foldl (fun a k => F.add a (F.mul (row.getD k F.zero) (xs.getD k F.zero))) F.zero
    xs ++ [F.div (F.sub (v.getD i F.zero) acc) S.gamma]) []

/-- Φ of a vertex from the Φ of its children -/
def phiNode (fat : Bool) (ps : List (List α)) : List α :=
  let ones := List.replicate S.s F.one
  let prod := ps.foldl (fun acc p => F.vmul acc (F.matVec (S.alphaFull F) p)) ones
  match fat, ps with
  | false, [] => ones
  | false, [p] => F.matVec (S.beta F) p
  | false, _ => prod
  | true, [p] => p
  | true, _ => S.solveBeta F prod

/-- Φ of every tree of a forest -/
def phiForest : DF → List (List α)
  | .nil => []
  | .cons fat kids rest => S.phiNode F fat (phiForest kids) :: phiForest rest

end Scheme

/-! ### enumeration by order -/

namespace DF

/-- all multisets over the pool (each tree with its order) with total order `m`, written as forests in pool order;
`minLen` trees at least are required (counted down) -/
def multis : List (Nat × DF) → Nat → List (DF × Nat)
  | [], m => if m = 0 then [(.nil, 0)] else []
  | (r, t) :: pool, m =>
    -- c copies of t, c = 0 .. m / r  (r ≥ 1)
    (List.range (if r = 0 then 1 else m / r + 1)).flatMap fun c =>
      (multis pool (m - c * r)).map fun (f, n) => ((List.range c).foldl (fun acc _ => append t acc) f, n + c)

structure Level where
  ys : List DF        -- meagre-rooted trees of this order (as singleton forests)
  zs : List DF        -- fat-rooted trees of this order
  fs : List DF        -- forests of this total order

/-- levels 0 .. n: trees and forests by order -/
def levels : Nat → List Level
  | 0 => [⟨[], [], [.nil]⟩]
  | n + 1 =>
    let prev := levels n                      -- levels 0 .. n
    let m := n + 1
    let fPrev := (prev.getD n ⟨[], [], []⟩).fs
    let ys := fPrev.map (tree false)
    -- pool of all trees of order 1 .. n with their orders
    let pool : List (Nat × DF) := (List.range m).flatMap fun k =>
      let L := prev.getD k ⟨[], [], []⟩
      (L.ys ++ L.zs).map fun t => (k, t)
    let f2 := ((multis pool m).filter fun (_, cnt) => cnt ≥ 2).map (·.1)
    let zs := f2.map (tree true) ++ ys.map (fun t => tree true t)
    prev ++ [⟨ys, zs, f2 ++ ys ++ zs⟩]

/-- structural equality as a Bool (cheap for the kernel to evaluate) -/
def eqb : DF → DF → Bool
  | .nil, .nil => true
  | .cons a k r, .cons b k' r' => (a == b) && eqb k k' && eqb r r'
  | _, _ => false

/-- no tree occurs twice -/
def distinct : List DF → Bool
  | [] => true
  | t :: ts => !(ts.any (eqb t)) && distinct ts

/-- every tree of level k has order k (levels counted from `k`) -/
def levelsOK : List Level → Nat → Bool
  | [], _ => true
  | L :: Ls, k => L.ys.all (fun t => rho t == k) && L.zs.all (fun t => rho t == k) && levelsOK Ls (k + 1)

def yTreesUpTo (p : Nat) : List DF := (levels p).flatMap (·.ys)
def zTreesUpTo (p : Nat) : List DF := (levels p).flatMap (·.zs)

end DF

namespace Scheme

/-- |Σ_j w_j Φ_j(t) − 1/γ(t)| for the first tree of the forest `t` -/
def daeResidual (S : Scheme Rat) (w : List Rat) (t : DF) : Rat :=
  let phi := (S.phiForest ratFld t).headD []
  let g := ((DF.info t).headD (0, 1)).2
  let d := ratFld.dot w phi - 1 / (g : Rat)
  if d < 0 then -d else d

end Scheme
end Solverz
