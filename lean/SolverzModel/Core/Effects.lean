/-
  Core/Effects.lean — effect summaries of solver functions (filled in by the T5 translator) and the
  abstract model of a solver call on shared caller-visible state.
-/
import SolverzModel.Core.Basic
namespace Solverz

structure Effects where
  name : String
  /-- attribute stores on a parameter object (e.g. `opt.hmax = …`) -/
  optWrites : List String
  /-- stores into / in-place operations on a parameter or an alias of one -/
  argStores : List String
  /-- `global`, stores into module-level objects, memoising decorators -/
  globalState : List String
deriving Repr, DecidableEq

def Effects.isPure (e : Effects) : Bool := e.optWrites.isEmpty && e.argStores.isEmpty && e.globalState.isEmpty

/-- a solver call: reads the shared state `σ` (the caller's Opt / model / Vars objects, module
globals) and its own input, returns a result and the shared state afterwards -/
abbrev Call (σ In Out : Type) := σ → In → Out × σ

/-- run a history of calls on one shared state, collecting the results -/
def runHistory {σ In Out} (call : Call σ In Out) : σ → List In → List Out × σ
  | s, [] => ([], s)
  | s, i :: is =>
    let (o, s') := call s i
    let (os, s'') := runHistory call s' is
    (o :: os, s'')

end Solverz
