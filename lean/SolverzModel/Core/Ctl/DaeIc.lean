/-
  Core/Ctl/DaeIc.lean — model of `DaeIc` (Solverz/solvers/daesolver/daeic.py): damped Newton
  iteration on the algebraic variables only, three exits, otherwise `ValueError("Need Better y0")`.

  The residual evaluation and the linear solves are oracles:
    algRes y        = ‖F(t0, y)[AlgEqn]‖₂
    dir y           = solve(J(y)[AlgEqn, AlgVar], −F(y)[AlgEqn])      (Newton direction)
    dirAt y         = solve(J(y)[AlgEqn, AlgVar],  F(y)[AlgEqn])      (only its scaled norm is used)
    relNorm d base  = ‖d[nz] / base[nz]‖₂ with nz = |base| > spacing(t0)
  The state vector is a list; only the positions `algVar` are ever written.
-/
import SolverzModel.Core.Ctl.FixedStep
namespace Solverz

structure IcOracle (α : Type) where
  algRes : List α → α
  dir : List α → List α
  dirAt : List α → List α
  relNorm : List α → List α → α

/-- `ynew[AlgVar] = vals` -/
def scatter {α} (y : List α) : List Nat → List α → List α
  | i :: is, v :: vs => scatter (setAt y i v) is vs
  | _, _ => y

def gather {α} (y : List α) (zero : α) (idx : List Nat) : List α := idx.map (y.getD · zero)

inductive IcExit where | A | B | C
deriving Repr, DecidableEq

/-- the `for probe in range(3)` loop: returns (exit B?, ynew, resnew, Fnew-norm) -/
def icProbe {α} (O : OFld α) (or : IcOracle α) (algVar : List Nat) (rtolB : α) (y : List α) (dY base : List α) (res : α) :
    Nat → α → (Bool × List α × α × α) → (Bool × List α × α × α)
  | 0, _, acc => acc
  | k + 1, lam, _ =>
    let ynew := scatter y algVar (List.zipWith (fun b d => O.add b (O.mul lam d)) base dY)
    let fnew := or.algRes ynew
    if O.le fnew rtolB then (true, ynew, O.zero, fnew)
    else
      let resnew := or.relNorm (or.dirAt ynew) base
      if O.lt resnew (O.mul (O.div (O.ofNat 9) (O.ofNat 10)) res) then (false, ynew, resnew, fnew)
      else icProbe O or algVar rtolB y dY base res k (O.mul (O.div O.one (O.ofNat 2)) lam) (false, ynew, resnew, fnew)

/-- the `for n in range(15)` loop -/
def icLoop {α} (O : OFld α) (or : IcOracle α) (algVar : List Nat) (tolA rtolB rtolC : α) :
    Nat → List α → Except Err (List α × IcExit)
  | 0, _ => .error .value
  | n + 1, y =>
    let dY := or.dir y
    let base := gather y O.zero algVar
    let res := or.relNorm dY base
    let (b, ynew, resnew, fnew) := icProbe O or algVar rtolB y dY base res 3 O.one (false, y, O.zero, O.zero)
    if b then .ok (ynew, .B)
    else if O.le resnew rtolC && O.le fnew tolA then .ok (ynew, .C)
    else icLoop O or algVar tolA rtolB rtolC n ynew

/-- `DaeIc(dae, y0, t0, rtol)` with `tolA = 1e-6`, `rtolB = 1e-5·rtol`, `rtolC = 1e-3·rtol` -/
def daeIc {α} (O : OFld α) (or : IcOracle α) (algVar : List Nat) (tolA rtolB rtolC : α) (y0 : List α) :
    Except Err (List α × IcExit) :=
  if O.le (or.algRes y0) tolA then .ok (y0, .A)
  else icLoop O or algVar tolA rtolB rtolC 15 y0

end Solverz
