/-
  Core/Ctl/Rodas.lean — the controller of `Rodas` (Solverz/solvers/daesolver/rodas/rodas.py):
  step acceptance, step-size selection, termination, output bookkeeping (two-node and dense
  `tspan`), event detection / bisection / truncation / terminal handling.

  Not modelled (oracles): the stage computations.  Per *attempt* the model consumes one script entry
      err   — the processed error estimate (after the NaN/inf → 1e6 rule and `max(err, 1e-6)`)
      fac0  — `f_savety / err ** (1/pord)`  (the floating-point power is taken from the run)
  Event functions are functions of the time along the step.  By default `g_i(τ) = τ − c_i` (evaluated with the
  same subtraction the user function performs), with a direction and a terminal flag per component; with
  `gfun := some g` component i is the arbitrary function `g i` (what `event(t, y_dense(t))` is along one step —
  the theorems of Properties/C10.lean on the search quantify over every such function; the driver instantiates it
  with nonlinear functions of time that the harness also hands to the real `Rodas`).
-/
import SolverzModel.Core.Ctl.FixedStep
namespace Solverz

structure RodasOpt (α : Type) where
  fac1 : α
  fac2 : α
  facmax : α
  hinit : Option α
  hmax : Option α
  fixH : Bool
  eventDuration : α

structure EventSpec (α : Type) where
  c : α
  direction : Int
  terminal : Bool

structure RodasEnv (α : Type) where
  O : OFld α
  spacing : α → α
  uround : α
  tiny : α                  -- 1e-6 (initial step factor)
  half : α
  c128 : α
  tspan : List α
  opt : RodasOpt α
  events : List (EventSpec α)
  fixSlack : α := O.ofNat 1  -- `1 + 1e-8` in the code: a fixed-step run takes the remainder as its last step when t + h·slack ≥ tend
  gfun : Option (Nat → α → α) := none   -- general event functions (component → time → value); `none`: g_i(τ) = τ − c_i

structure RodasState (α : Type) where
  t : α
  dt : α
  told : α
  reject : Nat
  facmax : α
  T : List α                -- reversed
  inext : Nat
  tnext : α
  stop : Bool
  tevent : Option α
  value : List α            -- event values at the end of the last full step
  vref : List α             -- `valueold`: per component the last *nonzero* value at a step end (what the next step compares with)
  te : List α               -- reversed
  ie : List Nat             -- reversed
  nstep : Nat
  nreject : Nat
  failed : Bool
  done : Bool
  attempts : Nat

namespace RodasEnv
variable {α : Type} (E : RodasEnv α)

def t0 : α := E.tspan.headD E.O.zero
def tend : α := E.tspan.getLastD E.O.zero
def dense : Bool := E.tspan.length > 2
def hmin : α := E.O.mul (E.O.ofNat 16) (E.spacing E.t0)
def hmaxV : α := match E.opt.hmax with | some h => h | none => E.O.abs (E.O.sub E.tend E.t0)
def omin (a b : α) : α := if E.O.lt b a then b else a          -- np.minimum / min
def omax (a b : α) : α := if E.O.lt a b then b else a
def evalEvents (τ : α) : List α :=
  match E.gfun with
  | none => E.events.map fun e => E.O.sub τ e.c
  | some g => (List.range E.events.length).map fun i => g i τ

def init : RodasState α :=
  let dt0 := match E.opt.hinit with | some h => h | none => E.O.mul E.tiny (E.O.sub E.tend E.t0)
  let dt1 := E.omin (E.omax dt0 E.hmin) E.hmaxV
  { t := E.t0, dt := dt1, told := E.t0, reject := 0, facmax := E.opt.facmax, T := [E.t0],
    inext := 1, tnext := if E.dense then E.tspan.getD 1 E.O.zero else E.O.zero,
    stop := false, tevent := none, value := E.evalEvents E.t0, vref := E.evalEvents E.t0, te := [], ie := [],
    nstep := 0, nreject := 0, failed := false, done := false, attempts := 0 }

/-- `np.sign(a) * np.sign(b) < 0`: strictly opposite signs (products of small values may underflow) -/
def opp (a b : α) : Bool :=
  (E.O.lt E.O.zero a && E.O.lt b E.O.zero) || (E.O.lt a E.O.zero && E.O.lt E.O.zero b)

/-- `a == 0` -/
def isZero (a : α) : Bool := E.O.le a E.O.zero && E.O.le E.O.zero a

/-- one pass of the bisection body: (bracket changed?, tL, tR, tevent, v0, v1) -/
def bisectStep (i : Nat) (st : α × α × α × α × α) : Bool × (α × α × α × α × α) :=
  let (tL, tR, tev, v0, v1) := st
  let vi := (E.evalEvents tev).getD i E.O.zero
  if E.opp v1 vi then (true, (tev, tR, E.O.mul E.half (E.O.add tev tR), vi, v1))
  else if E.opp v0 vi then (true, (tL, tev, E.O.mul E.half (E.O.add tL tev), v0, vi))
  else (false, (tL, tR, tev, v0, v1))

/-- the bisection `while iterate > 0` loop for component `i`; returns tevent and the last point at
which the event function was evaluated (the `value` variable is left holding that evaluation) -/
def bisect (i : Nat) (tol : α) : Nat → (α × α × α × α × α) → Option α → α × Option α
  | 0, st, le => (st.2.2.1, le)
  | fuel + 1, st, _ =>
    let r := E.bisectStep i st
    let cont := r.1 && !(E.O.lt (E.O.sub r.2.2.1 r.2.1) tol)
    if cont then bisect i tol fuel r.2 (some st.2.2.1) else (r.2.2.2.1, some st.2.2.1)

/-- direction filter of component `i` (`detect` in the code) -/
def detect (vo vn : List α) (i : Nat) : Bool :=
  let v0 := vo.getD i E.O.zero
  let v1 := vn.getD i E.O.zero
  let dir := (E.events.getD i ⟨E.O.zero, 0, false⟩).direction
  !((dir < 0 && E.O.le v0 v1) || (dir > 0 && E.O.le v1 v0))

def isTerminal (i : Nat) : Bool := (E.events.getD i ⟨E.O.zero, 0, false⟩).terminal

/-- secant start and bisection on the (possibly already truncated) step `[s.told, s.t]`;
returns the event time and the last point at which the event function was evaluated -/
def locate (dt : α) (s : RodasState α) (v0 v1 : α) (i : Nat) : α × Option α :=
  let tol := E.omin (E.O.mul E.c128 (E.omax (E.O.abs (E.spacing s.told)) (E.O.abs (E.spacing s.t)))) (E.O.abs (E.O.sub s.t s.told))
  if !(E.O.le v1 v0 && E.O.le v0 v1) then       -- `v1 != v0` (was `abs(v1 - v0) > uround`: small-valued event functions were not searched)
    let guess := E.O.sub s.told (E.O.div (E.O.mul v0 dt) (E.O.sub v1 v0))
    E.bisect i tol 100 (s.told, s.t, guess, v0, v1) none
  else (s.t, none)

/-- `value = value_save; break` on an event closer than `event_duration`: the rest is abandoned; `value` is the one of the
step end again (`lastEval` is where the bisection evaluated last: until the repair of D25 `value` was left there) -/
def abandon (_E : RodasEnv α) (s : RodasState α) (_lastEval : Option α) : RodasState α := s

/-- the step is truncated at the event, the event is recorded -/
def register (s : RodasState α) (tevent : α) (i : Nat) : RodasState α :=
  { s with t := tevent, tevent := some tevent, te := tevent :: s.te, ie := i :: s.ie }

/-- terminal event: clamp the next dense node, stop -/
def terminate (s : RodasState α) (tevent : α) : RodasState α :=
  { s with tnext := if E.dense && E.O.le tevent s.tnext then tevent else s.tnext, stop := true }

/-- `abs(tevent - told) < event_duration and (told == t0 or told == te[nevent])`: an event this close to the start of the run
or to the event just located is that same event -/
def tooClose (s : RodasState α) (tevent : α) : Bool :=
  E.O.lt (E.O.abs (E.O.sub tevent s.told)) E.opt.eventDuration &&
    ((E.O.le s.told E.t0 && E.O.le E.t0 s.told) ||
      (match s.te.head? with | some te => E.O.le s.told te && E.O.le te s.told | none => false))

/-- the `for i in ff` loop of the event block; `dt` is the step just taken -/
def eventLoop (dt : α) (valueold valueNew : List α) : List Nat → RodasState α → RodasState α
  | [], s => s
  | i :: rest, s =>
    if !E.detect valueold valueNew i then eventLoop dt valueold valueNew rest s
    else
      let r := E.locate dt s (valueold.getD i E.O.zero) (valueNew.getD i E.O.zero) i
      if E.tooClose s r.1 then E.abandon s r.2
      else if E.isTerminal i then E.terminate (register s r.1 i) r.1
      else eventLoop dt valueold valueNew rest (register s r.1 i)

/-- `haveEvent and stop and tnext >= tevent` -/
def hitEvent (s : RodasState α) (tn : α) : Bool :=
  s.stop && (match s.tevent with | some te => E.O.le te tn | none => false)

/-- the node after `tnext`: the next requested one (clamped to a terminal event), or the sentinel `tend + dt` -/
def nextNode (dt : α) (s : RodasState α) : α :=
  if s.inext + 1 ≤ E.tspan.length - 1 then
    let tn := E.tspan.getD (s.inext + 1) E.O.zero
    if E.hitEvent s tn then s.tevent.getD tn else tn
  else E.O.add E.tend dt

/-- the dense-output `while t >= tnext > told` loop -/
def emitDense (dt : α) : Nat → RodasState α → RodasState α
  | 0, s => s
  | fuel + 1, s =>
    if E.O.le s.tnext s.t && E.O.lt s.told s.tnext then
      if E.hitEvent s s.tnext then { s with T := s.tnext :: s.T }
      else emitDense dt fuel { s with T := s.tnext :: s.T, inext := s.inext + 1, tnext := E.nextNode dt s }
    else s

/-- is the remaining interval covered by the proposed step (`t + dt >= tend`)? -/
def stretch (s : RodasState α) : Bool := E.O.le E.tend (E.O.add s.t s.dt)

/-- the adaptive proposal, stretched / halved near the end -/
def adaptDt (s : RodasState α) : α :=
  if E.stretch s then E.O.sub E.tend s.t else E.omin s.dt (E.O.mul E.half (E.O.sub E.tend s.t))

/-- fixed-step mode: `t + hinit * (1 + 1e-8) >= tend` — the remainder is the last step -/
def fixLast (s : RodasState α) : Bool :=
  E.O.le E.tend (E.O.add s.t (E.O.mul (E.opt.hinit.getD (E.adaptDt s)) E.fixSlack))

/-- the step actually attempted -/
def stepDt (s : RodasState α) : α :=
  if E.opt.fixH then (if E.fixLast s then E.O.sub E.tend s.t else E.opt.hinit.getD (E.adaptDt s))
  else E.adaptDt s

/-- `last_step`: the end point is assigned, not computed -/
def isLast (s : RodasState α) : Bool := if E.opt.fixH then E.fixLast s else E.stretch s

/-- the proposal for the next step size -/
def dtNew (fac0 : α) (s : RodasState α) : α :=
  if E.opt.fixH then E.stepDt s else E.O.mul (E.stepDt s) (E.omin s.facmax (E.omax E.opt.fac1 fac0))

/-- bookkeeping of an accepted step, in four stages -/
def advance (s : RodasState α) : RodasState α :=
  { s with reject := 0, told := s.t, t := if E.isLast s then E.tend else E.O.add s.t (E.stepDt s), nstep := s.nstep + 1 }

/-- `valueold = np.where(value == 0, valueold, value)`: a component that is exactly zero at a step end keeps its last nonzero
value as the reference for the next comparison -/
def refValues (s1 : RodasState α) : List α :=
  List.zipWith (fun v r => if E.isZero v then r else v) s1.value s1.vref

/-- `ff`: the components whose value at the end of the step has the sign opposite to the reference -/
def crossings (s1 : RodasState α) : List Nat :=
  (List.range E.events.length).filter fun i =>
    E.opp ((E.evalEvents s1.t).getD i E.O.zero) ((E.refValues s1).getD i E.O.zero)

def doEvents (dt : α) (s1 : RodasState α) : RodasState α :=
  if E.events.isEmpty then s1
  else
    let vref := E.refValues s1
    let valueNew := E.evalEvents s1.t
    E.eventLoop dt vref valueNew (E.crossings s1) { s1 with value := valueNew, vref := vref }

def output (dt : α) (s2 : RodasState α) : RodasState α :=
  if E.dense then E.emitDense dt (E.tspan.length + 1) s2 else { s2 with T := s2.t :: s2.T }

def finish (s3 : RodasState α) : RodasState α :=
  let done1 := (s3.T.length - 1) == 10000 && !E.dense
  -- `t >= tend or (opt.fix_h and abs(tend - t) < uround) or stop`
  let done2 := E.O.le E.tend s3.t || (E.opt.fixH && E.O.lt (E.O.abs (E.O.sub E.tend s3.t)) E.uround) || s3.stop
  { s3 with done := done1 || done2, facmax := E.opt.fac2 }

def accept (s : RodasState α) : RodasState α :=
  E.finish (E.output (E.stepDt s) (E.doEvents (E.stepDt s) (E.advance s)))

def rejectStep (s : RodasState α) : RodasState α :=
  { s with reject := s.reject + 1, nreject := s.nreject + 1, facmax := E.O.one }

/-- one attempt of the main loop with script entry `(err, fac0)` -/
def attempt (err fac0 : α) (s : RodasState α) : RodasState α :=
  let O := E.O
  if O.lt (O.abs s.dt) E.uround then { s with failed := true, done := true }
  else if s.reject > 100 then { s with failed := true, done := true }
  else
    let err := if E.opt.fixH then O.one else err
    let dtnew := E.dtNew fac0 s
    let s0 := { s with attempts := s.attempts + 1 }
    let s' := if O.le err O.one then E.accept s0 else E.rejectStep s0
    { s' with dt := E.omin E.hmaxV (E.omax E.hmin dtnew) }

/-- run on a script of `(err, fac0)` pairs; stops when done or when the script is exhausted -/
def run : List (α × α) → RodasState α → RodasState α
  | [], s => s
  | (e, f) :: rest, s => if s.done then s else run rest (E.attempt e f s)

end RodasEnv
end Solverz
