/-
  Core/Ctl/Ode15s.lean — the step-size / order / output controller of `ode15s`
  (Solverz/solvers/daesolver/ode15s/ode15s.py): clamping of the step, the `at_hmin` rule, the stretch to the end
  point, the retries of one step (Newton too slow, error test failed, order reduction on the first failure), the
  proposals after a success (order selection), two-node and dense output bookkeeping.

  Not modelled (oracles, one record per loop iteration taken from the run): the Newton iteration, the error norms and
  the floating-point powers.  Per retry the record says what happened (`Inner`), per success it carries the three
  `temp` values of the order selection.
-/
import SolverzModel.Core.Ctl.FixedStep
namespace Solverz

structure OdeEnv (α : Type) where
  O : OFld α
  spacing : α → α
  tspan : List α
  hmax : α
  c11 : α                   -- 1.1
  c03 : α                   -- 0.3
  c05 : α                   -- 0.5
  c10 : α                   -- 10
  c01 : α                   -- 0.1
  c16 : α                   -- 16
  maxk : Nat

/-- what one pass of the "advance one step" loop did before the step was finally accepted -/
inductive Inner (α : Type) where
  /-- Newton too slow with a stale Jacobian: the Jacobian is refreshed, the same step is retried -/
  | slowJ
  /-- Newton too slow with a current Jacobian: the step is cut to `max(0.3 absh, hmin)` -/
  | slowShrink
  /-- error test failed; `f = max(0.1, 0.833 (rtol/err)^(1/(k+1)))`, `g = max(0.1, 0.769 (rtol/errkm1)^(1/k))` for `k > 1` -/
  | errFail (f : α) (g : Option α)

/-- the quantities `1.2 (err/rtol)^(1/(k+1))`, `1.3 (errkm1/rtol)^(1/k)`, `1.4 (errkp1/rtol)^(1/(k+2))` -/
structure Temps (α : Type) where
  temp0 : α
  tempm1 : Option α
  tempp1 : Option α

structure StepRec (α : Type) where
  inner : List (Inner α)
  temps : Temps α

structure OdeState (α : Type) where
  t : α
  absh : α
  abshlast : α
  k : Nat
  klast : Nat
  nconhk : Nat
  done : Bool
  atHmin : Bool
  failed : Bool
  T : List α                -- reversed
  inext : Nat
  tnext : α
  nstep : Nat

/-- the working variables of the retry loop -/
structure Work (α : Type) where
  absh : α
  abshlast : α
  dt : α
  k : Nat
  nconhk : Nat
  done : Bool
  nofailed : Bool
  failed : Bool
  exit : Bool

namespace OdeEnv
variable {α : Type} (E : OdeEnv α)

def t0 : α := E.tspan.headD E.O.zero
def tend : α := E.tspan.getLastD E.O.zero
def dense : Bool := E.tspan.length > 2
def omin (a b : α) : α := if E.O.lt b a then b else a          -- min(a, b) / np.minimum
def omax (a b : α) : α := if E.O.lt a b then b else a          -- max(a, b) / np.maximum
def oeq (a b : α) : Bool := E.O.le a b && E.O.le b a
def hminAt (t : α) : α := E.O.mul E.c16 (E.spacing t)

def init (absh0 : α) : OdeState α :=
  { t := E.t0, absh := absh0, abshlast := absh0, k := 1, klast := 1, nconhk := 0, done := false, atHmin := false,
    failed := false, T := [E.t0], inext := 1, tnext := if E.dense then E.tspan.getD 1 E.O.zero else E.O.zero, nstep := 0 }

/-- `absh = min(hmax, max(hmin, absh))` and the `at_hmin` rule -/
def clampAbsh (s : OdeState α) : α × Bool :=
  let hmin := E.hminAt s.t
  let a := E.omin E.hmax (E.omax hmin s.absh)
  if E.oeq a hmin then (if s.atHmin then s.abshlast else a, true) else (a, false)

/-- "stretch the step if within 10% of tfinal − t, but never beyond the maximum step" -/
def stretches (s : OdeState α) (absh : α) : Bool :=
  let rem := E.O.abs (E.O.sub E.tend s.t)
  E.O.le rem (E.O.mul E.c11 absh) && E.O.le rem E.hmax

/-- the working variables at the start of the retry loop -/
def start (s : OdeState α) : Work α :=
  let ca := E.clampAbsh s
  let st := E.stretches s ca.1
  let dt := if st then E.O.sub E.tend s.t else ca.1
  let absh := if st then E.O.abs dt else ca.1
  { absh := absh, abshlast := s.abshlast, dt := dt, k := s.k,
    nconhk := if !(E.oeq absh s.abshlast) || s.k != s.klast then 0 else s.nconhk,
    done := st, nofailed := true, failed := false, exit := false }

/-- the first failed error test of a step: optimal step at the current order, possibly a lower order -/
def firstFailure (w : Work α) (f : α) (g : Option α) : α × Nat :=
  let hopt := E.O.mul w.absh f
  match g with
  | some g =>
    if w.k > 1 then
      let hkm1 := E.O.mul w.absh g
      if E.O.lt hopt hkm1 then (E.omin w.absh hkm1, w.k - 1) else (hopt, w.k)
    else (hopt, w.k)
  | none => (hopt, w.k)

/-- one unsuccessful pass of the retry loop -/
def retry (hmin : α) (w : Work α) : Inner α → Work α
  | .slowJ => w
  | .slowShrink =>
    if w.exit then w
    else if E.O.le w.absh hmin then { w with failed := true }
    else
      let a := E.omax (E.O.mul E.c03 w.absh) hmin
      { w with abshlast := w.absh, absh := a, dt := a, done := false, nconhk := 0 }
  | .errFail f g =>
    if w.exit then w
    else if E.O.le w.absh hmin then { w with failed := true, exit := true }
    else
      let hk := if w.nofailed then E.firstFailure w f g else (E.O.mul E.c05 w.absh, w.k)
      let a := E.omax hmin hk.1
      { w with abshlast := w.absh, absh := a, dt := a, k := hk.2, nofailed := false, nconhk := 0,
               done := if E.O.lt a w.absh then false else w.done }

def retries (hmin : α) (w : Work α) (es : List (Inner α)) : Work α := es.foldl (E.retry hmin) w

/-- the new time: `tnew = t + dt`, `tend` itself when the step was stretched -/
def tNew (s : OdeState α) (w : Work α) : α := if w.done then E.tend else E.O.add s.t w.dt

/-- the dense-output `while tnew >= tnext > told` loop; `dt` is the purified step `tnew − t` -/
def emit (tnew told dt : α) : Nat → List α × Nat × α → List α × Nat × α
  | 0, st => st
  | fuel + 1, (T, inext, tnext) =>
    if E.O.le tnext tnew && E.O.lt told tnext then
      let inext' := inext + 1
      let tnext' := if inext' ≤ E.tspan.length - 1 then E.tspan.getD inext' E.O.zero else E.O.add E.tend dt
      emit tnew told dt fuel (tnext :: T, inext', tnext')
    else (T, inext, tnext)

/-- `hopt = absh / temp` if `temp > 0.1` else `10 absh` -/
def hFrom (absh temp : α) : α := if E.O.lt E.c01 temp then E.O.div absh temp else E.O.mul E.c10 absh

/-- the best of the proposals at orders k, k−1, k+1 -/
def selectRaw (absh : α) (k : Nat) (p : Temps α) : α × Nat :=
  let h0 := E.hFrom absh p.temp0
  let r1 : α × Nat := match p.tempm1 with
    | some tm => if k > 1 then (let h := E.hFrom absh tm; if E.O.lt h0 h then (h, k - 1) else (h0, k)) else (h0, k)
    | none => (h0, k)
  match p.tempp1 with
    | some tp => if k < E.maxk then (let h := E.hFrom absh tp; if E.O.lt r1.1 h then (h, k + 1) else r1) else r1
    | none => r1

/-- step size and order for the next step after `nconhk ≥ k + 2` successes at constant step and order:
the proposal is taken only if it enlarges the step -/
def select (absh : α) (k : Nat) (p : Temps α) : α × Nat :=
  if E.O.lt absh (E.selectRaw absh k p).1 then E.selectRaw absh k p else (absh, k)

/-- one iteration of the main loop with the record of what the step solver did -/
def step (rec : StepRec α) (s : OdeState α) : OdeState α :=
  let hmin := E.hminAt s.t
  let ca := E.clampAbsh s
  let w := E.retries hmin (E.start s) rec.inner
  let tnew := E.tNew s w
  let dt := E.O.sub tnew s.t
  let out : List α × Nat × α :=
    if E.dense then E.emit tnew s.t dt (E.tspan.length + 1) (s.T, s.inext, s.tnext) else (tnew :: s.T, s.inext, s.tnext)
  let nconhk := min (w.nconhk + 1) (E.maxk + 2)
  let sel : α × Nat := if !w.done && nconhk ≥ w.k + 2 then E.select w.absh w.k rec.temps else (w.absh, w.k)
  { t := tnew, absh := sel.1, abshlast := w.absh, k := sel.2, klast := w.k, nconhk := nconhk, done := w.done, atHmin := ca.2,
    failed := s.failed || w.failed, T := out.1, inext := out.2.1, tnext := out.2.2, nstep := s.nstep + 1 }

def run : List (StepRec α) → OdeState α → OdeState α
  | [], s => s
  | r :: rest, s => if s.done then s else run rest (E.step r s)

end OdeEnv
end Solverz
