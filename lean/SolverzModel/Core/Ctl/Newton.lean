/-
  Core/Ctl/Newton.lean — controllers of the algebraic solvers
  (Solverz/solvers/nlaesolver/{nr,cnr,lm,sicnm}.py) over abstract oracles.

  A residual norm is `Option α`: `none` stands for NaN (every comparison with NaN is false in
  IEEE arithmetic and in numpy), `some x` for an ordinary value (±inf included in the Float
  instance).  The state space `S` (the iterate) and the Newton step are parameters: the linear
  algebra is not modelled.
-/
import SolverzModel.Core.Basic
namespace Solverz

/-- ordered scalars as the controllers use them -/
structure Ord (α : Type) where
  lt : α → α → Bool

def gtTol {α} (O : Ord α) (r : Option α) (tol : α) : Bool :=
  match r with | none => false | some x => O.lt tol x

def ltTol {α} (O : Ord α) (r : Option α) (tol : α) : Bool :=
  match r with | none => false | some x => O.lt x tol

structure AeStats where
  nstep : Nat := 0
  nfeval : Nat := 0
  ndecomp : Nat := 0
  succeed : Bool := false
deriving Repr, DecidableEq, Inhabited

structure NrState (S α : Type) where
  y : S
  df : Option α          -- cached `np.max(np.abs(df))` of the current iterate
  st : AeStats

/-- the `while np.max(np.abs(df)) > tol:` loop of `nr_method`, `fuel` bounding the recursion -/
def nrLoop {S α} (O : Ord α) (res : S → Option α) (step : S → S) (tol : α) (maxIt : Nat) :
    Nat → NrState S α → NrState S α
  | 0, s => s
  | fuel + 1, s =>
    if gtTol O s.df tol then
      if s.st.nstep > maxIt then s                       -- "Cannot converge within … iterations": break
      else
        let y' := step s.y
        nrLoop O res step tol maxIt fuel
          { y := y', df := res y',
            st := { s.st with nstep := s.st.nstep + 1, ndecomp := s.st.ndecomp + 1, nfeval := s.st.nfeval + 1 } }
    else s

/-- `nr_method` -/
def nr {S α} (O : Ord α) (res : S → Option α) (step : S → S) (tol : α) (maxIt : Nat) (y0 : S) : S × AeStats :=
  let s0 : NrState S α := { y := y0, df := res y0, st := { nfeval := 1 } }
  let s := nrLoop O res step tol maxIt (maxIt + 2) s0
  (s.y, { s.st with succeed := ltTol O s.df tol })

/-- `continuous_nr`: the outer loop; one Dormand–Prince step with its inner error loop is the
    oracle `rkStep`, which may raise (`IntegrationTolNotMet`).  `nstep` is assigned at the end. -/
def cnrLoop {S α D} (O : Ord α) (res : S → Option α) (rkStep : S → D → Except Err (S × D)) (tol : α) (maxIt : Nat) :
    Nat → (S × D × Option α × Nat) → Except Err (S × D × Option α × Nat)
  | 0, s => .ok s
  | fuel + 1, (y, dt, df, ite) =>
    if gtTol O df tol then
      if ite > maxIt then .ok (y, dt, df, ite)
      else
        match rkStep y dt with
        | .error e => .error e
        | .ok (y', dt') => cnrLoop O res rkStep tol maxIt fuel (y', dt', res y', ite + 1)
    else .ok (y, dt, df, ite)

def cnr {S α D} (O : Ord α) (res : S → Option α) (rkStep : S → D → Except Err (S × D)) (tol : α) (maxIt : Nat)
    (y0 : S) (dt0 : D) : Except Err (S × AeStats) :=
  match cnrLoop O res rkStep tol maxIt (maxIt + 2) (y0, dt0, res y0, 0) with
  | .error e => .error e
  | .ok (y, _, df, ite) => .ok (y, { nstep := ite, succeed := ltTol O df tol })

/-- `lm`: scipy's optimiser is an arbitrary function; the flag comes from a fresh evaluation -/
def lm {S α} (O : Ord α) (res : S → Option α) (optimise : S → S) (tol : α) (y0 : S) : S × Bool :=
  let y := optimise y0
  (y, ltTol O (res y) tol)

/-- `sicnm`: whatever the Rodas-type loop does, it ends with a list of accepted iterates; the last
    one is returned and the flag comes from a fresh evaluation there -/
def sicnm {S α} (O : Ord α) (res : S → Option α) (accepted : List S) (y0 : S) (tol : α) : S × Bool :=
  let y := accepted.getLastD y0
  (y, ltTol O (res y) tol)

end Solverz
