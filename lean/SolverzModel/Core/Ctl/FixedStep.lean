/-
  Core/Ctl/FixedStep.lean — time-grid bookkeeping of the fixed-step integrators
  `backward_euler`, `implicit_trapezoid` (Solverz/solvers/daesolver/{beuler,trapezoidal}.py) and
  `fdae_solver` (Solverz/solvers/fdesolver.py).  The step solves are not part of this model.
-/
import SolverzModel.Core.Rosenbrock
namespace Solverz

/-- ordered field operations the controllers branch on -/
structure OFld (α : Type) extends Fld α where
  lt : α → α → Bool
  le : α → α → Bool
  abs : α → α
  /-- Python `int(x)` for x ≥ 0 (truncation) -/
  trunc : α → Nat
  /-- `np.ceil(x)` as a natural number for x ≥ 0 -/
  ceil : α → Nat

/-- `while T_end - tt > abs(dt)/10: … tt = tt + dt; nt += 1; T[nt] = tt`
    Returns the times after `T[0]`, oldest first. `fuel` bounds the recursion. -/
def gridLoop {α} (O : OFld α) (tend dt : α) : Nat → α → List α
  | 0, _ => []
  | fuel + 1, tt =>
    if O.lt (O.div (O.abs dt) (O.ofNat 10)) (O.sub tend tt) then
      let tt' := O.add tt dt
      tt' :: gridLoop O tend dt fuel tt'
    else []

/-- `backward_euler` / `implicit_trapezoid`: buffer of `Nt = int((T_end-T_initial)/dt) + 100` rows;
    writing row `nt ≥ Nt` is an IndexError. -/
def fixedGrid {α} (O : OFld α) (t0 tend dt : α) : Except Err (List α) :=
  let Nt := O.trunc (O.div (O.sub tend t0) dt) + 100
  let steps := gridLoop O tend dt Nt t0
  if steps.length + 1 > Nt then .error .index else .ok (t0 :: steps)

/-- the same loop as the code computes it now: the grid point after k steps is `t0 + k·dt` (no accumulated rounding); in exact
arithmetic this is `gridLoop` (`Proofs/FixedStep.lean: gridLoopK_eq`) -/
def gridLoopK {α} (O : OFld α) (t0 tend dt : α) : Nat → Nat → α → List α
  | 0, _, _ => []
  | fuel + 1, k, tt =>
    if O.lt (O.div (O.abs dt) (O.ofNat 10)) (O.sub tend tt) then
      let tt' := O.add t0 (O.mul (O.ofNat (k + 1)) dt)
      tt' :: gridLoopK O t0 tend dt fuel (k + 1) tt'
    else []

def fixedGridK {α} (O : OFld α) (t0 tend dt : α) : Except Err (List α) :=
  let Nt := O.trunc (O.div (O.sub tend t0) dt) + 100
  let steps := gridLoopK O t0 tend dt Nt 0 t0
  if steps.length + 1 > Nt then .error .index else .ok (t0 :: steps)

/-- `fdae_solver` (time grid): the last step ends at `tend` itself -/
def fdaeLoop {α} (O : OFld α) (tend uround slack : α) : Nat → α → α → List α
  | 0, _, _ => []
  | fuel + 1, tt, dt =>
    let last := O.le tend (O.add tt (O.mul dt slack))
    let dt' := if last then O.sub tend tt else dt
    let tt' := if last then tend else O.add tt dt'
    if last || O.lt (O.abs (O.sub tend tt')) uround then [tt']
    else tt' :: fdaeLoop O tend uround slack fuel tt' dt'

def fdaeGrid {α} (O : OFld α) (t0 tend dt uround slack : α) : Except Err (List α) :=
  let nstep := max (O.ceil (O.div (O.sub tend t0) dt) + 1000) 10000
  let steps := fdaeLoop O tend uround slack nstep t0 dt
  if steps.length + 1 > nstep then .error .index else .ok (t0 :: steps)

/-- `fdae_solver` as the code computes it now: the grid point after k steps is `t0 + k·h` (nothing accumulates), and the end test
`tt + h ≥ tend − (1e-9·h + 4·spacing(max(|tt|, |tend|)))` also allows for the resolution of the time axis.  In exact arithmetic
(`spacing = 0`) this is `fdaeLoop` with slack `1 + slackAbs` (`Proofs/FdaeGrid.lean: fdaeLoopK_eq`). -/
def fdaeLoopK {α} (O : OFld α) (spacing : α → α) (t0 tend h uround slackAbs : α) : Nat → Nat → α → List α
  | 0, _, _ => []
  | fuel + 1, k, tt =>
    let m := if O.lt (O.abs tt) (O.abs tend) then O.abs tend else O.abs tt
    let tol := O.add (O.mul slackAbs h) (O.mul (O.ofNat 4) (spacing m))
    let last := O.le (O.sub tend tol) (O.add tt h)
    let tt' := if last then tend else O.add t0 (O.mul (O.ofNat (k + 1)) h)
    if last || O.lt (O.abs (O.sub tend tt')) uround then [tt']
    else tt' :: fdaeLoopK O spacing t0 tend h uround slackAbs fuel (k + 1) tt'

def fdaeGridK {α} (O : OFld α) (spacing : α → α) (t0 tend h uround slackAbs : α) : Except Err (List α) :=
  let nstep := max (O.ceil (O.div (O.sub tend t0) h) + 1000) 10000
  let steps := fdaeLoopK O spacing t0 tend h uround slackAbs nstep 0 t0
  if steps.length + 1 > nstep then .error .index else .ok (t0 :: steps)

def ratO : OFld Rat :=
  { ratFld with lt := fun a b => decide (a < b), le := fun a b => decide (a ≤ b),
                abs := fun a => if a < 0 then -a else a,
                trunc := fun a => a.floor.toNat, ceil := fun a => a.ceil.toNat }

def floatO : OFld Float :=
  { floatFld with lt := fun a b => a < b, le := fun a b => a ≤ b, abs := Float.abs,
                  trunc := fun a => a.floor.toUInt64.toNat, ceil := fun a => a.ceil.toUInt64.toNat }

end Solverz
