/-
  Core/Address.lean — model of `Solverz/utilities/address.py` (class `Address`,
  `combine_Address`).  An `Address` is the pair (object_list, length_array); the cached
  index table `v_cache` is a function of that pair after every public operation (the code
  calls `update_v_cache` at the end of each), so it is modelled as the derived `range?`.
  Import-free: also executed by the driver.
-/
import SolverzModel.Core.Basic
namespace Solverz

structure Address where
  names : List String
  lens  : List Nat
deriving Repr, DecidableEq, Inhabited

namespace Address

def empty : Address := ⟨[], []⟩

/-- `total_size` = `np.sum(length_array)` -/
def total (a : Address) : Nat := a.lens.sum

/-- start offset of the `i`-th entry: `np.sum(length_array[0:i])` -/
def start (a : Address) (i : Nat) : Nat := (a.lens.take i).sum

/-- `object_list.index(name)` (first occurrence) -/
def idx? (a : Address) (n : String) : Option Nat :=
  let i := a.names.idxOf n
  if i < a.names.length then some i else none

/-- `v[name]` = `arange(start, start+len)` represented as `(start, len)`.
    `dict(zip(object_list, …))` keyed by name, each computed at the *first* index of the name. -/
def range? (a : Address) (n : String) : Option (Nat × Nat) :=
  (a.idx? n).map fun i => (a.start i, a.lens.getD i 0)

/-- `Address.add` -/
def add (a : Address) (n : String) (len : Nat) : Except Err Address :=
  if n ∈ a.names then .error .key
  else .ok ⟨a.names ++ [n], a.lens ++ [len]⟩

/-- `Address.update` -/
def update (a : Address) (n : String) (len : Nat) : Except Err Address :=
  match a.idx? n with
  | none => .error .key
  | some i => .ok ⟨a.names, setAt a.lens i len⟩

/-- `Address.derive_alias` (after the `fix:` that copies `length_array`) -/
def alias (a : Address) (suffix : String) : Address :=
  ⟨a.names.map (· ++ suffix), a.lens⟩

/-- `combine_Address` -/
def combine (a b : Address) : Except Err Address :=
  if b.names.any (fun n => a.names.contains n) then .error .key       -- a name both addresses contain is refused, as in `add`
  else .ok ⟨a.names ++ b.names, a.lens ++ b.lens⟩

/-- `Address.__getitem__(str)`: `slice(v[0], v[-1]+1)`; a zero-length entry has an empty
    `arange`, so `v[item][0]` raises IndexError. Result `(start, stop)`. -/
def slice (a : Address) (n : String) : Except Err (Nat × Nat) :=
  match a.range? n with
  | none => .error .key
  | some (s, l) => if l = 0 then .error .index else .ok (s, s + l)

/-- first index whose cumulative length exceeds `addr` (the `for … break` loop) -/
def findCum : List Nat → Nat → Nat → Nat → Option Nat
  | [], _, _, _ => none
  | l :: ls, acc, i, addr => if addr < acc + l then some i else findCum ls (acc + l) (i+1) addr

/-- `Address.inquiry_eqn_name` for a non-negative integer address -/
def inquiry (a : Address) (addr : Nat) : Except Err String :=
  match findCum a.lens 0 0 addr with
  | none => .error .value
  | some i =>
    let name := a.names.getD i ""
    match a.range? name with
    | none => .error .key
    | some (s, l) => if s ≤ addr ∧ addr < s + l then .ok name else .error .value

/-- `Address.__eq__` -/
def beq (a b : Address) : Bool := a.names == b.names && a.lens == b.lens

/-- well-formedness the public constructors establish -/
def WF (a : Address) : Prop := a.names.Nodup ∧ a.names.length = a.lens.length

instance (a : Address) : Decidable a.WF := by unfold WF; exact inferInstance

end Address
end Solverz
