/-
  Core/Fs.lean — the file-system facts C03 depends on: where `render_as_modules` saves the four
  files of a rendered module and where the rendered `dependency.py` looks for the pickle.
  Paths are lists of components; what matters is which characters separate components on a platform.
-/
import SolverzModel.Core.Basic
namespace Solverz

inductive Platform where | posix | windows
deriving Repr, DecidableEq

/-- is character `c` a path separator on the platform? (`/` everywhere, `\` on Windows only) -/
def Platform.isSep (pl : Platform) (c : Char) : Bool :=
  c == '/' || (pl == .windows && c == '\\')

/-- how a path expression glues a directory and a file name -/
inductive Joiner where
  | osJoin                 -- `os.path.join(dir, name)`: the platform's own separator
  | literal (c : Char)     -- f-string / `+` with a literal character between
deriving Repr, DecidableEq

/-- components of `join dir file` as the platform parses the resulting string -/
def joinPath (pl : Platform) (j : Joiner) (dir : List String) (file : String) : List String :=
  match j with
  | .osJoin => dir ++ [file]
  | .literal c =>
    if pl.isSep c then dir ++ [file]
    else match dir.reverse with
      | [] => [String.singleton c ++ file]
      | last :: init => init.reverse ++ [last ++ String.singleton c ++ file]

/-- the four files of a rendered module -/
def moduleFiles : List String := ["__init__.py", "dependency.py", "num_func.py", "param_and_setting.pkl"]

/-- a file system: path ↦ content (latest binding first) -/
abbrev Fs := List (List String × String)

def Fs.read (fs : Fs) (p : List String) : Option String := (fs.find? (·.1 == p)).map (·.2)
def Fs.write (fs : Fs) (p : List String) (content : String) : Fs := (p, content) :: fs

/-- `create_python_module`: all four files are written unconditionally (mode "w"), the three
sources with `os.path.join(location, f)`, the pickle with `f'{location}/…'` -/
def renderModule (pl : Platform) (fs : Fs) (location : List String) (init dep num pkl : String) : Fs :=
  (((fs.write (joinPath pl .osJoin location "__init__.py") init).write
      (joinPath pl .osJoin location "dependency.py") dep).write
      (joinPath pl .osJoin location "num_func.py") num).write
      (joinPath pl (.literal '/') location "param_and_setting.pkl") pkl

end Solverz
