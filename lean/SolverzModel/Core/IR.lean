/-
  Core/IR.lean — a small IR for the *generated* numerical code (inline `F_`, `J_`, `Hvp_` and the
  rendered module's `F_`/`J_`/`Hvp_` with their `inner_*` callees inlined) and its heap semantics,
  at the granularity needed for purity: which array object every name refers to, and which array
  objects are written.

  Arrays are heap objects identified by index.  The heap records for every object a *version
  counter* that every write bumps: "object unchanged" = "version unchanged".  Pre-existing objects
  are the call's arguments (state vector, parameter arrays, direction vector, previous-step vector)
  and the module-level buffers; objects allocated during the call are appended.
-/
import SolverzModel.Core.Basic
namespace Solverz

inductive Stmt where
  /-- `x = <argument k>`: the name refers to a caller's object (also: `p_["k"]`, `p_["u"].get_v_t(t)`,
      which may return the parameter's own storage) -/
  | arg (x : String) (k : Nat)
  /-- `x = y[...]` (basic slice / plain alias): same object as `y` -/
  | view (x y : String)
  /-- `x = <module-level buffer g>` -/
  | glob (x : String) (g : Nat)
  /-- `x = np.zeros(..)`, `x = []`, `x = <expression>`, `x = y.copy()`: a new object -/
  | fresh (x : String)
  /-- `x[...] = e`, `x.extend(e)`, `x[...] += e`: writes object of `x` (reads are not recorded) -/
  | store (x : String)
  /-- `return x` -/
  | ret (x : String)
deriving Repr, DecidableEq, Inhabited

structure IRState where
  heap : List Nat                      -- version counter per object
  env : List (String × Nat)            -- name ↦ object
  result : Option Nat := none          -- object returned
deriving Repr

def IRState.lookup (s : IRState) (x : String) : Option Nat := (s.env.find? (·.1 == x)).map (·.2)

def bump : List Nat → Nat → List Nat
  | [], _ => []
  | v :: vs, 0 => (v + 1) :: vs
  | v :: vs, n + 1 => v :: bump vs n

/-- one statement; `nargs` arguments occupy objects `0 .. nargs-1`, module buffers follow -/
def Stmt.exec (nargs : Nat) (s : IRState) : Stmt → IRState
  | .arg x k => { s with env := (x, k) :: s.env }
  | .view x y => match s.lookup y with
      | some o => { s with env := (x, o) :: s.env }
      | none => s
  | .glob x g => { s with env := (x, nargs + g) :: s.env }
  | .fresh x => { s with heap := s.heap ++ [0], env := (x, s.heap.length) :: s.env }
  | .store x => match s.lookup x with
      | some o => { s with heap := bump s.heap o }
      | none => s
  | .ret x => { s with result := s.lookup x }

def runProg (nargs : Nat) (s : IRState) (p : List Stmt) : IRState := p.foldl (Stmt.exec nargs) s

/-- ### the analysis
`fs`: names currently bound to an object allocated in this call;
`ws ⊇ fs`: names bound to an object that is not a caller's argument (allocated in this call, or one
of the module's scratch buffers `_F_`, `_data_`, `_data_hvp` — the only names the translator emits
as `glob`; every other module-level object is emitted as a protected pseudo-argument). -/
def addName (ns : List String) (x : String) : List String := if ns.contains x then ns else x :: ns
def dropName (ns : List String) (x : String) : List String := ns.filter (· != x)

def freshNames : List String → Stmt → List String
  | fs, .arg x _ => dropName fs x
  | fs, .glob x _ => dropName fs x
  | fs, .view x y => if fs.contains y then addName fs x else dropName fs x
  | fs, .fresh x => addName fs x
  | fs, .store _ => fs
  | fs, .ret _ => fs

def writableNames : List String → Stmt → List String
  | ws, .arg x _ => dropName ws x
  | ws, .glob x _ => addName ws x
  | ws, .view x y => if ws.contains y then addName ws x else dropName ws x
  | ws, .fresh x => addName ws x
  | ws, .store _ => ws
  | ws, .ret _ => ws

/-- every store goes to a name bound to a non-argument object, every return to a fresh one -/
def pureOK : List String → List String → List Stmt → Bool
  | _, _, [] => true
  | ws, fs, .store x :: rest => ws.contains x && pureOK ws fs rest
  | ws, fs, .ret x :: rest => fs.contains x && pureOK ws fs rest
  | ws, fs, st :: rest => pureOK (writableNames ws st) (freshNames fs st) rest

end Solverz
