/-
  Core/Lang.lean — reference semantics of the Solverz modelling language (the documented part).

  * `Ex`  : vector expressions as the user writes them — variables and parameters, whole / integer
            indexed / sliced (Python semantics), arithmetic, the library functions.
  * `SEx` : scalar expressions over the *flat* state vector `y`, the flat parameter vector `p` and
            (for finite-difference models) the flat previous-step vector; `lower e i` is element `i`
            of the vector expression `e` under numpy broadcasting (length-1 operands broadcast).
  * `SEx.eval` over any number type with the transcendental functions (`Float` in the driver, `ℝ`
            in the proofs), `SEx.diff` = partial derivative with respect to one flat state variable.
  `Min` and `AntiWindUp` are *rewritten* by Solverz into comparison form at construction time; the
  rewritten forms are produced by the translator (Generated/FnRules.lean) and used by `lower`.
-/
import SolverzModel.Core.Vars
namespace Solverz

/-- number type with what `SEx.eval` needs -/
structure TFld (α : Type) where
  add : α → α → α
  sub : α → α → α
  mul : α → α → α
  div : α → α → α
  neg : α → α
  zero : α
  one : α
  ofInt : Int → α
  sin : α → α
  cos : α → α
  exp : α → α
  log : α → α
  lt : α → α → Prop
  decLt : ∀ a b, Decidable (lt a b)

inductive Fn1 where | sin | cos | exp | ln | abs | sign | heav | not
deriving Repr, DecidableEq, Inhabited

inductive Cmp where | lt | gt
deriving Repr, DecidableEq, Inhabited

/-- scalar expressions over flat vectors -/
inductive SEx (α : Type) where
  | const (c : α)
  | y (i : Nat)                 -- state variable element
  | p (j : Nat)                 -- parameter element (time-series parameters are evaluated beforehand)
  | y0 (i : Nat)                -- previous-step state element (FDAE)
  | add (a b : SEx α) | sub (a b : SEx α) | mul (a b : SEx α) | div (a b : SEx α)
  | neg (a : SEx α)
  | powi (a : SEx α) (n : Int)  -- integer power
  | fn1 (f : Fn1) (a : SEx α)
  | cmp (c : Cmp) (a b : SEx α)          -- 1 if a < b (resp. a > b) else 0
  | in3 (x lo hi : SEx α)                -- 1 if lo ≤ x ≤ hi else 0
  | and (a b : SEx α) | or (a b : SEx α) -- on 0/1 values
  | sat (v lo hi : SEx α)                -- np.clip(v, lo, hi) = min(max(v, lo), hi)
deriving Inhabited

namespace SEx
variable {α : Type}

structure Env (α : Type) where
  y : Nat → α
  p : Nat → α
  y0 : Nat → α

def b2a (F : TFld α) (b : Prop) [Decidable b] : α := if b then F.one else F.zero

def powNat (F : TFld α) (x : α) : Nat → α
  | 0 => F.one
  | n + 1 => F.mul (powNat F x n) x

def evalFn1 (F : TFld α) : Fn1 → α → α
  | .sin, x => F.sin x
  | .cos, x => F.cos x
  | .exp, x => F.exp x
  | .ln, x => F.log x
  | .abs, x => haveI := F.decLt x F.zero; if F.lt x F.zero then F.neg x else x
  | .sign, x => haveI := F.decLt x F.zero; haveI := F.decLt F.zero x
      if F.lt x F.zero then F.neg F.one else if F.lt F.zero x then F.one else F.zero
  | .heav, x => haveI := F.decLt x F.zero; if F.lt x F.zero then F.zero else F.one      -- 1 for x ≥ 0
  | .not, x => F.sub F.one x

def eval (F : TFld α) (ρ : Env α) : SEx α → α
  | .const c => c
  | .y i => ρ.y i
  | .p j => ρ.p j
  | .y0 i => ρ.y0 i
  | .add a b => F.add (eval F ρ a) (eval F ρ b)
  | .sub a b => F.sub (eval F ρ a) (eval F ρ b)
  | .mul a b => F.mul (eval F ρ a) (eval F ρ b)
  | .div a b => F.div (eval F ρ a) (eval F ρ b)
  | .neg a => F.neg (eval F ρ a)
  | .powi a n => if 0 ≤ n then powNat F (eval F ρ a) n.toNat else F.div F.one (powNat F (eval F ρ a) (-n).toNat)
  | .fn1 f a => evalFn1 F f (eval F ρ a)
  | .cmp .lt a b => haveI := F.decLt (eval F ρ a) (eval F ρ b); b2a F (F.lt (eval F ρ a) (eval F ρ b))
  | .cmp .gt a b => haveI := F.decLt (eval F ρ b) (eval F ρ a); b2a F (F.lt (eval F ρ b) (eval F ρ a))
  | .in3 x lo hi =>
      haveI := F.decLt (eval F ρ x) (eval F ρ lo); haveI := F.decLt (eval F ρ hi) (eval F ρ x)
      if F.lt (eval F ρ x) (eval F ρ lo) then F.zero else if F.lt (eval F ρ hi) (eval F ρ x) then F.zero else F.one
  | .and a b => F.mul (eval F ρ a) (eval F ρ b)
  | .or a b => F.sub (F.add (eval F ρ a) (eval F ρ b)) (F.mul (eval F ρ a) (eval F ρ b))
  | .sat v lo hi =>
      haveI := F.decLt (eval F ρ v) (eval F ρ lo); haveI := F.decLt (eval F ρ hi) (eval F ρ v)
      -- np.clip = minimum(maximum(v, lo), hi)
      let m := if F.lt (eval F ρ v) (eval F ρ lo) then eval F ρ lo else eval F ρ v
      haveI := F.decLt (eval F ρ hi) m
      if F.lt (eval F ρ hi) m then eval F ρ hi else m

/-- partial derivative with respect to the flat state variable `c` (Solverz's conventions: the
derivative of `Abs` is `Sign`, comparison / logic / `Sign` / `heaviside` are constants, `Saturation`
differentiates to `In`, `LessThan`, `GreaterThan` for its three arguments) -/
def diff (F : TFld α) (c : Nat) : SEx α → SEx α
  | .const _ => .const F.zero
  | .y i => if i = c then .const F.one else .const F.zero
  | .p _ => .const F.zero
  | .y0 _ => .const F.zero
  | .add a b => .add (diff F c a) (diff F c b)
  | .sub a b => .sub (diff F c a) (diff F c b)
  | .mul a b => .add (.mul (diff F c a) b) (.mul a (diff F c b))
  | .div a b => .div (.sub (.mul (diff F c a) b) (.mul a (diff F c b))) (.mul b b)
  | .neg a => .neg (diff F c a)
  | .powi a n => .mul (.mul (.const (F.ofInt n)) (.powi a (n - 1))) (diff F c a)
  | .fn1 .sin a => .mul (.fn1 .cos a) (diff F c a)
  | .fn1 .cos a => .mul (.neg (.fn1 .sin a)) (diff F c a)
  | .fn1 .exp a => .mul (.fn1 .exp a) (diff F c a)
  | .fn1 .ln a => .div (diff F c a) a
  | .fn1 .abs a => .mul (.fn1 .sign a) (diff F c a)
  | .fn1 .sign _ => .const F.zero
  | .fn1 .heav _ => .const F.zero
  | .fn1 .not _ => .const F.zero
  | .cmp _ _ _ => .const F.zero
  | .in3 _ _ _ => .const F.zero
  | .and _ _ => .const F.zero
  | .or _ _ => .const F.zero
  | .sat v lo hi => .add (.add (.mul (.in3 v lo hi) (diff F c v)) (.mul (.cmp .lt v lo) (diff F c lo)))
                         (.mul (.cmp .gt v hi) (diff F c hi))

/-- `a ** b` with a real (non-integer, parameter- or variable-valued) exponent, for a positive base: exp(b · ln a).
Derived syntax: meaning and derivative are those of `exp`, `mul`, `ln` (Properties/C02.lean: `C02_powr_meaning`,
`C02_powr_derivative`). -/
def powr (a b : SEx α) : SEx α := .fn1 .exp (.mul b (.fn1 .ln a))

end SEx

/-- selection of elements of a variable / parameter -/
inductive Sel where
  | whole
  | idx (i : Int)
  | slice (a b : Option Int)
  | strided (a b : Option Int) (step : Int)     -- x[a:b:step], Python semantics, any non-zero step
  | pick (ks : List Int)                        -- x[[k₁, k₂, …]] / x[idx] with an index parameter
deriving Repr, DecidableEq, Inhabited

/-- vector expressions -/
inductive Ex (α : Type) where
  | num (c : α)
  | var (v : Nat) (s : Sel)
  | par (q : Nat) (s : Sel)
  | prev (v : Nat) (s : Sel)          -- AliasVar: previous-step value of variable v
  | add (a b : Ex α) | sub (a b : Ex α) | mul (a b : Ex α) | div (a b : Ex α)
  | neg (a : Ex α)
  | powi (a : Ex α) (n : Int)
  | fn1 (f : Fn1) (a : Ex α)
  | cmp (c : Cmp) (a b : Ex α)
  | and (a b : Ex α) | or (a b : Ex α)
  | in3 (x lo hi : Ex α)
  | sat (v lo hi : Ex α)
  /-- `Mat_Mul(A, a)`: parameter `q` holds a matrix with `cols` columns, row-major -/
  | matvec (q : Nat) (cols : Nat) (a : Ex α)
deriving Inhabited

/-- element-wise `a ** b` with a real exponent and a positive base (`SEx.powr` after lowering) -/
def Ex.powr {α : Type} (a b : Ex α) : Ex α := .fn1 .exp (.mul b (.fn1 .ln a))

/-- layouts: sizes of the variables and of the parameters, in address order -/
structure Layout where
  vars : List Nat
  pars : List Nat
deriving Repr, Inhabited

def offsetOf (sizes : List Nat) (k : Nat) : Nat := (sizes.take k).sum

/-- flat indices selected from an object of size `n` starting at `base` (Python semantics:
negative integer indices count from the end, slices clamp, a zero step is an error, every element of an
index list is normalised like an integer index) -/
def Sel.indices (n base : Nat) : Sel → Except Err (List Nat)
  | .strided a b step =>
    if step = 0 then .error .index
    else
      let sc := stridedBounds n a b step
      .ok ((List.range sc.2).map fun (j : Nat) => base + (sc.1 + (j : Int) * step).toNat)
  | .pick ks => do
      let js ← ks.mapM (Heap.normIdx n)
      .ok (js.map (base + ·))
  | .whole => .ok ((List.range n).map (base + ·))
  | .idx i => do let k ← Heap.normIdx n i; .ok [base + k]
  | .slice a b =>
    let se := Heap.sliceBounds n (a.getD 0) (b.getD (n : Int))
    .ok ((List.range (se.2 - se.1)).map (base + se.1 + ·))

namespace Ex
variable {α : Type}

/-- `Σ_j p[k + j] · xs[j]`, accumulated from the left starting with the first product (a row of `A @ a`) -/
def dotRow (k : Nat) (x : SEx α) : List (SEx α) → SEx α
  | [] => .mul (.p k) x
  | y :: rest => .add (.mul (.p k) x) (dotRow (k + 1) y rest)

/-- number of elements of the value (numpy broadcasting of 1-D arrays) -/
def bsize (a b : Nat) : Except Err Nat :=
  if a = b then .ok a else if a = 1 then .ok b else if b = 1 then .ok a else .error .shape

def size (L : Layout) : Ex α → Except Err Nat
  | .num _ => .ok 1
  | .var v s => do let n ← (L.vars[v]?).elim (.error .key) .ok; let ix ← s.indices n 0; .ok ix.length
  | .par q s => do let n ← (L.pars[q]?).elim (.error .key) .ok; let ix ← s.indices n 0; .ok ix.length
  | .prev v s => do let n ← (L.vars[v]?).elim (.error .key) .ok; let ix ← s.indices n 0; .ok ix.length
  | .add a b | .sub a b | .mul a b | .div a b | .cmp _ a b | .and a b | .or a b => do
      let x ← size L a; let y ← size L b; bsize x y
  | .neg a | .powi a _ | .fn1 _ a => size L a
  | .in3 x lo hi | .sat x lo hi => do
      let a ← size L x; let b ← size L lo; let c ← size L hi; let ab ← bsize a b; bsize ab c
  | .matvec q cols a => do
      let n ← (L.pars[q]?).elim (.error .key) .ok
      let k ← size L a
      if cols = 0 ∨ n % cols ≠ 0 ∨ k ≠ cols then .error .shape else .ok (n / cols)

/-- element `i` of the value, as a scalar expression over the flat vectors -/
def lower (L : Layout) (i : Nat) : Ex α → Except Err (SEx α)
  | .num c => .ok (.const c)
  | .var v s => do
      let n ← (L.vars[v]?).elim (.error .key) .ok
      let ix ← s.indices n (offsetOf L.vars v)
      match ix[if ix.length = 1 then 0 else i]? with | some k => .ok (.y k) | none => .error .index
  | .par q s => do
      let n ← (L.pars[q]?).elim (.error .key) .ok
      let ix ← s.indices n (offsetOf L.pars q)
      match ix[if ix.length = 1 then 0 else i]? with | some k => .ok (.p k) | none => .error .index
  | .prev v s => do
      let n ← (L.vars[v]?).elim (.error .key) .ok
      let ix ← s.indices n (offsetOf L.vars v)
      match ix[if ix.length = 1 then 0 else i]? with | some k => .ok (.y0 k) | none => .error .index
  | .add a b => do let x ← lower L i a; let y ← lower L i b; .ok (.add x y)
  | .sub a b => do let x ← lower L i a; let y ← lower L i b; .ok (.sub x y)
  | .mul a b => do let x ← lower L i a; let y ← lower L i b; .ok (.mul x y)
  | .div a b => do let x ← lower L i a; let y ← lower L i b; .ok (.div x y)
  | .neg a => do let x ← lower L i a; .ok (.neg x)
  | .powi a n => do let x ← lower L i a; .ok (.powi x n)
  | .fn1 f a => do let x ← lower L i a; .ok (.fn1 f x)
  | .cmp c a b => do let x ← lower L i a; let y ← lower L i b; .ok (.cmp c x y)
  | .and a b => do let x ← lower L i a; let y ← lower L i b; .ok (.and x y)
  | .or a b => do let x ← lower L i a; let y ← lower L i b; .ok (.or x y)
  | .in3 x lo hi => do let a ← lower L i x; let b ← lower L i lo; let c ← lower L i hi; .ok (.in3 a b c)
  | .sat x lo hi => do let a ← lower L i x; let b ← lower L i lo; let c ← lower L i hi; .ok (.sat a b c)
  | .matvec q cols a => do
      let n ← (L.pars[q]?).elim (.error .key) .ok
      if cols = 0 ∨ n % cols ≠ 0 ∨ n / cols ≤ i then .error .index
      else
        let xs ← (List.range cols).mapM fun j => lower L j a
        match xs with
        | [] => .error .shape
        | x :: rest => .ok (dotRow (offsetOf L.pars q + i * cols) x rest)

end Ex

/-- a model: layout and equations in declaration order (Ode right-hand sides and Eqn residuals alike) -/
structure LModel (α : Type) where
  L : Layout
  /-- each equation with the size of its `diff_var` selection (0 for an algebraic equation): an `Ode`
  has `max(rhs size, lhs size)` elements, a scalar right-hand side is broadcast -/
  eqs : List (Ex α × Nat)

namespace LModel
variable {α : Type}

/-- the block of scalar expressions one equation contributes.  An `Ode` whose right-hand side is neither a
scalar nor of the size of its `diff_var` has no meaning (the code refuses it: "Incompatible eqn address length") -/
def eqBlock (L : Layout) (e : Ex α) (target : Nat) : Except Err (List (SEx α)) := do
  let n ← e.size L
  if n ≠ 1 ∧ target ≠ 0 ∧ n ≠ target then .error .shape
  else (List.range (max n target)).mapM fun i => e.lower L (if n = 1 then 0 else i)

/-- the residual as a list of scalar expressions, equation after equation in declaration order:
position `r` of the list is the element the symbolic model reports at equation offset `r` -/
def residual (m : LModel α) : Except Err (List (SEx α)) := do
  let parts ← m.eqs.mapM fun (e, target) => eqBlock m.L e target
  .ok parts.flatten

def evalF (F : TFld α) (m : LModel α) (ρ : SEx.Env α) : Except Err (List α) := do
  let r ← m.residual
  .ok (r.map (SEx.eval F ρ))

/-- dense Jacobian: entry (r, c) = value of the derivative of residual element r w.r.t. state element c -/
def evalJ (F : TFld α) (m : LModel α) (ρ : SEx.Env α) : Except Err (List (List α)) := do
  let r ← m.residual
  let n := m.L.vars.sum
  .ok (r.map fun e => (List.range n).map fun c => SEx.eval F ρ (SEx.diff F c e))

end LModel
end Solverz

namespace Solverz
namespace LModel
variable {α : Type}

/-- Hessian-vector product of the reference semantics: entry (r, c) = Σ_k ∂²F_r/∂y_c∂y_k · v_k,
the derivative with respect to `y_c` of element `r` of `J(y)·v` -/
def evalH (F : TFld α) (m : LModel α) (ρ : SEx.Env α) (v : Nat → α) : Except Err (List (List α)) := do
  let r ← m.residual
  let n := m.L.vars.sum
  .ok (r.map fun e => (List.range n).map fun c =>
    (List.range n).foldl (fun acc k => F.add acc (F.mul (SEx.eval F ρ (SEx.diff F c (SEx.diff F k e))) (v k))) F.zero)

end LModel
end Solverz
