import SolverzModel.Core.Ctl.FixedStep

namespace Solverz

/-- value of a time-series parameter at time `t`: linear interpolation on the node list (strictly
increasing times), the last value from the last node on; `none` before the first node
(`scipy.interpolate.interp1d` refuses to extrapolate) -/
def tsValue {α} (O : OFld α) : List (α × α) → α → Option α
  | [], _ => none
  | [(t0, v0)], t => if O.le t0 t then some v0 else none
  | (t0, v0) :: (t1, v1) :: rest, t =>
    if O.lt t t0 then none
    else if O.lt t t1 then
      -- v0 + (t - t0) * (v1 - v0) / (t1 - t0)
      some (O.add v0 (O.mul (O.sub t t0) (O.div (O.sub v1 v0) (O.sub t1 t0))))
    else tsValue O ((t1, v1) :: rest) t

end Solverz
