/-
  Core/Vars.lean — heap model of `Vars`, `TimeVars` (Solverz/variable/variables.py),
  `parse_ae_v` / `parse_dae_v` (Solverz/solvers/parser.py).

  Objects live in a heap and are referred to by index, because the code shares objects:
    * `Vars.__add__`, `TimeVars.__init__`, `TimeVars.__getitem__(int)`, `parse_*_v`
      bind the *same* `Address` object to the new collection;
    * every operator that starts with `deepcopy(self)` gets a private copy of the Address;
    * `TimeVars.__getitem__(slice)` returns a numpy *view* of the parent's buffer;
    * `TimeVars.append` rebinds `self.array` to a fresh buffer.
  Arrays of a `Vars` are always private (`Array(array, dim=1)` copies).
  Values are of an arbitrary type `α`; arithmetic is a parameter (`Arith α`).
-/
import SolverzModel.Core.Address
namespace Solverz

structure Arith (α : Type) where
  add : α → α → α
  sub : α → α → α
  mul : α → α → α
  div : α → α → α
  zero : α

inductive BinOp where | add | sub | mul | div
deriving Repr, DecidableEq, Inhabited

def Arith.ap {α} (A : Arith α) : BinOp → α → α → α
  | .add => A.add | .sub => A.sub | .mul => A.mul | .div => A.div

/-- numpy broadcasting of two 1-D arrays under an elementwise operation -/
def bcast2 {α} (f : α → α → α) (x y : List α) : Except Err (List α) :=
  if x.length = y.length then .ok (List.zipWith f x y)
  else match x, y with
    | [a], _ => .ok (y.map (f a))
    | _, [b] => .ok (x.map (fun a => f a b))
    | _, _ => .error .value

/-- numpy assignment `dst[:] = src` for 1-D arrays: `src` must broadcast to `dst`'s shape -/
def assignAll {α} (dstLen : Nat) (src : List α) : Except Err (List α) :=
  if src.length = dstLen then .ok src
  else match src with
    | [b] => .ok (List.replicate dstLen b)
    | _ => .error .value

structure VarsObj (α : Type) where
  aid : Nat            -- index of the bound Address object
  arr : List α
deriving Repr, Inhabited

structure TVObj where
  aid : Nat
  buf : Nat            -- index of the 2-D buffer
  off : Nat            -- first row of the view
  len : Nat            -- number of rows of the view
deriving Repr, Inhabited, DecidableEq

structure Heap (α : Type) where
  addrs : List Address := []
  vars  : List (VarsObj α) := []
  bufs  : List (List (List α)) := []
  tvs   : List TVObj := []
deriving Inhabited

/-- operand of an arithmetic operator -/
inductive Operand (α : Type) where
  | scalar (x : α)       -- Python int/float
  | array (xs : List α)  -- numpy array
  | vars (vid : Nat)     -- another Vars

/-- result of an operation: a reference to a new/affected object, or a plain value -/
inductive Res (α : Type) where
  | unit
  | addr (id : Nat)
  | vars (id : Nat)
  | tv (id : Nat)
  | slice (s e : Nat)
  | name (n : String)
  | arr (xs : List α)
  | mat (rows : List (List α))
  | nat (n : Nat)

namespace Heap
variable {α : Type}

def getAddr (h : Heap α) (i : Nat) : Except Err Address :=
  match h.addrs[i]? with | some a => .ok a | none => .error .other
def getVars (h : Heap α) (i : Nat) : Except Err (VarsObj α) :=
  match h.vars[i]? with | some a => .ok a | none => .error .other
def getTV (h : Heap α) (i : Nat) : Except Err TVObj :=
  match h.tvs[i]? with | some a => .ok a | none => .error .other
def getBuf (h : Heap α) (i : Nat) : List (List α) := h.bufs.getD i []

def newAddr (h : Heap α) (a : Address) : Heap α × Nat := ({ h with addrs := h.addrs ++ [a] }, h.addrs.length)
def newVarsRaw (h : Heap α) (v : VarsObj α) : Heap α × Nat := ({ h with vars := h.vars ++ [v] }, h.vars.length)
def newBuf (h : Heap α) (b : List (List α)) : Heap α × Nat := ({ h with bufs := h.bufs ++ [b] }, h.bufs.length)
def newTV (h : Heap α) (t : TVObj) : Heap α × Nat := ({ h with tvs := h.tvs ++ [t] }, h.tvs.length)

/-- rows of a TimeVars view -/
def tvRows (h : Heap α) (t : TVObj) : List (List α) := readSlice (h.getBuf t.buf) t.off t.len

/-- `Vars(a, array)`: size check against the bound address -/
def mkVars (h : Heap α) (aid : Nat) (arr : List α) : Except Err (Heap α × Nat) := do
  let a ← h.getAddr aid
  if arr.length ≠ a.total then .error .value
  else .ok (h.newVarsRaw ⟨aid, arr⟩)

/-- `Vars.__getitem__(str)` -/
def varsGet (h : Heap α) (vid : Nat) (n : String) : Except Err (List α) := do
  let v ← h.getVars vid
  let a ← h.getAddr v.aid
  let (s, e) ← a.slice n
  .ok (readSlice v.arr s (e - s))

/-- Python index normalisation for a sequence of length `n` -/
def normIdx (n : Nat) (i : Int) : Except Err Nat :=
  if 0 ≤ i then (if i.toNat < n then .ok i.toNat else .error .index)
  else (if (-i).toNat ≤ n then .ok (n - (-i).toNat) else .error .index)

/-- `Vars.__getitem__(int)` -/
def varsGetI (h : Heap α) (vid : Nat) (i : Int) : Except Err α := do
  let v ← h.getVars vid
  let k ← normIdx v.arr.length i
  match v.arr[k]? with | some x => .ok x | none => .error .index

/-- `Vars.__setitem__(key, value)`; `value` already flattened by `Array(value, dim=1)` -/
def varsSet (h : Heap α) (vid : Nat) (n : String) (val : List α) : Except Err (Heap α) := do
  let v ← h.getVars vid
  let a ← h.getAddr v.aid
  match a.range? n with
  | none => .error .value                        -- `key not in var_list`
  | some _ =>
    let (s, e) ← a.slice n                       -- zero-length entry: IndexError
    if val.length = e - s then
      .ok { h with vars := setAt h.vars vid ⟨v.aid, writeSlice v.arr s val⟩ }
    else .error .value

/-- `deepcopy(self)`: private copy of the Address and of the array -/
def deepcopyVars (h : Heap α) (v : VarsObj α) : Except Err (Heap α × Nat) := do
  let a ← h.getAddr v.aid
  let (h1, aid') := h.newAddr a
  .ok (h1.newVarsRaw ⟨aid', v.arr⟩)

/-- `self ∘ other` (`left = true`) or `other ∘ self` (`left = false`, the reflected method).
    Mirrors each `__op__`/`__rop__` of `Vars` branch by branch (numpy arrays and numpy scalars on the left defer to the reflected
    method since `Vars.__array_priority__` is set). -/
def varsArith (A : Arith α) (h : Heap α) (vid : Nat) (op : BinOp) (left : Bool) (o : Operand α) :
    Except Err (Heap α × Res α) := do
  let v ← h.getVars vid
  let f : α → α → α := if left then A.ap op else fun x y => A.ap op y x
  let n := v.arr.length
  match op, left, o with
  -- __add__ : Vars(self.a, self.array + other) — shares the Address, size-checks the result
  | .add, true, .scalar x => do
      let (h', id) ← h.mkVars v.aid (v.arr.map (fun a => f a x)); .ok (h', .vars id)
  | .add, true, .array xs =>
      if xs.length ≠ n then .error .value
      else do
        let (h', id) ← h.mkVars v.aid (List.zipWith f v.arr xs); .ok (h', .vars id)
  | .add, true, .vars w => do
      let wv ← h.getVars w
      let r ← bcast2 f v.arr wv.arr
      let (h', id) ← h.mkVars v.aid r; .ok (h', .vars id)
  -- __mul__ : scalar, or Vars with equal address; arrays are a TypeError
  | .mul, true, .scalar x => do
      let (h', id) ← h.deepcopyVars ⟨v.aid, v.arr.map (fun a => f a x)⟩; .ok (h', .vars id)
  | .mul, true, .vars w => do
      let wv ← h.getVars w
      let a ← h.getAddr v.aid
      let b ← h.getAddr wv.aid
      if a.beq b then do
        let r ← bcast2 f v.arr wv.arr
        let r' ← assignAll n r
        let (h', id) ← h.deepcopyVars ⟨v.aid, r'⟩; .ok (h', .vars id)
      else .error .value
  -- __rmul__ : scalar or Vars (no address comparison); arrays never reach it
  | .mul, false, .scalar x => do
      let (h', id) ← h.deepcopyVars ⟨v.aid, v.arr.map (fun a => f a x)⟩; .ok (h', .vars id)
  | .mul, false, .vars w => do
      let wv ← h.getVars w
      let r ← bcast2 f v.arr wv.arr
      let r' ← assignAll n r
      let (h', id) ← h.deepcopyVars ⟨v.aid, r'⟩; .ok (h', .vars id)
  -- __radd__, __sub__, __rsub__, __truediv__, __rtruediv__ : deepcopy, then in-place assignment
  | _, _, .scalar x => do
      let (h', id) ← h.deepcopyVars ⟨v.aid, v.arr.map (fun a => f a x)⟩; .ok (h', .vars id)
  | _, _, .vars w => do
      let wv ← h.getVars w
      let r ← bcast2 f v.arr wv.arr
      let r' ← assignAll n r
      let (h', id) ← h.deepcopyVars ⟨v.aid, r'⟩; .ok (h', .vars id)
  | _, _, .array xs =>
      -- an array on either side (`__array_priority__` makes numpy defer to the reflected method), `*` included:
      -- explicit size test `new_vars.total_size != other.reshape(-1).shape[0]`
      if xs.length ≠ n then .error .value
      else do
        let (h', id) ← h.deepcopyVars ⟨v.aid, List.zipWith f v.arr xs⟩; .ok (h', .vars id)

/-- `Vars.derive_alias`: new Address object (alias), private copy of the array -/
def varsAlias (h : Heap α) (vid : Nat) (suffix : String) : Except Err (Heap α × Nat) := do
  let v ← h.getVars vid
  let a ← h.getAddr v.aid
  let (h1, aid') := h.newAddr (a.alias suffix)
  h1.mkVars aid' v.arr

/-- `combine_Vars` -/
def varsCombine (h : Heap α) (v1 v2 : Nat) : Except Err (Heap α × Nat) := do
  let a ← h.getVars v1
  let b ← h.getVars v2
  let aa ← h.getAddr a.aid
  let ab ← h.getAddr b.aid
  let c ← aa.combine ab
  let (h1, aid') := h.newAddr c
  h1.mkVars aid' (a.arr ++ b.arr)

/-- `TimeVars(Vars_, length)` -/
def tvNew (zero : α) (h : Heap α) (vid : Nat) (length : Nat) : Except Err (Heap α × Nat) := do
  let v ← h.getVars vid
  let a ← h.getAddr v.aid
  let zrow := List.replicate a.total zero
  let rows := match length with
    | 0 => []
    | k+1 => v.arr :: List.replicate k zrow
  -- `self.array[0, :] = Vars_.array` requires the sizes to agree (they do for a valid Vars)
  if length > 0 ∧ v.arr.length ≠ a.total then .error .value
  else
    let (h1, b) := h.newBuf rows
    .ok (h1.newTV ⟨v.aid, b, 0, length⟩)

/-- `TimeVars.__getitem__(int)` -/
def tvGetRow (h : Heap α) (tid : Nat) (i : Int) : Except Err (Heap α × Nat) := do
  let t ← h.getTV tid
  if i > (t.len : Int) then .error .value
  else do
    let k ← normIdx t.len i
    match (h.tvRows t)[k]? with
    | none => .error .index
    | some row => h.mkVars t.aid row

/-- `TimeVars.__getitem__(str)`: the columns of that variable, row by row -/
def tvGetName (h : Heap α) (tid : Nat) (n : String) : Except Err (List (List α)) := do
  let t ← h.getTV tid
  let a ← h.getAddr t.aid
  let (s, e) ← a.slice n
  .ok ((h.tvRows t).map fun r => readSlice r s (e - s))

/-- Python `slice(start, stop).indices(n)` for step 1 -/
def sliceBounds (n : Nat) (start stop : Int) : Nat × Nat :=
  let norm (i : Int) : Nat :=
    if i < 0 then (if (-i).toNat ≤ n then n - (-i).toNat else 0)
    else (if i.toNat ≤ n then i.toNat else n)
  let s := norm start
  let e := norm stop
  (s, if e < s then s else e)

/-- `TimeVars.__getitem__(slice(start, stop))` with an explicit integer start
    (`stop = none` is an open end).  `TimeVars(self[item.start], length=0)` evaluates
    `self[start]` first, so its errors surface; the temporary objects are unreachable
    afterwards and are not kept in the heap.  The result is a *view* of the parent's buffer. -/
def tvSlice (h : Heap α) (tid : Nat) (start : Int) (stop : Option Int) : Except Err (Heap α × Nat) := do
  let t ← h.getTV tid
  let _ ← h.tvGetRow tid start
  let (s, e) := sliceBounds t.len start (stop.getD (t.len : Int))
  .ok (h.newTV ⟨t.aid, t.buf, t.off + s, e - s⟩)

/-- `self.array.shape[1]` of a time series -/
def tvWidth (h : Heap α) (t : TVObj) (a : Address) : Nat :=
  match (h.tvRows t).head? with | some r => r.length | none => a.total

/-- `TimeVars.__setitem__(int, Vars)` : index in `[-len, len)`, row of the width of the series, `self.array[key, :] = row` -/
def tvSetRow (h : Heap α) (tid : Nat) (key : Int) (vid : Nat) : Except Err (Heap α) := do
  let t ← h.getTV tid
  let v ← h.getVars vid
  if key ≥ (t.len : Int) ∨ key < -(t.len : Int) then .error .value
  else
    let a ← h.getAddr t.aid
    if v.arr.length = h.tvWidth t a then                    -- the row must have the width of the series (no broadcasting of a size-one Vars)
      let k := if key < 0 then (key + (t.len : Int)).toNat else key.toNat
      .ok { h with bufs := setAt h.bufs t.buf (setAt (h.getBuf t.buf) (t.off + k) v.arr) }
    else .error .value

/-- `TimeVars.append` -/
def tvAppend (h : Heap α) (t1 t2 : Nat) : Except Err (Heap α) := do
  let a ← h.getTV t1
  let b ← h.getTV t2
  let aa ← h.getAddr a.aid
  let ab ← h.getAddr b.aid
  if aa.beq ab then
    let rows := h.tvRows a ++ h.tvRows b
    let (h1, bid) := h.newBuf rows
    .ok { h1 with tvs := setAt h1.tvs t1 ⟨a.aid, bid, 0, rows.length⟩ }
  else .error .value

/-- `parse_ae_v(y, a)` -/
def parseAe (h : Heap α) (aid : Nat) (y : List α) : Except Err (Heap α × Nat) := h.mkVars aid y

/-- `parse_dae_v(Y, a)`: `Vars(a, Y[0])` (size check), `TimeVars(temp, n)`, `array[:, :] = Y`.
    The temporary `Vars` is unreachable afterwards and is not kept. -/
def parseDae (h : Heap α) (aid : Nat) (Y : List (List α)) : Except Err (Heap α × Nat) := do
  match Y with
  | [] => .error .index
  | r0 :: _ =>
    let a ← h.getAddr aid
    if r0.length ≠ a.total then .error .value
    else if Y.all (fun r => r.length = r0.length) then
      let (h1, b) := h.newBuf Y
      .ok (h1.newTV ⟨aid, b, 0, Y.length⟩)
    else .error .value

end Heap

/-- the operations of the C16 op set -/
inductive Op (α : Type) where
  | anew
  | aadd (aid : Nat) (n : String) (len : Nat)
  | aupd (aid : Nat) (n : String) (len : Nat)
  | aalias (aid : Nat) (suffix : String)
  | acomb (a b : Nat)
  | aget (aid : Nat) (n : String)
  | ainq (aid : Nat) (addr : Nat)
  | vnew (aid : Nat) (vals : List α)
  | vget (vid : Nat) (n : String)
  | vgeti (vid : Nat) (i : Int)
  | vset (vid : Nat) (n : String) (vals : List α)
  | vop (vid : Nat) (op : BinOp) (left : Bool) (o : Operand α)
  | valias (vid : Nat) (suffix : String)
  | vcomb (a b : Nat)
  | tnew (vid : Nat) (len : Nat)
  | trow (tid : Nat) (i : Int)
  | tname (tid : Nat) (n : String)
  | tslice (tid : Nat) (start : Int) (stop : Option Int)
  | tset (tid : Nat) (key : Int) (vid : Nat)
  | tapp (a b : Nat)
  | pae (aid : Nat) (y : List α)
  | pdae (aid : Nat) (Y : List (List α))

namespace Heap
variable {α : Type}

/-- one operation on the heap: new heap and the operation's answer -/
def stepOp (A : Arith α) (h : Heap α) : Op α → Except Err (Heap α × Res α)
  | .anew => let (h', i) := h.newAddr Address.empty; .ok (h', .addr i)
  | .aadd a n l => do
      let x ← h.getAddr a; let y ← x.add n l
      .ok ({ h with addrs := setAt h.addrs a y }, .unit)
  | .aupd a n l => do
      let x ← h.getAddr a; let y ← x.update n l
      .ok ({ h with addrs := setAt h.addrs a y }, .unit)
  | .aalias a suf => do
      let x ← h.getAddr a; let (h', i) := h.newAddr (x.alias suf); .ok (h', .addr i)
  | .acomb a b => do
      let x ← h.getAddr a; let y ← h.getAddr b
      let c ← x.combine y
      let (h', i) := h.newAddr c; .ok (h', .addr i)
  | .aget a n => do let x ← h.getAddr a; let (s, e) ← x.slice n; .ok (h, .slice s e)
  | .ainq a k => do let x ← h.getAddr a; let n ← x.inquiry k; .ok (h, .name n)
  | .vnew a xs => do let (h', i) ← h.mkVars a xs; .ok (h', .vars i)
  | .vget v n => do let xs ← h.varsGet v n; .ok (h, .arr xs)
  | .vgeti v i => do let x ← h.varsGetI v i; .ok (h, .arr [x])
  | .vset v n xs => do let h' ← h.varsSet v n xs; .ok (h', .unit)
  | .vop v op left o => h.varsArith A v op left o
  | .valias v suf => do let (h', i) ← h.varsAlias v suf; .ok (h', .vars i)
  | .vcomb a b => do let (h', i) ← h.varsCombine a b; .ok (h', .vars i)
  | .tnew v l => do let (h', i) ← Heap.tvNew A.zero h v l; .ok (h', .tv i)
  | .trow t i => do let (h', k) ← h.tvGetRow t i; .ok (h', .vars k)
  | .tname t n => do let m ← h.tvGetName t n; .ok (h, .mat m)
  | .tslice t s e => do let (h', k) ← h.tvSlice t s e; .ok (h', .tv k)
  | .tset t k v => do let h' ← h.tvSetRow t k v; .ok (h', .unit)
  | .tapp a b => do let h' ← h.tvAppend a b; .ok (h', .unit)
  | .pae a y => do let (h', i) ← h.parseAe a y; .ok (h', .vars i)
  | .pdae a Y => do let (h', i) ← h.parseDae a Y; .ok (h', .tv i)

/-- an address is *bound* once a collection refers to it -/
def bound (h : Heap α) (aid : Nat) : Bool :=
  h.vars.any (fun v => v.aid == aid) || h.tvs.any (fun t => t.aid == aid)

/-- documented usage: `add`/`update` only on an Address not yet bound to a collection -/
def permitted (h : Heap α) : Op α → Bool
  | .aadd a _ _ => !h.bound a
  | .aupd a _ _ => !h.bound a
  | _ => true

/-- run a list of operations; refused operations leave the heap unchanged (Python raises) -/
def runOps (A : Arith α) (h : Heap α) : List (Op α) → Heap α
  | [] => h
  | op :: ops =>
    if h.permitted op then
      match h.stepOp A op with
      | .ok (h', _) => runOps A h' ops
      | .error _ => runOps A h ops
    else runOps A h ops

end Heap
/-- Python's clamping of a slice bound for a positive step: into `[0, N]` -/
def clampUp (N i : Int) : Int := if i < 0 then (if i + N < 0 then 0 else i + N) else (if i > N then N else i)
/-- … and for a negative step: into `[-1, N - 1]` -/
def clampDown (N i : Int) : Int := if i < 0 then (if i + N < 0 then -1 else i + N) else (if i ≥ N then N - 1 else i)
/-- number of terms of a progression of positive stride `s` covering a distance `d`: `⌈d / s⌉`, 0 if `d ≤ 0` -/
def strideCount (d s : Int) : Nat := if d ≤ 0 then 0 else ((d + s - 1) / s).toNat

/-- `slice(a, b, step).indices(n)` of Python for `step ≠ 0`: (start, count) of the arithmetic progression -/
def stridedBounds (n : Nat) (a b : Option Int) (step : Int) : Int × Nat :=
  let N : Int := n
  if step > 0 then
    let start := (a.map (clampUp N)).getD 0
    let stop := (b.map (clampUp N)).getD N
    (start, strideCount (stop - start) step)
  else
    let start := (a.map (clampDown N)).getD (N - 1)
    let stop := (b.map (clampDown N)).getD (-1)
    (start, strideCount (start - stop) (-step))

end Solverz
