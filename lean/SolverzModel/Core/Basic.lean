/-
  Core/Basic.lean — shared, import-free definitions for the Solverz model.
  Error kinds mirror the small enum the Python harness maps exception classes to.
-/
namespace Solverz

inductive Err where
  | key | value | type | index | notimpl | shape | other
deriving Repr, DecidableEq, Inhabited

def Err.toString : Err → String
  | .key => "key" | .value => "value" | .type => "type" | .index => "index"
  | .notimpl => "notimpl" | .shape => "shape" | .other => "other"

instance : ToString Err := ⟨Err.toString⟩

/-- replace element `i` of a list (no-op when out of range) -/
def setAt {α} : List α → Nat → α → List α
  | [], _, _ => []
  | _ :: xs, 0, v => v :: xs
  | x :: xs, n+1, v => x :: setAt xs n v

@[simp] theorem setAt_length {α} (l : List α) (i : Nat) (v : α) : (setAt l i v).length = l.length := by
  induction l generalizing i with
  | nil => rfl
  | cons x xs ih => cases i <;> simp [setAt, ih]

/-- overwrite `l[start .. start+vals.length)` with `vals` (caller guarantees the range fits) -/
def writeSlice {α} (l : List α) (start : Nat) (vals : List α) : List α :=
  l.take start ++ vals ++ l.drop (start + vals.length)

def readSlice {α} (l : List α) (start len : Nat) : List α := (l.drop start).take len

end Solverz
