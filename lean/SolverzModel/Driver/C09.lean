/-
  Driver/C09.lean — `c09 rodas t <n> <tspan…> opt <fac1> <fac2> <facmax> <hinit|none> <hmax|none> <fixh> <evdur>
                     ev <m> (<c> <dir> <term>)… script <k> (<err> <fac0>)…`
  answer: `T <n> <times…> te <m> <…> ie <…> stat <nstep> <nreject> <failed> <attempts> <done>`
-/
import SolverzModel.Core.Ctl.Rodas
import SolverzModel.Driver.Util
namespace Solverz.Drv.C09
open Solverz Solverz.Drv

/-- `np.spacing(x)` for finite x: distance to the next float away from zero -/
def spacing (x : Float) : Float :=
  let a := x.abs
  if a.isNaN || a.isInf then 0.0/0.0
  else
    let next := Float.ofBits (a.toBits + 1)
    let d := next - a
    if x < 0.0 then -d else d

def optF (s : String) : Option (Option Float) := if s == "none" then some none else (parseFloat s).map some

/-- event function kinds of the line protocol: a plain number `c` is g(τ) = τ − c; `q:a:b` is (τ − a)·(τ − b);
`k:c:κ` is (τ − c)·(1 + κ·((τ − c)·(τ − c))) — evaluated with exactly the operations the harness's Python functions perform -/
inductive EvKind where
  | lin (c : Float) | quad (a b : Float) | cub (c k : Float)

def EvKind.eval : EvKind → Float → Float
  | .lin c, τ => τ - c
  | .quad a b, τ => (τ - a) * (τ - b)
  | .cub c k, τ => (τ - c) * (1.0 + k * ((τ - c) * (τ - c)))

def EvKind.isLin : EvKind → Bool | .lin _ => true | _ => false

def parseKind (s : String) : Option EvKind :=
  match s.splitOn ":" with
  | ["q", a, b] => do let a ← parseFloat a; let b ← parseFloat b; some (.quad a b)
  | ["k", c, k] => do let c ← parseFloat c; let k ← parseFloat k; some (.cub c k)
  | [c] => (parseFloat c).map .lin
  | _ => none

partial def parseEvents : Nat → List String → Option (List (EventSpec Float × EvKind) × List String)
  | 0, rest => some ([], rest)
  | n + 1, c :: d :: t :: rest => do
      let k ← parseKind c; let d ← parseInt d; let (es, rest') ← parseEvents n rest
      let c0 := match k with | .lin c => c | .quad a _ => a | .cub c _ => c
      some ((⟨c0, d, t == "1"⟩, k) :: es, rest')
  | _, _ => none

partial def parsePairs : List String → Option (List (Float × Float))
  | [] => some []
  | a :: b :: rest => do let a ← parseFloat a; let b ← parseFloat b; let r ← parsePairs rest; some ((a, b) :: r)
  | _ => none

def step (ws : List String) : String :=
  match ws with
  | "rodas" :: "t" :: n :: rest =>
    match parseNat n with
    | none => "bad-op"
    | some n =>
      match parseFloats (rest.take n), rest.drop n with
      | some tspan, "opt" :: f1 :: f2 :: fm :: hi :: hm :: fx :: ed :: "ev" :: m :: rest2 =>
        match parseFloat f1, parseFloat f2, parseFloat fm, optF hi, optF hm, parseFloat ed, parseNat m with
        | some f1, some f2, some fm, some hi, some hm, some ed, some m =>
          match parseEvents m rest2 with
          | some (evs, "script" :: _ :: sc) =>
            match parsePairs sc with
            | some script =>
              let E : RodasEnv Float :=
                { O := floatO, spacing := spacing, uround := spacing 1.0, tiny := 1e-6, half := 0.5, c128 := 128.0, fixSlack := 1.0 + 1e-8,
                  tspan := tspan, opt := ⟨f1, f2, fm, hi, hm, fx == "1", ed⟩, events := evs.map (·.1),
                  -- all components linear: the `τ − c` reading of the model; otherwise the general event functions
                  gfun := if evs.all (·.2.isLin) then none
                          else some fun i τ => match (evs.map (·.2))[i]? with | some k => k.eval τ | none => 0.0 }
              let s := E.run script E.init
              s!"T {s.T.length} {showFloats s.T.reverse} te {s.te.length} {showFloats s.te.reverse} ie " ++
                " ".intercalate (s.ie.reverse.map toString) ++
                s!" stat {s.nstep} {s.nreject} {s.failed} {s.attempts} {s.done}"
            | none => "bad-op"
          | _ => "bad-op"
        | _, _, _, _, _, _, _ => "bad-op"
      | _, _ => "bad-op"
  | _ => "bad-op"

end Solverz.Drv.C09
