/-
  Driver/C09.lean — `c09 rodas t <n> <tspan…> opt <fac1> <fac2> <facmax> <hinit|none> <hmax|none> <fixh> <evdur>
                     ev <m> (<c> <dir> <term>)… script <k> (<err> <fac0>)…`
  answer: `T <n> <times…> te <m> <…> ie <…> stat <nstep> <nreject> <failed> <attempts> <done>`
-/
import SolverzModel.Core.Ctl.Rodas
import SolverzModel.Driver.Util
namespace Solverz.Drv.C09
open Solverz Solverz.Drv

/-- `np.spacing(x)` for finite x: distance to the next float away from zero -/
def spacing (x : Float) : Float :=
  let a := x.abs
  if a.isNaN || a.isInf then 0.0/0.0
  else
    let next := Float.ofBits (a.toBits + 1)
    let d := next - a
    if x < 0.0 then -d else d

def optF (s : String) : Option (Option Float) := if s == "none" then some none else (parseFloat s).map some

partial def parseEvents : Nat → List String → Option (List (EventSpec Float) × List String)
  | 0, rest => some ([], rest)
  | n + 1, c :: d :: t :: rest => do
      let c ← parseFloat c; let d ← parseInt d; let (es, rest') ← parseEvents n rest
      some (⟨c, d, t == "1"⟩ :: es, rest')
  | _, _ => none

partial def parsePairs : List String → Option (List (Float × Float))
  | [] => some []
  | a :: b :: rest => do let a ← parseFloat a; let b ← parseFloat b; let r ← parsePairs rest; some ((a, b) :: r)
  | _ => none

def step (ws : List String) : String :=
  match ws with
  | "rodas" :: "t" :: n :: rest =>
    match parseNat n with
    | none => "bad-op"
    | some n =>
      match parseFloats (rest.take n), rest.drop n with
      | some tspan, "opt" :: f1 :: f2 :: fm :: hi :: hm :: fx :: ed :: "ev" :: m :: rest2 =>
        match parseFloat f1, parseFloat f2, parseFloat fm, optF hi, optF hm, parseFloat ed, parseNat m with
        | some f1, some f2, some fm, some hi, some hm, some ed, some m =>
          match parseEvents m rest2 with
          | some (evs, "script" :: _ :: sc) =>
            match parsePairs sc with
            | some script =>
              let E : RodasEnv Float :=
                { O := floatO, spacing := spacing, uround := spacing 1.0, tiny := 1e-6, half := 0.5, c128 := 128.0, fixSlack := 1.0 + 1e-8,
                  tspan := tspan, opt := ⟨f1, f2, fm, hi, hm, fx == "1", ed⟩, events := evs }
              let s := E.run script E.init
              s!"T {s.T.length} {showFloats s.T.reverse} te {s.te.length} {showFloats s.te.reverse} ie " ++
                " ".intercalate (s.ie.reverse.map toString) ++
                s!" stat {s.nstep} {s.nreject} {s.failed} {s.attempts} {s.done}"
            | none => "bad-op"
          | _ => "bad-op"
        | _, _, _, _, _, _, _ => "bad-op"
      | _, _ => "bad-op"
  | _ => "bad-op"

end Solverz.Drv.C09
