/-
  Driver/C01.lean — reference evaluation of a declared model in Float.
    c01 F|J vars <nv> <sizes…> pars <np> <sizes…> eqs <ne> <expr>… y <n> <vals…> p <n> <vals…> y0 <n> <vals…>
  expressions in prefix form:
    num <f> | var <v> <sel> | par <q> <sel> | prev <v> <sel> | add e e | sub e e | mul e e | div e e | neg e
    | powi e <n> | powr e e | sin e | cos e | exp e | ln e | abs e | sign e | heav e | not e | lt e e | gt e e | and e e | or e e
    | in3 e e e | sat e e e | min e e | awu e e e e
    | matvec <q> <cols> e
  sel ::= w | i <int> | s <a|none> <b|none> | st <a|none> <b|none> <step> | pk <n> <k…>
  answers: F → `ok <vals…>`,  J → `ok <rows> <cols> <row-major vals…>`,  errors → `err <kind>`
-/
import SolverzModel.Core.Lang
import SolverzModel.Generated.FnRules
import SolverzModel.Driver.Util
namespace Solverz.Drv.C01
open Solverz Solverz.Drv

def fF : TFld Float :=
  { add := (· + ·), sub := (· - ·), mul := (· * ·), div := (· / ·), neg := fun x => -x, zero := 0.0, one := 1.0,
    ofInt := fun n => Float.ofInt n, sin := Float.sin, cos := Float.cos, exp := Float.exp, log := Float.log,
    lt := fun a b => a < b, decLt := fun a b => inferInstanceAs (Decidable (a < b)) }

def optI (s : String) : Option (Option Int) := if s == "none" then some none else (parseInt s).map some

def parseSel : List String → Option (Sel × List String)
  | "w" :: r => some (.whole, r)
  | "i" :: k :: r => do some (.idx (← parseInt k), r)
  | "s" :: a :: b :: r => do some (.slice (← optI a) (← optI b), r)
  | "st" :: a :: b :: c :: r => do some (.strided (← optI a) (← optI b) (← parseInt c), r)
  | "pk" :: n :: r => do
      let n ← parseNat n
      let ks ← (r.take n).mapM parseInt
      if (r.take n).length = n then some (.pick ks, r.drop n) else none
  | _ => none

partial def parseEx : List String → Option (Ex Float × List String)
  | "num" :: x :: r => do some (.num (← parseFloat x), r)
  | "var" :: v :: r => do let (s, r') ← parseSel r; some (.var (← parseNat v) s, r')
  | "par" :: v :: r => do let (s, r') ← parseSel r; some (.par (← parseNat v) s, r')
  | "prev" :: v :: r => do let (s, r') ← parseSel r; some (.prev (← parseNat v) s, r')
  | "neg" :: r => do let (a, r) ← parseEx r; some (.neg a, r)
  | "powi" :: r => do
      let (a, r) ← parseEx r
      match r with | n :: r' => do some (.powi a (← parseInt n), r') | [] => none
  | "add" :: r => bin Ex.add r | "sub" :: r => bin Ex.sub r | "mul" :: r => bin Ex.mul r | "div" :: r => bin Ex.div r
  | "lt" :: r => bin (Ex.cmp .lt) r | "gt" :: r => bin (Ex.cmp .gt) r | "and" :: r => bin Ex.and r | "or" :: r => bin Ex.or r
  | "powr" :: r => bin Ex.powr r
  | "min" :: r => bin (Generated.minRule fF) r
  | "sin" :: r => un .sin r | "cos" :: r => un .cos r | "exp" :: r => un .exp r | "ln" :: r => un .ln r
  | "abs" :: r => un .abs r | "sign" :: r => un .sign r | "heav" :: r => un .heav r | "not" :: r => un .not r
  | "in3" :: r => do let (a, r) ← parseEx r; let (b, r) ← parseEx r; let (c, r) ← parseEx r; some (.in3 a b c, r)
  | "sat" :: r => do let (a, r) ← parseEx r; let (b, r) ← parseEx r; let (c, r) ← parseEx r; some (.sat a b c, r)
  | "matvec" :: q :: c :: r => do let (a, r) ← parseEx r; some (.matvec (← parseNat q) (← parseNat c) a, r)
  | "awu" :: r => do
      let (a, r) ← parseEx r; let (b, r) ← parseEx r; let (c, r) ← parseEx r; let (d, r) ← parseEx r
      some (Generated.awuRule fF a b c d, r)
  | _ => none
where
  bin (f : Ex Float → Ex Float → Ex Float) (r : List String) : Option (Ex Float × List String) := do
    let (a, r) ← parseEx r; let (b, r) ← parseEx r; some (f a b, r)
  un (f : Fn1) (r : List String) : Option (Ex Float × List String) := do
    let (a, r) ← parseEx r; some (.fn1 f a, r)

partial def parseExs : Nat → List String → Option (List (Ex Float × Nat) × List String)
  | 0, r => some ([], r)
  | n + 1, "sz" :: k :: r => do
      let k ← parseNat k; let (e, r) ← parseEx r; let (es, r) ← parseExs n r; some ((e, k) :: es, r)
  | _, _ => none

def takeNats (ws : List String) : Option (List Nat × List String) :=
  match ws with
  | n :: r => do let n ← parseNat n; let xs ← (r.take n).mapM parseNat; some (xs, r.drop n)
  | [] => none

def takeFloats (ws : List String) : Option (List Float × List String) :=
  match ws with
  | n :: r => do let n ← parseNat n; let xs ← (r.take n).mapM parseFloat; some (xs, r.drop n)
  | [] => none

def parseReq (ws : List String) : Option (LModel Float × SEx.Env Float × List Float) :=
  match ws with
  | "vars" :: r => do
    let (vs, r) ← takeNats r
    match r with
    | "pars" :: r => do
      let (ps, r) ← takeNats r
      match r with
      | "eqs" :: ne :: r => do
        let ne ← parseNat ne
        let (es, r) ← parseExs ne r
        match r with
        | "y" :: r => do
          let (y, r) ← takeFloats r
          match r with
          | "p" :: r => do
            let (p, r) ← takeFloats r
            match r with
            | "y0" :: r => do
              let (y0, r) ← takeFloats r
              let v : List Float := match r with
                | "v" :: r' => (takeFloats r').map (·.1) |>.getD []
                | _ => []
              some (⟨⟨vs, ps⟩, es⟩, ⟨fun i => y.getD i 0.0, fun i => p.getD i 0.0, fun i => y0.getD i 0.0⟩, v)
            | _ => none
          | _ => none
        | _ => none
      | _ => none
    | _ => none
  | _ => none

def step (ws : List String) : String :=
  match ws with
  | "F" :: r =>
    match parseReq r with
    | none => "bad-op"
    | some (m, ρ, _) => match m.evalF fF ρ with
      | .ok v => "ok " ++ showFloats v
      | .error e => "err " ++ toString e
  | "J" :: r =>
    match parseReq r with
    | none => "bad-op"
    | some (m, ρ, _) => match m.evalJ fF ρ with
      | .ok rows => s!"ok {rows.length} {m.L.vars.sum} " ++ showFloats rows.flatten
      | .error e => "err " ++ toString e
  | "H" :: r =>
    match parseReq r with
    | none => "bad-op"
    | some (m, ρ, v) => match m.evalH fF ρ (fun k => v.getD k 0.0) with
      | .ok rows => s!"ok {rows.length} {m.L.vars.sum} " ++ showFloats rows.flatten
      | .error e => "err " ++ toString e
  | _ => "bad-op"

end Solverz.Drv.C01
