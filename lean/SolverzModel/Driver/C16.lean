/-
  Driver/C16.lean — line-protocol handler for the Address / Vars / TimeVars heap model,
  instantiated at `Float`.
-/
import SolverzModel.Core.Vars
import SolverzModel.Driver.Util
namespace Solverz.Drv.C16
open Solverz Solverz.Drv

def arithF : Arith Float := { add := (· + ·), sub := (· - ·), mul := (· * ·), div := (· / ·), zero := 0.0 }

abbrev H := Heap Float

def showAddr (a : Address) : String :=
  let ents := a.names.map fun n => match a.range? n with
    | some (s, l) => (if l = 0 then s!"{n}=_+0" else s!"{n}={s}+{l}") | none => s!"{n}=?"
  -- dict semantics: later duplicate keys overwrite earlier ones but the value is the same
  "{" ++ ",".intercalate ents.eraseDups ++ s!"|{a.lens}|total={a.total}" ++ "}"

def showRes (_h : H) : Res Float → String
  | .unit => "unit"
  | .addr i => s!"addr {i}"
  | .vars i => s!"vars {i}"
  | .tv i => s!"tv {i}"
  | .slice s e => s!"slice {s} {e}"
  | .name n => s!"name {n}"
  | .arr xs => s!"arr {showFloats xs}"
  | .mat rows => "mat " ++ " ; ".intercalate (rows.map showFloats)
  | .nat n => s!"nat {n}"

def dump (h : H) : String :=
  let as := (h.addrs.zipIdx).map fun (a, i) => s!"A{i}:{showAddr a}"
  let vs := (h.vars.zipIdx).map fun (v, i) =>
    s!"V{i}:{showAddr (h.addrs.getD v.aid Address.empty)}[{showFloats v.arr}]"
  let ts := (h.tvs.zipIdx).map fun (t, i) =>
    s!"T{i}:{showAddr (h.addrs.getD t.aid Address.empty)}" ++ s!"len={t.len}[" ++ " ; ".intercalate ((h.tvRows t).map showFloats) ++ "]"
  " || ".intercalate (as ++ vs ++ ts)

def parseOp : String → Option BinOp
  | "add" => some .add | "sub" => some .sub | "mul" => some .mul | "div" => some .div | _ => none

def parseLine (ws : List String) : Option (Op Float) :=
  match ws with
  | ["anew"] => some .anew
  | ["aadd", a, n, l] => do some (.aadd (← parseNat a) n (← parseNat l))
  | ["aupd", a, n, l] => do some (.aupd (← parseNat a) n (← parseNat l))
  | ["aalias", a, suf] => do some (.aalias (← parseNat a) suf)
  | ["acomb", a, b] => do some (.acomb (← parseNat a) (← parseNat b))
  | ["aget", a, n] => do some (.aget (← parseNat a) n)
  | ["ainq", a, k] => do some (.ainq (← parseNat a) (← parseNat k))
  | "vnew" :: a :: vals => do some (.vnew (← parseNat a) (← parseFloats vals))
  | ["vget", v, n] => do some (.vget (← parseNat v) n)
  | ["vgeti", v, i] => do some (.vgeti (← parseNat v) (← parseInt i))
  | "vset" :: v :: n :: vals => do some (.vset (← parseNat v) n (← parseFloats vals))
  | "vop" :: v :: op :: side :: kind :: rest => do
      let o : Operand Float ← match kind, rest with
        | "s", [x] => (parseFloat x).map .scalar
        | "a", xs => (parseFloats xs).map .array
        | "v", [w] => (parseNat w).map .vars
        | _, _ => none
      if side != "l" && side != "r" then none
      some (.vop (← parseNat v) (← parseOp op) (side == "l") o)
  | ["valias", v, suf] => do some (.valias (← parseNat v) suf)
  | ["vcomb", a, b] => do some (.vcomb (← parseNat a) (← parseNat b))
  | ["tnew", v, l] => do some (.tnew (← parseNat v) (← parseNat l))
  | ["trow", t, i] => do some (.trow (← parseNat t) (← parseInt i))
  | ["tname", t, n] => do some (.tname (← parseNat t) n)
  | ["tslice", t, s, e] => do
      let stop ← if e == "none" then some none else (parseInt e).map some
      some (.tslice (← parseNat t) (← parseInt s) stop)
  | ["tset", t, k, v] => do some (.tset (← parseNat t) (← parseInt k) (← parseNat v))
  | ["tapp", a, b] => do some (.tapp (← parseNat a) (← parseNat b))
  | "pae" :: a :: vals => do some (.pae (← parseNat a) (← parseFloats vals))
  | "pdae" :: a :: nc :: vals => do
      let nc ← parseNat nc
      let xs ← parseFloats vals
      if nc = 0 then none
      some (.pdae (← parseNat a) ((List.range (xs.length / nc)).map fun i => (xs.drop (i * nc)).take nc))
  | _ => none

def step (h : H) (ws : List String) : H × String :=
  match ws with
  | ["reset"] => ({}, "ok unit")
  | ["dump"] => (h, dump h)
  | _ =>
    match parseLine ws with
    | none => (h, "bad-op")
    | some op =>
      match h.stepOp arithF op with
      | .ok (h', res) => (h', "ok " ++ showRes h' res)
      | .error e => (h, "err " ++ toString e)

end Solverz.Drv.C16
