/-
  Driver/C04.lean — `c04 mass <nvars> <sizes…> <neq> (<eq>)…`
    eq ::= alg <rhs> | whole <v> <rhs> | idx <v> <i> <rhs> | slice <v> <a|none> <b|none> <rhs>
          | strided <v> <a|none> <b|none> <step> <rhs> | pick <v> <n> <k…> <rhs>
  answer: `ok <rows> <cols> <r c>…` (triplets sorted, as given to csc_array) | `err <kind>`
-/
import SolverzModel.Core.Mass
import SolverzModel.Driver.Util
namespace Solverz.Drv.C04
open Solverz Solverz.Drv

def optInt (s : String) : Option (Option Int) :=
  if s == "none" then some none else (parseInt s).map some

partial def parseEqs : Nat → List String → Option (List EqDecl)
  | 0, [] => some []
  | 0, _ => none
  | n+1, "alg" :: r :: rest => do
      let r ← parseNat r; let es ← parseEqs n rest; some (⟨none, r⟩ :: es)
  | n+1, "whole" :: v :: r :: rest => do
      let v ← parseNat v; let r ← parseNat r; let es ← parseEqs n rest; some (⟨some (.whole v), r⟩ :: es)
  | n+1, "idx" :: v :: i :: r :: rest => do
      let v ← parseNat v; let i ← parseInt i; let r ← parseNat r; let es ← parseEqs n rest
      some (⟨some (.idx v i), r⟩ :: es)
  | n+1, "slice" :: v :: a :: b :: r :: rest => do
      let v ← parseNat v; let a ← optInt a; let b ← optInt b; let r ← parseNat r; let es ← parseEqs n rest
      some (⟨some (.slice v a b), r⟩ :: es)
  | n+1, "strided" :: v :: a :: b :: st :: r :: rest => do
      let v ← parseNat v; let a ← optInt a; let b ← optInt b; let st ← parseInt st; let r ← parseNat r; let es ← parseEqs n rest
      some (⟨some (.strided v a b st), r⟩ :: es)
  | n+1, "pick" :: v :: cnt :: rest => do
      let v ← parseNat v; let cnt ← parseNat cnt
      let ks ← (rest.take cnt).mapM parseInt
      match rest.drop cnt with
      | r :: rest' => do
          let r ← parseNat r; let es ← parseEqs n rest'
          if (rest.take cnt).length = cnt then some (⟨some (.pick v ks), r⟩ :: es) else none
      | [] => none
  | _, _ => none

def insertSorted (x : Nat × Nat) : List (Nat × Nat) → List (Nat × Nat)
  | [] => [x]
  | y :: ys => if x.1 < y.1 || (x.1 == y.1 && x.2 ≤ y.2) then x :: y :: ys else y :: insertSorted x ys

def step (ws : List String) : String :=
  match ws with
  | "mass" :: nv :: rest =>
    match parseNat nv with
    | none => "bad-op"
    | some nv =>
      match (rest.take nv).mapM parseNat, rest.drop nv with
      | some sizes, ne :: eqs =>
        match parseNat ne with
        | none => "bad-op"
        | some ne =>
          match parseEqs ne eqs with
          | none => "bad-op"
          | some es =>
            match (DaeDecl.mk sizes es).mass with
            | .error e => "err " ++ toString e
            | .ok (t, r, c) =>
              let ts := t.foldr insertSorted []
              s!"ok {r} {c} " ++ " ".intercalate (ts.map fun (a, b) => s!"{a} {b}")
      | _, _ => "bad-op"
  | _ => "bad-op"

end Solverz.Drv.C04
