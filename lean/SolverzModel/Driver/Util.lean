/-
  Driver/Util.lean — parsing / printing helpers of the line protocol.
  Floats travel as 16 hex digits of their IEEE-754 bit pattern (exact, no rounding in I/O);
  NaNs are canonicalised to `nan`.
-/
import SolverzModel.Core.Basic
namespace Solverz.Drv

def hexVal (c : Char) : Option Nat :=
  if '0' ≤ c ∧ c ≤ '9' then some (c.toNat - '0'.toNat)
  else if 'a' ≤ c ∧ c ≤ 'f' then some (c.toNat - 'a'.toNat + 10)
  else none

def parseHex (s : String) : Option Nat :=
  s.toList.foldl (fun acc c => do let a ← acc; let v ← hexVal c; pure (a * 16 + v)) (some 0)

def parseFloat (s : String) : Option Float :=
  if s == "nan" then some (0.0/0.0) else (parseHex s).map fun n => Float.ofBits n.toUInt64

def hexDigit (n : Nat) : Char := if n < 10 then Char.ofNat (n + '0'.toNat) else Char.ofNat (n - 10 + 'a'.toNat)

def toHex16 (n : Nat) : String :=
  String.ofList ((List.range 16).reverse.map fun i => hexDigit ((n / 16^i) % 16))

def showFloat (x : Float) : String :=
  if x.isNaN then "nan" else toHex16 x.toBits.toNat

def showFloats (xs : List Float) : String := " ".intercalate (xs.map showFloat)

def parseFloats (ts : List String) : Option (List Float) := ts.mapM parseFloat

def parseNat (s : String) : Option Nat := s.toNat?
def parseInt (s : String) : Option Int := s.toInt?

def words (line : String) : List String :=
  (line.splitOn " ").filter (· ≠ "") |>.map (fun s => (s.trimAscii).toString) |>.filter (· ≠ "")

end Solverz.Drv
