/-
  Driver/Ode15s.lean — `o15 t <n> <tspan…> hmax <h> absh0 <h> recs <m> <rec>…`
    rec  ::= inner <j> <inner>… temps (none | <temp0> <tempm1|none> <tempp1|none>)
    inner ::= J | S | E <f> <g|none>
  answer: `T <n> <times…> k <klist…> h <absh after each step…> stat <nstep> <failed> <done>`
-/
import SolverzModel.Core.Ctl.Ode15s
import SolverzModel.Driver.Util
import SolverzModel.Driver.C09
namespace Solverz.Drv.Ode15s
open Solverz Solverz.Drv

def optF (s : String) : Option (Option Float) := if s == "none" then some none else (parseFloat s).map some

partial def parseInner : Nat → List String → Option (List (Inner Float) × List String)
  | 0, r => some ([], r)
  | n + 1, "J" :: r => do let (es, r') ← parseInner n r; some (.slowJ :: es, r')
  | n + 1, "S" :: r => do let (es, r') ← parseInner n r; some (.slowShrink :: es, r')
  | n + 1, "E" :: f :: g :: r => do
      let f ← parseFloat f; let g ← optF g; let (es, r') ← parseInner n r; some (.errFail f g :: es, r')
  | _, _ => none

partial def parseRecs : Nat → List String → Option (List (StepRec Float))
  | 0, _ => some []
  | n + 1, "inner" :: j :: r => do
      let j ← parseNat j
      let (inner, r) ← parseInner j r
      match r with
      | "temps" :: "none" :: r' => do let rest ← parseRecs n r'; some (⟨inner, ⟨0.0, none, none⟩⟩ :: rest)
      | "temps" :: a :: b :: c :: r' => do
          let a ← parseFloat a; let b ← optF b; let c ← optF c
          let rest ← parseRecs n r'; some (⟨inner, ⟨a, b, c⟩⟩ :: rest)
      | _ => none
  | _, _ => none

/-- run and log (k, absh) after every step -/
def runLog (E : OdeEnv Float) : List (StepRec Float) → OdeState Float → List (Nat × Float) → OdeState Float × List (Nat × Float)
  | [], s, log => (s, log.reverse)
  | r :: rest, s, log => if s.done then (s, log.reverse) else
      let s' := E.step r s
      runLog E rest s' ((s'.k, s'.absh) :: log)

def step (ws : List String) : String :=
  match ws with
  | "t" :: n :: rest =>
    match parseNat n with
    | none => "bad-op"
    | some n =>
      match parseFloats (rest.take n), rest.drop n with
      | some tspan, "hmax" :: hm :: "absh0" :: a0 :: "recs" :: m :: rest2 =>
        match parseFloat hm, parseFloat a0, parseNat m with
        | some hm, some a0, some m =>
          match parseRecs m rest2 with
          | some recs =>
            let E : OdeEnv Float :=
              { O := floatO, spacing := C09.spacing, tspan := tspan, hmax := hm, c11 := 1.1, c03 := 0.3, c05 := 0.5, c10 := 10.0,
                c01 := 0.1, c16 := 16.0, maxk := 5 }
            let (s, log) := runLog E recs (E.init a0) []
            s!"T {s.T.length} {showFloats s.T.reverse} k " ++ " ".intercalate (log.map (toString ·.1)) ++
              s!" h {showFloats (log.map (·.2))} stat {s.nstep} {s.failed} {s.done}"
          | none => "bad-op"
        | _, _, _ => "bad-op"
      | _, _ => "bad-op"
  | _ => "bad-op"

end Solverz.Drv.Ode15s
