/-
  Driver/C06.lean — `c06 nr <tol> <maxIt> <n> <r_0 … r_{n-1}>`: Newton–Raphson controller on a
  scripted residual sequence (state = index into the script; beyond the end the last value repeats).
  answer: `ok <final index> <nstep> <nfeval> <ndecomp> <succeed>`
-/
import SolverzModel.Core.Ctl.Newton
import SolverzModel.Driver.Util
namespace Solverz.Drv.C06
open Solverz Solverz.Drv

def ordF : Ord Float := ⟨fun a b => a < b⟩

def optF (x : Float) : Option Float := if x.isNaN then none else some x

def step (ws : List String) : String :=
  match ws with
  | "nr" :: tol :: maxIt :: n :: rs =>
    match parseFloat tol, parseNat maxIt, parseNat n, parseFloats rs with
    | some tol, some maxIt, some _, some rs =>
      let res : Nat → Option Float := fun k => optF (rs.getD k (rs.getLastD 0.0))
      let (k, st) := nr ordF res (· + 1) tol maxIt 0
      s!"ok {k} {st.nstep} {st.nfeval} {st.ndecomp} {st.succeed}"
    | _, _, _, _ => "bad-op"
  | _ => "bad-op"

end Solverz.Drv.C06
