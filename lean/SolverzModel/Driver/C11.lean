/-
  Driver/C11.lean — `c11 quad <a> <b> <c> <d> <x0> <z0> <rtol> <spacing>`:
  DaeIc on the two-variable DAE  x' = …,  0 = a·z² + b·z + c·x + d  (x differential, z algebraic),
  executed in Float.  answer: `ok <exit> <x> <z>` | `err value`
-/
import SolverzModel.Core.Ctl.DaeIc
import SolverzModel.Driver.Util
namespace Solverz.Drv.C11
open Solverz Solverz.Drv

def step (ws : List String) : String :=
  match ws.head?, parseFloats ws.tail with
  | some "quad", some [a, b, c, d, x0, z0, rtol, sp] =>
    let g := fun (y : List Float) => a * (y.getD 1 0) * (y.getD 1 0) + b * (y.getD 1 0) + c * (y.getD 0 0) + d
    let gz := fun (y : List Float) => 2.0 * a * (y.getD 1 0) + b
    let or : IcOracle Float :=
      { algRes := fun y => Float.sqrt (g y * g y),
        dir := fun y => [(-(g y)) / gz y],
        dirAt := fun y => [g y / gz y],
        relNorm := fun d base =>
          match d, base with
          | [dv], [bv] => if bv.abs > sp then Float.sqrt ((dv / bv) * (dv / bv)) else 0.0
          | _, _ => 0.0 }
    match daeIc floatO or [1] 1e-6 (if 1e-5 * rtol < 1e-6 then 1e-5 * rtol else 1e-6) (1e-3 * rtol) [x0, z0] with
    | .error e => "err " ++ toString e
    | .ok (y, ex) => s!"ok {repr ex} " ++ showFloats y
  | _, _ => "bad-op"

end Solverz.Drv.C11
