/-
  Driver/C12.lean — `c12 fixed <t0> <tend> <dt>` / `c12 fdae <t0> <tend> <dt>`:
  the returned time grid (or `err index`) computed in Float.
-/
import SolverzModel.Core.Ctl.FixedStep
import SolverzModel.Driver.Util
namespace Solverz.Drv.C12
open Solverz Solverz.Drv

/-- `np.spacing(x)` for finite x ≥ 0 -/
def spacing (x : Float) : Float :=
  let a := x.abs
  if a.isNaN || a.isInf then 0.0/0.0 else Float.ofBits (a.toBits + 1) - a

def showGrid (r : Except Err (List Float)) : String :=
  match r with
  | .error e => "err " ++ toString e
  | .ok T => s!"ok {T.length} " ++ showFloats (if T.length ≤ 40 then T else T.take 20 ++ T.drop (T.length - 20))

def step (ws : List String) : String :=
  match ws with
  | ["fixed", a, b, c] =>
    match parseFloat a, parseFloat b, parseFloat c with
    | some t0, some tend, some dt => showGrid (fixedGridK floatO t0 tend dt)
    | _, _, _ => "bad-op"
  | ["fdae", a, b, c] =>
    match parseFloat a, parseFloat b, parseFloat c with
    | some t0, some tend, some dt =>
      showGrid (fdaeGridK floatO spacing t0 tend dt (Float.ofBits 0x3CB0000000000000) 1e-9)
    | _, _, _ => "bad-op"
  | _ => "bad-op"

end Solverz.Drv.C12
