/-
  Driver/C07.lean — `c07 lin <scheme> <lam> <dt> <y0> <nsteps> <ntau> <tau…>`
  runs the stage loop of the model on m·y' = lam·y (m = 1) with the *generated* tables converted
  to Float, `nsteps` fixed steps; prints for every step the dense values at the given τ's.
-/
import SolverzModel.Core.Rosenbrock
import SolverzModel.Generated.RodasTables
import SolverzModel.Driver.Util
namespace Solverz.Drv.C07
open Solverz Solverz.Drv

def r2f (r : Rat) : Float := Float.ofInt r.num / Float.ofNat r.den

def toFloat (S : Scheme Rat) : Scheme Float :=
  { s := S.s, pord := S.pord, gamma := r2f S.gamma,
    alpha := S.alpha.map (·.map r2f), gt := S.gt.map (·.map r2f),
    a := S.a.map r2f, g := S.g.map r2f, b := S.b.map r2f, bd := S.bd.map r2f,
    c := S.c.map r2f, d := S.d.map r2f, e := S.e.map r2f }

def scheme? : String → Option (Scheme Rat)
  | "rodas4" => some Generated.rodas4 | "rodasp" => some Generated.rodasp
  | "rodas5p" => some Generated.rodas5p | "rodas3d" => some Generated.rodas3d | _ => none

def step (ws : List String) : String :=
  match ws with
  | "lin" :: sc :: lam :: dt :: y0 :: n :: nt :: taus =>
    match scheme? sc, parseFloat lam, parseFloat dt, parseFloat y0, parseNat n, parseNat nt, parseFloats taus with
    | some S, some lam, some dt, some y0, some n, some _, some taus =>
      let S := toFloat S
      let (_, out) := (List.range n).foldl (fun (acc : Float × List Float) _ =>
        let (y, out) := acc
        let (K, ynew) := S.stepLinear floatFld 1.0 lam dt y
        (ynew, out ++ taus.map (fun tau => S.denseLinear floatFld K dt y tau) ++ [ynew])) (y0, [])
      "ok " ++ showFloats out
    | _, _, _, _, _, _, _ => "bad-op"
  | _ => "bad-op"

end Solverz.Drv.C07
