/-
  Proofs/Vars.lean — helper lemmas about the Vars/TimeVars heap model.
-/
import SolverzModel.Core.Vars
import SolverzModel.Proofs.Address
import Mathlib.Tactic.CasesM
namespace Solverz

theorem writeSlice_length {α} (l : List α) (s : Nat) (vals : List α) (h : s + vals.length ≤ l.length) :
    (writeSlice l s vals).length = l.length := by
  simp [writeSlice]; omega

theorem readSlice_writeSlice {α} (l : List α) (s : Nat) (vals : List α) (h : s + vals.length ≤ l.length) :
    readSlice (writeSlice l s vals) s vals.length = vals := by
  unfold readSlice writeSlice
  have h1 : (List.take s l).length = s := by simp; omega
  rw [List.append_assoc, List.drop_append_of_le_length (by omega)]
  simp [h1]

theorem writeSlice_getElem?_outside {α} (l : List α) (s : Nat) (vals : List α) (j : Nat)
    (hj : j < s ∨ s + vals.length ≤ j) (h : s + vals.length ≤ l.length := by omega) :
    (writeSlice l s vals)[j]? = l[j]? := by
  unfold writeSlice
  have h1 : (List.take s l).length = s := by simp; omega
  rcases hj with hj | hj
  · rw [List.append_assoc, List.getElem?_append_left (by omega)]
    simp [List.getElem?_take, hj]
  · rw [List.getElem?_append_right (by simp; omega)]
    simp only [List.length_append, h1, List.getElem?_drop]
    congr 1; omega

namespace Heap
variable {α : Type}

theorem getVars_ok {h : Heap α} {i : Nat} {v : VarsObj α} (hv : h.getVars i = .ok v) : h.vars[i]? = some v := by
  unfold getVars at hv; split at hv <;> simp_all
theorem getAddr_ok {h : Heap α} {i : Nat} {a : Address} (hv : h.getAddr i = .ok a) : h.addrs[i]? = some a := by
  unfold getAddr at hv; split at hv <;> simp_all
theorem getAddr_of {h : Heap α} {i : Nat} {a : Address} (hv : h.addrs[i]? = some a) : h.getAddr i = .ok a := by
  simp [getAddr, hv]

/-- deepcopy appends one Address and one Vars, nothing else -/
theorem deepcopyVars_spec (h : Heap α) (v : VarsObj α) (a : Address) (ha : h.getAddr v.aid = .ok a) :
    h.deepcopyVars v = .ok (⟨h.addrs ++ [a], h.vars ++ [⟨h.addrs.length, v.arr⟩], h.bufs, h.tvs⟩, h.vars.length) := by
  simp [deepcopyVars, ha, newAddr, newVarsRaw, bind, Except.bind]

theorem mkVars_spec (h : Heap α) (aid : Nat) (arr : List α) (a : Address) (ha : h.getAddr aid = .ok a)
    (hl : arr.length = a.total) :
    h.mkVars aid arr = .ok (⟨h.addrs, h.vars ++ [⟨aid, arr⟩], h.bufs, h.tvs⟩, h.vars.length) := by
  simp [mkVars, ha, hl, newVarsRaw, bind, Except.bind]

theorem varsArith_scalar (A : Arith α) (h : Heap α) (vid : Nat) (op : BinOp) (left : Bool) (x : α)
    (v : VarsObj α) (a : Address) (hv : h.getVars vid = .ok v) (ha : h.getAddr v.aid = .ok a)
    (hlen : v.arr.length = a.total) :
    ∃ h' aid', h.varsArith A vid op left (.scalar x) = .ok (h', .vars h.vars.length) ∧
      h'.vars = h.vars ++ [⟨aid', v.arr.map (fun y => if left then A.ap op y x else A.ap op x y)⟩] ∧
      h'.addrs[aid']? = some a ∧
      (∀ i, i < h.addrs.length → h'.addrs[i]? = h.addrs[i]?) ∧ h'.bufs = h.bufs ∧ h'.tvs = h.tvs := by
  have hmap : ∀ f : α → α, (v.arr.map f).length = a.total := by intro f; simp [hlen]
  have hdc := fun arr => deepcopyVars_spec h ⟨v.aid, arr⟩ a ha
  have hmk := fun arr hl => mkVars_spec h v.aid arr a ha hl
  have hfun : (fun y => if left = true then A.ap op y x else A.ap op x y)
      = (fun y => (if left = true then A.ap op else fun p q => A.ap op q p) y x) := by
    funext y; cases left <;> simp
  cases op <;> cases left <;>
    simp only [varsArith, hv, bind, Except.bind, hdc, hmk _ (hmap _), hfun] <;>
    first
    | exact ⟨_, h.addrs.length, rfl, rfl, by simp, fun i hi => by simp [List.getElem?_append_left hi], rfl, rfl⟩
    | exact ⟨_, v.aid, rfl, rfl, getAddr_ok ha, fun i _ => rfl, rfl, rfl⟩

theorem varsArith_vars (A : Arith α) (h : Heap α) (vid wid : Nat) (op : BinOp)
    (v w : VarsObj α) (a b : Address) (hv : h.getVars vid = .ok v) (hw : h.getVars wid = .ok w)
    (ha : h.getAddr v.aid = .ok a) (hb : h.getAddr w.aid = .ok b)
    (hlen : v.arr.length = a.total) (hsame : w.arr.length = v.arr.length) (hab : a.beq b = true) :
    ∃ h' aid', h.varsArith A vid op true (.vars wid) = .ok (h', .vars h.vars.length) ∧
      h'.vars = h.vars ++ [⟨aid', List.zipWith (A.ap op) v.arr w.arr⟩] ∧
      h'.addrs[aid']? = some a ∧
      (∀ i, i < h.addrs.length → h'.addrs[i]? = h.addrs[i]?) ∧ h'.bufs = h.bufs ∧ h'.tvs = h.tvs := by
  have hz : (List.zipWith (A.ap op) v.arr w.arr).length = a.total := by simp [hsame, hlen]
  have hz' : (List.zipWith (A.ap op) v.arr w.arr).length = v.arr.length := by simp [hsame]
  have hbc : bcast2 (A.ap op) v.arr w.arr = .ok (List.zipWith (A.ap op) v.arr w.arr) := by
    simp [bcast2, hsame]
  have has : assignAll v.arr.length (List.zipWith (A.ap op) v.arr w.arr) = .ok (List.zipWith (A.ap op) v.arr w.arr) := by
    simp [assignAll, hsame]
  have hdc := fun arr => deepcopyVars_spec h ⟨v.aid, arr⟩ a ha
  have hmk := mkVars_spec h v.aid _ a ha hz
  cases op <;>
    simp only [varsArith, hv, hw, ha, hb, hab, bind, Except.bind, hbc, has, hdc, hmk, if_true] <;>
    first
    | exact ⟨_, h.addrs.length, rfl, rfl, by simp, fun i hi => by simp [List.getElem?_append_left hi], rfl, rfl⟩
    | exact ⟨_, v.aid, rfl, rfl, getAddr_ok ha, fun i _ => rfl, rfl, rfl⟩

theorem parseAe_slice (h : Heap α) (aid : Nat) (y : List α) (a : Address) (n : String) (s e : Nat)
    (ha : h.getAddr aid = .ok a) (hs : a.slice n = .ok (s, e)) (h' : Heap α) (vid : Nat)
    (hp : h.parseAe aid y = .ok (h', vid)) :
    h'.varsGet vid n = .ok (readSlice y s (e - s)) := by
  unfold parseAe mkVars at hp
  simp only [ha, bind, Except.bind] at hp
  split at hp
  · cases hp
  · simp only [newVarsRaw, Except.ok.injEq, Prod.mk.injEq] at hp
    obtain ⟨rfl, rfl⟩ := hp
    have ha' := getAddr_ok ha
    simp [varsGet, getVars, getAddr, ha', hs, bind, Except.bind]

theorem parseDae_columns (h : Heap α) (aid : Nat) (Y : List (List α)) (a : Address) (n : String) (s e : Nat)
    (ha : h.getAddr aid = .ok a) (hs : a.slice n = .ok (s, e)) (h' : Heap α) (tid : Nat)
    (hp : h.parseDae aid Y = .ok (h', tid)) :
    h'.tvGetName tid n = .ok (Y.map fun r => readSlice r s (e - s)) := by
  unfold parseDae at hp
  cases Y with
  | nil => simp at hp
  | cons r0 rs =>
    simp only [ha, bind, Except.bind] at hp
    split at hp
    · cases hp
    · split at hp
      · simp only [newBuf, newTV, Except.ok.injEq, Prod.mk.injEq] at hp
        obtain ⟨rfl, rfl⟩ := hp
        have ha' := getAddr_ok ha
        simp [tvGetName, getTV, getAddr, ha', hs, bind, Except.bind, tvRows, getBuf, readSlice]
      · cases hp

end Heap
end Solverz

namespace Solverz
namespace Heap
variable {α : Type}

theorem bind_ok {ε β γ} {x : Except ε β} {f : β → Except ε γ} {r : γ} :
    (x >>= f) = .ok r ↔ ∃ a, x = .ok a ∧ f a = .ok r := by
  cases x <;> simp [bind, Except.bind]

/-- every collection's flat array has exactly the size of its (existing) layout -/
def HeapInv (h : Heap α) : Prop :=
  ∀ v ∈ h.vars, ∃ a, h.addrs[v.aid]? = some a ∧ v.arr.length = a.total

theorem heapInv_empty : HeapInv ({} : Heap α) := by intro v hv; simp at hv

theorem inv_of_eq {h h' : Heap α} (hi : HeapInv h) (h1 : h'.vars = h.vars) (h2 : h'.addrs = h.addrs) : HeapInv h' := by
  intro v hv; rw [h1] at hv; rw [h2]; exact hi v hv

theorem inv_newAddr {h : Heap α} (hi : HeapInv h) (a : Address) : HeapInv (h.newAddr a).1 := by
  intro v hv
  obtain ⟨b, hb, hl⟩ := hi v hv
  refine ⟨b, ?_, hl⟩
  have : v.aid < h.addrs.length := by
    rcases Nat.lt_or_ge v.aid h.addrs.length with h1 | h1
    · exact h1
    · rw [List.getElem?_eq_none h1] at hb; cases hb
  simp [newAddr, List.getElem?_append_left this, hb]

theorem inv_addVars {h : Heap α} (hi : HeapInv h) (aid : Nat) (arr : List α) (a : Address)
    (ha : h.addrs[aid]? = some a) (hl : arr.length = a.total) :
    HeapInv { h with vars := h.vars ++ [⟨aid, arr⟩] } := by
  intro v hv
  simp only [List.mem_append, List.mem_singleton] at hv
  rcases hv with hv | rfl
  · exact hi v hv
  · exact ⟨a, ha, hl⟩

theorem inv_mkVars {h h' : Heap α} (hi : HeapInv h) {aid : Nat} {arr : List α} {i : Nat}
    (hm : h.mkVars aid arr = .ok (h', i)) : HeapInv h' := by
  unfold mkVars at hm
  obtain ⟨a, ha, hm⟩ := bind_ok.mp hm
  split at hm
  · cases hm
  · rename_i hne
    simp only [newVarsRaw, Except.ok.injEq, Prod.mk.injEq] at hm
    obtain ⟨rfl, _⟩ := hm
    exact inv_addVars hi aid arr a (getAddr_ok ha) (by simpa using hne)

theorem inv_deepcopy {h h' : Heap α} (hi : HeapInv h) {v : VarsObj α} {a : Address} {i : Nat}
    (ha : h.getAddr v.aid = .ok a) (hl : v.arr.length = a.total)
    (hm : h.deepcopyVars v = .ok (h', i)) : HeapInv h' := by
  rw [deepcopyVars_spec h v a ha] at hm
  simp only [Except.ok.injEq, Prod.mk.injEq] at hm
  obtain ⟨rfl, _⟩ := hm
  have h1 : HeapInv (h.newAddr a).1 := inv_newAddr hi a
  have := inv_addVars h1 h.addrs.length v.arr a (by simp [newAddr]) hl
  simpa [newAddr] using this

theorem bound_of_mem {h : Heap α} {v : VarsObj α} (hv : v ∈ h.vars) : h.bound v.aid = true := by
  simp only [bound, Bool.or_eq_true, List.any_eq_true, beq_iff_eq]
  exact Or.inl ⟨v, hv, rfl⟩

theorem getElem?_setAt_ne {β} (l : List β) (i j : Nat) (x : β) (h : i ≠ j) : (setAt l i x)[j]? = l[j]? := by
  induction l generalizing i j with
  | nil => simp [setAt]
  | cons y ys ih =>
    cases i with
    | zero => cases j with
      | zero => exact absurd rfl h
      | succ j => simp [setAt]
    | succ i => cases j with
      | zero => simp [setAt]
      | succ j => simp [setAt, ih i j (by omega)]

theorem inv_setAddr_unbound {h : Heap α} (hi : HeapInv h) (a : Nat) (y : Address) (hb : h.bound a = false) :
    HeapInv { h with addrs := setAt h.addrs a y } := by
  intro v hv
  obtain ⟨b, hb', hl⟩ := hi v hv
  have hne : a ≠ v.aid := by
    intro he
    have hv' : v ∈ h.vars := hv
    have := bound_of_mem hv'; rw [← he, hb] at this; cases this
  exact ⟨b, by simp [getElem?_setAt_ne _ _ _ _ hne, hb'], hl⟩

theorem mem_setAt {β} (l : List β) (i : Nat) (x y : β) (h : y ∈ setAt l i x) : y = x ∨ y ∈ l := by
  induction l generalizing i with
  | nil => simp [setAt] at h
  | cons z zs ih =>
    cases i with
    | zero => simp [setAt] at h; rcases h with h | h <;> simp [h]
    | succ i =>
      simp only [setAt, List.mem_cons] at h
      rcases h with h | h
      · simp [h]
      · rcases ih i h with h | h <;> simp [h]

theorem bcast2_length {f : α → α → α} {x y r : List α} (h : bcast2 f x y = .ok r) :
    r.length = x.length ∨ r.length = y.length := by
  unfold bcast2 at h
  split at h
  · cases h; simp [*]
  · split at h
    · cases h; simp
    · cases h; simp
    · cases h

theorem assignAll_length {n : Nat} {src r : List α} (h : assignAll n src = .ok r) : r.length = n := by
  unfold assignAll at h
  split at h
  · cases h; assumption
  · split at h
    · cases h; simp
    · cases h

theorem varsArith_inv (A : Arith α) {h h' : Heap α} (hi : HeapInv h) {vid : Nat} {op : BinOp} {left : Bool}
    {o : Operand α} {r : Res α} (hs : h.varsArith A vid op left o = .ok (h', r)) : HeapInv h' := by
  unfold varsArith at hs
  obtain ⟨v, hv, hs⟩ := bind_ok.mp hs
  have hvm : v ∈ h.vars := List.mem_of_getElem? (getVars_ok hv)
  obtain ⟨a, ha, hl⟩ := hi v hvm
  have ha' := getAddr_of ha
  -- every successful branch ends in `mkVars` (size-checked) or `deepcopyVars` of an array of length `n`
  have dc : ∀ (arr : List α) (p : Heap α × Nat), arr.length = v.arr.length →
      h.deepcopyVars ⟨v.aid, arr⟩ = .ok p → HeapInv p.1 := by
    intro arr p hlen hd
    exact inv_deepcopy (v := ⟨v.aid, arr⟩) hi ha' (by simpa [hlen] using hl) hd
  have dcA : ∀ (r r' : List α) (p : Heap α × Nat), assignAll v.arr.length r = .ok r' →
      h.deepcopyVars ⟨v.aid, r'⟩ = .ok p → HeapInv p.1 := fun r r' p hr hd => dc r' p (assignAll_length hr) hd
  cases op <;> cases left <;> cases o <;> simp only [] at hs
  case mul.true.vars w =>
    obtain ⟨wv, _, hs⟩ := bind_ok.mp hs
    obtain ⟨a1, _, hs⟩ := bind_ok.mp hs
    obtain ⟨b1, _, hs⟩ := bind_ok.mp hs
    split at hs
    · obtain ⟨r, _, hs⟩ := bind_ok.mp hs
      obtain ⟨r', hr', hs⟩ := bind_ok.mp hs
      obtain ⟨p, hp, hs⟩ := bind_ok.mp hs
      simp only [Except.ok.injEq, Prod.mk.injEq] at hs; obtain ⟨rfl, _⟩ := hs
      exact dcA _ _ _ hr' hp
    · cases hs
  all_goals (try split at hs)
  all_goals (try simp only [bind_ok] at hs)
  all_goals (try casesm* _ ∧ _, ∃ _, _)
  all_goals first
    | cases hs
    | (rename_i hs; simp only [Except.ok.injEq, Prod.mk.injEq] at hs; obtain ⟨rfl, _⟩ := hs
       first
       | exact hi
       | exact inv_mkVars hi ‹_›
       | exact dcA _ _ _ ‹_› ‹_›
       | (refine dc _ _ ?_ ‹_›; first | (simp; done) | (simp; omega)))

theorem slice_within (a : Address) (n : String) (s e : Nat) (hs : a.slice n = .ok (s, e)) :
    s < e ∧ e ≤ a.total := by
  unfold Address.slice at hs
  cases hq : a.range? n with
  | none => simp [hq] at hs
  | some p =>
    obtain ⟨s', l⟩ := p
    simp only [hq] at hs
    split at hs
    · cases hs
    · rename_i hl
      simp only [Except.ok.injEq, Prod.mk.injEq] at hs
      obtain ⟨rfl, rfl⟩ := hs
      unfold Address.range? at hq
      cases hi : a.idx? n with
      | none => simp [hi] at hq
      | some i =>
        simp only [hi, Option.map_some, Option.some.injEq, Prod.mk.injEq] at hq
        obtain ⟨rfl, rfl⟩ := hq
        have hil : i < a.lens.length := by
          rcases Nat.lt_or_ge i a.lens.length with h1 | h1
          · exact h1
          · exfalso; apply hl; simp [List.getD, List.getElem?_eq_none h1]
        have := Address.start_succ a i hil
        have h2 := Address.start_le_total a (i+1)
        omega

theorem varsSet_inv {h h' : Heap α} (hi : HeapInv h) {vid : Nat} {n : String} {val : List α}
    (hs : h.varsSet vid n val = .ok h') : HeapInv h' := by
  unfold varsSet at hs
  obtain ⟨v, hv, hs⟩ := bind_ok.mp hs
  obtain ⟨a, ha, hs⟩ := bind_ok.mp hs
  have hvm : v ∈ h.vars := List.mem_of_getElem? (getVars_ok hv)
  obtain ⟨a', ha', hl⟩ := hi v hvm
  have : a' = a := by have := getAddr_ok ha; rw [ha'] at this; cases this; rfl
  subst this
  split at hs
  · cases hs
  · obtain ⟨⟨s, e⟩, hse, hs⟩ := bind_ok.mp hs
    simp only at hs
    split at hs
    · rename_i hlen
      cases hs
      obtain ⟨h1, h2⟩ := slice_within a' n s e hse
      intro w hw
      rcases mem_setAt _ _ _ _ hw with rfl | hw
      · exact ⟨a', ha', by rw [writeSlice_length _ _ _ (by omega)]; exact hl⟩
      · exact hi w hw
    · cases hs

theorem stepOp_inv (A : Arith α) {h h' : Heap α} (hi : HeapInv h) {op : Op α} {r : Res α}
    (hp : h.permitted op = true) (hs : h.stepOp A op = .ok (h', r)) : HeapInv h' := by
  cases op <;> simp only [stepOp] at hs
  case anew => cases hs; exact inv_newAddr hi _
  case aadd a n l =>
    obtain ⟨x, _, hs⟩ := bind_ok.mp hs
    obtain ⟨y, _, hs⟩ := bind_ok.mp hs
    cases hs
    exact inv_setAddr_unbound hi a y (by simpa [permitted] using hp)
  case aupd a n l =>
    obtain ⟨x, _, hs⟩ := bind_ok.mp hs
    obtain ⟨y, _, hs⟩ := bind_ok.mp hs
    cases hs
    exact inv_setAddr_unbound hi a y (by simpa [permitted] using hp)
  case aalias a suf =>
    obtain ⟨x, _, hs⟩ := bind_ok.mp hs
    cases hs; exact inv_newAddr hi _
  case acomb a b =>
    obtain ⟨x, _, hs⟩ := bind_ok.mp hs
    obtain ⟨y, _, hs⟩ := bind_ok.mp hs
    obtain ⟨c, _, hs⟩ := bind_ok.mp hs
    cases hs; exact inv_newAddr hi _
  case aget a n =>
    obtain ⟨x, _, hs⟩ := bind_ok.mp hs
    obtain ⟨y, _, hs⟩ := bind_ok.mp hs
    cases hs; exact hi
  case ainq a k =>
    obtain ⟨x, _, hs⟩ := bind_ok.mp hs
    obtain ⟨y, _, hs⟩ := bind_ok.mp hs
    cases hs; exact hi
  case vnew a xs =>
    obtain ⟨p, hp', hs⟩ := bind_ok.mp hs
    cases hs; exact inv_mkVars hi hp'
  case vget v n =>
    obtain ⟨x, _, hs⟩ := bind_ok.mp hs
    cases hs; exact hi
  case vgeti v i =>
    obtain ⟨x, _, hs⟩ := bind_ok.mp hs
    cases hs; exact hi
  case vset v n xs =>
    obtain ⟨x, hx, hs⟩ := bind_ok.mp hs
    cases hs; exact varsSet_inv hi hx
  case vop v op left o => exact varsArith_inv A hi hs
  case valias v suf =>
    obtain ⟨p, hp', hs⟩ := bind_ok.mp hs
    cases hs
    unfold varsAlias at hp'
    obtain ⟨x, _, hp'⟩ := bind_ok.mp hp'
    obtain ⟨y, _, hp'⟩ := bind_ok.mp hp'
    exact inv_mkVars (inv_newAddr hi _) hp'
  case vcomb a b =>
    obtain ⟨p, hp', hs⟩ := bind_ok.mp hs
    cases hs
    unfold varsCombine at hp'
    obtain ⟨x, _, hp'⟩ := bind_ok.mp hp'
    obtain ⟨y, _, hp'⟩ := bind_ok.mp hp'
    obtain ⟨z, _, hp'⟩ := bind_ok.mp hp'
    obtain ⟨w, _, hp'⟩ := bind_ok.mp hp'
    obtain ⟨c, _, hp'⟩ := bind_ok.mp hp'
    exact inv_mkVars (inv_newAddr hi _) hp'
  case tnew v l =>
    obtain ⟨p, hp', hs⟩ := bind_ok.mp hs
    cases hs
    unfold tvNew at hp'
    obtain ⟨x, _, hp'⟩ := bind_ok.mp hp'
    obtain ⟨y, _, hp'⟩ := bind_ok.mp hp'
    simp only at hp'
    split at hp'
    · cases hp'
    · cases hp'; exact inv_of_eq hi rfl rfl
  case trow t i =>
    obtain ⟨p, hp', hs⟩ := bind_ok.mp hs
    cases hs
    unfold tvGetRow at hp'
    obtain ⟨x, _, hp'⟩ := bind_ok.mp hp'
    split at hp'
    · cases hp'
    · obtain ⟨k, _, hp'⟩ := bind_ok.mp hp'
      split at hp'
      · cases hp'
      · exact inv_mkVars hi hp'
  case tname t n =>
    obtain ⟨x, _, hs⟩ := bind_ok.mp hs
    cases hs; exact hi
  case tslice t s e =>
    obtain ⟨p, hp', hs⟩ := bind_ok.mp hs
    cases hs
    unfold tvSlice at hp'
    obtain ⟨x, _, hp'⟩ := bind_ok.mp hp'
    obtain ⟨y, _, hp'⟩ := bind_ok.mp hp'
    cases hp'; exact inv_of_eq hi rfl rfl
  case tset t k v =>
    obtain ⟨x, hx, hs⟩ := bind_ok.mp hs
    cases hs
    unfold tvSetRow at hx
    obtain ⟨y, _, hx⟩ := bind_ok.mp hx
    obtain ⟨z, _, hx⟩ := bind_ok.mp hx
    split at hx
    · cases hx
    · obtain ⟨w, _, hx⟩ := bind_ok.mp hx
      simp only at hx
      split at hx
      · cases hx; exact inv_of_eq hi rfl rfl
      · cases hx
  case tapp a b =>
    obtain ⟨x, hx, hs⟩ := bind_ok.mp hs
    cases hs
    unfold tvAppend at hx
    obtain ⟨y, _, hx⟩ := bind_ok.mp hx
    obtain ⟨z, _, hx⟩ := bind_ok.mp hx
    obtain ⟨w, _, hx⟩ := bind_ok.mp hx
    obtain ⟨u, _, hx⟩ := bind_ok.mp hx
    split at hx
    · cases hx; exact inv_of_eq hi rfl rfl
    · cases hx
  case pae a y =>
    obtain ⟨p, hp', hs⟩ := bind_ok.mp hs
    cases hs; exact inv_mkVars hi hp'
  case pdae a Y =>
    obtain ⟨p, hp', hs⟩ := bind_ok.mp hs
    cases hs
    unfold parseDae at hp'
    split at hp'
    · cases hp'
    · obtain ⟨x, _, hp'⟩ := bind_ok.mp hp'
      split at hp'
      · cases hp'
      · split at hp'
        · cases hp'; exact inv_of_eq hi rfl rfl
        · cases hp'

theorem runOps_inv (A : Arith α) (h : Heap α) (ops : List (Op α)) (hi : HeapInv h) :
    HeapInv (runOps A h ops) := by
  induction ops generalizing h with
  | nil => exact hi
  | cons op ops ih =>
    unfold runOps
    split
    · rename_i hp
      split
      · rename_i h' r hs
        exact ih h' (stepOp_inv A hi hp hs)
      · exact ih h hi
    · exact ih h hi

end Heap
end Solverz
