/-
  Proofs/RodasDense.lean — whole runs of the Rodas controller model with more than two requested nodes
  (dense output), no event functions, adaptive mode, exact rationals: the emitted times are always a prefix of
  `tspan`, and all of `tspan` once the end point is reached.
-/
import SolverzModel.Proofs.RodasRun
namespace Solverz
open RodasEnv
open RunHyp (tNew)

structure DenseHyp (E : RodasEnv ℚ) : Prop where
  hO : E.O = ratO
  hh : E.half = 1 / 2
  he : E.events = []
  hd : E.dense = true
  hf : E.opt.fixH = false
  hu : 0 < E.uround
  hmin : 0 < E.hmin
  hmm : E.hmin ≤ E.hmaxV
  hsorted : E.tspan.Pairwise (· < ·)

/-! ### list facts -/

theorem take_succ_reverse (l : List ℚ) (k : Nat) (h : k < l.length) :
    (l.take (k + 1)).reverse = l.getD k 0 :: (l.take k).reverse := by
  rw [List.take_add_one, List.reverse_append]
  simp [List.getD, List.getElem?_eq_getElem h]

theorem sorted_getD (l : List ℚ) (hs : l.Pairwise (· < ·)) (i j : Nat) (hij : i < j) (hj : j < l.length) :
    l.getD i 0 < l.getD j 0 := by
  have hi : i < l.length := lt_trans hij hj
  simp only [List.getD, List.getElem?_eq_getElem hi, List.getElem?_eq_getElem hj, Option.getD_some]
  exact (List.pairwise_iff_getElem.mp hs) i j hi hj hij

theorem getLastD_cons_getD : ∀ (t : List ℚ) (a : ℚ), t.getLastD a = (a :: t).getD t.length 0
  | [], a => by simp
  | b :: t', a => by
      have := getLastD_cons_getD t' b
      simp only [List.getLastD_cons, List.length_cons, List.getD_cons_succ]
      exact this

theorem getLastD_eq_getD (l : List ℚ) (h : 0 < l.length) : l.getLastD 0 = l.getD (l.length - 1) 0 := by
  cases l with
  | nil => simp at h
  | cons a t =>
    simp only [List.getLastD_cons, List.length_cons, Nat.add_sub_cancel]
    exact getLastD_cons_getD t a

structure DenseInv (E : RodasEnv ℚ) (s : RodasState ℚ) : Prop where
  le_tend : s.t ≤ E.tend
  running : s.done = false → s.t < E.tend
  dt_pos : E.hmin ≤ s.dt
  dt_max : s.dt ≤ E.hmaxV
  nostop : s.stop = false
  out : s.T = (E.tspan.take s.inext).reverse
  idx : 1 ≤ s.inext ∧ s.inext ≤ E.tspan.length
  next : s.inext < E.tspan.length → s.tnext = E.tspan.getD s.inext 0 ∧ s.t < s.tnext
  all : s.inext = E.tspan.length → s.t = E.tend
  finished : s.done = true → s.failed = true ∨ s.t = E.tend

namespace DenseHyp
variable {E : RodasEnv ℚ} (H : DenseHyp E)
include H

theorem lt_iff (a b : ℚ) : E.O.lt a b = decide (a < b) := by rw [H.hO]; rfl
theorem le_iff (a b : ℚ) : E.O.le a b = decide (a ≤ b) := by rw [H.hO]; rfl
theorem sub_eq (a b : ℚ) : E.O.sub a b = a - b := by rw [H.hO]; rfl
theorem add_eq (a b : ℚ) : E.O.add a b = a + b := by rw [H.hO]; rfl
theorem mul_eq (a b : ℚ) : E.O.mul a b = a * b := by rw [H.hO]; rfl
theorem zero_eq : E.O.zero = 0 := by rw [H.hO]; rfl
theorem abs_eq (a : ℚ) : E.O.abs a = |a| := by
  rw [H.hO]; simp only [ratO]
  by_cases h : a < 0
  · simp [h, abs_of_neg h]
  · simp [h, abs_of_nonneg (not_lt.mp h)]
theorem events_empty : E.events.isEmpty = true := by simp [H.he]

theorem len_gt : 2 < E.tspan.length := by
  have := H.hd; simpa [RodasEnv.dense] using this

theorem t0_eq : E.t0 = E.tspan.getD 0 0 := by
  unfold RodasEnv.t0
  cases h : E.tspan with
  | nil => have := H.len_gt; simp [h] at this
  | cons a l => simp [H.zero_eq]

theorem tend_eq : E.tend = E.tspan.getD (E.tspan.length - 1) 0 := by
  unfold RodasEnv.tend
  rw [H.zero_eq]
  exact getLastD_eq_getD _ (by have := H.len_gt; omega)

theorem span : E.t0 < E.tend := by
  rw [H.t0_eq, H.tend_eq]
  exact sorted_getD _ H.hsorted 0 _ (by have := H.len_gt; omega) (by have := H.len_gt; omega)

theorem le_omin (c a b : ℚ) (h1 : c ≤ a) (h2 : c ≤ b) : c ≤ E.omin a b := by
  unfold RodasEnv.omin; split <;> assumption

theorem hitEvent_false (s : RodasState ℚ) (hs : s.stop = false) (tn : ℚ) : E.hitEvent s tn = false := by
  simp [RodasEnv.hitEvent, hs]

/-- the dense-output loop emits exactly the requested nodes that the step has reached, in order -/
theorem emitDense_spec (dt : ℚ) (hdt : 0 < dt) : ∀ (fuel : Nat) (s : RodasState ℚ),
    s.stop = false → s.t ≤ E.tend → s.told < E.tend →
    s.T = (E.tspan.take s.inext).reverse → 1 ≤ s.inext → s.inext ≤ E.tspan.length →
    (s.inext < E.tspan.length → s.tnext = E.tspan.getD s.inext 0) →
    (s.inext = E.tspan.length → s.tnext = E.tend + dt) →
    s.told < s.tnext → E.tspan.length - s.inext < fuel →
    (E.emitDense dt fuel s).T = (E.tspan.take (E.emitDense dt fuel s).inext).reverse ∧
    s.inext ≤ (E.emitDense dt fuel s).inext ∧ (E.emitDense dt fuel s).inext ≤ E.tspan.length ∧
    ((E.emitDense dt fuel s).inext < E.tspan.length →
      (E.emitDense dt fuel s).tnext = E.tspan.getD (E.emitDense dt fuel s).inext 0 ∧ s.t < (E.emitDense dt fuel s).tnext) ∧
    ((E.emitDense dt fuel s).inext = E.tspan.length → s.inext < E.tspan.length → s.t = E.tend) ∧
    (E.emitDense dt fuel s).t = s.t ∧ (E.emitDense dt fuel s).stop = s.stop ∧ (E.emitDense dt fuel s).failed = s.failed ∧
    (E.emitDense dt fuel s).done = s.done ∧ (E.emitDense dt fuel s).dt = s.dt := by
  intro fuel
  induction fuel with
  | zero => intro s _ _ _ _ _ _ _ _ _ hfuel; omega
  | succ n ih =>
    intro s hstop hle htold hT h1 hlen hnext hsent hlt hfuel
    simp only [emitDense]
    by_cases hc : (E.O.le s.tnext s.t && E.O.lt s.told s.tnext) = true
    · -- a node is emitted
      simp only [hc, if_true, H.hitEvent_false s hstop, Bool.false_eq_true, if_false]
      rw [H.le_iff, H.lt_iff] at hc
      simp only [Bool.and_eq_true, decide_eq_true_eq] at hc
      -- the node emitted is a real node: the sentinel lies beyond tend
      have hin : s.inext < E.tspan.length := by
        by_contra hcon
        have heq : s.inext = E.tspan.length := by omega
        have := hsent heq
        rw [this] at hc
        linarith [hc.1]
      have htn := hnext hin
      set s' : RodasState ℚ := { s with T := s.tnext :: s.T, inext := s.inext + 1, tnext := E.nextNode dt s } with hs'
      have hnn : E.nextNode dt s = if s.inext + 1 < E.tspan.length then E.tspan.getD (s.inext + 1) 0 else E.tend + dt := by
        unfold RodasEnv.nextNode
        have hl := H.len_gt
        by_cases hk : s.inext + 1 < E.tspan.length
        · have : s.inext + 1 ≤ E.tspan.length - 1 := by omega
          simp only [this, if_true, hk, H.hitEvent_false s hstop, Bool.false_eq_true, if_false, H.zero_eq]
        · have : ¬ s.inext + 1 ≤ E.tspan.length - 1 := by omega
          simp only [this, if_false, hk, H.add_eq]
      have r := ih s' hstop hle htold
        (by simp only [hs']; rw [take_succ_reverse _ _ hin, hT, htn])
        (by simp only [hs']; omega) (by simp only [hs']; omega)
        (by intro hk; simp only [hs'] at hk ⊢; rw [hnn]; simp [hk])
        (by intro hk; simp only [hs'] at hk ⊢; rw [hnn]; have : ¬ s.inext + 1 < E.tspan.length := by omega
            simp [this])
        (by
          simp only [hs']; rw [hnn]
          by_cases hk : s.inext + 1 < E.tspan.length
          · simp only [hk, if_true]
            have := sorted_getD _ H.hsorted s.inext (s.inext + 1) (by omega) hk
            rw [← htn] at this; linarith
          · simp only [hk, if_false]; linarith)
        (by simp only [hs']; omega)
      obtain ⟨r1, r2, r3, r4, r5, r6, r7, r8, r9, r10⟩ := r
      have r2' : s.inext + 1 ≤ (E.emitDense dt n s').inext := r2
      refine ⟨r1, by omega, r3, r4, ?_, r6, r7, r8, r9, r10⟩
      intro hall _
      by_cases hk : s.inext + 1 < E.tspan.length
      · exact r5 hall (by simp only [hs']; exact hk)
      · -- the node just emitted is the last one: tend ≤ t ≤ tend
        have hlast : s.inext = E.tspan.length - 1 := by omega
        have : s.tnext = E.tend := by rw [htn, H.tend_eq, hlast]
        rw [this] at hc
        linarith [hc.1]
    · -- nothing (more) to emit
      have hc' : (E.O.le s.tnext s.t && E.O.lt s.told s.tnext) = false := by simpa using hc
      simp only [hc', Bool.false_eq_true, if_false]
      rw [H.le_iff, H.lt_iff] at hc'
      simp only [Bool.and_eq_false_iff, decide_eq_false_iff_not, not_le, not_lt] at hc'
      have hgt : s.t < s.tnext := by
        rcases hc' with h | h
        · exact h
        · linarith
      refine ⟨hT, le_refl _, hlen, fun hk => ⟨hnext hk, hgt⟩, fun hall hk => by omega, by trivial, by trivial, by trivial, by trivial, by trivial⟩

/-- the initial state satisfies the invariant -/
theorem init_inv : DenseInv E E.init := by
  have hl := H.len_gt
  refine ⟨by simp [init]; exact le_of_lt H.span, fun _ => by simp [init]; exact H.span, ?_, ?_, by simp [init], ?_, by simp [init]; omega,
    ?_, fun h => by simp [init] at h; omega, by simp [init]⟩
  · show E.hmin ≤ E.omin (E.omax _ E.hmin) E.hmaxV
    exact H.le_omin _ _ _ (omax_ge E H.hO _ E.hmin).2 H.hmm
  · show E.omin (E.omax _ E.hmin) E.hmaxV ≤ E.hmaxV
    exact (omin_le_left E H.hO _ E.hmaxV).2
  · simp only [init]
    cases hts : E.tspan with
    | nil => simp [hts] at hl
    | cons a l => simp [RodasEnv.t0, hts]
  · intro _
    simp only [init, H.hd, if_true, H.zero_eq]
    refine ⟨trivial, ?_⟩
    rw [H.t0_eq]
    exact sorted_getD _ H.hsorted 0 1 (by omega) (by omega)

/-- the step taken from a running state is positive and does not pass `tend` -/
theorem stepDt_pos (s : RodasState ℚ) (I : DenseInv E s) (hr : s.done = false) :
    0 < E.stepDt s ∧ s.t + E.stepDt s ≤ E.tend ∧ (E.isLast s = false → s.t + E.stepDt s < E.tend) := by
  have hlt := I.running hr
  have hdt : 0 < s.dt := lt_of_lt_of_le H.hmin I.dt_pos
  simp only [RodasEnv.stepDt, RodasEnv.adaptDt, RodasEnv.isLast, H.hf, Bool.false_eq_true, if_false, Bool.not_false, Bool.and_true]
  by_cases hs : E.stretch s = true
  · simp only [hs, if_true, H.sub_eq]
    refine ⟨by linarith, by linarith, fun h => by simp at h⟩
  · simp only [hs, Bool.false_eq_true, if_false]
    have hm := omin_le_left E H.hO s.dt (E.O.mul E.half (E.O.sub E.tend s.t))
    rw [H.mul_eq, H.sub_eq, H.hh] at hm ⊢
    have hpos : 0 < E.omin s.dt (1 / 2 * (E.tend - s.t)) := by
      unfold RodasEnv.omin; split
      · linarith
      · exact hdt
    refine ⟨hpos, by linarith [hm.2], fun _ => by linarith [hm.2]⟩

/-- the state after the step bookkeeping and the dense-output loop of an accepted attempt -/
def afterOutput (E : RodasEnv ℚ) (s : RodasState ℚ) : RodasState ℚ :=
  E.emitDense (E.stepDt s) (E.tspan.length + 1) (E.advance { s with attempts := s.attempts + 1 })

theorem accepted_fields (err fac0 : ℚ) (s : RodasState ℚ)
    (h1 : E.O.lt (E.O.abs s.dt) E.uround = false) (h2 : ¬ s.reject > 100) (ha : E.O.le err E.O.one = true) :
    (E.attempt err fac0 s).t = (afterOutput E s).t ∧ (E.attempt err fac0 s).T = (afterOutput E s).T ∧
    (E.attempt err fac0 s).inext = (afterOutput E s).inext ∧ (E.attempt err fac0 s).tnext = (afterOutput E s).tnext ∧
    (E.attempt err fac0 s).stop = (afterOutput E s).stop ∧ (E.attempt err fac0 s).failed = (afterOutput E s).failed ∧
    (E.attempt err fac0 s).done = (decide (E.tend ≤ (afterOutput E s).t) || (afterOutput E s).stop) := by
  have e2 : E.stepDt { s with attempts := s.attempts + 1 } = E.stepDt s := rfl
  simp only [attempt, h1, h2, H.hf, ha, Bool.false_eq_true, if_false, if_true, accept, doEvents, H.events_empty, output, H.hd,
    finish, e2, afterOutput]
  simp only [H.lt_iff, H.le_iff, H.abs_eq, H.sub_eq, Bool.not_true, Bool.and_false, Bool.false_or, Bool.false_and, Bool.or_false]
  refine ⟨?_, ?_, ?_, ?_, ?_, ?_, ?_⟩ <;> first | trivial | rfl

theorem rejected_fields (err fac0 : ℚ) (s : RodasState ℚ)
    (h1 : E.O.lt (E.O.abs s.dt) E.uround = false) (h2 : ¬ s.reject > 100) (ha : E.O.le err E.O.one = false) :
    (E.attempt err fac0 s).t = s.t ∧ (E.attempt err fac0 s).T = s.T ∧ (E.attempt err fac0 s).inext = s.inext ∧
    (E.attempt err fac0 s).tnext = s.tnext ∧
    (E.attempt err fac0 s).stop = s.stop ∧ (E.attempt err fac0 s).failed = s.failed ∧ (E.attempt err fac0 s).done = s.done := by
  simp [attempt, h1, h2, H.hf, ha, rejectStep]

/-- one attempt preserves the invariant -/
theorem attempt_inv (err fac0 : ℚ) (s : RodasState ℚ) (I : DenseInv E s) (hr : s.done = false) :
    DenseInv E (E.attempt err fac0 s) := by
  by_cases h1 : E.O.lt (E.O.abs s.dt) E.uround = true
  · have : E.attempt err fac0 s = { s with failed := true, done := true } := by simp [attempt, h1]
    rw [this]
    exact ⟨I.le_tend, fun h => by simp at h, I.dt_pos, I.dt_max, I.nostop, I.out, I.idx, I.next, I.all, fun _ => Or.inl rfl⟩
  by_cases h2 : s.reject > 100
  · have : E.attempt err fac0 s = { s with failed := true, done := true } := by simp [attempt, h1, h2]
    rw [this]
    exact ⟨I.le_tend, fun h => by simp at h, I.dt_pos, I.dt_max, I.nostop, I.out, I.idx, I.next, I.all, fun _ => Or.inl rfl⟩
  have h1' : E.O.lt (E.O.abs s.dt) E.uround = false := by simpa using h1
  have hcl := attempt_dt_clamped E H.hO err fac0 s h1' h2 H.hmm
  by_cases ha : E.O.le err E.O.one = true
  · obtain ⟨ft, fT, fi, fn, fstop, ffail, fdone⟩ := H.accepted_fields err fac0 s h1' h2 ha
    have hstep := H.stepDt_pos s I hr
    have hrun := I.running hr
    -- the time after the step
    have hadv : (E.advance { s with attempts := s.attempts + 1 }).t = tNew E s ∧
        (E.advance { s with attempts := s.attempts + 1 }).told = s.t := by
      simp only [advance, tNew, H.add_eq]; refine ⟨?_, ?_⟩ <;> first | trivial | rfl
    have hgt : s.t < tNew E s ∧ tNew E s ≤ E.tend ∧ (E.isLast s = false → tNew E s < E.tend) ∧
        (E.isLast s = true → tNew E s = E.tend) := by
      unfold tNew
      by_cases hl : E.isLast s = true
      · simp only [hl, if_true]
        exact ⟨hrun, le_refl _, fun h => by simp at h, fun _ => trivial⟩
      · have hl' : E.isLast s = false := by simpa using hl
        simp only [hl', Bool.false_eq_true, if_false]
        exact ⟨by linarith [hstep.1], hstep.2.1, fun _ => hstep.2.2 hl', fun h => by simp at h⟩
    have hin : s.inext < E.tspan.length := by
      by_contra hcon
      have : s.inext = E.tspan.length := by have := I.idx.2; omega
      have := I.all this
      linarith
    have hnx := I.next hin
    have spec := H.emitDense_spec (E.stepDt s) hstep.1 (E.tspan.length + 1) (E.advance { s with attempts := s.attempts + 1 })
      (by simpa [advance] using I.nostop) (by rw [hadv.1]; exact hgt.2.1) (by rw [hadv.2]; exact hrun)
      (by simpa [advance] using I.out) (by simpa [advance] using I.idx.1) (by simpa [advance] using I.idx.2)
      (fun _ => by simpa [advance] using hnx.1) (fun hk => by simp [advance] at hk; omega)
      (by rw [hadv.2]; simpa [advance] using hnx.2) (by simp [advance]; omega)
    change _ ∧ _ ∧ _ ∧ _ ∧ _ ∧ (afterOutput E s).t = _ ∧ (afterOutput E s).stop = _ ∧ (afterOutput E s).failed = _ ∧
      (afterOutput E s).done = _ ∧ (afterOutput E s).dt = _ at spec
    obtain ⟨p1, p2, p3, p4, p5, p6, p7, p8, p9, p10⟩ := spec
    have p1' : (afterOutput E s).T = (E.tspan.take (afterOutput E s).inext).reverse := p1
    have p3' : (afterOutput E s).inext ≤ E.tspan.length := p3
    have p2' : s.inext ≤ (afterOutput E s).inext := p2
    have p4' : (afterOutput E s).inext < E.tspan.length →
        (afterOutput E s).tnext = E.tspan.getD (afterOutput E s).inext 0 ∧ tNew E s < (afterOutput E s).tnext := by
      intro hk; have := p4 hk; rw [hadv.1] at this; exact this
    have p5' : (afterOutput E s).inext = E.tspan.length → tNew E s = E.tend := by
      intro hk; have := p5 hk (by simpa [advance] using hin); rw [hadv.1] at this; exact this
    have p6' : (afterOutput E s).t = tNew E s := by rw [p6, hadv.1]
    have p7' : (afterOutput E s).stop = false := by rw [p7]; simpa [advance] using I.nostop
    refine ⟨by rw [ft, p6']; exact hgt.2.1, ?_, hcl.1, hcl.2, by rw [fstop, p7'], by rw [fT, fi]; exact p1',
      by rw [fi]; exact ⟨le_trans I.idx.1 p2', p3'⟩, ?_, ?_, ?_⟩
    · intro hdone
      rw [fdone, p6', p7'] at hdone
      rw [ft, p6']
      simp only [Bool.or_false, decide_eq_false_iff_not] at hdone
      by_cases hl : E.isLast s = true
      · exfalso; apply hdone; rw [hgt.2.2.2 hl]
      · exact hgt.2.2.1 (by simpa using hl)
    · intro hk
      rw [fi] at hk
      rw [fn, ft, fi, p6']
      exact p4' hk
    · intro hk
      rw [fi] at hk
      rw [ft, p6']
      exact p5' hk
    · intro hdone
      rw [fdone, p6', p7'] at hdone
      rw [ft, p6']
      simp only [Bool.or_false, decide_eq_true_eq] at hdone
      right
      exact le_antisymm hgt.2.1 hdone
  · have ha' : E.O.le err E.O.one = false := by simpa using ha
    obtain ⟨ft, fT, fi, fn, fstop, ffail, fdone⟩ := H.rejected_fields err fac0 s h1' h2 ha'
    refine ⟨by rw [ft]; exact I.le_tend, fun _ => by rw [ft]; exact I.running hr, hcl.1, hcl.2, by rw [fstop]; exact I.nostop,
      by rw [fT, fi]; exact I.out, by rw [fi]; exact I.idx, fun hk => by rw [fi] at hk; rw [fn, ft, fi]; exact I.next hk,
      fun hk => by rw [fi] at hk; rw [ft]; exact I.all hk, fun h => by rw [fdone, hr] at h; cases h⟩

/-- **every state reached by a dense-output run satisfies the invariant** -/
theorem run_inv (script : List (ℚ × ℚ)) (s : RodasState ℚ) (I : DenseInv E s) : DenseInv E (E.run script s) := by
  induction script generalizing s with
  | nil => exact I
  | cons ef rest ih =>
    obtain ⟨e, f⟩ := ef
    simp only [run]
    by_cases hd : s.done = true
    · simp [hd]; exact I
    · have hd' : s.done = false := by simpa using hd
      simp only [hd', Bool.false_eq_true, if_false]
      exact ih _ (H.attempt_inv e f s I hd')

end DenseHyp
end Solverz
