/-
  Proofs/FdaeGrid.lean — the time grid of `fdae_solver` over exact rationals.
-/
import SolverzModel.Core.Ctl.FixedStep
import Mathlib.Tactic.Linarith
import Mathlib.Tactic.Ring
namespace Solverz

theorem ratO_lt (a b : ℚ) : ratO.lt a b = decide (a < b) := rfl
theorem ratO_le (a b : ℚ) : ratO.le a b = decide (a ≤ b) := rfl
theorem ratO_abs (a : ℚ) : ratO.abs a = |a| := by
  simp only [ratO]
  by_cases h : a < 0
  · simp [h, abs_of_neg h]
  · simp [h, abs_of_nonneg (not_lt.mp h)]

/-- one unfolding of the loop in ordinary notation -/
theorem fdaeLoop_succ (tend uround slack dt tt : ℚ) (fuel : Nat) :
    fdaeLoop ratO tend uround slack (fuel + 1) tt dt =
      if tend ≤ tt + dt * slack then [tend]
      else if |tend - (tt + dt)| < uround then [tt + dt]
      else (tt + dt) :: fdaeLoop ratO tend uround slack fuel (tt + dt) dt := by
  simp only [fdaeLoop, ratO_le, ratO_lt, ratO_abs]
  by_cases h : tend ≤ tt + dt * slack
  · have : ratO.add tt (ratO.mul dt slack) = tt + dt * slack := rfl
    simp [this, h]
  · have h1 : ratO.add tt (ratO.mul dt slack) = tt + dt * slack := rfl
    have h2 : ratO.add tt dt = tt + dt := rfl
    have h3 : ∀ a b : ℚ, ratO.sub a b = a - b := fun _ _ => rfl
    simp only [h1, h, decide_false, Bool.false_eq_true, if_false, h2, h3, Bool.false_or, decide_eq_true_eq]

/-- **The fdae grid.**  From `tt < tend` with a step `dt > 0` and an end-test slack `≥ 1`: every returned time lies in
`(tt, tend]`, the times increase strictly, every time but the last is `tt + (j+1)·dt` exactly, and — when the loop is
given enough iterations — the last time is `tend` itself or lies within `uround` below it. -/
theorem fdaeLoop_spec (tend uround slack dt : ℚ) (hdt : 0 < dt) (hs : 1 ≤ slack) :
    ∀ (fuel : Nat) (tt : ℚ), tt < tend →
      (∀ x ∈ fdaeLoop ratO tend uround slack fuel tt dt, tt < x ∧ x ≤ tend) ∧
      (fdaeLoop ratO tend uround slack fuel tt dt).Pairwise (· < ·) ∧
      (∀ j, j + 1 < (fdaeLoop ratO tend uround slack fuel tt dt).length →
        (fdaeLoop ratO tend uround slack fuel tt dt)[j]? = some (tt + ((j : ℚ) + 1) * dt)) ∧
      (tend - tt < (fuel : ℚ) * dt →
        ∃ last, (fdaeLoop ratO tend uround slack fuel tt dt).getLast? = some last ∧
          (last = tend ∨ (0 ≤ tend - last ∧ tend - last < uround))) := by
  intro fuel
  induction fuel with
  | zero =>
    intro tt htt
    refine ⟨by simp [fdaeLoop], by simp [fdaeLoop], by simp [fdaeLoop], ?_⟩
    intro h; simp at h; linarith
  | succ n ih =>
    intro tt htt
    rw [fdaeLoop_succ]
    by_cases h1 : tend ≤ tt + dt * slack
    · simp only [h1, if_true]
      refine ⟨by intro x hx; simp at hx; subst hx; exact ⟨htt, le_refl _⟩, by simp, by intro j hj; simp at hj, ?_⟩
      intro _; exact ⟨tend, by simp, Or.inl rfl⟩
    · simp only [h1, if_false]
      have hlt : tt + dt < tend := by
        have : tt + dt * slack < tend := not_le.mp h1
        nlinarith
      by_cases h2 : |tend - (tt + dt)| < uround
      · simp only [h2, if_true]
        refine ⟨by intro x hx; simp at hx; subst hx; exact ⟨by linarith, le_of_lt hlt⟩, by simp, by intro j hj; simp at hj, ?_⟩
        intro _
        refine ⟨tt + dt, by simp, Or.inr ⟨by linarith, ?_⟩⟩
        rwa [abs_of_pos (by linarith)] at h2
      · simp only [h2, if_false]
        obtain ⟨i1, i2, i3, i4⟩ := ih (tt + dt) hlt
        refine ⟨?_, ?_, ?_, ?_⟩
        · intro x hx
          rcases List.mem_cons.mp hx with rfl | hx'
          · exact ⟨by linarith, le_of_lt hlt⟩
          · have := i1 x hx'; exact ⟨by linarith [this.1], this.2⟩
        · rw [List.pairwise_cons]
          exact ⟨fun x hx => (i1 x hx).1, i2⟩
        · intro j hj
          cases j with
          | zero => simp
          | succ j' =>
            simp only [List.length_cons] at hj
            have := i3 j' (by omega)
            simp only [List.getElem?_cons_succ, this]
            congr 1; push_cast; ring
        · intro hf
          have hf' : tend - (tt + dt) < (n : ℚ) * dt := by push_cast at hf; linarith
          obtain ⟨last, hl, hcase⟩ := i4 hf'
          refine ⟨last, ?_, hcase⟩
          cases hL : fdaeLoop ratO tend uround slack n (tt + dt) dt with
          | nil => simp [hL] at hl
          | cons a l => rw [hL] at hl; simpa [List.getLast?_cons_cons] using hl

theorem ratO_ofNat (n : Nat) : ratO.ofNat n = (n : ℚ) := rfl

/-- in exact arithmetic the grid the code computes now (`t0 + k·h`, absolute end-test allowance `slackAbs·h`) is the grid of `fdaeLoop`
with slack `1 + slackAbs` -/
theorem fdaeLoopK_eq (t0 tend h uround sa : ℚ) (fuel : Nat) : ∀ k : Nat,
    fdaeLoopK ratO (fun _ => 0) t0 tend h uround sa fuel k (t0 + (k : ℚ) * h) =
      fdaeLoop ratO tend uround (1 + sa) fuel (t0 + (k : ℚ) * h) h := by
  induction fuel with
  | zero => intro k; simp [fdaeLoopK, fdaeLoop]
  | succ n ih =>
    intro k
    rw [fdaeLoop_succ]
    have hadd : ∀ a b : ℚ, ratO.add a b = a + b := fun _ _ => rfl
    have hsub : ∀ a b : ℚ, ratO.sub a b = a - b := fun _ _ => rfl
    have hmul : ∀ a b : ℚ, ratO.mul a b = a * b := fun _ _ => rfl
    have hnext : t0 + ((k + 1 : ℕ) : ℚ) * h = t0 + (k : ℚ) * h + h := by push_cast; ring
    have hiff : (tend - (sa * h + 4 * 0) ≤ t0 + (k : ℚ) * h + h) ↔ (tend ≤ t0 + (k : ℚ) * h + h * (1 + sa)) := by
      constructor <;> intro hh <;> nlinarith
    simp only [fdaeLoopK, ratO_le, ratO_lt, ratO_abs, hadd, hsub, hmul, ratO_ofNat]
    have hk : t0 + ((k : ℚ) + 1) * h = t0 + (k : ℚ) * h + h := by ring
    have hc : (tend ≤ t0 + (k : ℚ) * h + h + sa * h) ↔ (tend ≤ t0 + (k : ℚ) * h + h * (1 + sa)) := by
      constructor <;> intro hh <;> nlinarith
    by_cases h1 : tend ≤ t0 + (k : ℚ) * h + h * (1 + sa)
    · have h1s := hc.mpr h1
      simp [h1, h1s]
    · have h1s : ¬ (tend ≤ t0 + (k : ℚ) * h + h + sa * h) := fun hh => h1 (hc.mp hh)
      have ih' := ih (k + 1)
      rw [hnext] at ih'
      by_cases h2 : |tend - (t0 + (k : ℚ) * h + h)| < uround
      · simp [h1, h1s, hk, h2]
      · simp [h1, h1s, hk, h2, ih']

/-- in exact arithmetic the grid `t0 + k·dt` the code computes now is the accumulated grid of `gridLoop` -/
theorem gridLoopK_eq (t0 tend dt : ℚ) (fuel : Nat) : ∀ k : Nat,
    gridLoopK ratO t0 tend dt fuel k (t0 + (k : ℚ) * dt) = gridLoop ratO tend dt fuel (t0 + (k : ℚ) * dt) := by
  induction fuel with
  | zero => intro k; simp [gridLoopK, gridLoop]
  | succ n ih =>
    intro k
    have hadd : ∀ a b : ℚ, ratO.add a b = a + b := fun _ _ => rfl
    have hmul : ∀ a b : ℚ, ratO.mul a b = a * b := fun _ _ => rfl
    have hnext : t0 + ((k + 1 : ℕ) : ℚ) * dt = t0 + (k : ℚ) * dt + dt := by push_cast; ring
    have ih' := ih (k + 1)
    rw [hnext] at ih'
    simp only [gridLoopK, gridLoop, hadd, hmul, ratO_ofNat]
    split
    · rw [hnext, ih']
    · rfl

theorem fixedGridK_eq (t0 tend dt : ℚ) : fixedGridK ratO t0 tend dt = fixedGrid ratO t0 tend dt := by
  have key := gridLoopK_eq t0 tend dt (ratO.trunc (ratO.div (ratO.sub tend t0) dt) + 100) 0
  simp only [Nat.cast_zero, zero_mul, add_zero] at key
  simp only [fixedGridK, fixedGrid, key]

end Solverz
