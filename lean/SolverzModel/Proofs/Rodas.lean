/-
  Proofs/Rodas.lean — invariants of the Rodas controller model.
-/
import SolverzModel.Core.Ctl.Rodas
import Mathlib.Tactic.Linarith
namespace Solverz
namespace RodasEnv
variable {α : Type} (E : RodasEnv α)

/-! ### the event block: structural facts for every number type -/

@[simp] theorem abandon_fields (s : RodasState α) (le : Option α) :
    (E.abandon s le).T = s.T ∧ (E.abandon s le).te = s.te ∧ (E.abandon s le).ie = s.ie ∧
    (E.abandon s le).t = s.t ∧ (E.abandon s le).told = s.told ∧ (E.abandon s le).stop = s.stop := by
  unfold abandon; simp

/-- no component passes the direction filter ⇒ the event block leaves the state alone -/
theorem eventLoop_no_detect (dt : α) (vo vn : List α) (ff : List Nat) (s : RodasState α)
    (h : ∀ i ∈ ff, E.detect vo vn i = false) : E.eventLoop dt vo vn ff s = s := by
  induction ff generalizing s with
  | nil => rfl
  | cons i rest ih =>
    simp only [eventLoop, h i List.mem_cons_self, Bool.not_false, if_true]
    exact ih s (fun j hj => h j (List.mem_cons_of_mem _ hj))

/-- the event block never touches the emitted times, only prepends to the event lists, and every
event it records belongs to a component of `ff` that passed the direction filter -/
theorem eventLoop_spec (dt : α) (vo vn : List α) (ff : List Nat) (s : RodasState α) :
    (E.eventLoop dt vo vn ff s).T = s.T ∧ (E.eventLoop dt vo vn ff s).told = s.told ∧
    ∃ new : List (α × Nat), (E.eventLoop dt vo vn ff s).te = new.map (·.1) ++ s.te ∧
      (E.eventLoop dt vo vn ff s).ie = new.map (·.2) ++ s.ie ∧
      (∀ p ∈ new, p.2 ∈ ff ∧ E.detect vo vn p.2 = true) ∧
      ((E.eventLoop dt vo vn ff s).stop = true → s.stop = true ∨
        ∃ p, new.head? = some p ∧ E.isTerminal p.2 = true ∧ (E.eventLoop dt vo vn ff s).t = p.1) := by
  induction ff generalizing s with
  | nil => exact ⟨rfl, rfl, [], by simp [eventLoop], by simp [eventLoop], by simp, fun h => Or.inl h⟩
  | cons i rest ih =>
    simp only [eventLoop]
    by_cases hd : E.detect vo vn i = true
    · simp only [hd, Bool.not_true, Bool.false_eq_true, if_false]
      split
      · have := E.abandon_fields s (E.locate dt s (vo.getD i E.O.zero) (vn.getD i E.O.zero) i).2
        exact ⟨this.1, this.2.2.2.2.1, [], by simp [this.2.1], by simp [this.2.2.1], by simp,
          fun h => Or.inl (this.2.2.2.2.2 ▸ h)⟩
      · split
        · rename_i hterm
          refine ⟨rfl, rfl, [((E.locate dt s (vo.getD i E.O.zero) (vn.getD i E.O.zero) i).1, i)], ?_, ?_, ?_, ?_⟩
          · simp [terminate, register]
          · simp [terminate, register]
          · intro p hp; simp only [List.mem_singleton] at hp; subst hp; exact ⟨List.mem_cons_self, hd⟩
          · intro _; exact Or.inr ⟨_, rfl, hterm, by simp [terminate, register]⟩
        · obtain ⟨h1, h2, new, h3, h4, h5, h6⟩ :=
            ih (register s (E.locate dt s (vo.getD i E.O.zero) (vn.getD i E.O.zero) i).1 i)
          refine ⟨h1, h2, new ++ [((E.locate dt s (vo.getD i E.O.zero) (vn.getD i E.O.zero) i).1, i)], ?_, ?_, ?_, ?_⟩
          · simpa [register] using h3
          · simpa [register] using h4
          · intro p hp
            rcases List.mem_append.mp hp with hp | hp
            · exact ⟨List.mem_cons_of_mem _ (h5 p hp).1, (h5 p hp).2⟩
            · simp only [List.mem_singleton] at hp; subst hp; exact ⟨List.mem_cons_self, hd⟩
          · intro hs
            rcases h6 hs with h | ⟨p, hp, ht, hpt⟩
            · exact Or.inl (by simpa [register] using h)
            · refine Or.inr ⟨p, ?_, ht, hpt⟩
              cases new with
              | nil => simp at hp
              | cons q qs => simpa using hp
    · have hd' : E.detect vo vn i = false := by simpa using hd
      simp only [hd', Bool.not_false, if_true]
      obtain ⟨h1, h2, new, h3, h4, h5, h6⟩ := ih s
      exact ⟨h1, h2, new, h3, h4, fun p hp => ⟨List.mem_cons_of_mem _ (h5 p hp).1, (h5 p hp).2⟩, h6⟩

end RodasEnv

/-! ### the bisection over exact rationals: the bracket invariant -/

/-- one bisection update keeps `tL ≤ tevent ≤ tR` and never widens the bracket -/
theorem bisectStep_bracket (E : RodasEnv ℚ) (hO : E.O = ratO) (hh : E.half = 1 / 2) (i : Nat)
    (tL tR tev v0 v1 : ℚ) (h1 : tL ≤ tev) (h2 : tev ≤ tR) :
    let r := (E.bisectStep i (tL, tR, tev, v0, v1)).2
    tL ≤ r.1 ∧ r.1 ≤ r.2.2.1 ∧ r.2.2.1 ≤ r.2.1 ∧ r.2.1 ≤ tR := by
  have hmul : ∀ a b : ℚ, E.O.mul a b = a * b := by intro a b; rw [hO]; rfl
  have hadd : ∀ a b : ℚ, E.O.add a b = a + b := by intro a b; rw [hO]; rfl
  simp only [RodasEnv.bisectStep]
  split
  · simp only [hmul, hadd, hh]; refine ⟨h1, ?_, ?_, le_refl _⟩ <;> linarith
  · split
    · simp only [hmul, hadd, hh]; refine ⟨le_refl _, ?_, ?_, h2⟩ <;> linarith
    · exact ⟨le_refl _, h1, h2, le_refl _⟩

/-- **Bracket invariant of the bisection**: the located event time stays inside the initial bracket -/
theorem bisect_bracket (E : RodasEnv ℚ) (hO : E.O = ratO) (hh : E.half = 1 / 2) (i : Nat) (tol : ℚ) (fuel : Nat)
    (st : ℚ × ℚ × ℚ × ℚ × ℚ) (le : Option ℚ) (h1 : st.1 ≤ st.2.2.1) (h2 : st.2.2.1 ≤ st.2.1) :
    st.1 ≤ (E.bisect i tol fuel st le).1 ∧ (E.bisect i tol fuel st le).1 ≤ st.2.1 := by
  induction fuel generalizing st le with
  | zero => exact ⟨h1, h2⟩
  | succ n ih =>
    obtain ⟨tL, tR, tev, v0, v1⟩ := st
    have hb := bisectStep_bracket E hO hh i tL tR tev v0 v1 h1 h2
    simp only at hb
    simp only [RodasEnv.bisect]
    split
    · have := ih (E.bisectStep i (tL, tR, tev, v0, v1)).2 (some tev) hb.2.1 hb.2.2.1
      exact ⟨le_trans hb.1 this.1, le_trans this.2 hb.2.2.2⟩
    · exact ⟨le_trans hb.1 hb.2.1, le_trans hb.2.2.1 hb.2.2.2⟩

/-! ### one attempt of the controller -/

namespace RodasEnv
variable {α : Type} (E : RodasEnv α)

theorem emitDense_fields (dt : α) (fuel : Nat) (s : RodasState α) :
    (E.emitDense dt fuel s).nstep = s.nstep ∧ (E.emitDense dt fuel s).reject = s.reject ∧
    (E.emitDense dt fuel s).te = s.te ∧ (E.emitDense dt fuel s).ie = s.ie ∧ (E.emitDense dt fuel s).t = s.t ∧
    (E.emitDense dt fuel s).nreject = s.nreject := by
  induction fuel generalizing s with
  | zero => simp [emitDense]
  | succ n ih =>
    simp only [emitDense]
    split
    · split
      · simp
      · have := ih { s with T := s.tnext :: s.T, inext := s.inext + 1, tnext := E.nextNode dt s }
        simpa using this
    · simp

theorem eventLoop_counters (dt : α) (vo vn : List α) (ff : List Nat) (s : RodasState α) :
    (E.eventLoop dt vo vn ff s).nstep = s.nstep ∧ (E.eventLoop dt vo vn ff s).reject = s.reject ∧
    (E.eventLoop dt vo vn ff s).nreject = s.nreject := by
  induction ff generalizing s with
  | nil => simp [eventLoop]
  | cons i rest ih =>
    simp only [eventLoop]
    split
    · exact ih s
    · split
      · unfold abandon; simp
      · split
        · simp [terminate, register]
        · have := ih (register s (E.locate dt s (vo.getD i E.O.zero) (vn.getD i E.O.zero) i).1 i)
          simpa [register] using this

/-- the event block never changes the event values it was entered with -/
theorem eventLoop_value (dt : α) (vo vn : List α) (ff : List Nat) (s : RodasState α) :
    (E.eventLoop dt vo vn ff s).value = s.value := by
  induction ff generalizing s with
  | nil => simp [eventLoop]
  | cons i rest ih =>
    simp only [eventLoop]
    split
    · exact ih s
    · split
      · unfold abandon; rfl
      · split
        · simp [terminate, register]
        · have := ih (register s (E.locate dt s (vo.getD i E.O.zero) (vn.getD i E.O.zero) i).1 i)
          simpa [register] using this

/-- after the event block `value` holds the event functions at the end of the step just taken (the next step compares with these),
whichever way the block was left: nothing detected, events recorded, a terminal event, or an event abandoned within `event_duration` -/
theorem doEvents_value (dt : α) (s : RodasState α) :
    (E.doEvents dt s).value = if E.events.isEmpty then s.value else E.evalEvents s.t := by
  unfold doEvents
  split
  · rfl
  · simp only []
    rw [eventLoop_value]

theorem doEvents_counters (dt : α) (s : RodasState α) :
    (E.doEvents dt s).nstep = s.nstep ∧ (E.doEvents dt s).reject = s.reject ∧ (E.doEvents dt s).nreject = s.nreject := by
  unfold doEvents
  split
  · exact ⟨rfl, rfl, rfl⟩
  · exact E.eventLoop_counters dt _ _ _ _

theorem output_counters (dt : α) (s : RodasState α) :
    (E.output dt s).nstep = s.nstep ∧ (E.output dt s).reject = s.reject ∧ (E.output dt s).nreject = s.nreject := by
  unfold output
  split
  · have := E.emitDense_fields dt (E.tspan.length + 1) s
    exact ⟨this.1, this.2.1, this.2.2.2.2.2⟩
  · exact ⟨rfl, rfl, rfl⟩

/-- counters after an accepted step -/
theorem accept_counters (s : RodasState α) :
    (E.accept s).reject = 0 ∧ (E.accept s).nstep = s.nstep + 1 ∧ (E.accept s).nreject = s.nreject := by
  have a := E.output_counters (E.stepDt s) (E.doEvents (E.stepDt s) (E.advance s))
  have b := E.doEvents_counters (E.stepDt s) (E.advance s)
  simp only [accept, finish]
  exact ⟨a.2.1.trans b.2.1, a.1.trans b.1, a.2.2.trans b.2.2⟩

/-- an attempt that does not hit a failure exit is accepted exactly when `err ≤ 1`: an accepted
attempt counts one step and clears the rejection counter, a rejected one changes neither the time nor
the output and forbids growth of the next step (`facmax = 1`) -/
theorem attempt_accept_iff (err fac0 : α) (s : RodasState α) (hf : E.opt.fixH = false)
    (h1 : E.O.lt (E.O.abs s.dt) E.uround = false) (h2 : ¬ s.reject > 100) :
    (E.O.le err E.O.one = true → (E.attempt err fac0 s).reject = 0 ∧ (E.attempt err fac0 s).nstep = s.nstep + 1 ∧
        (E.attempt err fac0 s).nreject = s.nreject) ∧
    (E.O.le err E.O.one = false → (E.attempt err fac0 s).reject = s.reject + 1 ∧
        (E.attempt err fac0 s).nreject = s.nreject + 1 ∧ (E.attempt err fac0 s).T = s.T ∧
        (E.attempt err fac0 s).t = s.t ∧ (E.attempt err fac0 s).facmax = E.O.one ∧ (E.attempt err fac0 s).nstep = s.nstep) := by
  simp only [attempt, h1, h2, hf, Bool.false_eq_true, if_false]
  constructor
  · intro h
    simp only [h, if_true]
    have := E.accept_counters { s with attempts := s.attempts + 1 }
    exact this
  · intro h
    simp [h, rejectStep]

/-- both failure exits are reported -/
theorem attempt_failure_reported (err fac0 : α) (s : RodasState α)
    (h : E.O.lt (E.O.abs s.dt) E.uround = true ∨ s.reject > 100) :
    (E.attempt err fac0 s).failed = true ∧ (E.attempt err fac0 s).done = true ∧ (E.attempt err fac0 s).T = s.T := by
  simp only [attempt]
  rcases h with h | h
  · simp [h]
  · split <;> simp [h]

/-- without events and with a two-node tspan an accepted last step ends at `tend` itself -/
theorem accept_last_is_tend (s : RodasState α) (he : E.events = []) (hd : E.dense = false) (hl : E.isLast s = true) :
    (E.accept s).t = E.tend ∧ (E.accept s).T = E.tend :: s.T := by
  have hemp : E.events.isEmpty = true := by simp [he]
  simp [accept, finish, output, doEvents, advance, hemp, hd, hl]

end RodasEnv

/-! ### step-size facts over exact rationals -/

theorem omin_le_left (E : RodasEnv ℚ) (hO : E.O = ratO) (a b : ℚ) : E.omin a b ≤ a ∧ E.omin a b ≤ b := by
  unfold RodasEnv.omin; rw [hO]; simp only [ratO]
  by_cases h : b < a
  · simp only [h, decide_true, if_true]; exact ⟨le_of_lt h, le_refl _⟩
  · simp only [h, decide_false, Bool.false_eq_true, if_false]; exact ⟨le_refl _, not_lt.mp h⟩

theorem omax_ge (E : RodasEnv ℚ) (hO : E.O = ratO) (a b : ℚ) : a ≤ E.omax a b ∧ b ≤ E.omax a b := by
  unfold RodasEnv.omax; rw [hO]; simp only [ratO]
  by_cases h : a < b
  · simp only [h, decide_true, if_true]; exact ⟨le_of_lt h, le_refl _⟩
  · simp only [h, decide_false, Bool.false_eq_true, if_false]; exact ⟨le_refl _, not_lt.mp h⟩

theorem omax_le (E : RodasEnv ℚ) (a b c : ℚ) (h1 : a ≤ c) (h2 : b ≤ c) : E.omax a b ≤ c := by
  unfold RodasEnv.omax; split <;> assumption

/-- the step size handed to the next attempt always lies in `[hmin, hmax]` (when `hmin ≤ hmax`) -/
theorem attempt_dt_clamped (E : RodasEnv ℚ) (hO : E.O = ratO) (err fac0 : ℚ) (s : RodasState ℚ)
    (h1 : E.O.lt (E.O.abs s.dt) E.uround = false) (h2 : ¬ s.reject > 100) (hm : E.hmin ≤ E.hmaxV) :
    E.hmin ≤ (E.attempt err fac0 s).dt ∧ (E.attempt err fac0 s).dt ≤ E.hmaxV := by
  simp only [RodasEnv.attempt, h1, h2, Bool.false_eq_true, if_false]
  have a := omin_le_left E hO E.hmaxV (E.omax E.hmin (E.dtNew fac0 s))
  have b := omax_ge E hO E.hmin (E.dtNew fac0 s)
  refine ⟨?_, a.1⟩
  unfold RodasEnv.omin
  split
  · exact b.1
  · exact hm

/-- **No step exceeds the maximum step**: if the proposed step is at most `hmax` (which
`attempt_dt_clamped` guarantees from the second attempt on, and `init` for the first) and the
remaining interval is non-negative, the step actually taken is at most `hmax` (adaptive mode). -/
theorem stepDt_le_hmax (E : RodasEnv ℚ) (hO : E.O = ratO) (hh : E.half = 1 / 2) (s : RodasState ℚ) (hf : E.opt.fixH = false)
    (hdt : s.dt ≤ E.hmaxV) : E.stepDt s ≤ E.hmaxV := by
  have hsub : ∀ a b : ℚ, E.O.sub a b = a - b := by intro a b; rw [hO]; rfl
  have hadd : ∀ a b : ℚ, E.O.add a b = a + b := by intro a b; rw [hO]; rfl
  simp only [RodasEnv.stepDt, RodasEnv.adaptDt, hf, Bool.false_eq_true, if_false]
  split
  · rename_i hs
    unfold RodasEnv.stretch at hs
    rw [hO] at hs
    have : E.tend ≤ ratO.add s.t s.dt := by simpa [ratO] using hs
    have h' : E.tend ≤ s.t + s.dt := this
    rw [hsub]; linarith
  · exact le_trans (omin_le_left E hO _ _).1 hdt

/-- growth of the step is bounded by `facmax` and shrinkage by `fac1` (adaptive mode, positive step) -/
theorem dtNew_bounds (E : RodasEnv ℚ) (hO : E.O = ratO) (fac0 : ℚ) (s : RodasState ℚ) (hf : E.opt.fixH = false)
    (hpos : 0 ≤ E.stepDt s) (hfac : E.opt.fac1 ≤ s.facmax) :
    E.stepDt s * E.opt.fac1 ≤ E.dtNew fac0 s ∧ E.dtNew fac0 s ≤ E.stepDt s * s.facmax := by
  have hmul : ∀ a b : ℚ, E.O.mul a b = a * b := by intro a b; rw [hO]; rfl
  simp only [RodasEnv.dtNew, hf, Bool.false_eq_true, if_false, hmul]
  have a := omin_le_left E hO s.facmax (E.omax E.opt.fac1 fac0)
  have b := omax_ge E hO E.opt.fac1 fac0
  constructor
  · apply mul_le_mul_of_nonneg_left _ hpos
    unfold RodasEnv.omin
    split
    · exact b.1
    · exact hfac
  · exact mul_le_mul_of_nonneg_left a.1 hpos

end Solverz
