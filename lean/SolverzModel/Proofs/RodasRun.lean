/-
  Proofs/RodasRun.lean — invariants of *whole runs* of the Rodas controller model over exact rationals:
  two-node tspan, no event functions, adaptive mode.  For every script of (err, fac) pairs.
-/
import SolverzModel.Proofs.Rodas
import Mathlib.Tactic.Linarith
import Mathlib.Algebra.Order.AbsoluteValue.Basic
namespace Solverz
open RodasEnv

/-- the standing assumptions of a two-node, event-free, adaptive run -/
structure RunHyp (E : RodasEnv ℚ) : Prop where
  hO : E.O = ratO
  hh : E.half = 1 / 2
  he : E.events = []
  hd : E.dense = false
  hf : E.opt.fixH = false
  hu : 0 < E.uround
  hmin : 0 < E.hmin
  hmm : E.hmin ≤ E.hmaxV
  hspan : E.t0 < E.tend

/-- what holds of every state a run reaches -/
structure RunInv (E : RodasEnv ℚ) (s : RodasState ℚ) : Prop where
  head : s.T.head? = some s.t
  last : s.T.getLast? = some E.t0
  incr : s.T.Pairwise (· > ·)
  le_tend : s.t ≤ E.tend
  running : s.done = false → s.t < E.tend
  dt_pos : E.hmin ≤ s.dt
  dt_max : s.dt ≤ E.hmaxV
  nostop : s.stop = false
  finished : s.done = true → s.failed = true ∨ s.T.length = 10001 ∨ s.t = E.tend

namespace RunHyp
variable {E : RodasEnv ℚ} (H : RunHyp E)
include H

theorem lt_iff (a b : ℚ) : E.O.lt a b = decide (a < b) := by rw [H.hO]; rfl
theorem le_iff (a b : ℚ) : E.O.le a b = decide (a ≤ b) := by rw [H.hO]; rfl
theorem sub_eq (a b : ℚ) : E.O.sub a b = a - b := by rw [H.hO]; rfl
theorem add_eq (a b : ℚ) : E.O.add a b = a + b := by rw [H.hO]; rfl
theorem mul_eq (a b : ℚ) : E.O.mul a b = a * b := by rw [H.hO]; rfl
theorem one_eq : E.O.one = 1 := by rw [H.hO]; rfl
theorem abs_eq (a : ℚ) : E.O.abs a = |a| := by
  rw [H.hO]; simp only [ratO]
  by_cases h : a < 0
  · simp [h, abs_of_neg h]
  · simp [h, abs_of_nonneg (not_lt.mp h)]

theorem events_empty : E.events.isEmpty = true := by simp [H.he]

theorem le_omin (c a b : ℚ) (h1 : c ≤ a) (h2 : c ≤ b) : c ≤ E.omin a b := by
  unfold RodasEnv.omin; split <;> assumption

/-- the initial state satisfies the invariant -/
theorem init_inv : RunInv E E.init := by
  refine ⟨by simp [init], by simp [init], by simp [init], by simp [init]; exact le_of_lt H.hspan,
    fun _ => by simp [init]; exact H.hspan, ?_, ?_, by simp [init], by simp [init]⟩
  · show E.hmin ≤ E.omin (E.omax _ E.hmin) E.hmaxV
    exact H.le_omin _ _ _ (omax_ge E H.hO _ E.hmin).2 H.hmm
  · show E.omin (E.omax _ E.hmin) E.hmaxV ≤ E.hmaxV
    exact (omin_le_left E H.hO _ E.hmaxV).2

/-- the step taken from a running state is positive and does not pass `tend` -/
theorem stepDt_pos (s : RodasState ℚ) (I : RunInv E s) (hr : s.done = false) :
    0 < E.stepDt s ∧ s.t + E.stepDt s ≤ E.tend ∧ (E.isLast s = false → s.t + E.stepDt s < E.tend) := by
  have hlt := I.running hr
  have hdt : 0 < s.dt := lt_of_lt_of_le H.hmin I.dt_pos
  simp only [RodasEnv.stepDt, RodasEnv.adaptDt, RodasEnv.isLast, H.hf, Bool.false_eq_true, if_false, Bool.not_false, Bool.and_true]
  by_cases hs : E.stretch s = true
  · simp only [hs, if_true, H.sub_eq]
    refine ⟨by linarith, by linarith, fun h => by simp at h⟩
  · simp only [hs, Bool.false_eq_true, if_false]
    have hm := omin_le_left E H.hO s.dt (E.O.mul E.half (E.O.sub E.tend s.t))
    rw [H.mul_eq, H.sub_eq, H.hh] at hm ⊢
    have hpos : 0 < E.omin s.dt (1 / 2 * (E.tend - s.t)) := by
      unfold RodasEnv.omin; split
      · linarith
      · exact hdt
    refine ⟨hpos, by linarith [hm.2], fun _ => by linarith [hm.2]⟩

/-- the new time of an accepted step -/
def tNew (E : RodasEnv ℚ) (s : RodasState ℚ) : ℚ := if E.isLast s then E.tend else s.t + E.stepDt s

/-- the fields of the state after an accepted attempt (two nodes, no events, adaptive) -/
theorem accepted_fields (err fac0 : ℚ) (s : RodasState ℚ)
    (h1 : E.O.lt (E.O.abs s.dt) E.uround = false) (h2 : ¬ s.reject > 100) (ha : E.O.le err E.O.one = true) :
    (E.attempt err fac0 s).t = tNew E s ∧ (E.attempt err fac0 s).T = tNew E s :: s.T ∧
    (E.attempt err fac0 s).stop = s.stop ∧ (E.attempt err fac0 s).failed = s.failed ∧
    (E.attempt err fac0 s).done = ((s.T.length == 10000) || (decide (E.tend ≤ tNew E s) || s.stop)) := by
  have e1 : E.isLast { s with attempts := s.attempts + 1 } = E.isLast s := rfl
  have e2 : E.stepDt { s with attempts := s.attempts + 1 } = E.stepDt s := rfl
  simp only [attempt, h1, h2, H.hf, ha, Bool.false_eq_true, if_false, if_true, accept, doEvents, H.events_empty, output, H.hd,
    finish, advance, e1, e2]
  simp only [tNew, H.add_eq, H.lt_iff, H.le_iff, H.abs_eq, H.sub_eq, List.length_cons, Nat.add_sub_cancel, Bool.not_false,
    Bool.and_true, Bool.false_and, Bool.or_false]
  exact ⟨trivial, trivial, trivial, trivial, rfl⟩

/-- the fields of the state after a rejected attempt -/
theorem rejected_fields (err fac0 : ℚ) (s : RodasState ℚ)
    (h1 : E.O.lt (E.O.abs s.dt) E.uround = false) (h2 : ¬ s.reject > 100) (ha : E.O.le err E.O.one = false) :
    (E.attempt err fac0 s).t = s.t ∧ (E.attempt err fac0 s).T = s.T ∧
    (E.attempt err fac0 s).stop = s.stop ∧ (E.attempt err fac0 s).failed = s.failed ∧ (E.attempt err fac0 s).done = s.done := by
  simp [attempt, h1, h2, H.hf, ha, rejectStep]

/-- one attempt preserves the invariant -/
theorem attempt_inv (err fac0 : ℚ) (s : RodasState ℚ) (I : RunInv E s) (hr : s.done = false) :
    RunInv E (E.attempt err fac0 s) := by
  by_cases h1 : E.O.lt (E.O.abs s.dt) E.uround = true
  · have : E.attempt err fac0 s = { s with failed := true, done := true } := by simp [attempt, h1]
    rw [this]
    exact ⟨I.head, I.last, I.incr, I.le_tend, fun h => by simp at h, I.dt_pos, I.dt_max, I.nostop, fun _ => Or.inl rfl⟩
  by_cases h2 : s.reject > 100
  · have : E.attempt err fac0 s = { s with failed := true, done := true } := by simp [attempt, h1, h2]
    rw [this]
    exact ⟨I.head, I.last, I.incr, I.le_tend, fun h => by simp at h, I.dt_pos, I.dt_max, I.nostop, fun _ => Or.inl rfl⟩
  have h1' : E.O.lt (E.O.abs s.dt) E.uround = false := by simpa using h1
  have hcl := attempt_dt_clamped E H.hO err fac0 s h1' h2 H.hmm
  by_cases ha : E.O.le err E.O.one = true
  · obtain ⟨ft, fT, fstop, ffail, fdone⟩ := H.accepted_fields err fac0 s h1' h2 ha
    have hstep := H.stepDt_pos s I hr
    have hgt : s.t < tNew E s ∧ tNew E s ≤ E.tend ∧ (E.isLast s = false → tNew E s < E.tend) ∧
        (E.isLast s = true → tNew E s = E.tend) := by
      unfold tNew
      by_cases hl : E.isLast s = true
      · simp only [hl, if_true]
        exact ⟨I.running hr, le_refl _, fun h => by simp at h, fun _ => trivial⟩
      · have hl' : E.isLast s = false := by simpa using hl
        simp only [hl', Bool.false_eq_true, if_false]
        exact ⟨by linarith [hstep.1], hstep.2.1, fun _ => hstep.2.2 hl', fun h => by simp at h⟩
    refine ⟨by simp [fT, ft], ?_, ?_, by rw [ft]; exact hgt.2.1, ?_, hcl.1, hcl.2, by rw [fstop]; exact I.nostop, ?_⟩
    · rw [fT]
      have := I.last
      cases hT : s.T with
      | nil => simp [hT] at this
      | cons a l => simp [hT] at this ⊢; exact this
    · rw [fT, List.pairwise_cons]
      refine ⟨?_, I.incr⟩
      intro a ha'
      have hhead := I.head
      cases hT : s.T with
      | nil => simp [hT] at ha'
      | cons b l =>
        rw [hT] at hhead ha'
        simp only [List.head?_cons, Option.some.injEq] at hhead
        have hinc := I.incr
        rw [hT, List.pairwise_cons] at hinc
        rcases List.mem_cons.mp ha' with rfl | hmem
        · rw [hhead]; exact hgt.1
        · have := hinc.1 a hmem
          rw [hhead] at this
          exact lt_trans this hgt.1
    · intro hdone
      rw [fdone, ft] at *
      simp only [I.nostop, Bool.or_false, Bool.or_eq_false_iff, decide_eq_false_iff_not] at hdone
      by_cases hl : E.isLast s = true
      · exfalso; apply hdone.2; rw [hgt.2.2.2 hl]
      · exact hgt.2.2.1 (by simpa using hl)
    · intro hdone
      rw [fdone] at hdone
      rw [ffail, fT, ft]
      simp only [I.nostop, Bool.or_false, Bool.or_eq_true, beq_iff_eq, decide_eq_true_eq] at hdone
      rcases hdone with hcap | hnear
      · right; left; simp [hcap]
      · right; right
        exact le_antisymm hgt.2.1 hnear
  · have ha' : E.O.le err E.O.one = false := by simpa using ha
    obtain ⟨ft, fT, fstop, ffail, fdone⟩ := H.rejected_fields err fac0 s h1' h2 ha'
    refine ⟨by rw [fT, ft]; exact I.head, by rw [fT]; exact I.last, by rw [fT]; exact I.incr, by rw [ft]; exact I.le_tend,
      fun _ => by rw [ft]; exact I.running hr, hcl.1, hcl.2, by rw [fstop]; exact I.nostop, fun h => by rw [fdone, hr] at h; cases h⟩

/-- **every state reached by a run satisfies the invariant**, whatever the error estimates are -/
theorem run_inv (script : List (ℚ × ℚ)) (s : RodasState ℚ) (I : RunInv E s) : RunInv E (E.run script s) := by
  induction script generalizing s with
  | nil => exact I
  | cons ef rest ih =>
    obtain ⟨e, f⟩ := ef
    simp only [run]
    by_cases hd : s.done = true
    · simp [hd]; exact I
    · have hd' : s.done = false := by simpa using hd
      simp only [hd', Bool.false_eq_true, if_false]
      exact ih _ (H.attempt_inv e f s I hd')

end RunHyp

/-- in a strictly decreasing list every element lies between the last and the first -/
theorem pairwise_gt_bounds : ∀ (l : List ℚ) (a b : ℚ), l.Pairwise (· > ·) → l.head? = some a → l.getLast? = some b →
    ∀ x ∈ l, b ≤ x ∧ x ≤ a
  | [], _, _, _, h, _ => by simp at h
  | [y], a, b, _, h1, h2 => by
      simp at h1 h2; subst h1; subst h2
      intro x hx; simp at hx; subst hx; exact ⟨le_refl _, le_refl _⟩
  | y :: z :: rest, a, b, hp, h1, h2 => by
      simp only [List.head?_cons, Option.some.injEq] at h1; subst h1
      rw [List.pairwise_cons] at hp
      have h2' : (z :: rest).getLast? = some b := by simpa [List.getLast?_cons_cons] using h2
      have ih := pairwise_gt_bounds (z :: rest) z b hp.2 rfl h2'
      intro x hx
      rcases List.mem_cons.mp hx with rfl | hx'
      · have hz := ih z List.mem_cons_self
        have := hp.1 z List.mem_cons_self
        exact ⟨le_of_lt (lt_of_le_of_lt hz.1 this), le_refl _⟩
      · have := ih x hx'
        exact ⟨this.1, le_of_lt (hp.1 x hx')⟩

end Solverz
