/-
  Proofs/Diff.lean — `SEx.diff` is the derivative of `SEx.eval` over the reals, away from kinks.
-/
import SolverzModel.Core.Lang
import Mathlib.Analysis.SpecialFunctions.Trigonometric.Deriv
import Mathlib.Analysis.SpecialFunctions.ExpDeriv
import Mathlib.Analysis.SpecialFunctions.Log.Deriv
import Mathlib.Analysis.Calculus.Deriv.Pow
import Mathlib.Analysis.Calculus.Deriv.Inv
import Mathlib.Analysis.Calculus.Deriv.ZPow
namespace Solverz
open SEx Filter Topology

noncomputable def realF : TFld ℝ :=
  { add := (· + ·), sub := (· - ·), mul := (· * ·), div := (· / ·), neg := fun x => -x, zero := 0, one := 1,
    ofInt := fun n => (n : ℝ), sin := Real.sin, cos := Real.cos, exp := Real.exp, log := Real.log,
    lt := (· < ·), decLt := fun _ _ => Classical.dec _ }

@[simp] theorem rf_add (a b : ℝ) : realF.add a b = a + b := rfl
@[simp] theorem rf_sub (a b : ℝ) : realF.sub a b = a - b := rfl
@[simp] theorem rf_mul (a b : ℝ) : realF.mul a b = a * b := rfl
@[simp] theorem rf_div (a b : ℝ) : realF.div a b = a / b := rfl
@[simp] theorem rf_neg (a : ℝ) : realF.neg a = -a := rfl
@[simp] theorem rf_zero : realF.zero = 0 := rfl
@[simp] theorem rf_one : realF.one = 1 := rfl
@[simp] theorem rf_ofInt (n : ℤ) : realF.ofInt n = (n : ℝ) := rfl
@[simp] theorem rf_sin (a : ℝ) : realF.sin a = Real.sin a := rfl
@[simp] theorem rf_cos (a : ℝ) : realF.cos a = Real.cos a := rfl
@[simp] theorem rf_exp (a : ℝ) : realF.exp a = Real.exp a := rfl
@[simp] theorem rf_log (a : ℝ) : realF.log a = Real.log a := rfl
@[simp] theorem rf_lt (a b : ℝ) : realF.lt a b = (a < b) := rfl

/-- the environment with state element `c` replaced by `x` -/
def SEx.Env.setY (ρ : Env ℝ) (c : ℕ) (x : ℝ) : Env ℝ := { ρ with y := Function.update ρ.y c x }

@[simp] theorem SEx.Env.setY_self (ρ : Env ℝ) (c : ℕ) : ρ.setY c (ρ.y c) = ρ := by
  simp [SEx.Env.setY]

/-- comparison / logic nodes: their derivative is taken to be 0 (Solverz's convention) -/
def isLogic : SEx ℝ → Bool
  | .const _ => true
  | .cmp _ _ _ => true
  | .in3 _ _ _ => true
  | .and _ _ => true
  | .or _ _ => true
  | .fn1 .not _ => true
  | _ => false

theorem diff_logic (c : ℕ) (e : SEx ℝ) (h : isLogic e = true) : SEx.diff realF c e = .const 0 := by
  cases e <;> simp_all [isLogic, SEx.diff]
  rename_i f a
  cases f <;> simp_all [isLogic, SEx.diff]

/-- "away from kinks" at the point `ρ`: every piecewise construct is strictly inside one of its pieces,
denominators and logarithm arguments are non-zero, logic operators are applied to logic values -/
def KinkFree (ρ : Env ℝ) : SEx ℝ → Prop
  | .const _ | .y _ | .p _ | .y0 _ => True
  | .add a b | .sub a b | .mul a b => KinkFree ρ a ∧ KinkFree ρ b
  | .div a b => KinkFree ρ a ∧ KinkFree ρ b ∧ eval realF ρ b ≠ 0
  | .neg a => KinkFree ρ a
  | .powi a n => KinkFree ρ a ∧ (n < 0 → eval realF ρ a ≠ 0)
  | .fn1 .sin a | .fn1 .cos a | .fn1 .exp a => KinkFree ρ a
  | .fn1 .ln a => KinkFree ρ a ∧ eval realF ρ a ≠ 0
  | .fn1 .abs a | .fn1 .sign a | .fn1 .heav a => KinkFree ρ a ∧ eval realF ρ a ≠ 0
  | .fn1 .not a => KinkFree ρ a ∧ isLogic a = true
  | .cmp _ a b => KinkFree ρ a ∧ KinkFree ρ b ∧ eval realF ρ a ≠ eval realF ρ b
  | .in3 x lo hi => KinkFree ρ x ∧ KinkFree ρ lo ∧ KinkFree ρ hi ∧ eval realF ρ x ≠ eval realF ρ lo ∧ eval realF ρ x ≠ eval realF ρ hi
  | .and a b | .or a b => KinkFree ρ a ∧ KinkFree ρ b ∧ isLogic a = true ∧ isLogic b = true
  | .sat v lo hi => KinkFree ρ v ∧ KinkFree ρ lo ∧ KinkFree ρ hi ∧ eval realF ρ v ≠ eval realF ρ lo ∧
      eval realF ρ v ≠ eval realF ρ hi ∧ eval realF ρ lo < eval realF ρ hi

theorem powNat_eq (x : ℝ) (n : ℕ) : powNat realF x n = x ^ n := by
  induction n with
  | zero => simp [powNat]
  | succ k ih => simp only [powNat, ih, rf_mul]; ring

theorem eval_powi (ρ : Env ℝ) (a : SEx ℝ) (n : ℤ) : eval realF ρ (.powi a n) = (eval realF ρ a) ^ n := by
  simp only [eval]
  split
  · rename_i h
    rw [powNat_eq]
    obtain ⟨m, rfl⟩ := Int.eq_ofNat_of_zero_le h
    simp
  · rename_i h
    obtain ⟨m, hm⟩ := Int.exists_eq_neg_ofNat (by omega : n ≤ 0)
    subst hm
    rw [powNat_eq]
    simp [zpow_neg]

/-- if `f x0 < g x0` (resp. `>`), the truth value of `f x < g x` is constant near `x0` -/
theorem eventually_lt_iff {f g : ℝ → ℝ} {x0 : ℝ} (hf : ContinuousAt f x0) (hg : ContinuousAt g x0) (h : f x0 ≠ g x0) :
    ∀ᶠ x in 𝓝 x0, (f x < g x ↔ f x0 < g x0) := by
  rcases lt_or_gt_of_ne h with h1 | h1
  · filter_upwards [hf.eventually_lt hg h1] with x hx
    exact ⟨fun _ => h1, fun _ => hx⟩
  · filter_upwards [hg.eventually_lt hf h1] with x hx
    exact ⟨fun h2 => absurd h2 (not_lt.mpr hx.le), fun h2 => absurd h2 (not_lt.mpr h1.le)⟩

theorem hasDerivAt_of_eventually_const {F : ℝ → ℝ} {x0 : ℝ} (h : ∀ᶠ x in 𝓝 x0, F x = F x0) : HasDerivAt F 0 x0 :=
  (hasDerivAt_const x0 (F x0)).congr_of_eventuallyEq h

/-- **`diff` is the derivative of `eval`.**  For every scalar expression, every state element `c` and every
point away from the kinks, the function `x ↦ eval e` (with `y c := x`) has derivative `eval (diff c e)`. -/
theorem diff_correct (e : SEx ℝ) (c : ℕ) (ρ : Env ℝ) (h : KinkFree ρ e) :
    HasDerivAt (fun x => eval realF (ρ.setY c x) e) (eval realF ρ (SEx.diff realF c e)) (ρ.y c) := by
  induction e with
  | const k => simp only [eval, SEx.diff, rf_zero]; exact hasDerivAt_const (ρ.y c) k
  | y i =>
    simp only [SEx.diff]
    by_cases hi : i = c
    · subst hi
      simp only [if_true, eval, SEx.Env.setY, Function.update_self, rf_one]
      exact hasDerivAt_id (ρ.y i)
    · simp only [hi, if_false, eval, SEx.Env.setY, rf_zero]
      have : (fun x => Function.update ρ.y c x i) = fun _ => ρ.y i := by
        funext x; exact Function.update_of_ne hi x ρ.y
      rw [this]; exact hasDerivAt_const _ _
  | p j => simp only [eval, SEx.diff, rf_zero, SEx.Env.setY]; exact hasDerivAt_const (ρ.y c) (ρ.p j)
  | y0 j => simp only [eval, SEx.diff, rf_zero, SEx.Env.setY]; exact hasDerivAt_const (ρ.y c) (ρ.y0 j)
  | add a b iha ihb =>
    simp only [eval, SEx.diff, rf_add]
    exact (iha h.1).add (ihb h.2)
  | sub a b iha ihb =>
    simp only [eval, SEx.diff, rf_sub]
    exact (iha h.1).sub (ihb h.2)
  | mul a b iha ihb =>
    have := (iha h.1).mul (ihb h.2)
    simp only [SEx.Env.setY_self] at this
    simp only [eval, SEx.diff, rf_add, rf_mul]
    exact this
  | div a b iha ihb =>
    have hb : eval realF (ρ.setY c (ρ.y c)) b ≠ 0 := by rw [SEx.Env.setY_self]; exact h.2.2
    have := (iha h.1).div (ihb h.2.1) hb
    simp only [SEx.Env.setY_self] at this
    simp only [eval, SEx.diff, rf_sub, rf_mul, rf_div]
    exact this.congr_deriv (by rw [pow_two])
  | neg a iha =>
    simp only [eval, SEx.diff, rf_neg]
    exact (iha h).neg
  | powi a n iha =>
    have ha := iha h.1
    have hz : eval realF ρ a ≠ 0 ∨ 0 ≤ n := by
      by_cases hn : 0 ≤ n
      · exact Or.inr hn
      · exact Or.inl (h.2 (by omega))
    have hz' : (fun x => eval realF (ρ.setY c x) a) (ρ.y c) ≠ 0 ∨ 0 ≤ n := by simpa using hz
    have hcomp := (hasDerivAt_zpow n _ hz').comp (ρ.y c) ha
    simp only [SEx.Env.setY_self] at hcomp
    have e1 : (fun x => eval realF (ρ.setY c x) (.powi a n)) = (fun x => x ^ n) ∘ (fun x => eval realF (ρ.setY c x) a) := by
      funext x; simp [eval_powi]
    rw [e1]
    have e2 : eval realF ρ (SEx.diff realF c (.powi a n)) = (n : ℝ) * (eval realF ρ a) ^ (n - 1) * eval realF ρ (SEx.diff realF c a) := by
      simp only [SEx.diff]
      rw [show eval realF ρ (SEx.mul (SEx.mul (SEx.const (realF.ofInt n)) (SEx.powi a (n - 1))) (SEx.diff realF c a))
            = realF.mul (realF.mul (realF.ofInt n) (eval realF ρ (.powi a (n - 1)))) (eval realF ρ (SEx.diff realF c a)) from rfl]
      rw [eval_powi]; simp
    rw [e2]
    exact hcomp
  | fn1 f a iha =>
    cases f with
    | sin =>
      have := (iha h).sin
      simp only [SEx.Env.setY_self] at this
      simp only [eval, SEx.diff, evalFn1, rf_sin, rf_cos, rf_mul]
      exact this
    | cos =>
      have := (iha h).cos
      simp only [SEx.Env.setY_self] at this
      simp only [eval, SEx.diff, evalFn1, rf_sin, rf_cos, rf_mul, rf_neg]
      exact this
    | exp =>
      have := (iha h).exp
      simp only [SEx.Env.setY_self] at this
      simp only [eval, SEx.diff, evalFn1, rf_exp, rf_mul]
      exact this
    | ln =>
      have hne : eval realF (ρ.setY c (ρ.y c)) a ≠ 0 := by rw [SEx.Env.setY_self]; exact h.2
      have := (iha h.1).log hne
      simp only [SEx.Env.setY_self] at this
      simp only [eval, SEx.diff, evalFn1, rf_log, rf_div]
      exact this
    | abs =>
      have hA := iha h.1
      have hc := hA.continuousAt
      have hne : (fun x => eval realF (ρ.setY c x) a) (ρ.y c) ≠ 0 := by simpa using h.2
      have hev := eventually_lt_iff hc continuousAt_const hne
      simp only [SEx.Env.setY_self] at hev
      simp only [eval, SEx.diff, evalFn1, rf_lt, rf_zero, rf_neg, rf_mul, rf_one]
      by_cases hs : eval realF ρ a < 0
      · have : (fun x => if eval realF (ρ.setY c x) a < 0 then -eval realF (ρ.setY c x) a else eval realF (ρ.setY c x) a)
            =ᶠ[𝓝 (ρ.y c)] fun x => -eval realF (ρ.setY c x) a := by
          filter_upwards [hev] with x hx
          simp [hx.mpr hs]
        refine (hA.neg.congr_of_eventuallyEq this).congr_deriv ?_
        simp [hs]
      · have hpos : 0 < eval realF ρ a := lt_of_le_of_ne (not_lt.mp hs) (Ne.symm h.2)
        have : (fun x => if eval realF (ρ.setY c x) a < 0 then -eval realF (ρ.setY c x) a else eval realF (ρ.setY c x) a)
            =ᶠ[𝓝 (ρ.y c)] fun x => eval realF (ρ.setY c x) a := by
          filter_upwards [hev] with x hx
          have : ¬ eval realF (ρ.setY c x) a < 0 := fun hh => hs (hx.mp hh)
          simp [this]
        refine (hA.congr_of_eventuallyEq this).congr_deriv ?_
        simp [hs, hpos]
    | sign =>
      have hA := iha h.1
      have hc := hA.continuousAt
      have hne : (fun x => eval realF (ρ.setY c x) a) (ρ.y c) ≠ 0 := by simpa using h.2
      have hne' : (fun _ : ℝ => (0:ℝ)) (ρ.y c) ≠ (fun x => eval realF (ρ.setY c x) a) (ρ.y c) := fun e => hne e.symm
      have hev1 := eventually_lt_iff hc continuousAt_const hne
      have hev2 := eventually_lt_iff continuousAt_const hc hne'
      simp only [SEx.Env.setY_self] at hev1 hev2
      simp only [eval, SEx.diff, evalFn1, rf_lt, rf_zero, rf_neg, rf_one]
      apply hasDerivAt_of_eventually_const
      filter_upwards [hev1, hev2] with x h1 h2
      simp only [SEx.Env.setY_self]
      by_cases p1 : eval realF ρ a < 0
      · simp [p1, h1.mpr p1]
      · have q1 : ¬ eval realF (ρ.setY c x) a < 0 := fun hh => p1 (h1.mp hh)
        by_cases p2 : 0 < eval realF ρ a
        · simp [p1, q1, p2, h2.mpr p2]
        · have q2 : ¬ 0 < eval realF (ρ.setY c x) a := fun hh => p2 (h2.mp hh)
          simp [p1, q1, p2, q2]
    | heav =>
      have hA := iha h.1
      have hc := hA.continuousAt
      have hne : (fun x => eval realF (ρ.setY c x) a) (ρ.y c) ≠ 0 := by simpa using h.2
      have hev1 := eventually_lt_iff hc continuousAt_const hne
      simp only [SEx.Env.setY_self] at hev1
      simp only [eval, SEx.diff, evalFn1, rf_lt, rf_zero, rf_one]
      apply hasDerivAt_of_eventually_const
      filter_upwards [hev1] with x h1
      simp only [SEx.Env.setY_self]
      by_cases p1 : eval realF ρ a < 0
      · simp [p1, h1.mpr p1]
      · have q1 : ¬ eval realF (ρ.setY c x) a < 0 := fun hh => p1 (h1.mp hh)
        simp [p1, q1]
    | not =>
      have hl := diff_logic c a h.2
      have ha := iha h.1
      rw [hl] at ha
      simp only [eval] at ha
      have := (hasDerivAt_const (ρ.y c) (1 : ℝ)).sub ha
      simp only [eval, SEx.diff, evalFn1, rf_sub, rf_one, rf_zero]
      exact this.congr_deriv (by simp)
  | cmp k a b iha ihb =>
    have hA := (iha h.1).continuousAt
    have hB := (ihb h.2.1).continuousAt
    have hne : (fun x => eval realF (ρ.setY c x) a) (ρ.y c) ≠ (fun x => eval realF (ρ.setY c x) b) (ρ.y c) := by simpa using h.2.2
    cases k with
    | lt =>
      have hev := eventually_lt_iff hA hB hne
      simp only [SEx.Env.setY_self] at hev
      simp only [eval, SEx.diff, b2a, rf_lt, rf_zero, rf_one]
      apply hasDerivAt_of_eventually_const
      filter_upwards [hev] with x hx
      simp only [SEx.Env.setY_self]
      by_cases p : eval realF ρ a < eval realF ρ b
      · simp [p, hx.mpr p]
      · have q : ¬ eval realF (ρ.setY c x) a < eval realF (ρ.setY c x) b := fun hh => p (hx.mp hh)
        simp [p, q]
    | gt =>
      have hev := eventually_lt_iff hB hA (fun e => hne e.symm)
      simp only [SEx.Env.setY_self] at hev
      simp only [eval, SEx.diff, b2a, rf_lt, rf_zero, rf_one]
      apply hasDerivAt_of_eventually_const
      filter_upwards [hev] with x hx
      simp only [SEx.Env.setY_self]
      by_cases p : eval realF ρ b < eval realF ρ a
      · simp [p, hx.mpr p]
      · have q : ¬ eval realF (ρ.setY c x) b < eval realF (ρ.setY c x) a := fun hh => p (hx.mp hh)
        simp [p, q]
  | in3 x lo hi ihx ihlo ihhi =>
    have hX := (ihx h.1).continuousAt
    have hL := (ihlo h.2.1).continuousAt
    have hH := (ihhi h.2.2.1).continuousAt
    have hne1 : (fun z => eval realF (ρ.setY c z) x) (ρ.y c) ≠ (fun z => eval realF (ρ.setY c z) lo) (ρ.y c) := by simpa using h.2.2.2.1
    have hne2 : (fun z => eval realF (ρ.setY c z) hi) (ρ.y c) ≠ (fun z => eval realF (ρ.setY c z) x) (ρ.y c) := by
      simpa using fun e => h.2.2.2.2 e.symm
    have hev1 := eventually_lt_iff hX hL hne1
    have hev2 := eventually_lt_iff hH hX hne2
    simp only [SEx.Env.setY_self] at hev1 hev2
    simp only [eval, SEx.diff, rf_lt, rf_zero, rf_one]
    apply hasDerivAt_of_eventually_const
    filter_upwards [hev1, hev2] with z h1 h2
    simp only [SEx.Env.setY_self]
    by_cases p1 : eval realF ρ x < eval realF ρ lo
    · simp [p1, h1.mpr p1]
    · have q1 : ¬ eval realF (ρ.setY c z) x < eval realF (ρ.setY c z) lo := fun hh => p1 (h1.mp hh)
      by_cases p2 : eval realF ρ hi < eval realF ρ x
      · simp [p1, q1, p2, h2.mpr p2]
      · have q2 : ¬ eval realF (ρ.setY c z) hi < eval realF (ρ.setY c z) x := fun hh => p2 (h2.mp hh)
        simp [p1, q1, p2, q2]
  | and a b iha ihb =>
    have hla := diff_logic c a h.2.2.1
    have hlb := diff_logic c b h.2.2.2
    have ha := iha h.1
    have hb := ihb h.2.1
    rw [hla] at ha; rw [hlb] at hb
    simp only [eval] at ha hb
    have := ha.mul hb
    simp only [eval, SEx.diff, rf_mul, rf_zero]
    exact this.congr_deriv (by simp)
  | or a b iha ihb =>
    have hla := diff_logic c a h.2.2.1
    have hlb := diff_logic c b h.2.2.2
    have ha := iha h.1
    have hb := ihb h.2.1
    rw [hla] at ha; rw [hlb] at hb
    simp only [eval] at ha hb
    have := (ha.add hb).sub (ha.mul hb)
    simp only [eval, SEx.diff, rf_mul, rf_zero, rf_add, rf_sub]
    exact this.congr_deriv (by simp)
  | sat v lo hi ihv ihlo ihhi =>
    have dV := ihv h.1
    have dL := ihlo h.2.1
    have dH := ihhi h.2.2.1
    have hV := dV.continuousAt
    have hL := dL.continuousAt
    have hH := dH.continuousAt
    obtain ⟨_, _, _, nvl, nvh, llh⟩ := h
    have e_vl := eventually_lt_iff hV hL (by simpa using nvl)
    have e_hv := eventually_lt_iff hH hV (by simpa using fun e => nvh e.symm)
    have e_lh := hL.eventually_lt hH (by simpa using llh)
    simp only [SEx.Env.setY_self] at e_vl e_hv
    simp only [eval, SEx.diff, b2a, rf_lt, rf_zero, rf_one, rf_add, rf_mul]
    by_cases p1 : eval realF ρ v < eval realF ρ lo
    · -- below the lower limit: the value is the lower limit
      have : (fun z => if eval realF (ρ.setY c z) hi <
              (if eval realF (ρ.setY c z) v < eval realF (ρ.setY c z) lo then eval realF (ρ.setY c z) lo else eval realF (ρ.setY c z) v)
            then eval realF (ρ.setY c z) hi
            else (if eval realF (ρ.setY c z) v < eval realF (ρ.setY c z) lo then eval realF (ρ.setY c z) lo else eval realF (ρ.setY c z) v))
          =ᶠ[𝓝 (ρ.y c)] fun z => eval realF (ρ.setY c z) lo := by
        filter_upwards [e_vl, e_lh] with z h1 h3
        have a1 := h1.mpr p1
        simp [a1, not_lt.mpr h3.le]
      refine (dL.congr_of_eventuallyEq this).congr_deriv ?_
      have np : ¬ eval realF ρ hi < eval realF ρ v := by linarith
      simp [p1, np]
    · have q1 : eval realF ρ lo < eval realF ρ v := lt_of_le_of_ne (not_lt.mp p1) (Ne.symm nvl)
      by_cases p2 : eval realF ρ hi < eval realF ρ v
      · have : (fun z => if eval realF (ρ.setY c z) hi <
              (if eval realF (ρ.setY c z) v < eval realF (ρ.setY c z) lo then eval realF (ρ.setY c z) lo else eval realF (ρ.setY c z) v)
            then eval realF (ρ.setY c z) hi
            else (if eval realF (ρ.setY c z) v < eval realF (ρ.setY c z) lo then eval realF (ρ.setY c z) lo else eval realF (ρ.setY c z) v))
            =ᶠ[𝓝 (ρ.y c)] fun z => eval realF (ρ.setY c z) hi := by
          filter_upwards [e_vl, e_hv] with z h1 h2
          have a1 : ¬ eval realF (ρ.setY c z) v < eval realF (ρ.setY c z) lo := fun hh => p1 (h1.mp hh)
          simp [a1, h2.mpr p2]
        refine (dH.congr_of_eventuallyEq this).congr_deriv ?_
        simp [p1, p2]
      · have : (fun z => if eval realF (ρ.setY c z) hi <
              (if eval realF (ρ.setY c z) v < eval realF (ρ.setY c z) lo then eval realF (ρ.setY c z) lo else eval realF (ρ.setY c z) v)
            then eval realF (ρ.setY c z) hi
            else (if eval realF (ρ.setY c z) v < eval realF (ρ.setY c z) lo then eval realF (ρ.setY c z) lo else eval realF (ρ.setY c z) v))
            =ᶠ[𝓝 (ρ.y c)] fun z => eval realF (ρ.setY c z) v := by
          filter_upwards [e_vl, e_hv] with z h1 h2
          have a1 : ¬ eval realF (ρ.setY c z) v < eval realF (ρ.setY c z) lo := fun hh => p1 (h1.mp hh)
          have a2 : ¬ eval realF (ρ.setY c z) hi < eval realF (ρ.setY c z) v := fun hh => p2 (h2.mp hh)
          simp [a1, a2]
        refine (dV.congr_of_eventuallyEq this).congr_deriv ?_
        simp [p1, p2]

end Solverz
