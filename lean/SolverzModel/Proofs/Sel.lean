/-
  Proofs/Sel.lean — helper lemmas on the selection semantics (`Sel.indices`): integer indices, strided
  slices (Python's `slice.indices`), index lists.
-/
import SolverzModel.Core.Lang
import Mathlib.Tactic.Linarith
namespace Solverz

theorem normIdx_lt {n : Nat} {i : Int} {k : Nat} (h : Heap.normIdx n i = .ok k) : k < n := by
  unfold Heap.normIdx at h
  split at h
  · split at h
    · cases h; omega
    · cases h
  · split at h
    · cases h; omega
    · cases h

theorem mapM_normIdx_lt {n : Nat} : ∀ {ks : List Int} {js : List Nat}, ks.mapM (Heap.normIdx n) = .ok js → ∀ j ∈ js, j < n
  | [], js, h => by
      simp only [List.mapM_nil, pure, Except.pure, Except.ok.injEq] at h; subst h; intro j hj; cases hj
  | k :: ks, js, h => by
      simp only [List.mapM_cons, bind, Except.bind, pure, Except.pure] at h
      cases hk : Heap.normIdx n k with
      | error e => simp [hk] at h
      | ok j0 =>
        simp only [hk] at h
        cases hr : List.mapM (Heap.normIdx n) ks with
        | error e => simp [hr] at h
        | ok js0 =>
          simp only [hr, Except.ok.injEq] at h; subst h
          intro j hj
          rcases List.mem_cons.mp hj with rfl | hj
          · exact normIdx_lt hk
          · exact mapM_normIdx_lt hr j hj

theorem mapM_normIdx_length {n : Nat} : ∀ {ks : List Int} {js : List Nat}, ks.mapM (Heap.normIdx n) = .ok js → js.length = ks.length
  | [], js, h => by
      simp only [List.mapM_nil, pure, Except.pure, Except.ok.injEq] at h; subst h; rfl
  | k :: ks, js, h => by
      simp only [List.mapM_cons, bind, Except.bind, pure, Except.pure] at h
      cases hk : Heap.normIdx n k with
      | error e => simp [hk] at h
      | ok j0 =>
        simp only [hk] at h
        cases hr : List.mapM (Heap.normIdx n) ks with
        | error e => simp [hr] at h
        | ok js0 =>
          simp only [hr, Except.ok.injEq] at h; subst h
          simp [mapM_normIdx_length hr]

/-- `j < ⌈d / s⌉` implies `j · s < d` -/
theorem strideCount_bound (d s : Int) (hs : 0 < s) (j : Nat) (hj : j < strideCount d s) : (j : Int) * s < d := by
  unfold strideCount at hj
  split at hj
  · omega
  · rename_i hd
    have hnn : 0 ≤ (d + s - 1) / s := Int.ediv_nonneg (by omega) (le_of_lt hs)
    have hj' : (j : Int) < (d + s - 1) / s := by
      have : (j : Int) < (((d + s - 1) / s).toNat : Int) := by exact_mod_cast hj
      rwa [Int.toNat_of_nonneg hnn] at this
    have h1 : (j : Int) + 1 ≤ (d + s - 1) / s := hj'
    have h2 : ((d + s - 1) / s) * s ≤ d + s - 1 := Int.ediv_mul_le _ (ne_of_gt hs)
    have h3 : ((j : Int) + 1) * s ≤ ((d + s - 1) / s) * s := Int.mul_le_mul_of_nonneg_right h1 (le_of_lt hs)
    nlinarith

theorem clampUp_range (N i : Int) (hN : 0 ≤ N) : 0 ≤ clampUp N i ∧ clampUp N i ≤ N := by
  unfold clampUp; split <;> split <;> omega

theorem clampDown_range (N i : Int) (hN : 0 ≤ N) : -1 ≤ clampDown N i ∧ clampDown N i ≤ N - 1 := by
  unfold clampDown; split <;> split <;> omega

/-- every element of the progression of `stridedBounds` lies in `[0, n)` -/
theorem strided_within (n : Nat) (a b : Option Int) (step : Int) (hs : step ≠ 0) (j : Nat)
    (hj : j < (stridedBounds n a b step).2) :
    0 ≤ (stridedBounds n a b step).1 + (j : Int) * step ∧ (stridedBounds n a b step).1 + (j : Int) * step < n := by
  have hN : (0 : Int) ≤ n := Int.natCast_nonneg n
  unfold stridedBounds at hj ⊢
  by_cases hp : step > 0
  · simp only [hp, if_true] at hj ⊢
    have hstart0 : 0 ≤ (a.map (clampUp n)).getD 0 := by
      cases a with
      | none => simp
      | some i => simpa using (clampUp_range n i hN).1
    have hstopn : (b.map (clampUp n)).getD (n : Int) ≤ n := by
      cases b with
      | none => simp
      | some i => simpa using (clampUp_range n i hN).2
    have := strideCount_bound _ step hp j hj
    have hjs : 0 ≤ (j : Int) * step := Int.mul_nonneg (Int.natCast_nonneg j) (le_of_lt hp)
    constructor <;> omega
  · have hn : step < 0 := lt_of_le_of_ne (not_lt.mp hp) hs
    simp only [hp, if_false] at hj ⊢
    have hstartn : (a.map (clampDown n)).getD ((n : Int) - 1) ≤ n - 1 := by
      cases a with
      | none => simp
      | some i => simpa using (clampDown_range n i hN).2
    have hstop0 : -1 ≤ (b.map (clampDown n)).getD (-1) := by
      cases b with
      | none => simp
      | some i => simpa using (clampDown_range n i hN).1
    have hp' : 0 < -step := by omega
    have := strideCount_bound _ (-step) hp' j hj
    have hjs : 0 ≤ (j : Int) * -step := Int.mul_nonneg (Int.natCast_nonneg j) (le_of_lt hp')
    have e : (j : Int) * step = -((j : Int) * -step) := by rw [Int.mul_neg, Int.neg_neg]
    constructor <;> omega

end Solverz
