/-
  Proofs/Trees.lean — the enumeration `planeOfOrder` misses no tree.
-/
import SolverzModel.Core.Rosenbrock
namespace Solverz
namespace Tree

theorem order_pos (t : Tree) : 1 ≤ t.order := by
  induction t with
  | nil => simp [order]
  | cons c r ihc ihr => simp only [order]; omega

theorem mem_consAll {cs rs : List Tree} {c r : Tree} (hc : c ∈ cs) (hr : r ∈ rs) : Tree.cons c r ∈ consAll cs rs := by
  simp only [consAll, List.mem_flatMap, List.mem_map]
  exact ⟨c, hc, r, hr, rfl⟩

theorem mem_plane1 (t : Tree) (h : t.order = 1) : t ∈ plane1 := by
  cases t with
  | nil => simp [plane1]
  | cons c r => simp only [order] at h; have := order_pos c; have := order_pos r; omega

theorem mem_plane2 (t : Tree) (h : t.order = 2) : t ∈ plane2 := by
  cases t with
  | nil => simp [order] at h
  | cons c r =>
    simp only [order] at h; have := order_pos c; have := order_pos r
    exact mem_consAll (mem_plane1 c (by omega)) (mem_plane1 r (by omega))

theorem mem_plane3 (t : Tree) (h : t.order = 3) : t ∈ plane3 := by
  cases t with
  | nil => simp [order] at h
  | cons c r =>
    simp only [order] at h; have hc := order_pos c; have hr := order_pos r
    simp only [plane3, List.mem_append]
    rcases (by omega : c.order = 1 ∨ c.order = 2) with h1 | h1
    · exact Or.inl (mem_consAll (mem_plane1 c h1) (mem_plane2 r (by omega)))
    · exact Or.inr (mem_consAll (mem_plane2 c h1) (mem_plane1 r (by omega)))

theorem mem_plane4 (t : Tree) (h : t.order = 4) : t ∈ plane4 := by
  cases t with
  | nil => simp [order] at h
  | cons c r =>
    simp only [order] at h; have hc := order_pos c; have hr := order_pos r
    simp only [plane4, List.mem_append]
    rcases (by omega : c.order = 1 ∨ c.order = 2 ∨ c.order = 3) with h1 | h1 | h1
    · exact Or.inl (Or.inl (mem_consAll (mem_plane1 c h1) (mem_plane3 r (by omega))))
    · exact Or.inl (Or.inr (mem_consAll (mem_plane2 c h1) (mem_plane2 r (by omega))))
    · exact Or.inr (mem_consAll (mem_plane3 c h1) (mem_plane1 r (by omega)))

theorem mem_plane5 (t : Tree) (h : t.order = 5) : t ∈ plane5 := by
  cases t with
  | nil => simp [order] at h
  | cons c r =>
    simp only [order] at h; have hc := order_pos c; have hr := order_pos r
    simp only [plane5, List.mem_append]
    rcases (by omega : c.order = 1 ∨ c.order = 2 ∨ c.order = 3 ∨ c.order = 4) with h1 | h1 | h1 | h1
    · exact Or.inl (Or.inl (Or.inl (mem_consAll (mem_plane1 c h1) (mem_plane4 r (by omega)))))
    · exact Or.inl (Or.inl (Or.inr (mem_consAll (mem_plane2 c h1) (mem_plane3 r (by omega)))))
    · exact Or.inl (Or.inr (mem_consAll (mem_plane3 c h1) (mem_plane2 r (by omega))))
    · exact Or.inr (mem_consAll (mem_plane4 c h1) (mem_plane1 r (by omega)))

/-- **the enumeration is complete**: every tree with at most `p ≤ 5` vertices is in `planeUpTo p` -/
theorem mem_planeUpTo (t : Tree) (p : Nat) (hp : p ≤ 5) (h : t.order ≤ p) : t ∈ planeUpTo p := by
  have h1 := order_pos t
  simp only [planeUpTo, List.mem_flatMap, List.mem_range]
  refine ⟨t.order, by omega, ?_⟩
  rcases (by omega : t.order = 1 ∨ t.order = 2 ∨ t.order = 3 ∨ t.order = 4 ∨ t.order = 5) with h2 | h2 | h2 | h2 | h2 <;>
    rw [h2] <;> simp only [planeOfOrder]
  · exact mem_plane1 t h2
  · exact mem_plane2 t h2
  · exact mem_plane3 t h2
  · exact mem_plane4 t h2
  · exact mem_plane5 t h2

end Tree
end Solverz
