/-
  Proofs/IR.lean — soundness of the purity analysis `pureOK` w.r.t. the heap semantics.
-/
import SolverzModel.Core.IR
namespace Solverz

theorem lookup_cons (s : IRState) (x z : String) (o : Nat) (h : List Nat) (r : Option Nat) :
    (IRState.mk h ((x, o) :: s.env) r).lookup z = if x == z then some o else (IRState.mk h s.env r).lookup z := by
  simp only [IRState.lookup, List.find?_cons]
  by_cases hx : x == z <;> simp [hx]

theorem bump_length (h : List Nat) (o : Nat) : (bump h o).length = h.length := by
  induction h generalizing o with
  | nil => rfl
  | cons v vs ih => cases o <;> simp [bump, ih]

theorem bump_ne (h : List Nat) (o i : Nat) (hne : i ≠ o) : (bump h o)[i]? = h[i]? := by
  induction h generalizing o i with
  | nil => rfl
  | cons v vs ih =>
    cases o with
    | zero => cases i with
      | zero => exact absurd rfl hne
      | succ i => simp [bump]
    | succ o => cases i with
      | zero => simp [bump]
      | succ i => simp [bump, ih o i (by omega)]

/-- "every name of `ns` is bound to an object with index ≥ lo" -/
def Bound (lo : Nat) (ns : List String) (s : IRState) : Prop :=
  ∀ x, x ∈ ns → ∃ o, s.lookup x = some o ∧ lo ≤ o

theorem mem_addName {ns : List String} {x z : String} (h : z ∈ addName ns x) : z = x ∨ z ∈ ns := by
  unfold addName at h
  split at h
  · exact Or.inr h
  · rcases List.mem_cons.mp h with h | h
    · exact Or.inl h
    · exact Or.inr h

theorem mem_dropName {ns : List String} {x z : String} (h : z ∈ dropName ns x) : z ≠ x ∧ z ∈ ns := by
  simp only [dropName, List.mem_filter, bne_iff_ne, ne_eq] at h
  exact ⟨h.2, h.1⟩

theorem bound_add (lo : Nat) (ns : List String) (s : IRState) (x : String) (o : Nat) (h' : List Nat)
    (hb : Bound lo ns s) (ho : lo ≤ o) :
    Bound lo (addName ns x) (IRState.mk h' ((x, o) :: s.env) s.result) := by
  intro z hz
  by_cases hxz : x = z
  · subst hxz
    exact ⟨o, by rw [lookup_cons s x x o]; simp, ho⟩
  · rcases mem_addName hz with h | h
    · exact absurd h.symm hxz
    · obtain ⟨oz, hoz, h1⟩ := hb z h
      refine ⟨oz, ?_, h1⟩
      rw [lookup_cons s x z o]
      have : (x == z) = false := by simpa [beq_eq_false_iff_ne] using hxz
      simp only [this, Bool.false_eq_true, if_false]
      exact hoz

theorem bound_drop (lo : Nat) (ns : List String) (s : IRState) (x : String) (o : Nat) (h' : List Nat)
    (hb : Bound lo ns s) : Bound lo (dropName ns x) (IRState.mk h' ((x, o) :: s.env) s.result) := by
  intro z hz
  obtain ⟨hne, hmem⟩ := mem_dropName hz
  obtain ⟨oz, hoz, h1⟩ := hb z hmem
  refine ⟨oz, ?_, h1⟩
  rw [lookup_cons s x z o]
  have : (x == z) = false := by simpa [beq_eq_false_iff_ne] using fun e => hne e.symm
  simp only [this, Bool.false_eq_true, if_false]
  exact hoz

theorem bound_heap (lo : Nat) (ns : List String) (s : IRState) (h' : List Nat) (r : Option Nat)
    (hb : Bound lo ns s) : Bound lo ns (IRState.mk h' s.env r) := hb

/-- invariant of the execution -/
structure Inv (nargs n0 : Nat) (h0 : List Nat) (ws fs : List String) (s : IRState) : Prop where
  len : n0 ≤ s.heap.length
  pre : ∀ i, i < nargs → s.heap[i]? = h0[i]?
  wr : Bound nargs ws s
  fr : Bound n0 fs s
  res : ∀ o, s.result = some o → n0 ≤ o

theorem step_inv (nargs n0 : Nat) (hn : nargs ≤ n0) (h0 : List Nat) (ws fs : List String) (s : IRState) (st : Stmt)
    (hi : Inv nargs n0 h0 ws fs s) (hstore : ∀ x, st = .store x → ws.contains x = true)
    (hret : ∀ x, st = .ret x → fs.contains x = true) :
    Inv nargs n0 h0 (writableNames ws st) (freshNames fs st) (st.exec nargs s) := by
  obtain ⟨hlen, hpre, hwr, hfr, hres⟩ := hi
  cases st with
  | arg x k =>
    exact ⟨hlen, hpre, bound_drop nargs ws s x k s.heap hwr, bound_drop n0 fs s x k s.heap hfr, hres⟩
  | glob x g =>
    exact ⟨hlen, hpre, bound_add nargs ws s x (nargs + g) s.heap hwr (by omega),
      bound_drop n0 fs s x (nargs + g) s.heap hfr, hres⟩
  | view x y =>
    simp only [Stmt.exec, writableNames, freshNames]
    cases hl : s.lookup y with
    | none =>
      have hyw : ws.contains y = false := by
        cases hc : ws.contains y with
        | false => rfl
        | true =>
          obtain ⟨o, ho, _⟩ := hwr y (by simpa using hc)
          rw [hl] at ho; cases ho
      have hyf : fs.contains y = false := by
        cases hc : fs.contains y with
        | false => rfl
        | true =>
          obtain ⟨o, ho, _⟩ := hfr y (by simpa using hc)
          rw [hl] at ho; cases ho
      simp only [hyw, hyf, Bool.false_eq_true, if_false]
      refine ⟨hlen, hpre, ?_, ?_, hres⟩
      · intro z hz; exact hwr z (mem_dropName hz).2
      · intro z hz; exact hfr z (mem_dropName hz).2
    | some oy =>
      refine ⟨hlen, hpre, ?_, ?_, hres⟩
      · by_cases hy : ws.contains y = true
        · obtain ⟨o, ho, h1⟩ := hwr y (by simpa using hy)
          rw [hl] at ho; cases ho
          simp only [hy, if_true]
          exact bound_add nargs ws s x oy s.heap hwr h1
        · have hy' : ws.contains y = false := by simpa using hy
          simp only [hy', Bool.false_eq_true, if_false]
          exact bound_drop nargs ws s x oy s.heap hwr
      · by_cases hy : fs.contains y = true
        · obtain ⟨o, ho, h1⟩ := hfr y (by simpa using hy)
          rw [hl] at ho; cases ho
          simp only [hy, if_true]
          exact bound_add n0 fs s x oy s.heap hfr h1
        · have hy' : fs.contains y = false := by simpa using hy
          simp only [hy', Bool.false_eq_true, if_false]
          exact bound_drop n0 fs s x oy s.heap hfr
  | fresh x =>
    simp only [Stmt.exec, writableNames, freshNames]
    refine ⟨by simp; omega, ?_, bound_add nargs ws s x s.heap.length _ hwr (by omega),
      bound_add n0 fs s x s.heap.length _ hfr hlen, hres⟩
    intro i hi
    rw [List.getElem?_append_left (by omega)]; exact hpre i hi
  | store x =>
    have hx := hstore x rfl
    obtain ⟨o, ho, h1⟩ := hwr x (by simpa using hx)
    simp only [Stmt.exec, ho, writableNames, freshNames]
    refine ⟨by rw [bump_length]; exact hlen, ?_, hwr, hfr, hres⟩
    intro i hi
    rw [bump_ne _ _ _ (by omega)]; exact hpre i hi
  | ret x =>
    have hx := hret x rfl
    obtain ⟨o, ho, h1⟩ := hfr x (by simpa using hx)
    simp only [Stmt.exec, writableNames, freshNames]
    refine ⟨hlen, hpre, hwr, hfr, ?_⟩
    intro o' ho'
    rw [ho] at ho'
    cases ho'
    exact h1

theorem prog_inv (nargs n0 : Nat) (hn : nargs ≤ n0) (h0 : List Nat) (p : List Stmt) (ws fs : List String) (s : IRState)
    (hi : Inv nargs n0 h0 ws fs s) (hok : pureOK ws fs p = true) :
    ∃ ws' fs', Inv nargs n0 h0 ws' fs' (runProg nargs s p) := by
  induction p generalizing ws fs s with
  | nil => exact ⟨ws, fs, hi⟩
  | cons st rest ih =>
    simp only [runProg, List.foldl_cons]
    cases st with
    | store x =>
      simp only [pureOK, Bool.and_eq_true] at hok
      exact ih _ _ _ (step_inv nargs n0 hn h0 ws fs s (.store x) hi (fun y hy => by cases hy; exact hok.1) (fun y hy => by cases hy)) hok.2
    | ret x =>
      simp only [pureOK, Bool.and_eq_true] at hok
      exact ih _ _ _ (step_inv nargs n0 hn h0 ws fs s (.ret x) hi (fun y hy => by cases hy) (fun y hy => by cases hy; exact hok.1)) hok.2
    | arg x k =>
      simp only [pureOK] at hok
      exact ih _ _ _ (step_inv nargs n0 hn h0 ws fs s _ hi (fun y hy => by cases hy) (fun y hy => by cases hy)) hok
    | glob x g =>
      simp only [pureOK] at hok
      exact ih _ _ _ (step_inv nargs n0 hn h0 ws fs s _ hi (fun y hy => by cases hy) (fun y hy => by cases hy)) hok
    | view x y =>
      simp only [pureOK] at hok
      exact ih _ _ _ (step_inv nargs n0 hn h0 ws fs s _ hi (fun y hy => by cases hy) (fun y hy => by cases hy)) hok
    | fresh x =>
      simp only [pureOK] at hok
      exact ih _ _ _ (step_inv nargs n0 hn h0 ws fs s _ hi (fun y hy => by cases hy) (fun y hy => by cases hy)) hok

end Solverz
