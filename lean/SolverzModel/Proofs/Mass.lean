/-
  Proofs/Mass.lean — lemmas about the mass-matrix assembly.
-/
import SolverzModel.Core.Mass
import SolverzModel.Proofs.Vars
namespace Solverz

/-- the triplets of row `r` -/
def rowOf (T : List (Nat × Nat)) (r : Nat) : List (Nat × Nat) := T.filter (fun t => t.1 == r)

theorem rowOf_append (A B : List (Nat × Nat)) (r : Nat) : rowOf (A ++ B) r = rowOf A r ++ rowOf B r := by
  simp [rowOf]

theorem odeTriplets_rows (base : Nat) (cols : List Nat) :
    ∀ t ∈ odeTriplets base cols, base ≤ t.1 ∧ t.1 < base + cols.length := by
  induction cols generalizing base with
  | nil => simp [odeTriplets]
  | cons c cs ih =>
    intro t ht
    simp only [odeTriplets, List.mem_cons] at ht
    rcases ht with rfl | ht
    · simp
    · have := ih (base + 1) t ht
      simp only [List.length_cons]; omega

theorem rowOf_eq_nil_of_forall {T : List (Nat × Nat)} {r : Nat} (h : ∀ t ∈ T, t.1 ≠ r) : rowOf T r = [] := by
  simp only [rowOf, List.filter_eq_nil_iff, beq_iff_eq]
  exact h

theorem odeTriplets_row (base : Nat) (cols : List Nat) (i : Nat) (hi : i < cols.length) :
    rowOf (odeTriplets base cols) (base + i) = [(base + i, cols[i])] := by
  induction cols generalizing base i with
  | nil => simp at hi
  | cons c cs ih =>
    cases i with
    | zero =>
      have : rowOf (odeTriplets (base + 1) cs) base = [] :=
        rowOf_eq_nil_of_forall (fun t ht => by have := odeTriplets_rows (base + 1) cs t ht; omega)
      simp only [rowOf] at this
      simp [odeTriplets, rowOf, this]
    | succ k =>
      have h1 := ih (base + 1) k (by simpa using hi)
      have e : base + 1 + k = base + (k + 1) := by omega
      rw [e] at h1
      simp only [odeTriplets, rowOf, List.getElem_cons_succ] at h1 ⊢
      rw [List.filter_cons]
      have : ¬ ((base, c).1 == base + (k + 1)) = true := by simp
      simp only [this, if_false, Bool.false_eq_true]
      exact h1

theorem odeTriplets_row_out (base : Nat) (cols : List Nat) (r : Nat) (h : r < base ∨ base + cols.length ≤ r) :
    rowOf (odeTriplets base cols) r = [] :=
  rowOf_eq_nil_of_forall (fun t ht => by have := odeTriplets_rows base cols t ht; omega)

/-- total size of the first `k` equations -/
def offs (rs : List REq) (k : Nat) : Nat := ((rs.take k).map (·.size)).sum

theorem offs_zero (rs : List REq) : offs rs 0 = 0 := by simp [offs]
theorem offs_cons_succ (e : REq) (es : List REq) (k : Nat) : offs (e :: es) (k + 1) = e.size + offs es k := by
  simp [offs]

theorem assemble_rows (rs : List REq) (base : Nat) (T : List (Nat × Nat)) (h : assemble rs base = .ok T) :
    ∀ t ∈ T, base ≤ t.1 ∧ t.1 < base + DaeDecl.eqnTotal rs := by
  induction rs generalizing base T with
  | nil => simp [assemble] at h; subst h; simp
  | cons e es ih =>
    unfold assemble at h
    obtain ⟨rest, hr, h⟩ := Heap.bind_ok.mp h
    have ihr := ih (base + e.size) rest hr
    have tot : DaeDecl.eqnTotal (e :: es) = e.size + DaeDecl.eqnTotal es := by simp [DaeDecl.eqnTotal]
    split at h
    · cases h
      intro t ht; have := ihr t ht; omega
    · rename_i cols hc
      split at h
      · cases h
      · rename_i hlen
        cases h
        intro t ht
        simp only [List.mem_append] at ht
        rcases ht with ht | ht
        · have := odeTriplets_rows base cols t ht
          have hl : cols.length = e.size := by simpa using hlen
          omega
        · have := ihr t ht; omega

/-- **Row exactness of the assembly.**  In the assembled triplets, the row of element `i` of
equation `k` holds exactly one triplet — at the `i`-th selected column — when the equation is
an `Ode`, and no triplet at all when it is algebraic. -/
theorem assemble_row_exact (rs : List REq) (base : Nat) (T : List (Nat × Nat)) (h : assemble rs base = .ok T)
    (k : Nat) (hk : k < rs.length) (i : Nat) (hi : i < rs[k].size) :
    rowOf T (base + offs rs k + i) =
      match rs[k].cols with
      | some cols => [(base + offs rs k + i, cols.getD i 0)]
      | none => [] := by
  induction rs generalizing base T k with
  | nil => simp at hk
  | cons e es ih =>
    unfold assemble at h
    obtain ⟨rest, hr, h⟩ := Heap.bind_ok.mp h
    have hrest := assemble_rows es (base + e.size) rest hr
    cases k with
    | zero =>
      simp only [List.getElem_cons_zero] at hi ⊢
      simp only [offs_zero, Nat.add_zero]
      have hrow_rest : rowOf rest (base + i) = [] :=
        rowOf_eq_nil_of_forall (fun t ht => by have := hrest t ht; omega)
      split at h
      · rename_i hc
        cases h; simp [hc, hrow_rest]
      · rename_i cols hc
        split at h
        · cases h
        · rename_i hlen
          cases h
          have hl : cols.length = e.size := by simpa using hlen
          rw [rowOf_append, hrow_rest, odeTriplets_row base cols i (by omega)]
          simp [hc, List.getD, List.getElem?_eq_getElem (show i < cols.length by omega)]
    | succ k =>
      simp only [List.getElem_cons_succ] at hi ⊢
      have hk' : k < es.length := by simpa using hk
      have h2 := ih (base + e.size) rest hr k hk' hi
      have e1 : base + offs (e :: es) (k + 1) + i = base + e.size + offs es k + i := by
        rw [offs_cons_succ]; omega
      rw [e1]
      split at h
      · cases h; exact h2
      · rename_i cols hc
        split at h
        · cases h
        · rename_i hlen
          cases h
          have hl : cols.length = e.size := by simpa using hlen
          rw [rowOf_append, odeTriplets_row_out base cols _ (Or.inr (by omega))]
          simpa using h2

end Solverz

namespace Solverz

/-- every row index below the total belongs to exactly one equation element -/
theorem row_decompose (rs : List REq) (r : Nat) (h : r < DaeDecl.eqnTotal rs) :
    ∃ k, ∃ hk : k < rs.length, ∃ i, i < rs[k].size ∧ r = offs rs k + i := by
  induction rs generalizing r with
  | nil => simp [DaeDecl.eqnTotal] at h
  | cons e es ih =>
    have tot : DaeDecl.eqnTotal (e :: es) = e.size + DaeDecl.eqnTotal es := by simp [DaeDecl.eqnTotal]
    by_cases hr : r < e.size
    · exact ⟨0, by simp, r, by simpa using hr, by simp [offs_zero]⟩
    · obtain ⟨k, hk, i, hi, he⟩ := ih (r - e.size) (by omega)
      refine ⟨k + 1, by simpa using hk, i, by simpa using hi, ?_⟩
      rw [offs_cons_succ]; omega

theorem cols_range_mem (s n : Nat) (c : Nat) (h : c ∈ (List.range n).map (s + ·)) : s ≤ c ∧ c < s + n := by
  simp only [List.mem_map, List.mem_range] at h
  obtain ⟨a, ha, rfl⟩ := h
  omega

theorem cols_range_pairwise (s n : Nat) : ((List.range n).map (s + ·)).Pairwise (· < ·) := by
  rw [List.pairwise_map]
  exact List.Pairwise.imp (by intro a b h; omega) (List.pairwise_lt_range)

theorem sliceBounds_le (n : Nat) (a b : Int) : (Heap.sliceBounds n a b).1 ≤ (Heap.sliceBounds n a b).2 ∧ (Heap.sliceBounds n a b).2 ≤ n := by
  unfold Heap.sliceBounds
  simp only
  split <;> split <;> split <;> (try split) <;> (try split) <;> omega

theorem sliceBounds_le' (n : Nat) (a b : Int) : (Heap.sliceBounds n a b).1 ≤ (Heap.sliceBounds n a b).2 ∧ (Heap.sliceBounds n a b).2 ≤ n :=
  sliceBounds_le n a b

end Solverz
