/-
  Proofs/Ode15sRun.lean — invariants of whole runs of the ode15s controller model over exact rationals, for every
  sequence of step records (whatever the Newton iteration and the error estimates did).
-/
import SolverzModel.Core.Ctl.Ode15s
import SolverzModel.Proofs.RodasDense
import Mathlib.Tactic.Linarith
namespace Solverz
open OdeEnv

/-- standing assumptions: exact arithmetic, the constants of the code, a positive `hmin ≤ hmax` -/
structure OdeHyp (E : OdeEnv ℚ) : Prop where
  hO : E.O = ratO
  c11 : E.c11 = 11 / 10
  c03 : E.c03 = 3 / 10
  c05 : E.c05 = 1 / 2
  hmin_pos : ∀ t, 0 < E.hminAt t
  hmin_le : ∀ t, E.hminAt t ≤ E.hmax
  hspan : E.t0 < E.tend

/-- the records a run can produce: the factor of a failed error test is at most 1 (`0.833 (rtol/err)^… < 1` as `err > rtol`) -/
def Inner.ok : Inner ℚ → Prop
  | .errFail f _ => f ≤ 1
  | _ => True

/-- time-related facts of every reached state -/
structure OdeInv (E : OdeEnv ℚ) (s : OdeState ℚ) : Prop where
  le_tend : s.t ≤ E.tend
  running : s.done = false → s.t < E.tend
  finished : s.done = true → s.t = E.tend
  absh_pos : 0 < s.absh
  last_pos : 0 < s.abshlast
  last_max : s.abshlast ≤ E.hmax

/-- facts about the working variables of the retry loop of a step that starts at `s` -/
structure WorkInv (E : OdeEnv ℚ) (s : OdeState ℚ) (w : Work ℚ) : Prop where
  absh_pos : 0 < w.absh
  absh_max : w.absh ≤ E.hmax
  last_pos : 0 < w.abshlast
  last_max : w.abshlast ≤ E.hmax
  stretched : w.done = true → w.absh ≤ E.tend - s.t ∧ E.tend - s.t ≤ E.hmax
  plain : w.done = false → w.dt = w.absh ∧ s.t + w.absh < E.tend

namespace OdeHyp
variable {E : OdeEnv ℚ} (H : OdeHyp E)
include H

theorem lt_iff (a b : ℚ) : E.O.lt a b = decide (a < b) := by rw [H.hO]; rfl
theorem le_iff (a b : ℚ) : E.O.le a b = decide (a ≤ b) := by rw [H.hO]; rfl
theorem sub_eq (a b : ℚ) : E.O.sub a b = a - b := by rw [H.hO]; rfl
theorem add_eq (a b : ℚ) : E.O.add a b = a + b := by rw [H.hO]; rfl
theorem mul_eq (a b : ℚ) : E.O.mul a b = a * b := by rw [H.hO]; rfl
theorem abs_eq (a : ℚ) : E.O.abs a = |a| := by
  rw [H.hO]; simp only [ratO]
  by_cases h : a < 0
  · simp [h, abs_of_neg h]
  · simp [h, abs_of_nonneg (not_lt.mp h)]

theorem omin_eq (a b : ℚ) : E.omin a b = min a b := by
  unfold OdeEnv.omin; rw [H.lt_iff]
  by_cases h : b < a
  · simp [h, min_eq_right (le_of_lt h)]
  · simp [h, min_eq_left (not_lt.mp h)]

theorem omax_eq (a b : ℚ) : E.omax a b = max a b := by
  unfold OdeEnv.omax; rw [H.lt_iff]
  by_cases h : a < b
  · simp [h, max_eq_right (le_of_lt h)]
  · simp [h, max_eq_left (not_lt.mp h)]

/-- the clamped step lies in `[hmin, hmax]` … or is the previous step (the `at_hmin` rule) -/
theorem clamp_bounds (s : OdeState ℚ) (I : OdeInv E s) : 0 < (E.clampAbsh s).1 ∧ (E.clampAbsh s).1 ≤ E.hmax := by
  have hp := H.hmin_pos s.t
  have hl := H.hmin_le s.t
  have ha : E.hminAt s.t ≤ E.omin E.hmax (E.omax (E.hminAt s.t) s.absh) ∧ E.omin E.hmax (E.omax (E.hminAt s.t) s.absh) ≤ E.hmax := by
    rw [H.omin_eq, H.omax_eq]
    exact ⟨le_min hl (le_max_left _ _), min_le_left _ _⟩
  unfold OdeEnv.clampAbsh
  simp only
  split
  · split
    · exact ⟨I.last_pos, I.last_max⟩
    · exact ⟨lt_of_lt_of_le hp ha.1, ha.2⟩
  · exact ⟨lt_of_lt_of_le hp ha.1, ha.2⟩

/-- the working variables at the start of the retry loop -/
theorem start_inv (s : OdeState ℚ) (I : OdeInv E s) (hr : s.done = false) : WorkInv E s (E.start s) := by
  have hc := H.clamp_bounds s I
  have hrem : 0 < E.tend - s.t := by linarith [I.running hr]
  unfold OdeEnv.start
  simp only
  by_cases hs : E.stretches s (E.clampAbsh s).1 = true
  · simp only [hs, if_true, H.sub_eq, H.abs_eq, abs_of_pos hrem]
    unfold OdeEnv.stretches at hs
    simp only [H.le_iff, H.abs_eq, H.sub_eq, abs_of_pos hrem, Bool.and_eq_true, decide_eq_true_eq] at hs
    exact ⟨hrem, hs.2, I.last_pos, I.last_max, fun _ => ⟨le_refl _, hs.2⟩, fun h => by simp at h⟩
  · have hs' : E.stretches s (E.clampAbsh s).1 = false := by simpa using hs
    simp only [hs', Bool.false_eq_true, if_false]
    refine ⟨hc.1, hc.2, I.last_pos, I.last_max, fun h => by simp at h, fun _ => ⟨rfl, ?_⟩⟩
    unfold OdeEnv.stretches at hs'
    simp only [H.le_iff, H.abs_eq, H.sub_eq, abs_of_pos hrem, H.mul_eq, H.c11, Bool.and_eq_false_iff, decide_eq_false_iff_not, not_le] at hs'
    rcases hs' with h | h
    · nlinarith [hc.1]
    · linarith [hc.2]

/-- the first-failure proposal never exceeds the current step -/
theorem firstFailure_le (w : Work ℚ) (f : ℚ) (g : Option ℚ) (hf : f ≤ 1) (hp : 0 < w.absh) : (E.firstFailure w f g).1 ≤ w.absh := by
  have h0 : w.absh * f ≤ w.absh := by nlinarith
  unfold OdeEnv.firstFailure
  simp only [H.mul_eq]
  cases g with
  | none => exact h0
  | some g =>
    simp only
    split
    · split
      · rw [H.omin_eq]; exact min_le_left _ _
      · exact h0
    · exact h0

/-- one unsuccessful pass keeps the working invariant -/
theorem retry_inv (s : OdeState ℚ) (w : Work ℚ) (e : Inner ℚ) (he : Inner.ok e) (W : WorkInv E s w) :
    WorkInv E s (E.retry (E.hminAt s.t) w e) := by
  have hp := H.hmin_pos s.t
  cases e with
  | slowJ => exact W
  | slowShrink =>
    simp only [OdeEnv.retry]
    split
    · exact W
    · split
      · exact ⟨W.absh_pos, W.absh_max, W.last_pos, W.last_max, W.stretched, W.plain⟩
      · rename_i _ hle
        rw [H.le_iff] at hle
        have hgt : E.hminAt s.t < w.absh := by simpa using hle
        have ha : E.omax (E.O.mul E.c03 w.absh) (E.hminAt s.t) < w.absh ∧ 0 < E.omax (E.O.mul E.c03 w.absh) (E.hminAt s.t) := by
          rw [H.omax_eq, H.mul_eq, H.c03]
          exact ⟨max_lt (by nlinarith [W.absh_pos]) hgt, lt_of_lt_of_le hp (le_max_right _ _)⟩
        refine ⟨ha.2, le_trans (le_of_lt ha.1) W.absh_max, W.absh_pos, W.absh_max, fun h => by simp at h, fun _ => ⟨rfl, ?_⟩⟩
        by_cases hd : w.done = true
        · have := (W.stretched hd).1; linarith [ha.1]
        · have := (W.plain (by simpa using hd)).2; linarith [ha.1]
  | errFail f g =>
    simp only [OdeEnv.retry]
    split
    · exact W
    · split
      · exact ⟨W.absh_pos, W.absh_max, W.last_pos, W.last_max, W.stretched, W.plain⟩
      · rename_i _ hle
        rw [H.le_iff] at hle
        have hgt : E.hminAt s.t < w.absh := by simpa using hle
        -- the proposal and the new step
        have hk : (if w.nofailed = true then E.firstFailure w f g else (E.O.mul E.c05 w.absh, w.k)).1 ≤ w.absh := by
          split
          · exact H.firstFailure_le w f g he W.absh_pos
          · simp only [H.mul_eq, H.c05]; nlinarith [W.absh_pos]
        set hk1 := (if w.nofailed = true then E.firstFailure w f g else (E.O.mul E.c05 w.absh, w.k)).1 with hk1def
        have ha : E.omax (E.hminAt s.t) hk1 ≤ w.absh ∧ 0 < E.omax (E.hminAt s.t) hk1 := by
          rw [H.omax_eq]
          exact ⟨max_le (le_of_lt hgt) hk, lt_of_lt_of_le hp (le_max_left _ _)⟩
        refine ⟨ha.2, le_trans ha.1 W.absh_max, W.absh_pos, W.absh_max, ?_, ?_⟩
        · intro hd
          simp only [H.lt_iff] at hd
          by_cases hlt : E.omax (E.hminAt s.t) hk1 < w.absh
          · simp [hlt] at hd
          · simp only [hlt, decide_false, Bool.false_eq_true, if_false] at hd
            have := W.stretched hd
            exact ⟨le_trans ha.1 this.1, this.2⟩
        · intro hd
          simp only [H.lt_iff] at hd
          refine ⟨rfl, ?_⟩
          by_cases hlt : E.omax (E.hminAt s.t) hk1 < w.absh
          · by_cases hdw : w.done = true
            · have := (W.stretched hdw).1; linarith
            · have := (W.plain (by simpa using hdw)).2; linarith
          · simp only [hlt, decide_false, Bool.false_eq_true, if_false] at hd
            have heq : E.omax (E.hminAt s.t) hk1 = w.absh := le_antisymm ha.1 (not_lt.mp hlt)
            rw [heq]; exact (W.plain hd).2

theorem retries_inv (s : OdeState ℚ) (es : List (Inner ℚ)) (hes : ∀ e ∈ es, Inner.ok e) (w : Work ℚ) (W : WorkInv E s w) :
    WorkInv E s (E.retries (E.hminAt s.t) w es) := by
  induction es generalizing w with
  | nil => exact W
  | cons e rest ih =>
    simp only [OdeEnv.retries, List.foldl_cons]
    exact ih (fun x hx => hes x (List.mem_cons_of_mem _ hx)) _ (H.retry_inv s w e (hes e List.mem_cons_self) W)

/-- the new time lies strictly after the old one, never beyond `tend`, and is `tend` exactly when the step was stretched;
the step is at most `hmax` -/
theorem tNew_bounds (s : OdeState ℚ) (w : Work ℚ) (W : WorkInv E s w) (hrun : s.t < E.tend) :
    s.t < E.tNew s w ∧ E.tNew s w ≤ E.tend ∧ (w.done = true → E.tNew s w = E.tend) ∧ (w.done = false → E.tNew s w < E.tend) ∧
    E.tNew s w - s.t ≤ E.hmax := by
  unfold OdeEnv.tNew
  by_cases hd : w.done = true
  · simp only [hd, if_true]
    exact ⟨hrun, le_refl _, fun _ => trivial, fun h => by simp at h, (W.stretched hd).2⟩
  · have hd' : w.done = false := by simpa using hd
    simp only [hd', Bool.false_eq_true, if_false, H.add_eq]
    have := W.plain hd'
    rw [this.1]
    exact ⟨by linarith [W.absh_pos], le_of_lt this.2, fun h => by simp at h, fun _ => this.2, by linarith [W.absh_max]⟩

/-- the selection after a success never proposes less than the current step -/
theorem select_ge (absh : ℚ) (k : Nat) (p : Temps ℚ) : absh ≤ (E.select absh k p).1 := by
  unfold OdeEnv.select
  by_cases h : E.O.lt absh (E.selectRaw absh k p).1 = true
  · simp only [h, if_true]
    rw [H.lt_iff] at h
    exact le_of_lt (by simpa using h)
  · simp only [h, Bool.false_eq_true, if_false]; exact le_refl _

/-- the working variables of a step of a running state -/
def work (E : OdeEnv ℚ) (rec : StepRec ℚ) (s : OdeState ℚ) : Work ℚ := E.retries (E.hminAt s.t) (E.start s) rec.inner

theorem step_fields (rec : StepRec ℚ) (s : OdeState ℚ) :
    (E.step rec s).t = E.tNew s (work E rec s) ∧ (E.step rec s).done = (work E rec s).done ∧
    (E.step rec s).abshlast = (work E rec s).absh ∧
    (work E rec s).absh ≤ (E.step rec s).absh := by
  refine ⟨rfl, rfl, rfl, ?_⟩
  show (work E rec s).absh ≤ (if _ then E.select (work E rec s).absh (work E rec s).k rec.temps else ((work E rec s).absh, (work E rec s).k)).1
  split
  · exact H.select_ge _ _ _
  · exact le_refl _

/-- **one step preserves the time invariant**, advances time strictly and by at most `hmax` -/
theorem step_inv (rec : StepRec ℚ) (hrec : ∀ e ∈ rec.inner, Inner.ok e) (s : OdeState ℚ) (I : OdeInv E s) (hr : s.done = false) :
    OdeInv E (E.step rec s) ∧ s.t < (E.step rec s).t ∧ (E.step rec s).t - s.t ≤ E.hmax := by
  have W : WorkInv E s (work E rec s) := H.retries_inv s rec.inner hrec _ (H.start_inv s I hr)
  have hb := H.tNew_bounds s (work E rec s) W (I.running hr)
  obtain ⟨ft, fd, fl, fa⟩ := H.step_fields rec s
  refine ⟨⟨by rw [ft]; exact hb.2.1, fun h => by rw [ft]; rw [fd] at h; exact hb.2.2.2.1 h, fun h => by rw [ft]; rw [fd] at h; exact hb.2.2.1 h,
    lt_of_lt_of_le W.absh_pos fa, by rw [fl]; exact W.absh_pos, by rw [fl]; exact W.absh_max⟩, by rw [ft]; exact hb.1, by rw [ft]; exact hb.2.2.2.2⟩

/-! ### two requested nodes: every accepted step is emitted -/

structure OdeTwoInv (E : OdeEnv ℚ) (s : OdeState ℚ) : Prop where
  head : s.T.head? = some s.t
  last : s.T.getLast? = some E.t0
  incr : s.T.Pairwise (· > ·)

theorem init_inv (absh0 : ℚ) (h0 : 0 < absh0) (hm : absh0 ≤ E.hmax) : OdeInv E (E.init absh0) ∧ OdeTwoInv E (E.init absh0) :=
  ⟨⟨le_of_lt H.hspan, fun _ => H.hspan, fun h => by simp [OdeEnv.init] at h, h0, h0, hm⟩,
   ⟨by simp [OdeEnv.init], by simp [OdeEnv.init], by simp [OdeEnv.init]⟩⟩

theorem step_two (hd : E.dense = false) (rec : StepRec ℚ) (hrec : ∀ e ∈ rec.inner, Inner.ok e) (s : OdeState ℚ)
    (I : OdeInv E s) (O : OdeTwoInv E s) (hr : s.done = false) : OdeTwoInv E (E.step rec s) := by
  have hs := (H.step_inv rec hrec s I hr).2.1
  have hT : (E.step rec s).T = (E.step rec s).t :: s.T := by
    show (if E.dense = true then _ else ((E.step rec s).t :: s.T, s.inext, s.tnext)).1 = _
    simp [hd]
  refine ⟨by rw [hT]; rfl, ?_, ?_⟩
  · rw [hT]
    have := O.last
    cases hTs : s.T with
    | nil => simp [hTs] at this
    | cons a l => simp [hTs] at this ⊢; exact this
  · rw [hT, List.pairwise_cons]
    refine ⟨?_, O.incr⟩
    intro a ha
    have hb := pairwise_gt_bounds _ _ _ O.incr O.head O.last a ha
    linarith [hb.2]

theorem run_two (hd : E.dense = false) (recs : List (StepRec ℚ)) (hrecs : ∀ r ∈ recs, ∀ e ∈ r.inner, Inner.ok e) (s : OdeState ℚ)
    (I : OdeInv E s) (O : OdeTwoInv E s) : OdeInv E (E.run recs s) ∧ OdeTwoInv E (E.run recs s) := by
  induction recs generalizing s with
  | nil => exact ⟨I, O⟩
  | cons r rest ih =>
    simp only [OdeEnv.run]
    by_cases hdn : s.done = true
    · simp [hdn]; exact ⟨I, O⟩
    · have hdn' : s.done = false := by simpa using hdn
      simp only [hdn', Bool.false_eq_true, if_false]
      exact ih (fun x hx => hrecs x (List.mem_cons_of_mem _ hx)) _
        (H.step_inv r (hrecs r List.mem_cons_self) s I hdn').1 (H.step_two hd r (hrecs r List.mem_cons_self) s I O hdn')

/-! ### more than two requested nodes: the emitted times are a prefix of `tspan` -/

structure OdeDenseInv (E : OdeEnv ℚ) (s : OdeState ℚ) : Prop where
  out : s.T = (E.tspan.take s.inext).reverse
  idx : 1 ≤ s.inext ∧ s.inext ≤ E.tspan.length
  next : s.inext < E.tspan.length → s.tnext = E.tspan.getD s.inext 0 ∧ s.t < s.tnext
  all : s.t = E.tend → s.inext = E.tspan.length
  full : s.inext = E.tspan.length → s.t = E.tend

/-- dense-mode assumptions on the request -/
structure OdeDenseHyp (E : OdeEnv ℚ) : Prop where
  hd : E.dense = true
  hsorted : E.tspan.Pairwise (· < ·)

theorem len_gt (D : OdeDenseHyp E) : 2 < E.tspan.length := by
  have := D.hd; simpa [OdeEnv.dense] using this

theorem zero_eq : E.O.zero = 0 := by rw [H.hO]; rfl

theorem tend_eq (D : OdeDenseHyp E) : E.tend = E.tspan.getD (E.tspan.length - 1) 0 := by
  unfold OdeEnv.tend
  rw [H.zero_eq]
  exact getLastD_eq_getD _ (by have := H.len_gt D; omega)

theorem t0_eq (D : OdeDenseHyp E) : E.t0 = E.tspan.getD 0 0 := by
  unfold OdeEnv.t0
  cases h : E.tspan with
  | nil => have := H.len_gt D; simp [h] at this
  | cons a l => simp [H.zero_eq]

/-- the dense-output loop emits exactly the requested nodes that the step has reached, in order -/
theorem emit_spec (D : OdeDenseHyp E) (tnew told dt : ℚ) (hdt : 0 < dt) (hle : tnew ≤ E.tend) (htold : told < E.tend) :
    ∀ (fuel : Nat) (T : List ℚ) (inext : Nat) (tnext : ℚ),
    T = (E.tspan.take inext).reverse → 1 ≤ inext → inext ≤ E.tspan.length →
    (inext < E.tspan.length → tnext = E.tspan.getD inext 0) → (inext = E.tspan.length → tnext = E.tend + dt) →
    told < tnext → E.tspan.length - inext < fuel →
    (E.emit tnew told dt fuel (T, inext, tnext)).1 = (E.tspan.take (E.emit tnew told dt fuel (T, inext, tnext)).2.1).reverse ∧
    inext ≤ (E.emit tnew told dt fuel (T, inext, tnext)).2.1 ∧ (E.emit tnew told dt fuel (T, inext, tnext)).2.1 ≤ E.tspan.length ∧
    ((E.emit tnew told dt fuel (T, inext, tnext)).2.1 < E.tspan.length →
      (E.emit tnew told dt fuel (T, inext, tnext)).2.2 = E.tspan.getD (E.emit tnew told dt fuel (T, inext, tnext)).2.1 0 ∧
      tnew < (E.emit tnew told dt fuel (T, inext, tnext)).2.2) ∧
    (tnew = E.tend → (E.emit tnew told dt fuel (T, inext, tnext)).2.1 = E.tspan.length) ∧
    ((E.emit tnew told dt fuel (T, inext, tnext)).2.1 = E.tspan.length → inext < E.tspan.length → tnew = E.tend) := by
  intro fuel
  induction fuel with
  | zero => intro T inext tnext _ _ _ _ _ _ hfuel; omega
  | succ n ih =>
    intro T inext tnext hT h1 hlen hnext hsent hlt hfuel
    simp only [OdeEnv.emit]
    by_cases hc : (E.O.le tnext tnew && E.O.lt told tnext) = true
    · simp only [hc, if_true]
      rw [H.le_iff, H.lt_iff] at hc
      simp only [Bool.and_eq_true, decide_eq_true_eq] at hc
      have hin : inext < E.tspan.length := by
        by_contra hcon
        have heq : inext = E.tspan.length := by omega
        have := hsent heq
        rw [this] at hc
        linarith [hc.1]
      have htn := hnext hin
      have hl := H.len_gt D
      have hnn : (if inext + 1 ≤ E.tspan.length - 1 then E.tspan.getD (inext + 1) E.O.zero else E.O.add E.tend dt)
          = if inext + 1 < E.tspan.length then E.tspan.getD (inext + 1) 0 else E.tend + dt := by
        by_cases hk : inext + 1 < E.tspan.length
        · have : inext + 1 ≤ E.tspan.length - 1 := by omega
          simp only [this, if_true, hk, H.zero_eq]
        · have : ¬ inext + 1 ≤ E.tspan.length - 1 := by omega
          simp only [this, if_false, hk, H.add_eq]
      rw [hnn]
      have r := ih (tnext :: T) (inext + 1) (if inext + 1 < E.tspan.length then E.tspan.getD (inext + 1) 0 else E.tend + dt)
        (by rw [take_succ_reverse _ _ hin, hT, htn]) (by omega) (by omega)
        (by intro hk; simp [hk]) (by intro hk; simp [show ¬ inext + 1 < E.tspan.length from by omega])
        (by
          by_cases hk : inext + 1 < E.tspan.length
          · simp only [hk, if_true]
            have := sorted_getD _ D.hsorted inext (inext + 1) (by omega) hk
            rw [← htn] at this; linarith
          · simp only [hk, if_false]; linarith)
        (by omega)
      obtain ⟨r1, r2, r3, r4, r5, r6⟩ := r
      refine ⟨r1, by omega, r3, r4, r5, ?_⟩
      intro hall _
      by_cases hk : inext + 1 < E.tspan.length
      · exact r6 hall hk
      · have hlast : inext = E.tspan.length - 1 := by omega
        have : tnext = E.tend := by rw [htn, H.tend_eq D, hlast]
        rw [this] at hc
        linarith [hc.1]
    · have hc' : (E.O.le tnext tnew && E.O.lt told tnext) = false := by simpa using hc
      simp only [hc', Bool.false_eq_true, if_false]
      rw [H.le_iff, H.lt_iff] at hc'
      simp only [Bool.and_eq_false_iff, decide_eq_false_iff_not, not_le, not_lt] at hc'
      have hgt : tnew < tnext := by
        rcases hc' with h | h
        · exact h
        · linarith
      refine ⟨hT, le_refl _, hlen, fun hk => ⟨hnext hk, hgt⟩, ?_, fun hall hk => by omega⟩
      intro hend
      by_contra hne
      have hk : inext < E.tspan.length := lt_of_le_of_ne hlen hne
      have hle' : E.tspan.getD inext 0 ≤ E.tend := by
        rw [H.tend_eq D]
        by_cases heq : inext = E.tspan.length - 1
        · rw [heq]
        · exact le_of_lt (sorted_getD _ D.hsorted _ _ (by omega) (by have := H.len_gt D; omega))
      rw [hnext hk, hend] at hgt
      linarith

theorem init_dense (D : OdeDenseHyp E) (absh0 : ℚ) : OdeDenseInv E (E.init absh0) := by
  have hl := H.len_gt D
  refine ⟨?_, by simp [OdeEnv.init]; omega, ?_, ?_, ?_⟩
  · simp only [OdeEnv.init]
    cases hts : E.tspan with
    | nil => simp [hts] at hl
    | cons a l => simp [OdeEnv.t0, hts]
  · intro _
    simp only [OdeEnv.init, D.hd, if_true, H.zero_eq]
    refine ⟨trivial, ?_⟩
    rw [H.t0_eq D]
    exact sorted_getD _ D.hsorted 0 1 (by omega) (by omega)
  · intro h
    simp only [OdeEnv.init] at h
    exact absurd h (ne_of_lt H.hspan)
  · intro h
    simp only [OdeEnv.init] at h
    omega

theorem step_dense (D : OdeDenseHyp E) (rec : StepRec ℚ) (hrec : ∀ e ∈ rec.inner, Inner.ok e) (s : OdeState ℚ)
    (I : OdeInv E s) (O : OdeDenseInv E s) (hr : s.done = false) : OdeDenseInv E (E.step rec s) := by
  obtain ⟨I', hgt, _⟩ := H.step_inv rec hrec s I hr
  have hrun := I.running hr
  have hin : s.inext < E.tspan.length := by
    by_contra hcon
    have hall : s.inext = E.tspan.length := by have := O.idx.2; omega
    have := O.full hall
    linarith
  have hnx := O.next hin
  have hform : ((E.step rec s).T, (E.step rec s).inext, (E.step rec s).tnext)
      = E.emit (E.step rec s).t s.t (E.O.sub (E.step rec s).t s.t) (E.tspan.length + 1) (s.T, s.inext, s.tnext) := by
    show (if E.dense = true then _ else _) = _
    simp [D.hd]
    rfl
  have spec := H.emit_spec D (E.step rec s).t s.t ((E.step rec s).t - s.t) (by linarith) I'.le_tend hrun
    (E.tspan.length + 1) s.T s.inext s.tnext O.out O.idx.1 O.idx.2 (fun _ => hnx.1) (fun hk => by omega) hnx.2 (by omega)
  rw [← H.sub_eq, ← hform] at spec
  obtain ⟨p1, p2, p3, p4, p5, p6⟩ := spec
  exact ⟨p1, ⟨le_trans O.idx.1 p2, p3⟩, p4, p5, fun h => p6 h hin⟩

theorem run_dense (D : OdeDenseHyp E) (recs : List (StepRec ℚ)) (hrecs : ∀ r ∈ recs, ∀ e ∈ r.inner, Inner.ok e) (s : OdeState ℚ)
    (I : OdeInv E s) (O : OdeDenseInv E s) : OdeInv E (E.run recs s) ∧ OdeDenseInv E (E.run recs s) := by
  induction recs generalizing s with
  | nil => exact ⟨I, O⟩
  | cons r rest ih =>
    simp only [OdeEnv.run]
    by_cases hdn : s.done = true
    · simp [hdn]; exact ⟨I, O⟩
    · have hdn' : s.done = false := by simpa using hdn
      simp only [hdn', Bool.false_eq_true, if_false]
      exact ih (fun x hx => hrecs x (List.mem_cons_of_mem _ hx)) _
        (H.step_inv r (hrecs r List.mem_cons_self) s I hdn').1 (H.step_dense D r (hrecs r List.mem_cons_self) s I O hdn')

/-! ### order and step-size selection -/

omit H in
/-- the order proposed after a success differs from the current one by at most one and stays in `[1, maxk]` -/
theorem select_order (absh : ℚ) (k : Nat) (p : Temps ℚ) (hk : 1 ≤ k ∧ k ≤ E.maxk) :
    1 ≤ (E.select absh k p).2 ∧ (E.select absh k p).2 ≤ E.maxk ∧ (E.select absh k p).2 ≤ k + 1 ∧ k ≤ (E.select absh k p).2 + 1 := by
  have hraw : 1 ≤ (E.selectRaw absh k p).2 ∧ (E.selectRaw absh k p).2 ≤ E.maxk ∧ (E.selectRaw absh k p).2 ≤ k + 1 ∧ k ≤ (E.selectRaw absh k p).2 + 1 := by
    unfold OdeEnv.selectRaw
    cases p.tempm1 <;> cases p.tempp1 <;> (try simp only) <;> (repeat' split) <;> (try simp only) <;> omega
  unfold OdeEnv.select
  split
  · exact hraw
  · (try simp only); omega

omit H in
/-- a failed error test lowers the order by at most one, never below 1 -/
theorem retry_order (hmin : ℚ) (w : Work ℚ) (e : Inner ℚ) (hk : 1 ≤ w.k) :
    1 ≤ (E.retry hmin w e).k ∧ (E.retry hmin w e).k ≤ w.k ∧ w.k ≤ (E.retry hmin w e).k + 1 := by
  cases e with
  | slowJ => simp [OdeEnv.retry]; omega
  | slowShrink => simp only [OdeEnv.retry]; (repeat' split) <;> (try simp only) <;> omega
  | errFail f g =>
    simp only [OdeEnv.retry]
    split
    · omega
    · split
      · (try simp only); omega
      · (try simp only)
        split
        · unfold OdeEnv.firstFailure
          cases g <;> (try simp only) <;> (repeat' split) <;> (try simp only) <;> omega
        · (try simp only); omega

/-- the proposal after a success enlarges the step by at most the factor 10 -/
theorem select_growth (absh : ℚ) (hp : 0 < absh) (k : Nat) (p : Temps ℚ) (hc : E.c10 = 10) (hc1 : E.c01 = 1 / 10) :
    (E.select absh k p).1 ≤ 10 * absh := by
  have hdiv : ∀ a b : ℚ, E.O.div a b = a / b := by intro a b; rw [H.hO]; rfl
  have hfrom : ∀ temp : ℚ, E.hFrom absh temp ≤ 10 * absh := by
    intro temp
    unfold OdeEnv.hFrom
    rw [H.lt_iff, hc, hc1, H.mul_eq, hdiv]
    split
    · rename_i h
      have ht : (1 : ℚ) / 10 < temp := by simpa using h
      have htp : 0 < temp := by linarith
      rw [div_le_iff₀ htp]
      nlinarith
    · exact le_refl _
  have hraw : (E.selectRaw absh k p).1 ≤ 10 * absh := by
    unfold OdeEnv.selectRaw
    cases p.tempm1 <;> cases p.tempp1 <;> (try simp only) <;> (repeat' split) <;> (try simp only) <;> exact hfrom _
  unfold OdeEnv.select
  split
  · exact hraw
  · (try simp only); linarith

end OdeHyp
end Solverz
