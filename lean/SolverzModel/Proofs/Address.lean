/-
  Proofs/Address.lean — helper lemmas about the Address model.
-/
import SolverzModel.Core.Address
namespace Solverz
namespace Address

theorem start_zero (a : Address) : a.start 0 = 0 := by simp [start]

theorem sum_take_succ (l : List Nat) (i : Nat) (h : i < l.length) :
    (l.take (i+1)).sum = (l.take i).sum + l[i] := by
  induction l generalizing i with
  | nil => simp at h
  | cons x xs ih =>
    cases i with
    | zero => simp
    | succ k =>
      simp only [List.take_succ_cons, List.sum_cons, List.getElem_cons_succ]
      rw [ih k (by simpa using h)]
      omega

theorem start_succ (a : Address) (i : Nat) (h : i < a.lens.length) :
    a.start (i+1) = a.start i + a.lens.getD i 0 := by
  unfold start
  rw [sum_take_succ _ _ h]
  simp [List.getD, h]

theorem start_length (a : Address) : a.start a.lens.length = a.total := by
  simp [start, total]

theorem start_mono (a : Address) {i j : Nat} (h : i ≤ j) : a.start i ≤ a.start j := by
  unfold start
  obtain ⟨k, rfl⟩ := Nat.exists_eq_add_of_le h
  rw [← List.take_append_drop i (a.lens.take (i + k))]
  simp [List.take_take, List.sum_append, Nat.min_eq_left]

theorem start_le_total (a : Address) (i : Nat) : a.start i ≤ a.total := by
  by_cases h : i ≤ a.lens.length
  · rw [← start_length]; exact start_mono a h
  · unfold start total
    rw [List.take_of_length_le (by omega)]
    exact Nat.le_refl _

/-- for distinct names the i-th name is found at index i -/
theorem idx_of_nodup (a : Address) (hn : a.names.Nodup) (i : Nat) (hi : i < a.names.length) :
    a.idx? a.names[i] = some i := by
  unfold idx?
  have : a.names.idxOf a.names[i] = i := hn.idxOf_getElem i hi
  simp [this, hi]

theorem range_of_nodup (a : Address) (hn : a.names.Nodup) (i : Nat) (hi : i < a.names.length) :
    a.range? a.names[i] = some (a.start i, a.lens.getD i 0) := by
  simp [range?, idx_of_nodup a hn i hi]

theorem idx_lt (a : Address) (n : String) (i : Nat) (h : a.idx? n = some i) : i < a.names.length := by
  unfold idx? at h
  simp only at h
  split at h
  · cases h; assumption
  · cases h

theorem idx_getElem (a : Address) (n : String) (i : Nat) (h : a.idx? n = some i) :
    a.names[i]'(idx_lt a n i h) = n := by
  have hi := idx_lt a n i h
  unfold idx? at h
  simp only at h
  split at h
  · cases h; exact List.getElem_idxOf _
  · cases h

end Address
end Solverz
