import SolverzModel.Core.Ctl.Newton
namespace Solverz

/-- invariant of the Newton loop: the cached residual is the residual of the current iterate -/
theorem nrLoop_df_eq {S α} (O : Ord α) (res : S → Option α) (step : S → S) (tol : α) (maxIt fuel : Nat)
    (s : NrState S α) (h : s.df = res s.y) : (nrLoop O res step tol maxIt fuel s).df = res (nrLoop O res step tol maxIt fuel s).y := by
  induction fuel generalizing s with
  | zero => simpa [nrLoop] using h
  | succ n ih =>
    unfold nrLoop
    split
    · split
      · exact h
      · exact ih _ rfl
    · exact h


end Solverz
