/-
  Proofs/FixedStep.lean — the fixed-step grid loop over exact rationals.
-/
import SolverzModel.Core.Ctl.FixedStep
import Mathlib.Tactic.Linarith
import Mathlib.Tactic.Positivity
import Mathlib.Tactic.FieldSimp
import Mathlib.Tactic.Ring
import Mathlib.Tactic.Push
import Mathlib.Data.Rat.Floor
import Mathlib.Algebra.Order.Floor.Ring
namespace Solverz

/-- the loop guard over ℚ for a positive step -/
abbrev guardQ (tend dt tt : ℚ) : Prop := dt / 10 < tend - tt

theorem gridLoop_unfold (tend dt : ℚ) (hdt : 0 < dt) (fuel : Nat) (tt : ℚ) :
    gridLoop ratO tend dt (fuel + 1) tt =
      if guardQ tend dt tt then (tt + dt) :: gridLoop ratO tend dt fuel (tt + dt) else [] := by
  have habs : ratO.abs dt = dt := by simp [ratO, not_lt.mpr hdt.le]
  have h10 : ratO.ofNat 10 = (10 : ℚ) := by simp [ratO, ratFld]
  simp only [gridLoop, habs, h10]
  simp only [ratO, ratFld, guardQ, decide_eq_true_eq]

/-- the grid after `tt` is `tt + dt, tt + 2dt, …, tt + n·dt`, the guard held at `tt + k·dt` for
every `k < n`, and if fuel remained the guard fails at `tt + n·dt` -/
theorem gridLoop_spec (tend dt : ℚ) (hdt : 0 < dt) (fuel : Nat) (tt : ℚ) :
    ∃ n, n ≤ fuel ∧ gridLoop ratO tend dt fuel tt = (List.range n).map (fun (k : ℕ) => tt + ((k : ℚ) + 1) * dt)
      ∧ (∀ k, k < n → guardQ tend dt (tt + (k : ℚ) * dt))
      ∧ (n < fuel → ¬ guardQ tend dt (tt + (n : ℚ) * dt)) := by
  induction fuel generalizing tt with
  | zero => exact ⟨0, le_refl _, by simp [gridLoop], by intro k hk; omega, by intro h; omega⟩
  | succ f ih =>
    rw [gridLoop_unfold tend dt hdt]
    by_cases hg : guardQ tend dt tt
    · obtain ⟨n, hn, hl, hgu, hex⟩ := ih (tt + dt)
      refine ⟨n + 1, by omega, ?_, ?_, ?_⟩
      · simp only [hg, if_true, hl, List.range_succ_eq_map, List.map_cons, List.map_map]
        congr 1
        · push_cast; ring
        · apply List.map_congr_left; intro k _; simp only [Function.comp]; push_cast; ring
      · intro k hk
        cases k with
        | zero => simpa using hg
        | succ k =>
          have := hgu k (by omega)
          have e : tt + ((k + 1 : ℕ) : ℚ) * dt = tt + dt + (k : ℚ) * dt := by push_cast; ring
          rw [e]; exact this
      · intro hlt
        have := hex (by omega)
        have e : tt + ((n + 1 : ℕ) : ℚ) * dt = tt + dt + (n : ℚ) * dt := by push_cast; ring
        rw [e]; exact this
    · exact ⟨0, by omega, by simp [hg], by intro k hk; omega, by intro _; simpa using hg⟩

/-- number of steps: `n ≤ ⌊(tend - t0)/dt⌋ + 1` -/
theorem steps_le_floor (t0 tend dt : ℚ) (hdt : 0 < dt) (hspan : t0 ≤ tend) (n : Nat)
    (hg : ∀ k, k < n → guardQ tend dt (t0 + (k : ℚ) * dt)) :
    (n : ℤ) ≤ ⌊(tend - t0) / dt⌋ + 1 := by
  have hq0 : 0 ≤ (tend - t0) / dt := div_nonneg (by linarith) hdt.le
  have hf0 : 0 ≤ ⌊(tend - t0) / dt⌋ := Int.floor_nonneg.mpr hq0
  cases n with
  | zero => simp only [Nat.cast_zero]; omega
  | succ m =>
    have h := hg m (by omega)
    have hq : (m : ℚ) + 1 / 10 < (tend - t0) / dt := by
      rw [lt_div_iff₀ hdt]; linarith
    have h1 : (tend - t0) / dt < ⌊(tend - t0) / dt⌋ + 1 := Int.lt_floor_add_one _
    have h2 : (m : ℚ) < (⌊(tend - t0) / dt⌋ : ℚ) + 1 := by linarith
    have h3 : (m : ℤ) < ⌊(tend - t0) / dt⌋ + 1 := by exact_mod_cast h2
    push_cast; omega

end Solverz
